(** Proofs for Par.v (C04). Self-contained: only the model files and the heap proofs. *)
From incr Require Import Base Heap HeapSpec HeapProofs EngineDefs Engine Par.

(** * A. Small tools *)
Lemma state_eta (s : state) :
  s = mkState (nodes s) (binds s) (next s) (reg s) (obs s) (heap s) (adj s) (invq s) (stabNum s)
              (status s) (numNodes s) (setDuring s) (setRemoved s) (handlers s) (maxHeight s) (log s).
Proof. destruct s; reflexivity. Qed.

Lemma state_ext (s t : state) :
  nodes s = nodes t -> binds s = binds t -> next s = next t -> reg s = reg t -> obs s = obs t ->
  heap s = heap t -> adj s = adj t -> invq s = invq t -> stabNum s = stabNum t -> status s = status t ->
  numNodes s = numNodes t -> setDuring s = setDuring t -> setRemoved s = setRemoved t ->
  handlers s = handlers t -> maxHeight s = maxHeight t -> log s = log t -> s = t.
Proof. destruct s, t; cbn; intros; subst; reflexivity. Qed.

Definition has (s : state) (n : nid) : Prop := is_Some (nodes s !! n).

Lemma nd_alter (mp : gmap nid node) f n m :
  default dummy (alter f n mp !! m) =
  if decide (m = n) then match mp !! n with Some x => f x | None => dummy end else default dummy (mp !! m).
Proof.
  destruct (decide (m = n)) as [->|Hne].
  - rewrite lookup_alter. destruct (mp !! n); reflexivity.
  - rewrite lookup_alter_ne by congruence. reflexivity.
Qed.

Lemma nd_upd_ne s n f m : m <> n -> nd (upd s n f) m = nd s m.
Proof. intros H. unfold nd, upd; cbn. rewrite nd_alter, decide_False by exact H. reflexivity. Qed.

Lemma nd_upd_eq s n f : has s n -> nd (upd s n f) n = f (nd s n).
Proof. intros [x E]. unfold nd, upd; cbn. rewrite nd_alter, decide_True by reflexivity. rewrite E. reflexivity. Qed.

Lemma nd_upd_proj {A} (g : node -> A) s n f m :
  (forall x, g (f x) = g x) -> g (nd (upd s n f) m) = g (nd s m).
Proof.
  intros Hg. unfold nd, upd; cbn. rewrite nd_alter. destruct (decide (m = n)) as [->|]; [|reflexivity].
  destruct (nodes s !! n); simpl; [apply Hg|reflexivity].
Qed.

(** * B. The heap up to the order inside buckets *)
Lemma heap_sim_refl w : heap_sim w w.
Proof. constructor; reflexivity. Qed.

Lemma heap_sim_sym w v : heap_sim w v -> heap_sim v w.
Proof.
  intros [H1 H2 H3 H4 H5]. constructor; try congruence.
  apply Forall2_flip. eapply Forall2_impl; [exact H5|]. intros x y Hp. symmetry. exact Hp.
Qed.

Lemma heap_sim_trans w v u : heap_sim w v -> heap_sim v u -> heap_sim w u.
Proof.
  intros [H1 H2 H3 H4 H5] [G1 G2 G3 G4 G5]. constructor; try congruence.
  eapply Forall2_transitive; [|exact H5|exact G5]. intros x y z. apply Permutation_trans.
Qed.

Lemma heap_sim_len w v : heap_sim w v -> length (Heap.buckets w) = length (Heap.buckets v).
Proof. intros H. eapply Forall2_length, hs_buckets, H. Qed.

Lemma heap_sim_bucket w v k : heap_sim w v -> Heap.bucket w k ≡ₚ Heap.bucket v k.
Proof.
  intros H. unfold Heap.bucket. pose proof (proj1 (Forall2_lookup _ _ _) (hs_buckets _ _ H) k) as Hk.
  inversion Hk; simpl; auto.
Qed.

Lemma heap_sim_intro w v :
  Heap.hin w = Heap.hin v -> Heap.minH w = Heap.minH v -> Heap.maxH w = Heap.maxH v ->
  Heap.cnt w = Heap.cnt v -> length (Heap.buckets w) = length (Heap.buckets v) ->
  (forall k, Heap.bucket w k ≡ₚ Heap.bucket v k) -> heap_sim w v.
Proof.
  intros H1 H2 H3 H4 H5 H6. constructor; auto.
  apply Forall2_same_length_lookup_2; [exact H5|]. intros i x y Hx Hy.
  specialize (H6 i). unfold Heap.bucket in H6. rewrite Hx, Hy in H6. exact H6.
Qed.

Lemma heap_sim_mem w v n : heap_sim w v -> Heap.mem w n = Heap.mem v n.
Proof. intros H. unfold Heap.mem, Heap.hinOf. rewrite (hs_hin _ _ H). reflexivity. Qed.

(** the fields of [Heap.add] *)
Lemma add_fields w n h w' : 0 <= h -> Heap.add w n h = Ok w' ->
  Heap.hin w' = <[n := h]> (Heap.hin w) /\ Heap.cnt w' = Heap.cnt w + 1 /\
  Heap.minH w' = (if Heap.cnt w =? 0 then h else Z.min (Heap.minH w) h) /\
  Heap.maxH w' = (if Heap.cnt w =? 0 then h else Z.max (Heap.maxH w) h) /\
  length (Heap.buckets w') = Nat.max (length (Heap.buckets w)) (S (Z.to_nat h)) /\
  forall k, Heap.bucket w' k = if decide (k = Z.to_nat h) then Heap.bucket w k ++ [n] else Heap.bucket w k.
Proof.
  intros Hh H. unfold Heap.add in H. destruct (Z.ltb_spec h 0) as [|_]; [lia|].
  set (hn := Z.to_nat h) in *. set (g := Heap.grow (Heap.buckets w) hn) in *.
  destruct (grow_length (Heap.buckets w) hn) as [Hg1 Hg2]. fold g in Hg1, Hg2.
  destruct (Heap.cnt w =? 0) eqn:E0; injection H as <-; cbn [Heap.hin Heap.cnt Heap.minH Heap.maxH Heap.buckets].
  all: (split; [reflexivity|]; split; [reflexivity|]; split; [reflexivity|]; split; [reflexivity|]).
  all: split;
    [ rewrite insert_length; unfold g, Heap.grow;
      destruct (Nat.leb_spec (length (Heap.buckets w)) hn); [rewrite app_length, replicate_length|]; lia
    | intros k; unfold Heap.bucket; cbn [Heap.buckets];
      change (bk (<[hn:=default [] (g !! hn) ++ [n]]> g) k = if decide (k = hn) then bk (Heap.buckets w) k ++ [n] else bk (Heap.buckets w) k);
      rewrite (bk_insert _ _ _ _ Hg1); unfold g at 2; rewrite bk_grow;
      destruct (decide (k = hn)) as [->|]; [|reflexivity];
      change (default [] (g !! hn)) with (bk g hn); unfold g; rewrite bk_grow; reflexivity ].
Qed.

Lemma add_sim w v n h w' : heap_sim w v -> 0 <= h -> Heap.add w n h = Ok w' ->
  exists v', Heap.add v n h = Ok v' /\ heap_sim w' v'.
Proof.
  intros Hs Hh Hw. destruct (add_ok v n h Hh) as [v' Hv]. exists v'. split; [exact Hv|].
  destruct (add_fields _ _ _ _ Hh Hw) as (A1 & A2 & A3 & A4 & A5 & A6).
  destruct (add_fields _ _ _ _ Hh Hv) as (B1 & B2 & B3 & B4 & B5 & B6).
  destruct Hs as [S1 S2 S3 S4 S5]. pose proof (Forall2_length _ _ _ S5) as SL.
  apply heap_sim_intro.
  - rewrite A1, B1, S1. reflexivity.
  - rewrite A3, B3, S2, S4. reflexivity.
  - rewrite A4, B4, S3, S4. reflexivity.
  - rewrite A2, B2, S4. reflexivity.
  - rewrite A5, B5, SL. reflexivity.
  - intros k. rewrite A6, B6.
    assert (Heap.bucket w k ≡ₚ Heap.bucket v k) as Hk
      by (apply heap_sim_bucket; constructor; assumption).
    destruct (decide _); [rewrite Hk|]; auto.
Qed.

Lemma add_comm w c d hc hd w1 w12 : c <> d -> 0 <= Heap.cnt w -> 0 <= hc -> 0 <= hd ->
  Heap.add w c hc = Ok w1 -> Heap.add w1 d hd = Ok w12 ->
  exists w2 w21, Heap.add w d hd = Ok w2 /\ Heap.add w2 c hc = Ok w21 /\ heap_sim w12 w21.
Proof.
  intros Hne Hc Hhc Hhd H1 H12.
  destruct (add_ok w d hd Hhd) as [w2 H2]. destruct (add_ok w2 c hc Hhc) as [w21 H21].
  exists w2, w21. split; [exact H2|]. split; [exact H21|].
  destruct (add_fields _ _ _ _ Hhc H1) as (A1 & A2 & A3 & A4 & A5 & A6).
  destruct (add_fields _ _ _ _ Hhd H12) as (B1 & B2 & B3 & B4 & B5 & B6).
  destruct (add_fields _ _ _ _ Hhd H2) as (C1 & C2 & C3 & C4 & C5 & C6).
  destruct (add_fields _ _ _ _ Hhc H21) as (D1 & D2 & D3 & D4 & D5 & D6).
  apply heap_sim_intro.
  - rewrite B1, A1, D1, C1. apply insert_commute. congruence.
  - rewrite B3, A3, A2, D3, C3, C2.
    destruct (Z.eqb_spec (Heap.cnt w) 0), (Z.eqb_spec (Heap.cnt w + 1) 0); lia.
  - rewrite B4, A4, A2, D4, C4, C2.
    destruct (Z.eqb_spec (Heap.cnt w) 0), (Z.eqb_spec (Heap.cnt w + 1) 0); lia.
  - lia.
  - rewrite B5, A5, D5, C5. lia.
  - intros k. rewrite B6, A6, D6, C6.
    destruct (decide (k = Z.to_nat hd)), (decide (k = Z.to_nat hc)); try reflexivity.
    rewrite <- !app_assoc. apply Permutation_app_head. apply perm_swap.
Qed.

Lemma add_mem_other w c h w' d : 0 <= h -> Heap.add w c h = Ok w' -> d <> c -> Heap.mem w' d = Heap.mem w d.
Proof.
  intros Hh H Hne. destruct (add_fields _ _ _ _ Hh H) as (A1 & _).
  unfold Heap.mem, Heap.hinOf. rewrite A1, lookup_insert_ne by congruence. reflexivity.
Qed.

Lemma add_mem_self w c h w' : 0 <= h -> Heap.add w c h = Ok w' -> Heap.mem w' c = true.
Proof.
  intros Hh H. destruct (add_fields _ _ _ _ Hh H) as (A1 & _).
  unfold Heap.mem, Heap.hinOf. rewrite A1, lookup_insert. simpl. apply bool_decide_eq_true. unfold unset. lia.
Qed.

Lemma add_cnt w c h w' : 0 <= h -> Heap.add w c h = Ok w' -> Heap.cnt w' = Heap.cnt w + 1.
Proof. intros Hh H. destruct (add_fields _ _ _ _ Hh H) as (_ & A2 & _). exact A2. Qed.

Lemma ainp_sim w v n h w' : heap_sim w v -> 0 <= h -> Heap.addIfNotPresent w n h = Ok w' ->
  exists v', Heap.addIfNotPresent v n h = Ok v' /\ heap_sim w' v'.
Proof.
  intros Hs Hh. unfold Heap.addIfNotPresent. rewrite <- (heap_sim_mem _ _ n Hs).
  destruct (Heap.mem w n).
  - intros [= <-]. eauto.
  - apply add_sim; assumption.
Qed.

Lemma ainp_cnt w n h w' : 0 <= h -> 0 <= Heap.cnt w -> Heap.addIfNotPresent w n h = Ok w' -> 0 <= Heap.cnt w'.
Proof.
  intros Hh Hc. unfold Heap.addIfNotPresent. destruct (Heap.mem w n).
  - intros [= <-]. exact Hc.
  - intros H. rewrite (add_cnt _ _ _ _ Hh H). lia.
Qed.

Lemma ainp_total w n h : 0 <= h -> exists w', Heap.addIfNotPresent w n h = Ok w'.
Proof. intros Hh. unfold Heap.addIfNotPresent. destruct (Heap.mem w n); [eauto|apply add_ok, Hh]. Qed.

Lemma ainp_comm w c d hc hd w1 w12 : c <> d -> 0 <= Heap.cnt w -> 0 <= hc -> 0 <= hd ->
  Heap.addIfNotPresent w c hc = Ok w1 -> Heap.addIfNotPresent w1 d hd = Ok w12 ->
  exists w2 w21, Heap.addIfNotPresent w d hd = Ok w2 /\ Heap.addIfNotPresent w2 c hc = Ok w21 /\ heap_sim w12 w21.
Proof.
  intros Hne Hc Hhc Hhd. unfold Heap.addIfNotPresent.
  destruct (Heap.mem w c) eqn:Ec.
  - intros [= <-]. destruct (Heap.mem w d) eqn:Ed.
    + intros [= <-]. exists w, w. rewrite Ec. (split; [|split]; auto using heap_sim_refl).
    + intros H. exists w12, w12. rewrite (add_mem_other _ _ _ _ c Hhd H) by congruence. rewrite Ec.
      (split; [|split]; auto using heap_sim_refl).
  - intros H1. rewrite (add_mem_other _ _ _ _ d Hhc H1) by congruence.
    destruct (Heap.mem w d) eqn:Ed.
    + intros [= <-]. exists w, w1. rewrite Ec. (split; [|split]; auto using heap_sim_refl).
    + intros H12. destruct (add_comm _ _ _ _ _ _ _ Hne Hc Hhc Hhd H1 H12) as (w2 & w21 & G1 & G2 & G3).
      exists w2, w21. rewrite (add_mem_other _ _ _ _ c Hhd G1) by congruence. rewrite Ec. auto.
Qed.

Lemma addAll_cons hf c l w : addAll hf (c :: l) w = (w' <-! Heap.addIfNotPresent w c (hf c); addAll hf l w').
Proof. reflexivity. Qed.

Lemma addAll_app hf l1 l2 w : addAll hf (l1 ++ l2) w = (w' <-! addAll hf l1 w; addAll hf l2 w').
Proof. apply rfold_app. Qed.

Lemma addAll_cnt hf l : forall w w', (forall c, c ∈ l -> 0 <= hf c) -> 0 <= Heap.cnt w ->
  addAll hf l w = Ok w' -> 0 <= Heap.cnt w'.
Proof.
  induction l as [|c l IH]; intros w w' Hh Hc H.
  - injection H as <-. exact Hc.
  - rewrite addAll_cons in H. apply rbind_ok in H as (w1 & H1 & H2).
    eapply IH; [| |exact H2].
    + intros; apply Hh; right; assumption.
    + eapply ainp_cnt; [| exact Hc | exact H1]. apply Hh; left.
Qed.

Lemma addAll_total hf l : forall w, (forall c, c ∈ l -> 0 <= hf c) -> exists w', addAll hf l w = Ok w'.
Proof.
  induction l as [|c l IH]; intros w Hh; [eexists; reflexivity|].
  rewrite addAll_cons. destruct (ainp_total w c (hf c)) as [w1 H1]; [apply Hh; left|].
  rewrite H1. simpl. apply IH. intros; apply Hh; right; assumption.
Qed.

Lemma addAll_ext hf hf' l w : (forall c, c ∈ l -> hf c = hf' c) -> addAll hf l w = addAll hf' l w.
Proof.
  revert w. induction l as [|c l IH]; intros w H; [reflexivity|].
  rewrite !addAll_cons. rewrite (H c) by left. destruct (Heap.addIfNotPresent _ _ _); simpl; auto.
  apply IH. intros; apply H; right; assumption.
Qed.

(** the order in which nodes are queued does not matter, up to the order inside buckets *)
Lemma addAll_perm hf l l' : l ≡ₚ l' -> forall w v w1,
  (forall c, c ∈ l -> 0 <= hf c) -> 0 <= Heap.cnt w -> heap_sim w v ->
  addAll hf l w = Ok w1 -> exists v1, addAll hf l' v = Ok v1 /\ heap_sim w1 v1.
Proof.
  induction 1 as [|x l l' Hp IH|x y l|l l' l'' Hp1 IH1 Hp2 IH2]; intros w v w1 Hh Hc Hs H.
  - injection H as <-. exists v. split; [reflexivity|exact Hs].
  - rewrite addAll_cons in H. apply rbind_ok in H as (w0 & H0 & H1).
    destruct (ainp_sim _ _ _ _ _ Hs (Hh x ltac:(left)) H0) as (v0 & G0 & S0).
    rewrite addAll_cons, G0. simpl. eapply IH; [| |exact S0|exact H1].
    + intros; apply Hh; right; assumption.
    + eapply ainp_cnt; [|exact Hc|exact H0]. apply Hh; left.
  - rewrite !addAll_cons in H. apply rbind_ok in H as (w0 & H0 & H). rewrite addAll_cons in H.
    apply rbind_ok in H as (w01 & H01 & H1).
    assert (Hhx : 0 <= hf x) by (apply Hh; right; left).
    assert (Hhy : 0 <= hf y) by (apply Hh; left).
    assert (Hrest : forall u, heap_sim w01 u -> exists v1, addAll hf l u = Ok v1 /\ heap_sim w1 v1).
    { intros u Su.
      assert (Hl : forall c, c ∈ l -> 0 <= hf c) by (intros; apply Hh; right; right; assumption).
      assert (Hc01 : 0 <= Heap.cnt w01).
      { eapply ainp_cnt; [exact Hhx| |exact H01]. eapply ainp_cnt; [exact Hhy|exact Hc|exact H0]. }
      clear -Hl Hc01 Su H1. revert w01 u w1 Hc01 Su H1.
      induction l as [|c l IHl]; intros w01 u w1 Hc01 Su H1.
      - injection H1 as <-. exists u. split; [reflexivity|exact Su].
      - rewrite addAll_cons in H1. apply rbind_ok in H1 as (wa & Ha & Hb).
        destruct (ainp_sim _ _ _ _ _ Su (Hl c ltac:(left)) Ha) as (ua & Ga & Sa).
        rewrite addAll_cons, Ga. simpl. eapply IHl; [| |exact Sa|exact Hb].
        + intros; apply Hl; right; assumption.
        + eapply ainp_cnt; [|exact Hc01|exact Ha]. apply Hl; left. }
    destruct (decide (y = x)) as [->|Hne].
    + (* the same node twice: the same sequence *)
      destruct (ainp_sim _ _ _ _ _ Hs Hhx H0) as (v0 & G0 & S0).
      assert (Hc0 : 0 <= Heap.cnt w0) by (eapply ainp_cnt; [exact Hhx|exact Hc|exact H0]).
      destruct (ainp_sim _ _ _ _ _ S0 Hhx H01) as (v01 & G01 & S01).
      rewrite !addAll_cons, G0. simpl. rewrite addAll_cons, G01. simpl. apply (Hrest v01 S01).
    + destruct (ainp_comm _ _ _ _ _ _ _ Hne Hc Hhy Hhx H0 H01) as (w2 & w21 & G1 & G2 & G3).
      destruct (ainp_sim _ _ _ _ _ Hs Hhx G1) as (v2 & F1 & T1).
      destruct (ainp_sim _ _ _ _ _ T1 Hhy G2) as (v21 & F2 & T2).
      rewrite !addAll_cons, F1. simpl. rewrite addAll_cons, F2. simpl.
      apply (Hrest v21). eapply heap_sim_trans; [exact G3|exact T2].
  - destruct (IH1 w w w1 Hh Hc (heap_sim_refl w) H) as (u1 & U1 & SU1).
    assert (Hh' : forall c, c ∈ l' -> 0 <= hf c) by (intros c Hin; apply Hh; rewrite Hp1; exact Hin).
    destruct (IH2 w v u1 Hh' Hc Hs U1) as (v1 & V1 & SV1).
    exists v1. split; [exact V1|]. eapply heap_sim_trans; eassumption.
Qed.

(** * C. recomputeNodeParallel on a non-lhs node under a quiet plan *)

Lemma valueOf_vsrc_ fuel s n :
  valueOf_ fuel s n = match vsrc_ fuel s n with Some m => value (nd s m) | None => 0 end.
Proof.
  revert n. induction fuel as [|fuel IH]; intros n; [reflexivity|]. cbn [valueOf_ vsrc_].
  destruct (nkind (nd s n)); try reflexivity. destruct (decl (nd s n)); [reflexivity|apply IH].
Qed.

Lemma valueOf_vsrc s n : valueOf s n = match vsrc s n with Some m => value (nd s m) | None => 0 end.
Proof. apply valueOf_vsrc_. Qed.

(** two states whose nodes have the same kinds and declared inputs *)
Definition same_shape (s t : state) : Prop :=
  forall m, nkind (nd t m) = nkind (nd s m) /\ decl (nd t m) = decl (nd s m).

Lemma vsrc_shape_ fuel s t n : same_shape s t -> vsrc_ fuel t n = vsrc_ fuel s n.
Proof.
  intros H. revert n. induction fuel as [|fuel IH]; intros n; [reflexivity|]. cbn [vsrc_].
  destruct (H n) as [-> ->]. destruct (nkind (nd s n)); try reflexivity.
  destruct (decl (nd s n)); [reflexivity|apply IH].
Qed.

Lemma vsrc_shape s t n : same_shape s t -> vsrc t n = vsrc s n.
Proof. apply vsrc_shape_. Qed.

Lemma valueOf_shape s t n : same_shape s t ->
  (forall m, vsrc s n = Some m -> value (nd t m) = value (nd s m)) -> valueOf t n = valueOf s n.
Proof.
  intros H Hv. rewrite !valueOf_vsrc, (vsrc_shape s t n H). destruct (vsrc s n) as [m|]; [|reflexivity].
  apply Hv. reflexivity.
Qed.

(* updates that leave kind, inputs and value alone do not change Value() *)
Lemma valueOf_upd_irrel s n f a :
  (forall x, nkind (f x) = nkind x) -> (forall x, decl (f x) = decl x) -> (forall x, value (f x) = value x) ->
  valueOf (upd s n f) a = valueOf s a.
Proof.
  intros H1 H2 H3. apply valueOf_shape.
  - intros m. split; [apply (nd_upd_proj nkind), H1|apply (nd_upd_proj decl), H2].
  - intros m _. apply (nd_upd_proj value), H3.
Qed.

Lemma valueOf_emit e s a : valueOf (emit e s) a = valueOf s a.
Proof. apply valueOf_shape; [intros m; split; reflexivity|reflexivity]. Qed.

(** ** the pieces *)
Lemma invoke_quiet p s n w : actions_of p n w = [] -> invoke p s n w = Ok (s, None).
Proof. intros H. unfold invoke. rewrite H. reflexivity. Qed.

Lemma shouldRecomputeChild_wantPush s c :
  shouldRecomputeChild s c = negb (inHeap s c) && wantPush s c.
Proof. unfold shouldRecomputeChild, wantPush. destruct (inHeap s c); reflexivity. Qed.

Lemma wantPush_heap s w c : wantPush (s <| heap := w |>) c = wantPush s c.
Proof. reflexivity. Qed.

Lemma set_heap_heap (s : state) w w' : s <| heap := w |> <| heap := w' |> = s <| heap := w' |>.
Proof. destruct s; reflexivity. Qed.
Lemma set_heap_same (s : state) : s <| heap := heap s |> = s.
Proof. destruct s; reflexivity. Qed.

(* the locked children scan *)
Lemma push_char cs : forall t,
  rfold (fun s c => if shouldRecomputeChild s c then heapAdd s c else Ok s) cs t =
  (w <-! addAll (fun c => height (nd t c)) (filter (fun c => wantPush t c = true) cs) (heap t); Ok (t <| heap := w |>)).
Proof.
  induction cs as [|c cs IH]; intros t.
  - cbn. rewrite set_heap_same. reflexivity.
  - cbn [rfold]. rewrite shouldRecomputeChild_wantPush. rewrite filter_cons.
    destruct (wantPush t c) eqn:Ew.
    + rewrite decide_True by reflexivity. rewrite addAll_cons. unfold Heap.addIfNotPresent, inHeap.
      destruct (Heap.mem (heap t) c) eqn:Em; cbn [negb andb rbind].
      * apply IH.
      * unfold heapAdd. destruct (Heap.add (heap t) c (height (nd t c))) as [w| |]; cbn [rbind]; try reflexivity.
        rewrite IH. cbn. destruct (addAll _ _ w); cbn; reflexivity.
    + rewrite decide_False by discriminate. rewrite andb_false_r. cbn [rbind]. apply IH.
Qed.

Lemma observers_fold os : forall t,
  foldl (fun s o => insert_handler o s) t os = t <| handlers := foldl (fun l o => insert_sorted o l) (handlers t) os |>.
Proof.
  induction os as [|o os IH]; intros t; cbn [foldl].
  - destruct t; reflexivity.
  - rewrite IH. unfold insert_handler. destruct t; reflexivity.
Qed.

Lemma alter3 (mp : gmap nid node) n f g h k :
  (forall x, h (g (f x)) = k x) -> alter h n (alter g n (alter f n mp)) = alter k n mp.
Proof. intros H. rewrite <- !alter_compose. apply alter_ext. intros x _. apply H. Qed.

Lemma alter2 (mp : gmap nid node) n f g k :
  (forall x, g (f x) = k x) -> alter g n (alter f n mp) = alter k n mp.
Proof. intros H. rewrite <- !alter_compose. apply alter_ext. intros x _. apply H. Qed.

Lemma bind_addAll_eq {B} hf1 hf2 l1 l2 w0 (k1 k2 : Heap.t -> res B) :
  (forall c, hf1 c = hf2 c) -> l1 = l2 -> (forall w, k1 w = k2 w) ->
  (w <-! addAll hf1 l1 w0; k1 w) = (w <-! addAll hf2 l2 w0; k2 w).
Proof.
  intros H1 -> H3. rewrite (addAll_ext hf1 hf2) by (intros; apply H1).
  destruct (addAll hf2 l2 w0); cbn; auto.
Qed.

Lemma wantPush_ext t t' c : nodes t = nodes t' -> stabNum t = stabNum t' -> wantPush t c = wantPush t' c.
Proof.
  intros Hn Hs. unfold wantPush, isStale, staleWrtParents, nd. rewrite Hn, Hs. reflexivity.
Qed.

(* projections the local section does not change *)
Lemma localF_frame s n y :
  nkind (localF s n y) = nkind y /\ decl (localF s n y) = decl y /\ scope (localF s n y) = scope y /\
  height (localF s n y) = height y /\ parents (localF s n y) = parents y /\ children (localF s n y) = children y /\
  observers (localF s n y) = observers y /\ valid (localF s n y) = valid y /\ forceNec (localF s n y) = forceNec y /\
  inGraph (localF s n y) = inGraph y /\ pending (localF s n y) = pending y /\ setAt (localF s n y) = setAt y /\
  hAdj (localF s n y) = hAdj y.
Proof. unfold localF. destruct (cutv s n); [|destruct (newval s n)]; repeat split; reflexivity. Qed.

Lemma nd_afterLocal s n m :
  nd (afterLocal s n) m = if decide (m = n) then match nodes s !! n with Some x => localF s n x | None => dummy end else nd s m.
Proof. unfold nd, afterLocal; cbn. apply nd_alter. Qed.

Lemma nd_afterLocal_ne s n m : m <> n -> nd (afterLocal s n) m = nd s m.
Proof. intros H. rewrite nd_afterLocal, decide_False by exact H. reflexivity. Qed.

Lemma nd_afterLocal_eq s n : has s n -> nd (afterLocal s n) n = localF s n (nd s n).
Proof. intros [x E]. rewrite nd_afterLocal, decide_True by reflexivity. unfold nd. rewrite E. reflexivity. Qed.

Lemma afterLocal_proj {A} (g : node -> A) s n m :
  (forall y, g (localF s n y) = g y) -> g (nd (afterLocal s n) m) = g (nd s m).
Proof.
  intros Hg. rewrite nd_afterLocal. destruct (decide (m = n)) as [->|]; [|reflexivity].
  unfold nd. destruct (nodes s !! n); simpl; [apply Hg|reflexivity].
Qed.

Lemma rbind_ok_assoc {A B C} (m : res A) (f : A -> B) (k : B -> res C) :
  (x <-! (w <-! m; Ok (f w)); k x) = (w <-! m; k (f w)).
Proof. destruct m; reflexivity. Qed.

Lemma list_filter_ext' (P Q : nid -> Prop) `{forall x, Decision (P x)} `{forall x, Decision (Q x)} (l : list nid) :
  (forall x, P x <-> Q x) -> filter P l = filter Q l.
Proof. intros HPQ. apply list_filter_iff. exact HPQ. Qed.

Lemma rnp_finish s n s1 :
  cutv s n = false ->
  alter (set changedAt (fun _ => stabNum s1)) n (nodes s1) = alter (localF s n) n (nodes s) ->
  binds s1 = binds s -> next s1 = next s -> reg s1 = reg s -> obs s1 = obs s -> heap s1 = heap s ->
  adj s1 = adj s -> invq s1 = invq s -> stabNum s1 = stabNum s -> status s1 = status s ->
  numNodes s1 = numNodes s -> setDuring s1 = setDuring s -> setRemoved s1 = setRemoved s ->
  handlers s1 = handlers s -> maxHeight s1 = maxHeight s -> log s1 = localEvs s n ++ log s ->
  (s2 <-! rfold (fun s2 c => if shouldRecomputeChild s2 c then heapAdd s2 c else Ok s2)
            (children (nd (insert_handler n (upd s1 n (set changedAt (fun _ => stabNum s1)))) n))
            (insert_handler n (upd s1 n (set changedAt (fun _ => stabNum s1))));
   Ok (foldl (fun s3 o => insert_handler o s3) s2 (observers (nd s2 n)), @None err))
  = rnp_spec s n.
Proof.
  intros Hcut Hnodes Hb Hnx Hr Ho Hh Ha Hi Hst Hstat Hnn Hsd Hsr Hhd Hmx Hlog.
  set (s3 := insert_handler n (upd s1 n (set changedAt (fun _ => stabNum s1)))).
  assert (E3 : nodes s3 = nodes (afterLocal s n)) by exact Hnodes.
  assert (Hnd : forall m, nd s3 m = nd (afterLocal s n) m) by (intros m; unfold nd; rewrite E3; reflexivity).
  rewrite push_char. unfold rnp_spec.
  rewrite rbind_ok_assoc. change (heap s3) with (heap s1). rewrite Hh. apply bind_addAll_eq.
  - intros c. rewrite Hnd. apply (afterLocal_proj height). intros y. apply localF_frame.
  - unfold pushlist. rewrite Hcut. rewrite Hnd.
    rewrite (afterLocal_proj children) by (intros y; apply localF_frame).
    apply list_filter_ext'. intros c. rewrite (wantPush_ext s3 (afterLocal s n) c E3 Hst). reflexivity.
  - intros w. rewrite observers_fold. apply (f_equal (fun x : state => Ok (x, @None err))).
    apply state_ext; cbn; try assumption; try reflexivity.
    unfold newHandlers, hkeys. rewrite Hcut. cbn [foldl]. rewrite Hhd. f_equal.
      change (observers (nd s3 n) = observers (nd s n)). rewrite Hnd.
      apply (afterLocal_proj observers). intros y. apply localF_frame.
Qed.

Lemma rnp_char fuel p s n :
  has s n -> is_lhs (nkind (nd s n)) = false -> (forall w, actions_of p n w = []) ->
  recomputeNodeParallel fuel p s n = rnp_spec s n.
Proof.
  intros Hn Hk Hq.
  unfold recomputeNodeParallel.
  set (s0 := upd s n (set recomputedAt (fun _ => stabNum s))).
  assert (Hk0 : nkind (nd s0 n) = nkind (nd s n)) by (apply (nd_upd_proj nkind); reflexivity).
  assert (Hd0 : decl (nd s0 n) = decl (nd s n)) by (apply (nd_upd_proj decl); reflexivity).
  assert (Hp0 : pending (nd s0 n) = pending (nd s n)) by (apply (nd_upd_proj pending); reflexivity).
  assert (Hr0 : recomputedAt (nd s0 n) = stabNum s) by (unfold s0; rewrite nd_upd_eq by exact Hn; reflexivity).
  assert (Hv0 : forall a, valueOf s0 a = valueOf s a) by (intros a; apply valueOf_upd_irrel; reflexivity).
  assert (Hb0 : forall b, bd s0 b = bd s b) by reflexivity.
  destruct (nkind (nd s n)) eqn:Ek; try discriminate.
  all: rewrite ?(invoke_quiet _ _ _ _ (Hq WCut)); cbn [rbind].
  all: unfold stabilizeNode; rewrite ?Hk0.
  all: rewrite ?(invoke_quiet _ _ _ _ (Hq WFn)); unfold ok; cbn [rbind].
  all: rewrite ?Hd0, ?Hv0.
  - (* KVar *)
    assert (Hfin : (s2 <-! rfold (fun s2 c => if shouldRecomputeChild s2 c then heapAdd s2 c else Ok s2)
            (children (nd (insert_handler n (upd s0 n (set changedAt (fun _ => stabNum s0)))) n))
            (insert_handler n (upd s0 n (set changedAt (fun _ => stabNum s0))));
            Ok (foldl (fun s3 o => insert_handler o s3) s2 (observers (nd s2 n)), @None err)) = rnp_spec s n).
    2: { destruct (pending (nd s0 n)); [rewrite Hr0; change (stabNum s0) with (stabNum s); rewrite Z.eqb_refl|];
         unfold ok; cbn [rbind]; exact Hfin. }
    cbn [rbind]. apply rnp_finish; try reflexivity.
    + unfold cutv. rewrite Ek. reflexivity.
    + cbn. apply alter2. intros x. unfold localF, cutv, newval. rewrite Ek. reflexivity.
    + unfold localEvs. rewrite Ek. reflexivity.
  - (* KReturn *)
    apply rnp_finish; try reflexivity.
    + unfold cutv. rewrite Ek. reflexivity.
    + cbn. apply alter2. intros x. unfold localF, cutv, newval. rewrite Ek. reflexivity.
    + unfold localEvs. rewrite Ek. reflexivity.
  - (* KMap *)
    apply rnp_finish; try reflexivity.
    + unfold cutv. rewrite Ek. reflexivity.
    + cbn. apply alter3. intros x. unfold localF, cutv, newval. rewrite Ek. reflexivity.
    + unfold localEvs. rewrite Ek. reflexivity.
  - apply rnp_finish; try reflexivity.
    + unfold cutv. rewrite Ek. reflexivity.
    + cbn. apply alter3. intros x. unfold localF, cutv, newval. rewrite Ek. reflexivity.
    + unfold localEvs. rewrite Ek. reflexivity.
  - apply rnp_finish; try reflexivity.
    + unfold cutv. rewrite Ek. reflexivity.
    + cbn. apply alter3. intros x. unfold localF, cutv, newval. rewrite Ek.
      rewrite (map_ext _ _ Hv0). reflexivity.
    + unfold localEvs. rewrite Ek. rewrite (map_ext _ _ Hv0). reflexivity.
  - (* KCutoff *)
    set (ev := EvCutoff n _ _ _).
    destruct (apCut c (value (nd s n)) (valueOf s (hd 0%nat (decl (nd s n))))) eqn:Ecut.
    + assert (Hcut : cutv s n = true) by (unfold cutv; rewrite Ek; exact Ecut).
      unfold rnp_spec, pushlist, newHandlers, hkeys. rewrite Hcut. cbn [addAll rfold rbind foldl].
      apply (f_equal (fun x : state => Ok (x, @None err))).
      apply state_ext; try reflexivity.
      * cbn. apply alter_ext. intros x _. unfold localF. rewrite Hcut. reflexivity.
      * cbn. unfold localEvs. rewrite Ek. unfold ev. rewrite Ecut. reflexivity.
    + assert (Hcut : cutv s n = false) by (unfold cutv; rewrite Ek; exact Ecut).
      change (nd (emit ev s0) n) with (nd s0 n). rewrite Hk0. rewrite valueOf_emit, Hd0, Hv0.
      cbn [rbind]. apply rnp_finish; try reflexivity.
      * exact Hcut.
      * cbn. apply alter3. intros x. unfold localF, newval. rewrite Hcut, Ek. reflexivity.
      * cbn. unfold localEvs. rewrite Ek. unfold ev. rewrite Ecut. reflexivity.
  - (* KAlways *)
    apply rnp_finish; try reflexivity.
    + unfold cutv. rewrite Ek. reflexivity.
    + cbn. apply alter2. intros x. unfold localF, cutv, newval. rewrite Ek. reflexivity.
    + unfold localEvs. rewrite Ek. reflexivity.
  - (* KBindMain *)
    apply rnp_finish; try reflexivity.
    + unfold cutv. rewrite Ek. reflexivity.
    + apply alter3. intros x. unfold localF, cutv, newval. rewrite Ek. change (bd s0 b) with (bd s b).
      destruct (b_rhs (bd s b)); rewrite ?Hv0; reflexivity.
    + unfold localEvs. rewrite Ek. reflexivity.
Qed.

(** * D. The equivalence *)
Lemma sim_refl s : s ≈ s.
Proof. constructor; try reflexivity. apply heap_sim_refl. Qed.

Lemma sim_sym s t : s ≈ t -> t ≈ s.
Proof. intros []. constructor; try (symmetry; assumption). apply heap_sim_sym; assumption. Qed.

Lemma sim_trans s t u : s ≈ t -> t ≈ u -> s ≈ u.
Proof.
  intros [] []. constructor; try (etransitivity; eassumption). eapply heap_sim_trans; eassumption.
Qed.

Lemma nd_ext t t' m : nodes t = nodes t' -> nd t m = nd t' m.
Proof. unfold nd. intros ->. reflexivity. Qed.

Lemma bd_ext t t' b : binds t = binds t' -> bd t b = bd t' b.
Proof. unfold bd. intros ->. reflexivity. Qed.

Lemma valueOf_ext t t' a : nodes t = nodes t' -> valueOf t a = valueOf t' a.
Proof.
  intros H. symmetry. apply valueOf_shape.
  - intros m. rewrite (nd_ext t t' m H). split; reflexivity.
  - intros m _. rewrite (nd_ext t t' m H). reflexivity.
Qed.

Section core_ext.
  Context (t t' : state) (Hn : nodes t = nodes t') (Hb : binds t = binds t') (Hs : stabNum t = stabNum t').

  Lemma cutv_ext n : cutv t n = cutv t' n.
  Proof. unfold cutv. rewrite (nd_ext t t' n Hn). destruct (nkind (nd t' n)); try reflexivity. rewrite (valueOf_ext t t' _ Hn). reflexivity. Qed.

  Lemma newval_ext n : newval t n = newval t' n.
  Proof.
    unfold newval. rewrite (nd_ext t t' n Hn). destruct (nkind (nd t' n)); try reflexivity.
    - rewrite (valueOf_ext t t' _ Hn). reflexivity.
    - rewrite !(valueOf_ext t t' _ Hn). reflexivity.
    - rewrite (map_ext _ _ (fun a => valueOf_ext t t' a Hn)). reflexivity.
    - rewrite (valueOf_ext t t' _ Hn). reflexivity.
    - rewrite (bd_ext t t' _ Hb). destruct (b_rhs (bd t' b)); [rewrite (valueOf_ext t t' _ Hn)|]; reflexivity.
  Qed.

  Lemma localEvs_ext n : localEvs t n = localEvs t' n.
  Proof.
    unfold localEvs. rewrite (nd_ext t t' n Hn). destruct (nkind (nd t' n)); try reflexivity.
    - rewrite (valueOf_ext t t' _ Hn). reflexivity.
    - rewrite !(valueOf_ext t t' _ Hn). reflexivity.
    - rewrite (map_ext _ _ (fun a => valueOf_ext t t' a Hn)). reflexivity.
    - rewrite (valueOf_ext t t' _ Hn). reflexivity.
  Qed.

  Lemma localF_ext n y : localF t n y = localF t' n y.
  Proof. unfold localF. rewrite cutv_ext, newval_ext, Hs. reflexivity. Qed.

  Lemma afterLocal_nodes_ext n : nodes (afterLocal t n) = nodes (afterLocal t' n).
  Proof. unfold afterLocal; cbn. rewrite Hn. apply alter_ext. intros y _. apply localF_ext. Qed.

  Lemma pushlist_ext n : pushlist t n = pushlist t' n.
  Proof.
    unfold pushlist. rewrite cutv_ext. destruct (cutv t' n); [reflexivity|].
    rewrite (nd_ext t t' n Hn). apply list_filter_iff. intros c.
    rewrite (wantPush_ext (afterLocal t n) (afterLocal t' n) c (afterLocal_nodes_ext n) Hs). reflexivity.
  Qed.

  Lemma hkeys_ext n : hkeys t n = hkeys t' n.
  Proof. unfold hkeys. rewrite cutv_ext, (nd_ext t t' n Hn). reflexivity. Qed.
End core_ext.

(** [insert_sorted] is a commutative set insertion *)
Lemma insert_sorted_comm a b l : insert_sorted a (insert_sorted b l) = insert_sorted b (insert_sorted a l).
Proof.
  induction l as [|x l IH]; cbn [insert_sorted].
  - destruct (Nat.ltb_spec a b), (Nat.ltb_spec b a), (Nat.eqb_spec a b), (Nat.eqb_spec b a); try lia; try reflexivity; subst; try lia.
    cbn [insert_sorted]. reflexivity.
  - destruct (Nat.ltb_spec b x), (Nat.ltb_spec a x), (Nat.eqb_spec b x), (Nat.eqb_spec a x); subst; try lia; cbn [insert_sorted].
    all: repeat match goal with
         | |- context [(?u <? ?v)%nat] => destruct (Nat.ltb_spec u v); try lia
         | |- context [(?u =? ?v)%nat] => destruct (Nat.eqb_spec u v); try lia
         end; subst; try lia; try reflexivity; cbn [insert_sorted];
      repeat match goal with
         | |- context [(?u <? ?v)%nat] => destruct (Nat.ltb_spec u v); try lia
         | |- context [(?u =? ?v)%nat] => destruct (Nat.eqb_spec u v); try lia
         end; subst; try lia; try reflexivity.
    rewrite IH. reflexivity.
Qed.

Definition insAll (l : list nid) (ks : list nid) : list nid := foldl (fun l o => insert_sorted o l) l ks.

Lemma insAll_insert a ks : forall l, insAll (insert_sorted a l) ks = insert_sorted a (insAll l ks).
Proof.
  induction ks as [|k ks IH]; intros l; [reflexivity|]. cbn [insAll foldl]. fold (insAll (insert_sorted k (insert_sorted a l)) ks).
  rewrite insert_sorted_comm. apply IH.
Qed.

Lemma insAll_perm ks ks' : ks ≡ₚ ks' -> forall l, insAll l ks = insAll l ks'.
Proof.
  induction 1 as [|x ks ks' _ IH|x y ks|ks ks' ks'' _ IH1 _ IH2]; intros l.
  - reflexivity.
  - apply IH.
  - cbn [insAll foldl]. rewrite insert_sorted_comm. reflexivity.
  - rewrite IH1. apply IH2.
Qed.

Lemma insAll_app l k1 k2 : insAll l (k1 ++ k2) = insAll (insAll l k1) k2.
Proof. apply foldl_app. Qed.

(** * E. The step on ≈-related states, and two steps of one block *)

Lemma rnp_spec_inv s n s1 e : rnp_spec s n = Ok (s1, e) ->
  e = None /\ exists w, addAll (fun c => height (nd s c)) (pushlist s n) (heap s) = Ok w /\
  s1 = afterLocal s n <| heap := w |> <| handlers := newHandlers s n |>.
Proof.
  unfold rnp_spec. intros H. apply rbind_ok in H as (w & Hw & [= <- <-]). split; [reflexivity|]. eauto.
Qed.

Lemma newHandlers_insAll s n : newHandlers s n = insAll (handlers s) (hkeys s n).
Proof. reflexivity. Qed.

Lemma rnp_spec_sim s s' n t e :
  s ≈ s' -> (forall c, c ∈ pushlist s n -> 0 <= height (nd s c)) -> 0 <= Heap.cnt (heap s) ->
  rnp_spec s n = Ok (t, e) -> exists t', rnp_spec s' n = Ok (t', e) /\ t ≈ t'.
Proof.
  intros Hs Hh Hc H. apply rnp_spec_inv in H as (-> & w & Hw & ->).
  destruct Hs as [Sn Sb Snx Sr So Sh Sa Si Sst Sstat Snn Ssd Ssr Shd Smx Sl].
  destruct (addAll_perm _ _ _ (Permutation_refl _) _ _ _ Hh Hc Sh Hw) as (w' & Hw' & Sw).
  unfold rnp_spec. rewrite <- (pushlist_ext s s' Sn Sb Sst).
  rewrite (addAll_ext _ (fun c => height (nd s c))) by (intros c _; rewrite (nd_ext s s' c Sn); reflexivity).
  rewrite Hw'. cbn [rbind]. eexists. split; [reflexivity|].
  constructor; cbn; try assumption.
  - rewrite Sn. apply alter_ext. intros y _. apply localF_ext; assumption.
  - unfold newHandlers. rewrite (hkeys_ext s s' Sn), Shd. reflexivity.
  - rewrite (localEvs_ext s s' Sn). apply Permutation_app_head. exact Sl.
Qed.

(** the step leaves the shape of the graph alone *)
Lemma rnp_spec_nd s n s1 e m : rnp_spec s n = Ok (s1, e) -> nd s1 m = nd (afterLocal s n) m.
Proof. intros H. apply rnp_spec_inv in H as (_ & w & _ & ->). reflexivity. Qed.

Lemma rnp_spec_proj {A} (g : node -> A) s n s1 e m :
  (forall t k y, g (localF t k y) = g y) -> rnp_spec s n = Ok (s1, e) -> g (nd s1 m) = g (nd s m).
Proof. intros Hg H. rewrite (rnp_spec_nd _ _ _ _ m H). apply afterLocal_proj. intros y. apply Hg. Qed.

Lemma rnp_spec_has s n s1 e m : rnp_spec s n = Ok (s1, e) -> (has s1 m <-> has s m).
Proof.
  intros H. apply rnp_spec_inv in H as (_ & w & _ & ->). unfold has; cbn.
  destruct (decide (m = n)) as [->|Hne].
  - rewrite lookup_alter, fmap_is_Some. reflexivity.
  - rewrite lookup_alter_ne by congruence. reflexivity.
Qed.

Lemma rnp_spec_binds s n s1 e : rnp_spec s n = Ok (s1, e) -> binds s1 = binds s.
Proof. intros H. apply rnp_spec_inv in H as (_ & w & _ & ->). reflexivity. Qed.
Lemma rnp_spec_stabNum s n s1 e : rnp_spec s n = Ok (s1, e) -> stabNum s1 = stabNum s.
Proof. intros H. apply rnp_spec_inv in H as (_ & w & _ & ->). reflexivity. Qed.

Lemma same_shape_afterLocal s n : same_shape s (afterLocal s n).
Proof.
  intros m. split; [apply (afterLocal_proj nkind)|apply (afterLocal_proj decl)]; intros y; apply localF_frame.
Qed.

(** what a node of the block reads is not written by another node of the block *)
Lemma valueOf_afterLocal s n h a :
  height (nd s n) = h -> (forall x, vsrc s a = Some x -> height (nd s x) < h) ->
  valueOf (afterLocal s n) a = valueOf s a.
Proof.
  intros Hh Hb. apply valueOf_shape; [apply same_shape_afterLocal|].
  intros x Hx. rewrite nd_afterLocal_ne; [reflexivity|]. intros ->. specialize (Hb _ Hx). lia.
Qed.

Section view.
  Context (s : state) (n m : nid) (h : Z).
  Context (Hne : m <> n) (Hhn : height (nd s n) = h) (Hrm : reads_below s m h).
  Let t := afterLocal s n.

  Lemma view_nd : nd t m = nd s m.
  Proof. apply nd_afterLocal_ne, Hne. Qed.

  Lemma view_value a : a ∈ reads s m -> valueOf t a = valueOf s a.
  Proof. intros Ha. apply (valueOf_afterLocal s n h a Hhn). intros x Hx. eapply Hrm; eauto. Qed.

  Lemma view_cutv : cutv t m = cutv s m.
  Proof.
    unfold cutv. rewrite view_nd. destruct (nkind (nd s m)) eqn:Ek; try reflexivity.
    rewrite view_value; [reflexivity|]. unfold reads. rewrite Ek. left.
  Qed.

  Lemma view_newval : newval t m = newval s m.
  Proof.
    unfold newval. rewrite view_nd. destruct (nkind (nd s m)) eqn:Ek; try reflexivity.
    - rewrite view_value; [reflexivity|]. unfold reads. rewrite Ek. left.
    - rewrite !view_value; [reflexivity| |]; unfold reads; rewrite Ek; [right; left|left].
    - f_equal. f_equal. apply map_ext_in. intros a Ha. apply view_value. unfold reads. rewrite Ek.
      apply elem_of_list_In. exact Ha.
    - rewrite view_value; [reflexivity|]. unfold reads. rewrite Ek. left.
    - change (bd t b) with (bd s b). destruct (b_rhs (bd s b)) as [r|] eqn:Er; [|reflexivity].
      rewrite view_value; [reflexivity|]. unfold reads. rewrite Ek, Er. left.
  Qed.

  Lemma view_localEvs : localEvs t m = localEvs s m.
  Proof.
    unfold localEvs. rewrite view_nd. destruct (nkind (nd s m)) eqn:Ek; try reflexivity.
    - rewrite view_value; [reflexivity|]. unfold reads. rewrite Ek. left.
    - rewrite !view_value; [reflexivity| |]; unfold reads; rewrite Ek; [right; left|left].
    - assert (map (valueOf t) (decl (nd s m)) = map (valueOf s) (decl (nd s m))) as ->; [|reflexivity].
      apply map_ext_in. intros a Ha. apply view_value. unfold reads. rewrite Ek.
      apply elem_of_list_In. exact Ha.
    - rewrite view_value; [reflexivity|]. unfold reads. rewrite Ek. left.
  Qed.

  Lemma view_localF y : localF t m y = localF s m y.
  Proof. unfold localF. rewrite view_cutv, view_newval. reflexivity. Qed.

  Lemma view_hkeys : hkeys t m = hkeys s m.
  Proof. unfold hkeys. rewrite view_cutv, view_nd. reflexivity. Qed.
End view.

(** a child's staleness test does not depend on the stamps of its OTHER inputs once one input
    carries the current pass's stamp *)
Lemma stale_char t x m :
  (forall q, changedAt (nd t q) <= stabNum t) -> m ∈ parents x -> changedAt (nd t m) = stabNum t ->
  staleWrtParents t x = (recomputedAt x <? stabNum t).
Proof.
  intros Hst Hm Hcm. unfold staleWrtParents. destruct (Z.ltb_spec (recomputedAt x) (stabNum t)) as [Hlt|Hge].
  - apply existsb_exists. exists m. split; [apply elem_of_list_In, Hm|]. rewrite Hcm. lia.
  - apply Bool.not_true_is_false. intros [q [_ Hq]]%existsb_exists. specialize (Hst q). lia.
Qed.

Lemma changedAt_localF s n y : changedAt y <= stabNum s -> changedAt (localF s n y) <= stabNum s.
Proof. unfold localF. destruct (cutv s n); [|destruct (newval s n)]; cbn; lia. Qed.

Lemma changedAt_localF_nocut s n y : cutv s n = false -> changedAt (localF s n y) = stabNum s.
Proof. unfold localF. intros ->. destruct (newval s n); reflexivity. Qed.

Lemma stamps_afterLocal s n : (forall q, changedAt (nd s q) <= stabNum s) ->
  forall q, changedAt (nd (afterLocal s n) q) <= stabNum s.
Proof.
  intros H q. rewrite nd_afterLocal. destruct (decide (q = n)) as [->|]; [|apply H].
  specialize (H n). unfold nd in H. destruct (nodes s !! n); cbn in *; [apply changedAt_localF, H|exact H].
Qed.

Lemma filter_ext_in (P Q : nid -> Prop) `{forall x, Decision (P x)} `{forall x, Decision (Q x)} (l : list nid) :
  (forall x, x ∈ l -> (P x <-> Q x)) -> filter P l = filter Q l.
Proof.
  induction l as [|a l IH]; intros HPQ; [reflexivity|]. rewrite !filter_cons.
  rewrite IH by (intros; apply HPQ; right; assumption).
  destruct (decide (P a)) as [Hp|Hp], (decide (Q a)) as [Hq|Hq]; try reflexivity;
    exfalso; apply (HPQ a ltac:(left)) in Hp || apply (HPQ a ltac:(left)) in Hq; contradiction.
Qed.

(** the candidates [m] queues are the same whether or not [n] (same height) went first *)
Lemma pushlist_stable s n m h :
  graph_ok s -> has s m -> m <> n -> height (nd s n) = h -> height (nd s m) = h -> reads_below s m h ->
  pushlist (afterLocal s n) m = pushlist s m.
Proof.
  intros G Hm Hne Hhn Hhm Hrm. unfold pushlist.
  rewrite (view_cutv s n m h Hne Hhn Hrm). destruct (cutv s m) eqn:Hcut; [reflexivity|].
  rewrite (view_nd s n m Hne).
  apply filter_ext_in. intros c Hc.
  pose proof (go_edges _ G _ _ Hc) as Hpar. pose proof (go_heights _ G _ _ Hpar) as Hlt.
  assert (Hcm : c <> m) by (intros ->; lia). assert (Hcn : c <> n) by (intros ->; lia).
  set (t := afterLocal s n). set (A12 := afterLocal t m). set (A2 := afterLocal s m).
  assert (E12 : nd A12 c = nd s c) by (unfold A12, t; rewrite !nd_afterLocal_ne by assumption; reflexivity).
  assert (E2 : nd A2 c = nd s c) by (unfold A2; rewrite nd_afterLocal_ne by assumption; reflexivity).
  assert (Hmt : has t m) by (unfold has, t, afterLocal; cbn; rewrite lookup_alter_ne by congruence; exact Hm).
  assert (S12 : staleWrtParents A12 (nd s c) = (recomputedAt (nd s c) <? stabNum s)).
  { pose proof (stale_char A12 (nd s c) m) as X; change (stabNum A12) with (stabNum s) in X; apply X; clear X.
    - apply (stamps_afterLocal t m). apply (stamps_afterLocal s n). apply (go_stamps _ G).
    - exact Hpar.
    - unfold A12. rewrite nd_afterLocal_eq by exact Hmt. apply (changedAt_localF_nocut t m).
      unfold t. rewrite (view_cutv s n m h Hne Hhn Hrm). exact Hcut. }
  assert (S2 : staleWrtParents A2 (nd s c) = (recomputedAt (nd s c) <? stabNum s)).
  { pose proof (stale_char A2 (nd s c) m) as X; change (stabNum A2) with (stabNum s) in X; apply X; clear X.
    - apply (stamps_afterLocal s m). apply (go_stamps _ G).
    - exact Hpar.
    - unfold A2. rewrite nd_afterLocal_eq by exact Hm. apply changedAt_localF_nocut, Hcut. }
  assert (wantPush A12 c = wantPush A2 c) as ->; [|reflexivity].
  unfold wantPush, isStale. rewrite E12, E2, S12, S2. reflexivity.
Qed.

Lemma pushlist_height s n c h : graph_ok s -> height (nd s n) = h -> 0 <= h ->
  c ∈ pushlist s n -> 0 <= height (nd s c).
Proof.
  intros G Hh H0 Hc. unfold pushlist in Hc. destruct (cutv s n); [inversion Hc|].
  apply elem_of_list_filter in Hc as [_ Hc].
  pose proof (go_heights _ G _ _ (go_edges _ G _ _ Hc)). lia.
Qed.

(** ** two nodes of one block commute, up to ≈ *)
Lemma rnp_spec_comm s n m h s1 s12 e1 e2 :
  graph_ok s -> has s n -> has s m -> m <> n -> height (nd s n) = h -> height (nd s m) = h -> 0 <= h ->
  reads_below s n h -> reads_below s m h ->
  rnp_spec s n = Ok (s1, e1) -> rnp_spec s1 m = Ok (s12, e2) ->
  exists s2 s21, rnp_spec s m = Ok (s2, e2) /\ rnp_spec s2 n = Ok (s21, e1) /\ s12 ≈ s21.
Proof.
  intros G Hn Hm Hne Hhn Hhm H0 Hrn Hrm H1 H12.
  assert (Hne' : n <> m) by congruence.
  apply rnp_spec_inv in H1 as (-> & w1 & Hw1 & ->).
  apply rnp_spec_inv in H12 as (-> & w12 & Hw12 & ->).
  set (t1 := afterLocal s n) in *. set (t2 := afterLocal s m).
  set (s1 := t1 <| heap := w1 |> <| handlers := newHandlers s n |>) in *.
  (* what m sees after n *)
  assert (Pm : pushlist s1 m = pushlist s m).
  { rewrite (pushlist_ext s1 t1 eq_refl eq_refl eq_refl m). apply (pushlist_stable s n m h); assumption. }
  assert (Hf1 : forall c, height (nd s1 c) = height (nd s c)).
  { intros c. change (nd s1 c) with (nd t1 c). apply (afterLocal_proj height). intros y. apply localF_frame. }
  rewrite Pm in Hw12. rewrite (addAll_ext _ (fun c => height (nd s c))) in Hw12 by (intros; apply Hf1).
  change (heap s1) with w1 in Hw12.
  (* the two queues *)
  set (hf := fun c => height (nd s c)) in *.
  assert (Hall : addAll hf (pushlist s n ++ pushlist s m) (heap s) = Ok w12)
    by (rewrite addAll_app, Hw1; exact Hw12).
  assert (Hhs : forall c, c ∈ pushlist s n ++ pushlist s m -> 0 <= hf c).
  { intros c [Hc|Hc]%elem_of_app; [apply (pushlist_height s n c h)|apply (pushlist_height s m c h)]; assumption. }
  destruct (addAll_perm hf _ _ (Permutation_app_comm _ _) _ _ _ Hhs (go_cnt _ G) (heap_sim_refl _) Hall)
    as (w21 & Hw21 & Sw).
  rewrite addAll_app in Hw21. apply rbind_ok in Hw21 as (w2 & Hw2 & Hw21).
  set (s2 := t2 <| heap := w2 |> <| handlers := newHandlers s m |>).
  assert (Pn : pushlist s2 n = pushlist s n).
  { rewrite (pushlist_ext s2 t2 eq_refl eq_refl eq_refl n). apply (pushlist_stable s m n h); assumption. }
  assert (Hf2 : forall c, height (nd s2 c) = height (nd s c)).
  { intros c. change (nd s2 c) with (nd t2 c). apply (afterLocal_proj height). intros y. apply localF_frame. }
  exists s2, (afterLocal s2 n <| heap := w21 |> <| handlers := newHandlers s2 n |>).
  split; [|split].
  - unfold rnp_spec. fold hf. rewrite Hw2. reflexivity.
  - unfold rnp_spec. rewrite Pn. rewrite (addAll_ext _ hf) by (intros; apply Hf2).
    change (heap s2) with w2. rewrite Hw21. reflexivity.
  - (* the two results *)
    assert (LFm : forall y, localF s1 m y = localF s m y).
    { intros y. rewrite (localF_ext s1 t1 eq_refl eq_refl eq_refl m y). apply (view_localF s n m h); assumption. }
    assert (LFn : forall y, localF s2 n y = localF s n y).
    { intros y. rewrite (localF_ext s2 t2 eq_refl eq_refl eq_refl n y). apply (view_localF s m n h); assumption. }
    assert (LEm : localEvs s1 m = localEvs s m).
    { rewrite (localEvs_ext s1 t1 eq_refl m). apply (view_localEvs s n m h); assumption. }
    assert (LEn : localEvs s2 n = localEvs s n).
    { rewrite (localEvs_ext s2 t2 eq_refl n). apply (view_localEvs s m n h); assumption. }
    assert (HKm : hkeys s1 m = hkeys s m).
    { rewrite (hkeys_ext s1 t1 eq_refl m). apply (view_hkeys s n m h); assumption. }
    assert (HKn : hkeys s2 n = hkeys s n).
    { rewrite (hkeys_ext s2 t2 eq_refl n). apply (view_hkeys s m n h); assumption. }
    constructor; cbn; try reflexivity.
    + rewrite (alter_ext (localF s1 m) (localF s m)) by (intros; apply LFm).
      rewrite (alter_ext (localF s2 n) (localF s n)) by (intros; apply LFn).
      apply alter_commute. exact Hne.
    + exact Sw.
    + rewrite !newHandlers_insAll. change (handlers s1) with (newHandlers s n). change (handlers s2) with (newHandlers s m).
      rewrite !newHandlers_insAll, HKm, HKn, <- !insAll_app. apply insAll_perm, Permutation_app_comm.
    + rewrite LEm, LEn. apply Permutation_app_swap_app.
Qed.

(** * F. A block under any order *)
Definition ok_state (s : state) (B : list nid) (h : Z) : Prop := block_ok s B h /\ graph_ok s.

Lemma reads_shape s t n : (forall m, nd t m = nd s m \/ (nkind (nd t m) = nkind (nd s m) /\ decl (nd t m) = decl (nd s m))) ->
  binds t = binds s -> reads t n = reads s n.
Proof.
  intros Hnd Hb. unfold reads.
  assert (nkind (nd t n) = nkind (nd s n) /\ decl (nd t n) = decl (nd s n)) as [-> ->].
  { destruct (Hnd n) as [->|]; auto. }
  destruct (nkind (nd s n)); try reflexivity. rewrite (bd_ext t s _ Hb). reflexivity.
Qed.

Lemma rnp_spec_ok_state s B h n s1 e :
  ok_state s B h -> n ∈ B -> rnp_spec s n = Ok (s1, e) -> ok_state s1 B h.
Proof.
  intros [Bo G] Hn H.
  pose proof (bo_height _ _ _ Bo n Hn) as Hhn. pose proof (bo_h _ _ _ Bo) as H0.
  assert (Hshape : same_shape s s1).
  { intros m. rewrite (rnp_spec_nd s n s1 e m H). apply same_shape_afterLocal. }
  assert (Hheight : forall m, height (nd s1 m) = height (nd s m)).
  { intros m. apply (rnp_spec_proj height s n s1 e m); [|exact H]. intros; apply localF_frame. }
  split.
  - destruct Bo as [B1 B2 B3 B4 B5 B6]. constructor; auto.
    + intros x Hx. apply (rnp_spec_has s n s1 e x H). apply B3, Hx.
    + intros x Hx. rewrite Hheight. auto.
    + intros x Hx. destruct (Hshape x) as [-> _]. auto.
    + intros x Hx a m Ha Hv. rewrite Hheight.
      rewrite (reads_shape s s1 x) in Ha.
      * rewrite (vsrc_shape s s1 a Hshape) in Hv. eapply B6; eauto.
      * intros m'. right. apply Hshape.
      * apply (rnp_spec_binds _ _ _ _ H).
  - destruct G as [G1 G2 G3 G4]. constructor.
    + apply rnp_spec_inv in H as (_ & w & Hw & ->). cbn.
      eapply addAll_cnt; [|exact G1|exact Hw]. intros c Hc. cbn.
      apply (pushlist_height s n c h); try assumption. constructor; assumption.
    + intros x c. rewrite (rnp_spec_proj children s n s1 e x) by (first [exact H|intros; apply localF_frame]).
      rewrite (rnp_spec_proj parents s n s1 e c) by (first [exact H|intros; apply localF_frame]). apply G2.
    + intros c q. rewrite (rnp_spec_proj parents s n s1 e c) by (first [exact H|intros; apply localF_frame]).
      rewrite !Hheight. apply G3.
    + intros x. rewrite (rnp_spec_nd s n s1 e x H), (rnp_spec_stabNum _ _ _ _ H). apply stamps_afterLocal, G4.
Qed.

Lemma ok_state_sim s s' B h : s ≈ s' -> ok_state s B h -> ok_state s' B h.
Proof.
  intros Hs [Bo G]. destruct Hs as [Sn Sb _ _ _ Sh _ _ Sst _ _ _ _ _ _ _].
  assert (Hnd : forall m, nd s' m = nd s m) by (intros m; symmetry; apply nd_ext, Sn).
  assert (Hshape : same_shape s s') by (intros m; rewrite Hnd; split; reflexivity).
  split.
  - destruct Bo as [B1 B2 B3 B4 B5 B6]. constructor; auto.
    + intros x Hx. rewrite <- Sn. auto.
    + intros x Hx. rewrite Hnd. auto.
    + intros x Hx. rewrite Hnd. auto.
    + intros x Hx a m Ha Hv. rewrite Hnd. rewrite (reads_shape s s' x) in Ha; [|intros; left; apply Hnd|congruence].
      rewrite (vsrc_shape s s' a Hshape) in Hv. eapply B6; eauto.
  - destruct G as [G1 G2 G3 G4]. constructor.
    + rewrite <- (hs_cnt _ _ Sh). exact G1.
    + intros x c. rewrite !Hnd. apply G2.
    + intros c q. rewrite !Hnd. apply G3.
    + intros x. rewrite Hnd, <- Sst. apply G4.
Qed.

(** the always-list bookkeeping *)
Definition alw (s : state) (n : nid) (al : list nid) : list nid :=
  if isAlways (nkind (nd s n)) then al ++ [n] else al.

Lemma alw_perm s n al al' : al ≡ₚ al' -> alw s n al ≡ₚ alw s n al'.
Proof. intros H. unfold alw. destruct (isAlways _); [rewrite H|]; auto. Qed.

Lemma block_step_char fuel p s B h e al n :
  block_ok s B h -> quiet p B -> n ∈ B ->
  block_step fuel p (s, e, al) n = ('(s1, e') <-! rnp_spec s n; Ok (s1, e, alw s n al)).
Proof.
  intros Bo Hq Hn. unfold block_step.
  rewrite (bo_height _ _ _ Bo n Hn). destruct (Z.eqb_spec h unset) as [E|_].
  { pose proof (bo_h _ _ _ Bo). unfold unset in E. lia. }
  rewrite (rnp_char fuel p s n); [|apply (bo_has _ _ _ Bo n Hn)|apply (bo_kind _ _ _ Bo n Hn)|intros w; apply Hq, Hn].
  destruct (rnp_spec s n) as [[s1 e']| |] eqn:E; cbn [rbind]; try reflexivity.
  pose proof (rnp_spec_inv _ _ _ _ E) as [-> _].
  unfold alw. rewrite (rnp_spec_proj nkind s n s1 None n) by (first [exact E|intros; apply localF_frame]).
  destruct e; reflexivity.
Qed.

Lemma sim_blk_refl r : sim_blk r r.
Proof. split; [apply sim_refl|split; reflexivity]. Qed.
Lemma sim_blk_trans r1 r2 r3 : sim_blk r1 r2 -> sim_blk r2 r3 -> sim_blk r1 r3.
Proof.
  intros (A1 & A2 & A3) (B1 & B2 & B3). split; [eapply sim_trans; eassumption|].
  split; [congruence|etransitivity; eassumption].
Qed.

Section block.
  Context (fuel : nat) (p : plan) (B : list nid) (h : Z) (Hq : quiet p B).
  Notation step := (block_step fuel p).

  Lemma step_total s e al n : ok_state s B h -> n ∈ B ->
    exists s1, step (s, e, al) n = Ok (s1, e, alw s n al) /\ rnp_spec s n = Ok (s1, None) /\ ok_state s1 B h.
  Proof.
    intros [Bo G] Hn. rewrite (block_step_char fuel p s B h e al n Bo Hq Hn).
    destruct (addAll_total (fun c => height (nd s c)) (pushlist s n) (heap s)) as [w Hw].
    { intros c Hc. apply (pushlist_height s n c h G (bo_height _ _ _ Bo n Hn) (bo_h _ _ _ Bo) Hc). }
    assert (E : rnp_spec s n = Ok (afterLocal s n <| heap := w |> <| handlers := newHandlers s n |>, None))
      by (unfold rnp_spec; rewrite Hw; reflexivity).
    eexists. rewrite E. split; [reflexivity|]. split; [reflexivity|].
    eapply rnp_spec_ok_state; [split; eassumption|exact Hn|exact E].
  Qed.

  Lemma step_cong s s' e al al' n : ok_state s B h -> n ∈ B -> s ≈ s' -> al ≡ₚ al' ->
    exists s1 s1', step (s, e, al) n = Ok (s1, e, alw s n al) /\ step (s', e, al') n = Ok (s1', e, alw s n al') /\
                   s1 ≈ s1' /\ ok_state s1 B h.
  Proof.
    intros Ok Hn Hs Hal. destruct (step_total s e al n Ok Hn) as (s1 & E1 & R1 & Ok1).
    pose proof (ok_state_sim _ _ _ _ Hs Ok) as Ok'.
    destruct (step_total s' e al' n Ok' Hn) as (s1' & E1' & R1' & _).
    destruct Ok as [Bo G].
    destruct (rnp_spec_sim s s' n s1 None Hs) as (t' & Rt & St); [| |exact R1|].
    { intros c Hc. apply (pushlist_height s n c h G (bo_height _ _ _ Bo n Hn) (bo_h _ _ _ Bo) Hc). }
    { apply (go_cnt _ G). }
    rewrite R1' in Rt. injection Rt as <-.
    exists s1, s1'. split; [exact E1|]. split; [|split; assumption].
    rewrite E1'. unfold alw. rewrite (nd_ext s s' n (sim_nodes _ _ Hs)). reflexivity.
  Qed.

  Lemma run_total l : forall s e al, ok_state s B h -> (forall x, x ∈ l -> x ∈ B) ->
    exists s1 al1, rfold step l (s, e, al) = Ok (s1, e, al1) /\ ok_state s1 B h.
  Proof.
    induction l as [|n l IH]; intros s e al Ok Hl.
    - exists s, al. split; [reflexivity|exact Ok].
    - destruct (step_total s e al n Ok (Hl n ltac:(left))) as (s1 & E1 & _ & Ok1).
      cbn [rfold]. rewrite E1. cbn [rbind]. apply IH; [exact Ok1|]. intros; apply Hl; right; assumption.
  Qed.

  Lemma run_cong l : forall s s' e al al' r, ok_state s B h -> (forall x, x ∈ l -> x ∈ B) -> s ≈ s' -> al ≡ₚ al' ->
    rfold step l (s, e, al) = Ok r -> exists r', rfold step l (s', e, al') = Ok r' /\ sim_blk r r'.
  Proof.
    induction l as [|n l IH]; intros s s' e al al' r Ok Hl Hs Hal H.
    - injection H as <-. eexists. split; [reflexivity|]. split; [exact Hs|]. split; [reflexivity|exact Hal].
    - destruct (step_cong s s' e al al' n Ok (Hl n ltac:(left)) Hs Hal) as (s1 & s1' & E1 & E1' & S1 & Ok1).
      cbn [rfold] in *. rewrite E1 in H. rewrite E1'. cbn [rbind] in *.
      eapply IH; [exact Ok1| |exact S1| |exact H].
      + intros; apply Hl; right; assumption.
      + apply alw_perm, Hal.
  Qed.

  Lemma alw_kind_stable s n s1 e m al : rnp_spec s n = Ok (s1, e) -> alw s1 m al = alw s m al.
  Proof.
    intros H. unfold alw. rewrite (rnp_spec_proj nkind s n s1 e m) by (first [exact H|intros; apply localF_frame]).
    reflexivity.
  Qed.

  Lemma alw_swap s x y al : alw s x (alw s y al) ≡ₚ alw s y (alw s x al).
  Proof.
    unfold alw. destruct (isAlways (nkind (nd s x))), (isAlways (nkind (nd s y))); try reflexivity.
    rewrite <- !app_assoc. apply Permutation_app_head. apply perm_swap.
  Qed.

  (** the main induction: any two orders of (a part of) the block *)
  Lemma run_perm_same l l' : l ≡ₚ l' -> forall s e al r,
    ok_state s B h -> (forall x, x ∈ l -> x ∈ B) -> NoDup l ->
    rfold step l (s, e, al) = Ok r -> exists r', rfold step l' (s, e, al) = Ok r' /\ sim_blk r r'.
  Proof.
    induction 1 as [|x l l' Hp IH|x y l|l l' l'' Hp1 IH1 Hp2 IH2]; intros s e al r Ok Hl Hnd H.
    - exists r. split; [exact H|apply sim_blk_refl].
    - destruct (step_total s e al x Ok (Hl x ltac:(left))) as (s1 & E1 & _ & Ok1).
      cbn [rfold] in *. rewrite E1 in *. cbn [rbind] in *.
      apply NoDup_cons_1_2 in Hnd.
      eapply IH; [exact Ok1| |exact Hnd|exact H]. intros; apply Hl; right; assumption.
    - assert (Hy : y ∈ B) by (apply Hl; left). assert (Hx : x ∈ B) by (apply Hl; right; left).
      assert (Hxy : x <> y).
      { apply NoDup_cons_1_1 in Hnd. intros ->. apply Hnd. left. }
      destruct (step_total s e al y Ok Hy) as (s1 & E1 & R1 & Ok1).
      destruct (step_total s1 e (alw s y al) x Ok1 Hx) as (s12 & E12 & R12 & Ok12).
      cbn [rfold] in H. rewrite E1 in H. cbn [rbind] in H. rewrite E12 in H. cbn [rbind] in H.
      destruct Ok as [Bo G].
      destruct (rnp_spec_comm s y x h s1 s12 None None G (bo_has _ _ _ Bo y Hy) (bo_has _ _ _ Bo x Hx) Hxy
                  (bo_height _ _ _ Bo y Hy) (bo_height _ _ _ Bo x Hx) (bo_h _ _ _ Bo)
                  (bo_reads _ _ _ Bo y Hy) (bo_reads _ _ _ Bo x Hx) R1 R12) as (s2 & s21 & R2 & R21 & S).
      destruct (step_total s e al x (conj Bo G) Hx) as (s2' & E2 & R2' & Ok2).
      rewrite R2 in R2'. injection R2' as <-.
      destruct (step_total s2 e (alw s x al) y Ok2 Hy) as (s21' & E21 & R21' & Ok21).
      rewrite R21 in R21'. injection R21' as <-.
      cbn [rfold]. rewrite E2. cbn [rbind]. rewrite E21. cbn [rbind].
      eapply (run_cong l s12 s21); [exact Ok12| |exact S| |exact H].
      + intros; apply Hl; right; right; assumption.
      + rewrite (alw_kind_stable _ _ _ _ x _ R1), (alw_kind_stable _ _ _ _ y _ R2). apply alw_swap.
    - destruct (IH1 s e al r Ok Hl Hnd H) as (r' & H' & S1).
      destruct (IH2 s e al r' Ok) as (r'' & H'' & S2); [| |exact H'|].
      + intros x Hx. apply Hl. rewrite Hp1. exact Hx.
      + rewrite <- Hp1. exact Hnd.
      + exists r''. split; [exact H''|]. eapply sim_blk_trans; eassumption.
  Qed.
End block.

(** any order of the block from ≈-related states and accumulators *)
Lemma run_perm fuel p B h (Hq : quiet p B) l l' s s' e al al' r :
  l ≡ₚ l' -> ok_state s B h -> (forall x, x ∈ l -> x ∈ B) -> NoDup l -> s ≈ s' -> al ≡ₚ al' ->
  rfold (block_step fuel p) l (s, e, al) = Ok r ->
  exists r', rfold (block_step fuel p) l' (s', e, al') = Ok r' /\ sim_blk r r'.
Proof.
  intros Hp Ok Hl Hnd Hs Hal H.
  destruct (run_perm_same fuel p B h Hq l l' Hp s e al r Ok Hl Hnd H) as (r1 & H1 & S1).
  destruct (run_cong fuel p B h Hq l' s s' e al al' r1 Ok) as (r2 & H2 & S2); auto.
  - intros x Hx. apply Hl. rewrite Hp. exact Hx.
  - exists r2. split; [exact H2|]. eapply sim_blk_trans; eassumption.
Qed.

(** the fuel handed to recomputeNodeParallel only matters to bind lhs-change nodes *)
Lemma run_block_fuel fuel fuel' p B h (Hq : quiet p B) l : forall s e al,
  ok_state s B h -> (forall x, x ∈ l -> x ∈ B) ->
  rfold (block_step fuel p) l (s, e, al) = rfold (block_step fuel' p) l (s, e, al).
Proof.
  induction l as [|n l IH]; intros s e al Ok Hl; [reflexivity|].
  destruct (step_total fuel p B h Hq s e al n Ok (Hl n ltac:(left))) as (s1 & E1 & R1 & Ok1).
  destruct (step_total fuel' p B h Hq s e al n Ok (Hl n ltac:(left))) as (s1' & E1' & R1' & _).
  rewrite R1 in R1'. injection R1' as <-.
  cbn [rfold]. rewrite E1, E1'. cbn [rbind]. apply IH; [exact Ok1|]. intros; apply Hl; right; assumption.
Qed.

(** ** C04, block level: the nodes of a block (other than bind lhs-change nodes, which
    [parLoop] runs first, one at a time) can be processed in any order: every order succeeds,
    no error arises, and any two orders end in ≈-related states with the same [always] set. *)
Theorem block_confluence fuel1 fuel2 p s B h o1 o2 :
  block_ok s B h -> graph_ok s -> quiet p B -> o1 ≡ₚ B -> o2 ≡ₚ B ->
  exists r1 r2, run_block fuel1 p s o1 = Ok r1 /\ run_block fuel2 p s o2 = Ok r2 /\
                sim_blk r1 r2 /\ r1.1.2 = None.
Proof.
  intros Bo G Hq H1 H2. unfold run_block, run_block_acc.
  assert (Ok : ok_state s B h) by (split; assumption).
  assert (Hl1 : forall x, x ∈ o1 -> x ∈ B) by (intros x; rewrite H1; auto).
  assert (Hl2 : forall x, x ∈ o2 -> x ∈ B) by (intros x; rewrite H2; auto).
  destruct (run_total fuel1 p B h Hq o1 s None [] Ok Hl1) as (s1 & al1 & E1 & _).
  assert (Hnd : NoDup o1) by (rewrite H1; apply (bo_nodup _ _ _ Bo)).
  destruct (run_perm fuel1 p B h Hq o1 o2 s s None [] [] _ (Permutation_trans H1 (Permutation_sym H2)) Ok Hl1 Hnd
              (sim_refl s) (Permutation_refl _) E1) as (r2 & E2 & S).
  rewrite (run_block_fuel fuel1 fuel2 p B h Hq o2 s None [] Ok Hl2) in E2.
  eexists _, r2. split; [exact E1|]. split; [exact E2|]. split; [exact S|reflexivity].
Qed.

(** * G. The pass *)

(** ** taking the minimum block out of ≈ heaps *)
Lemma scan_from_sim bs bs' : Forall2 Permutation bs bs' -> forall x, Heap.scan_from bs x = Heap.scan_from bs' x.
Proof.
  induction 1 as [|b b' bs bs' Hb _ IH]; intros x; [reflexivity|]. cbn [Heap.scan_from].
  destruct b as [|a b], b' as [|a' b'].
  - apply IH.
  - apply Permutation_nil_l in Hb. discriminate.
  - symmetry in Hb. apply Permutation_nil_l in Hb. discriminate.
  - reflexivity.
Qed.

Lemma nextMinFrom_sim bs bs' c from : Forall2 Permutation bs bs' ->
  Heap.nextMinFrom bs c from = Heap.nextMinFrom bs' c from.
Proof.
  intros H. unfold Heap.nextMinFrom. destruct (c =? 0); [reflexivity|].
  rewrite (scan_from_sim _ _ (Forall2_drop _ _ _ _ H)). reflexivity.
Qed.

Lemma foldr_delete_perm (m : gmap nid Z) l l' : l ≡ₚ l' -> foldr delete m l = foldr delete m l'.
Proof.
  intros Hp. apply map_eq. intros k. rewrite !lookup_foldr_delete.
  destruct (bool_decide (k ∈ l)) eqn:E.
  - apply bool_decide_eq_true in E. rewrite Hp in E. rewrite bool_decide_eq_true_2 by exact E. reflexivity.
  - apply bool_decide_eq_false in E. rewrite Hp in E. rewrite bool_decide_eq_false_2 by exact E. reflexivity.
Qed.

Lemma takeMinBlock_sim w v b w1 b' v1 : heap_sim w v ->
  Heap.takeMinBlock w = (b, w1) -> Heap.takeMinBlock v = (b', v1) -> b ≡ₚ b' /\ heap_sim w1 v1.
Proof.
  intros Hs. pose proof Hs as [S1 S2 S3 S4 S5]. unfold Heap.takeMinBlock.
  rewrite <- S2. rewrite <- (scan_from_sim _ _ (Forall2_drop _ _ _ _ S5)).
  destruct (Heap.scan_from _ _) as [x|].
  - intros [= <- <-] [= <- <-].
    pose proof (heap_sim_bucket w v x Hs) as Hb.
    assert (F : Forall2 Permutation (<[x:=[]]> (Heap.buckets w)) (<[x:=[]]> (Heap.buckets v))).
    { apply Forall2_insert; [exact S5|reflexivity]. }
    split; [exact Hb|]. constructor; cbn.
    + rewrite S1. apply foldr_delete_perm, Hb.
    + rewrite (nextMinFrom_sim _ _ _ _ F), S4, Hb. reflexivity.
    + exact S3.
    + rewrite S4, Hb. reflexivity.
    + exact F.
  - intros [= <- <-] [= <- <-]. split; [reflexivity|exact Hs].
Qed.

(** ** queueing keeps the heap invariant *)
Lemma addAll_inv hf l : forall w w', HeapSpec.inv w -> (forall c, c ∈ l -> 0 <= hf c) -> addAll hf l w = Ok w' ->
  HeapSpec.inv w' /\
  forall n, n ∈ Heap.ids w' -> (n ∈ Heap.ids w /\ Heap.hinOf w' n = Heap.hinOf w n) \/ (n ∈ l /\ Heap.hinOf w' n = hf n).
Proof.
  induction l as [|c l IH]; intros w w' I Hh H.
  - injection H as <-. split; [exact I|]. intros n Hn. left. auto.
  - rewrite addAll_cons in H. apply rbind_ok in H as (w1 & H1 & H2).
    assert (Hl : forall c0, c0 ∈ l -> 0 <= hf c0) by (intros; apply Hh; right; assumption).
    unfold Heap.addIfNotPresent in H1. destruct (Heap.mem w c) eqn:Em.
    + injection H1 as <-. destruct (IH _ _ I Hl H2) as (I' & Hids). split; [exact I'|].
      intros n Hn. destruct (Hids n Hn) as [?|[? ?]]; [left; assumption|right; split; [right|]; assumption].
    + destruct (heap_add_spec w c (hf c) I Em (Hh c ltac:(left))) as (w1' & A1 & I1 & P1 & Hin1).
      rewrite A1 in H1. injection H1 as <-.
      destruct (IH _ _ I1 Hl H2) as (I' & Hids). split; [exact I'|].
      intros n Hn. destruct (Hids n Hn) as [[Hn1 E]|[Hn1 E]].
      * rewrite P1 in Hn1. rewrite Hin1 in E. apply elem_of_cons in Hn1 as [->|Hn1].
        -- right. rewrite decide_True in E by reflexivity. split; [left|exact E].
        -- destruct (decide (n = c)) as [->|]; [right; split; [left|exact E]|left; auto].
      * right. split; [right|]; assumption.
Qed.

Lemma has_of_parents s c q : q ∈ parents (nd s c) -> has s c.
Proof.
  intros H. unfold has. unfold nd in H. destruct (nodes s !! c); [eauto|]. cbn in H. inversion H.
Qed.

Lemma pushlist_children s n c : c ∈ pushlist s n -> c ∈ children (nd s n).
Proof.
  unfold pushlist. destruct (cutv s n); [intros H; inversion H|]. intros [_ H]%elem_of_list_filter. exact H.
Qed.

Lemma reads_below_ext s t n h : nodes t = nodes s -> binds t = binds s -> reads_below s n h -> reads_below t n h.
Proof.
  intros Hn Hb H a m Ha Hv.
  assert (Hnd : forall x, nd t x = nd s x) by (intros x; apply nd_ext, Hn).
  rewrite (reads_shape s t n) in Ha; [|intros x; left; apply Hnd|exact Hb].
  rewrite (vsrc_shape s t a) in Hv by (intros x; rewrite Hnd; split; reflexivity).
  rewrite Hnd. eapply H; eauto.
Qed.

(** ** a step keeps the pass invariant *)
Lemma rnp_spec_pass_ok s B h n s1 e :
  pass_ok s -> ok_state s B h -> n ∈ B -> rnp_spec s n = Ok (s1, e) -> pass_ok s1.
Proof.
  intros P Ok Hn H. destruct (rnp_spec_ok_state s B h n s1 e Ok Hn H) as [Bo1 G1].
  destruct Ok as [Bo G].
  assert (Hshape : same_shape s s1).
  { intros m. rewrite (rnp_spec_nd s n s1 e m H). apply same_shape_afterLocal. }
  assert (Hheight : forall m, height (nd s1 m) = height (nd s m)).
  { intros m. apply (rnp_spec_proj height s n s1 e m); [|exact H]. intros; apply localF_frame. }
  pose proof (rnp_spec_inv _ _ _ _ H) as (_ & w & Hw & Es1).
  assert (Hhf : forall c, c ∈ pushlist s n -> 0 <= height (nd s c)).
  { intros c Hc. apply (pushlist_height s n c h G (bo_height _ _ _ Bo n Hn) (bo_h _ _ _ Bo) Hc). }
  destruct (addAll_inv _ _ _ _ (po_heap _ P) Hhf Hw) as (Iw & Hids).
  assert (Hheap : heap s1 = w) by (rewrite Es1; reflexivity).
  constructor.
  - exact G1.
  - rewrite Hheap. exact Iw.
  - intros x Hx. rewrite Hheap in *. rewrite Hheight. split.
    + apply (rnp_spec_has s n s1 e x H). destruct (Hids x Hx) as [[Hx0 _]|[Hx0 _]].
      * apply (po_queued _ P x Hx0).
      * apply (has_of_parents s x n). apply (go_edges _ G). apply pushlist_children, Hx0.
    + destruct (Hids x Hx) as [[Hx0 ->]|[Hx0 ->]]; [apply (po_queued _ P x Hx0)|reflexivity].
  - intros x. destruct (Hshape x) as [-> _]. apply (po_nolhs _ P).
  - intros x. rewrite Hheight. apply (po_hrange _ P).
  - intros x Hx a m Ha Hv. rewrite !Hheight in *.
    rewrite (reads_shape s s1 x) in Ha; [|intros m'; right; apply Hshape|apply (rnp_spec_binds _ _ _ _ H)].
    rewrite (vsrc_shape s s1 a Hshape) in Hv. eapply (po_reads _ P); eauto.
  - intros v Hv. destruct (Hshape v) as [-> _]. apply (po_setDuring _ P). rewrite Es1 in Hv. exact Hv.
  - rewrite Es1. cbn. apply (po_setRemoved _ P).
Qed.

Lemma run_pass_ok fuel p B h (Hq : quiet p B) l : forall s e al r,
  pass_ok s -> ok_state s B h -> (forall x, x ∈ l -> x ∈ B) ->
  rfold (block_step fuel p) l (s, e, al) = Ok r -> pass_ok r.1.1 /\ r.1.2 = e.
Proof.
  induction l as [|n l IH]; intros s e al r P Ok Hl H.
  - injection H as <-. split; [exact P|reflexivity].
  - destruct (step_total fuel p B h Hq s e al n Ok (Hl n ltac:(left))) as (s1 & E1 & R1 & Ok1).
    cbn [rfold] in H. rewrite E1 in H. cbn [rbind] in H.
    eapply IH; [|exact Ok1| |exact H].
    + eapply rnp_spec_pass_ok; [exact P|exact Ok|apply Hl; left|exact R1].
    + intros; apply Hl; right; assumption.
Qed.

(** ** the block a pass takes *)
Lemma block_of_pass s b w : pass_ok s -> Heap.takeMinBlock (heap s) = (b, w) ->
  pass_ok (s <| heap := w |>) /\ exists h, ok_state (s <| heap := w |>) b h.
Proof.
  intros P Ht. destruct P as [G I Q NL HR RD SD SR].
  destruct (heap_takeMinBlock_spec _ _ _ I Ht) as (Iw & Pw & Hmin & Hlt & Hnil & Hhin).
  pose proof (inv_nodup _ I) as Hnd. rewrite Pw in Hnd. apply NoDup_app in Hnd as (Hndb & Hdisj & _).
  assert (Gw : graph_ok (s <| heap := w |>)).
  { destruct G as [G1 G2 G3 G4]. constructor; try assumption. cbn. apply (cnt_nonneg _ Iw). }
  split.
  - constructor; try assumption.
    intros n Hn. cbn in Hn. cbn [heap set]. assert (Hn0 : n ∈ Heap.ids (heap s)) by (rewrite Pw; apply elem_of_app; auto).
    destruct (Q n Hn0) as [Q1 Q2]. split; [exact Q1|].
    change (Heap.hinOf w n = height (nd s n)). rewrite Hhin, bool_decide_eq_false_2; [exact Q2|].
    intros Hb. exact (Hdisj n Hb Hn).
    intros n Hn. apply (reads_below_ext s); [reflexivity|reflexivity|]. apply RD, Hn.
  - assert (Hsub : forall n, n ∈ b -> n ∈ Heap.ids (heap s)) by (intros n Hn; rewrite Pw; apply elem_of_app; auto).
    destruct b as [|n0 b0] eqn:Eb.
    + exists 0. split; [|exact Gw]. constructor; try (intros n Hn; inversion Hn); [constructor|lia].
    + set (h := Heap.hinOf (heap s) n0).
      assert (Hall : forall n, n ∈ n0 :: b0 -> height (nd s n) = h).
      { intros n Hn. destruct (Q n (Hsub n Hn)) as [_ <-]. unfold h.
        pose proof (Hmin n n0 Hn (Hsub n0 ltac:(left))). pose proof (Hmin n0 n ltac:(left) (Hsub n Hn)). lia. }
      exists h. split; [|exact Gw]. constructor.
      * exact Hndb.
      * unfold h. destruct (Q n0 (Hsub n0 ltac:(left))) as [_ ->]. 
        assert (0 <= Heap.hinOf (heap s) n0); [|destruct (Q n0 (Hsub n0 ltac:(left))) as [_ <-]; assumption].
        pose proof (Hsub n0 ltac:(left)) as Hin. apply elem_ids in Hin as [x Hx].
        rewrite (hinOf_bucket _ _ _ I Hx). lia.
      * intros n Hn. apply (Q n (Hsub n Hn)).
      * exact Hall.
      * intros n _. apply NL.
      * intros n Hn. apply (reads_below_ext s); [reflexivity|reflexivity|]. rewrite <- (Hall n Hn). apply RD. rewrite (Hall n Hn).
        unfold h. pose proof (Hsub n0 ltac:(left)) as Hin. apply elem_ids in Hin as [x Hx].
        rewrite (hinOf_bucket _ _ _ I Hx). lia.
Qed.

Lemma isLhsNode_is_lhs s n : isLhsNode s n = is_lhs (nkind (nd s n)).
Proof. reflexivity. Qed.

Lemma parts_nolhs s b : (forall n, is_lhs (nkind (nd s n)) = false) -> lhs_part s b = [] /\ rest_part s b = b.
Proof.
  intros H. unfold lhs_part, rest_part. induction b as [|n b [IH1 IH2]]; [split; reflexivity|].
  rewrite !filter_cons, IH1, IH2, isLhsNode_is_lhs, H.
  rewrite decide_False by discriminate. rewrite decide_True by reflexivity. split; reflexivity.
Qed.

Lemma sim_set_heap s s' w w' : s ≈ s' -> heap_sim w w' -> (s <| heap := w |>) ≈ (s' <| heap := w' |>).
Proof. intros [] Hw. constructor; cbn; assumption. Qed.

Lemma parLoopS_sim sched1 sched2 p : fair sched1 -> fair sched2 -> quiet_all p ->
  forall fuel s s' al al' r, pass_ok s -> pass_ok s' -> s ≈ s' -> al ≡ₚ al' ->
  parLoopS sched1 fuel p s al = Ok r ->
  exists r', parLoopS sched2 fuel p s' al' = Ok r' /\ sim_blk r r' /\
             pass_ok r.1.1 /\ pass_ok r'.1.1 /\ r.1.2 = None.
Proof.
  intros F1 F2 Hq. induction fuel as [|fuel IH]; intros s s' al al' r P P' Hs Hal H; [discriminate|].
  cbn [parLoopS] in *. rewrite <- (hs_cnt _ _ (sim_heap _ _ Hs)).
  destruct (Heap.cnt (heap s) <=? 0).
  { injection H as <-. eexists. split; [reflexivity|]. cbn. split; [|auto]. split; [exact Hs|]. split; [reflexivity|exact Hal]. }
  destruct (Heap.takeMinBlock (heap s)) as [b w] eqn:Et.
  destruct (Heap.takeMinBlock (heap s')) as [b' w'] eqn:Et'.
  destruct (takeMinBlock_sim _ _ _ _ _ _ (sim_heap _ _ Hs) Et Et') as [Hb Hw].
  destruct (block_of_pass s b w P Et) as (Pw & h & Okb).
  destruct (block_of_pass s' b' w' P' Et') as (Pw' & h' & Okb').
  set (sw := s <| heap := w |>) in *. set (sw' := s' <| heap := w' |>) in *.
  assert (Hsw : sw ≈ sw') by (apply sim_set_heap; assumption).
  destruct (parts_nolhs sw b (po_nolhs _ Pw)) as [L1 L2]. rewrite L1, L2 in H.
  destruct (parts_nolhs sw' b' (po_nolhs _ Pw')) as [L1' L2']. rewrite L1', L2'.
  cbn [app] in *. unfold run_block_acc in *.
  apply rbind_ok in H as ([[s1 e1] al1] & H1 & H).
  assert (Hqb : quiet p b) by (intros n wh _; apply Hq).
  assert (Hqb' : quiet p b') by (intros n wh _; apply Hq).
  assert (Hl1 : forall x, x ∈ sched1 sw b -> x ∈ b) by (intros x; rewrite (F1 sw b); auto).
  assert (Hl2 : forall x, x ∈ sched2 sw' b' -> x ∈ b') by (intros x; rewrite (F2 sw' b'); auto).
  destruct (run_pass_ok fuel p b h Hqb _ _ _ _ _ Pw Okb Hl1 H1) as [P1 E1]. cbn in P1, E1. subst e1.
  assert (Hperm : sched1 sw b ≡ₚ sched2 sw' b') by (rewrite (F1 sw b), (F2 sw' b'); exact Hb).
  assert (Hnd : NoDup (sched1 sw b)) by (rewrite (F1 sw b); apply (bo_nodup _ _ _ (proj1 Okb))).
  destruct (run_perm fuel p b h Hqb _ _ sw sw' None al al' _ Hperm Okb Hl1 Hnd Hsw Hal H1)
    as ([[s1' e1'] al1'] & H1' & S1 & S2 & S3). cbn in S1, S2, S3. subst e1'.
  destruct (run_pass_ok fuel p b' h' Hqb' _ _ _ _ _ Pw' Okb' Hl2 H1') as [P1' _]. cbn in P1'.
  rewrite H1'. cbn [rbind]. change (parLoopS sched1 fuel p s1 al1 = Ok r) in H.
  eapply (IH s1 s1' al1 al1'); eassumption.
Qed.

(** ** the deferred requeue of always nodes *)
Lemma requeue_char al : forall t,
  rfold (fun s n => if (height (nd s n) =? unset) || inHeap s n then Ok s else heapAdd s n) al t =
  (w <-! addAll (fun c => height (nd t c)) (filter (fun n => height (nd t n) <> unset) al) (heap t); Ok (t <| heap := w |>)).
Proof.
  induction al as [|c al IH]; intros t.
  - cbn. rewrite set_heap_same. reflexivity.
  - cbn [rfold]. rewrite filter_cons. destruct (Z.eqb_spec (height (nd t c)) unset) as [E|E].
    + rewrite decide_False by (intros X; apply X, E). cbn [orb rbind]. apply IH.
    + rewrite decide_True by exact E. rewrite addAll_cons. unfold Heap.addIfNotPresent, inHeap.
      destruct (Heap.mem (heap t) c) eqn:Em; cbn [orb rbind].
      * apply IH.
      * unfold heapAdd. destruct (Heap.add (heap t) c (height (nd t c))) as [w| |]; cbn [rbind]; try reflexivity.
        rewrite IH. cbn. destruct (addAll _ _ w); cbn; reflexivity.
Qed.

(** ** the end of the pass *)
Definition handlerEv (s : state) (k : nid) : event :=
  match obs s !! k with Some n => EvObsUpd k (valueOf s n) | None => EvUpd k end.

Lemma foldl_handlers ks : forall s,
  foldl (fun s k => match obs s !! k with
                    | Some n => emit (EvObsUpd k (valueOf s n)) s
                    | None => emit (EvUpd k) s
                    end) s ks = s <| log := rev (map (handlerEv s) ks) ++ log s |>.
Proof.
  induction ks as [|k ks IH]; intros s; cbn [foldl map rev].
  - destruct s; reflexivity.
  - assert ((match obs s !! k with Some n => emit (EvObsUpd k (valueOf s n)) s | None => emit (EvUpd k) s end)
            = emit (handlerEv s k) s) as -> by (unfold handlerEv; destruct (obs s !! k); reflexivity).
    rewrite IH.
    assert (map (handlerEv (emit (handlerEv s k) s)) ks = map (handlerEv s) ks) as ->.
    { apply map_ext. intros a. unfold handlerEv. change (obs (emit _ s)) with (obs s).
      destruct (obs s !! a); [rewrite valueOf_emit|]; reflexivity. }
    rewrite <- app_assoc. destruct s; reflexivity.
Qed.

Definition endEvs (s : state) (e : option err) : list event :=
  rev (map (handlerEv s) (handlers s)) ++ [EvPassEnd (classify e)].

Lemma handlerEv_ext s t k : nodes t = nodes s -> obs t = obs s -> handlerEv t k = handlerEv s k.
Proof. intros Hn Ho. unfold handlerEv. rewrite Ho. destruct (obs s !! k); [rewrite (valueOf_ext t s _ Hn)|]; reflexivity. Qed.

Lemma stabilizeEnd_char s e : setDuring s = [] -> setRemoved s = [] ->
  stabilizeEnd s e = Ok (s <| log := endEvs s e ++ log s |> <| status := 0 |> <| stabNum := stabNum s + 1 |>
                           <| handlers := [] |> <| setDuring := [] |> <| setRemoved := [] |>).
Proof.
  intros Hd Hr. unfold stabilizeEnd, runUpdateHandlers. rewrite foldl_handlers.
  unfold applyDeferredSets. cbn [setRemoved setDuring set emit]. cbn. rewrite Hr, Hd. cbn.
  apply f_equal. apply state_ext; cbn; try reflexivity.
  unfold endEvs. rewrite <- app_assoc. cbn.
  f_equal. f_equal. apply map_ext. intros k. apply handlerEv_ext; reflexivity.
Qed.

Lemma stabilizeEnd_sim s s' e t : s ≈ s' -> setDuring s = [] -> setRemoved s = [] ->
  stabilizeEnd s e = Ok t -> exists t', stabilizeEnd s' e = Ok t' /\ t ≈ t'.
Proof.
  intros Hs Hd Hr H. rewrite (stabilizeEnd_char s e Hd Hr) in H. injection H as <-.
  destruct Hs as [Sn Sb Snx Sr So Sh Sa Si Sst Sstat Snn Ssd Ssr Shd Smx Sl].
  rewrite (stabilizeEnd_char s' e) by congruence. eexists. split; [reflexivity|].
  constructor; cbn; try assumption; try reflexivity.
  - rewrite Sst. reflexivity.
  - unfold endEvs. rewrite Shd.
    rewrite (map_ext (handlerEv s) (handlerEv s')) by (intros k; symmetry; apply handlerEv_ext; congruence).
    apply Permutation_app_head. exact Sl.
Qed.

Lemma pass_ok_core s t : nodes t = nodes s -> binds t = binds s -> heap t = heap s -> stabNum t = stabNum s ->
  setDuring t = setDuring s -> setRemoved t = setRemoved s -> pass_ok s -> pass_ok t.
Proof.
  intros Hn Hb Hh Hst Hd Hr [G I Q NL HR RD SD SR].
  assert (Hnd : forall x, nd t x = nd s x) by (intros x; apply nd_ext, Hn).
  constructor.
  - destruct G as [G1 G2 G3 G4]. constructor.
    + rewrite Hh. exact G1.
    + intros n c. rewrite !Hnd. apply G2.
    + intros c q. rewrite !Hnd. apply G3.
    + intros x. rewrite Hnd, Hst. apply G4.
  - rewrite Hh. exact I.
  - intros n. rewrite Hh, Hn, Hnd. apply Q.
  - intros n. rewrite Hnd. apply NL.
  - intros n. rewrite Hnd. apply HR.
  - intros n. rewrite Hnd. intros H0. apply (reads_below_ext s); auto.
  - intros v. rewrite Hd, Hnd. apply SD.
  - congruence.
Qed.

Lemma parLoopS_queue_order fuel : forall p s al, parLoopS queue_order fuel p s al = parLoop fuel p s al.
Proof.
  induction fuel as [|fuel IH]; intros p s al; [reflexivity|]. cbn [parLoopS parLoop].
  destruct (Heap.cnt (heap s) <=? 0); [reflexivity|]. destruct (Heap.takeMinBlock (heap s)) as [b w].
  unfold run_block_acc, queue_order, lhs_part, rest_part, isLhsNode, block_step.
  destruct (rfold _ _ _) as [[[s1 e1] al1]| |]; cbn [rbind]; try reflexivity.
  destruct e1; [reflexivity|apply IH].
Qed.

Lemma parStabilizeS_queue_order p s : parStabilizeS queue_order p s = parStabilize p s.
Proof. unfold parStabilizeS, parStabilize. rewrite parLoopS_queue_order. reflexivity. Qed.

(** ** what ≈ preserves: everything observable *)
Lemma ids_sim w v : heap_sim w v -> Heap.ids w ≡ₚ Heap.ids v.
Proof.
  intros H. unfold Heap.ids. induction (hs_buckets _ _ H) as [|b b' bs bs' Hb _ IH]; [reflexivity|].
  cbn. rewrite Hb, IH. reflexivity.
Qed.

Theorem sim_observables s s' : s ≈ s' ->
  (forall n, valueOf s n = valueOf s' n) /\ (forall n, nd s n = nd s' n) /\
  obs s = obs s' /\ reg s = reg s' /\ numNodes s = numNodes s' /\ binds s = binds s' /\
  Heap.ids (heap s) ≡ₚ Heap.ids (heap s') /\ (forall n, inHeap s n = inHeap s' n) /\
  updEvents s ≡ₚ updEvents s'.
Proof.
  intros [Sn Sb Snx Sr So Sh Sa Si Sst Sstat Snn Ssd Ssr Shd Smx Sl].
  split; [intros n; apply valueOf_ext, Sn|]. split; [intros n; apply nd_ext, Sn|].
  repeat (split; [assumption|]).
  split; [apply ids_sim, Sh|]. split; [intros n; apply heap_sim_mem, Sh|].
  unfold updEvents. rewrite Sl. reflexivity.
Qed.

(** * H. Soundness of the boolean hypotheses *)
Lemma elem_nodeIds s n : n ∈ nodeIds s <-> has s n.
Proof.
  unfold nodeIds, has. rewrite elem_of_list_fmap. split.
  - intros ([k x] & -> & Hx). apply elem_of_map_to_list in Hx. cbn. eauto.
  - intros [x Hx]. exists (n, x). split; [reflexivity|]. apply elem_of_map_to_list. exact Hx.
Qed.

Lemma forall_nodes (P : nid -> Prop) s (Q : nid -> bool) :
  forallb Q (nodeIds s) = true -> (forall n, Q n = true -> P n) -> (forall n, ~ has s n -> P n) -> forall n, P n.
Proof.
  intros HQ HP Hd n. destruct (decide (n ∈ nodeIds s)) as [Hin|Hnin].
  - apply HP. rewrite forallb_forall in HQ. apply HQ, elem_of_list_In, Hin.
  - apply Hd. rewrite <- elem_nodeIds. exact Hnin.
Qed.

Lemma nd_missing s n : ~ has s n -> nd s n = dummy.
Proof. unfold has, nd. intros H. destruct (nodes s !! n); [exfalso; apply H; eauto|reflexivity]. Qed.

Lemma graph_okb_sound s : graph_okb s = true -> graph_ok s.
Proof.
  unfold graph_okb. rewrite !andb_true_iff. intros ((((H1 & H0) & H2) & H3) & H4).
  constructor.
  - lia.
  - intros n. apply (forall_nodes (fun n => forall c, c ∈ children (nd s n) -> n ∈ parents (nd s c)) s _ H2).
    + intros m Hm c Hc. rewrite forallb_forall in Hm. apply elem_of_list_In, Hm in Hc.
      apply bool_decide_eq_true in Hc. exact Hc.
    + intros m Hm c Hc. rewrite (nd_missing _ _ Hm) in Hc. inversion Hc.
  - intros c. apply (forall_nodes (fun c => forall q, q ∈ parents (nd s c) -> height (nd s q) < height (nd s c)) s _ H3).
    + intros m Hm q Hq. rewrite forallb_forall in Hm. apply elem_of_list_In, Hm in Hq. lia.
    + intros m Hm q Hq. rewrite (nd_missing _ _ Hm) in Hq. inversion Hq.
  - apply (forall_nodes (fun x => changedAt (nd s x) <= stabNum s) s _ H4).
    + intros m Hm. lia.
    + intros m Hm. rewrite (nd_missing _ _ Hm). cbn. lia.
Qed.

Lemma reads_belowb_sound s n h : reads_belowb s n h = true -> reads_below s n h.
Proof.
  unfold reads_belowb. rewrite forallb_forall. intros H a m Ha Hv.
  apply elem_of_list_In, H in Ha. rewrite Hv in Ha. lia.
Qed.

Lemma block_okb_sound s B h : block_okb s B h = true -> block_ok s B h.
Proof.
  unfold block_okb. rewrite !andb_true_iff. intros ((H1 & H2) & H3).
  apply bool_decide_eq_true in H1. rewrite forallb_forall in H3.
  assert (H : forall n, n ∈ B -> is_Some (nodes s !! n) /\ height (nd s n) = h /\
                                 is_lhs (nkind (nd s n)) = false /\ reads_below s n h).
  { intros n Hn. apply elem_of_list_In, H3 in Hn. rewrite !andb_true_iff in Hn.
    destruct Hn as (((A1 & A2) & A3) & A4). apply bool_decide_eq_true in A1.
    split; [exact A1|]. split; [lia|]. split; [destruct (is_lhs _); [discriminate|reflexivity]|].
    apply reads_belowb_sound, A4. }
  constructor; try (intros n Hn; apply (H n Hn)); [exact H1|lia].
Qed.

Lemma elem_ibuckets w k b : (k, b) ∈ ibuckets w <-> Heap.buckets w !! k = Some b.
Proof.
  unfold ibuckets. rewrite elem_of_lookup_imap. split.
  - intros (i & x & [= -> ->] & Hx). exact Hx.
  - intros H. exists k, b. auto.
Qed.

Lemma heap_invb_sound w : heap_invb w = true -> HeapSpec.inv w.
Proof.
  unfold heap_invb. rewrite !andb_true_iff. intros ((((H1 & H2) & H3) & H4) & H5).
  apply bool_decide_eq_true in H1. rewrite forallb_forall in H2, H3.
  assert (Hb : forall k n, n ∈ Heap.bucket w k -> Heap.hin w !! n = Some (Z.of_nat k)).
  { intros k n Hn. unfold Heap.bucket in Hn. destruct (Heap.buckets w !! k) as [b|] eqn:Eb; [|inversion Hn].
    cbn in Hn. specialize (H3 (k, b)). cbn in H3. rewrite forallb_forall in H3.
    apply (proj1 (bool_decide_eq_true _)). apply H3; [|apply elem_of_list_In, Hn].
    apply elem_of_list_In, elem_ibuckets, Eb. }
  constructor.
  - exact H1.
  - intros n x. split.
    + intros Hx. specialize (H2 (n, x)). cbn in H2. rewrite andb_true_iff in H2.
      destruct H2 as [A1 A2]; [apply elem_of_list_In, elem_of_map_to_list, Hx|].
      apply bool_decide_eq_true in A2. split; [lia|exact A2].
    + intros [Hx Hn]. rewrite (Hb _ _ Hn). f_equal. lia.
  - lia.
  - intros Hpos. destruct (Z.ltb_spec 0 (Heap.cnt w)); [|lia].
    rewrite !andb_true_iff in H5. destruct H5 as ((A1 & A2) & A3). rewrite forallb_forall in A3.
    split; [lia|]. split; [|lia].
    intros k Hk. unfold Heap.bucket in Hk. destruct (Heap.buckets w !! k) as [b|] eqn:Eb; [|contradiction].
    cbn in Hk. specialize (A3 (k, b)). cbn in A3. destruct b; [contradiction|].
    rewrite andb_true_iff in A3. destruct A3; [apply elem_of_list_In, elem_ibuckets, Eb|]. lia.
Qed.

Lemma pass_okb_sound s : pass_okb s = true -> pass_ok s.
Proof.
  unfold pass_okb. rewrite !andb_true_iff. intros (((((H1 & H2) & H3) & H4) & H5) & H6).
  apply bool_decide_eq_true in H6. rewrite forallb_forall in H3, H5.
  assert (H : forall n, is_lhs (nkind (nd s n)) = false /\ -1 <= height (nd s n) /\
                        (0 <= height (nd s n) -> reads_below s n (height (nd s n)))).
  { apply (forall_nodes _ s _ H4).
    - intros n Hn. rewrite !andb_true_iff, orb_true_iff in Hn. destruct Hn as ((A1 & A2) & A3).
      split; [destruct (is_lhs _); [discriminate|reflexivity]|]. split; [lia|].
      intros Hh. destruct A3 as [A3|A3]; [lia|apply reads_belowb_sound, A3].
    - intros n Hn. rewrite (nd_missing _ _ Hn). cbn. split; [reflexivity|]. unfold unset. split; [lia|]. intros X. lia. }
  constructor; try assumption; try (intros n; apply (H n)); try (intros v Hv; apply H5, elem_of_list_In, Hv).
  - apply graph_okb_sound, H1.
  - apply heap_invb_sound, H2.
  - intros n Hn. apply elem_of_list_In, H3 in Hn. rewrite andb_true_iff in Hn. destruct Hn as [A1 A2].
    apply bool_decide_eq_true in A1. split; [exact A1|lia].
Qed.

(** * I. Node functions that set vars *)
Lemma varSet_deferred s v x : status s = 1 -> varSet s v x = Ok (varSetD s v x).
Proof.
  intros Hst. unfold varSet, varSetD. destruct (_ && _ && _); [reflexivity|]. rewrite Hst. reflexivity.
Qed.

Lemma status_varSetD s v x : status (varSetD s v x) = status s.
Proof. unfold varSetD. destruct (_ && _ && _); reflexivity. Qed.

Lemma status_setAct s a : status (setAct s a) = status s.
Proof. destruct a; cbn [setAct]; try apply status_varSetD. reflexivity. Qed.

Lemma status_setsT acts : forall s, status (setsT acts s) = status s.
Proof.
  induction acts as [|a acts IH]; intros s; [reflexivity|]. cbn [setsT foldl]. fold (setsT acts (setAct s a)).
  rewrite IH. apply status_setAct.
Qed.

Lemma applyActions_sets acts : forall s, status s = 1 -> (forall a, a ∈ acts -> is_fault a = false) ->
  applyActions s acts = Ok (setsT acts s, None).
Proof.
  unfold applyActions. induction acts as [|a acts IH]; intros s Hst Hnf; [reflexivity|].
  cbn [rfold setsT foldl]. fold (setsT acts (setAct s a)).
  assert (Ha : is_fault a = false) by (apply Hnf; left).
  assert (Hrest : forall a0, a0 ∈ acts -> is_fault a0 = false) by (intros; apply Hnf; right; assumption).
  destruct a as [k|v x|v d]; [discriminate| |]; cbn [setAct].
  - rewrite (varSet_deferred s v x Hst). cbn [rbind]. apply IH; [rewrite status_varSetD; exact Hst|exact Hrest].
  - unfold varUpdate. rewrite (varSet_deferred s v _ Hst). cbn [rbind].
    apply IH; [rewrite status_varSetD; exact Hst|exact Hrest].
Qed.

Lemma invoke_sets p s n w : status s = 1 -> (forall a, a ∈ actions_of p n w -> is_fault a = false) ->
  invoke p s n w = Ok (setsT (actions_of p n w) s, None).
Proof. intros Hst Hnf. unfold invoke. rewrite (applyActions_sets _ s Hst Hnf). reflexivity. Qed.

(** ** frame: the sets only touch [pending] fields and [setDuring] *)
Definition pend_eq (s t : state) : Prop := forall m, exists q, nd t m = nd s m <| pending := q |>.

Lemma pend_eq_refl s : pend_eq s s.
Proof. intros m. exists (pending (nd s m)). destruct (nd s m); reflexivity. Qed.

Lemma pend_eq_trans s t u : pend_eq s t -> pend_eq t u -> pend_eq s u.
Proof. intros H1 H2 m. destruct (H1 m) as [q1 E1], (H2 m) as [q2 E2]. exists q2. rewrite E2, E1. destruct (nd s m); reflexivity. Qed.

Lemma pend_eq_varSetD s v x : pend_eq s (varSetD s v x).
Proof.
  unfold varSetD. destruct (_ && _ && _); [apply pend_eq_refl|]. intros m.
  change (nd (_ <| setDuring := _ |>) m) with (nd (upd s v (set pending (fun _ => Some x))) m).
  unfold nd, upd; cbn. rewrite nd_alter. destruct (decide (m = v)) as [->|].
  - destruct (nodes s !! v) as [y|]; cbn; [exists (Some x); destruct y; reflexivity|exists None; reflexivity].
  - exists (pending (default dummy (nodes s !! m))). destruct (default dummy (nodes s !! m)); reflexivity.
Qed.

Lemma pend_eq_setAct s a : pend_eq s (setAct s a).
Proof. destruct a; cbn [setAct]; try apply pend_eq_varSetD. apply pend_eq_refl. Qed.

Lemma pend_eq_setsT acts : forall s, pend_eq s (setsT acts s).
Proof.
  induction acts as [|a acts IH]; intros s; [apply pend_eq_refl|]. cbn [setsT foldl]. fold (setsT acts (setAct s a)).
  eapply pend_eq_trans; [apply pend_eq_setAct|apply IH].
Qed.

(* the other fields *)
Definition rest_eq (s t : state) : Prop :=
  binds t = binds s /\ next t = next s /\ reg t = reg s /\ obs t = obs s /\ heap t = heap s /\ adj t = adj s /\
  invq t = invq s /\ stabNum t = stabNum s /\ status t = status s /\ numNodes t = numNodes s /\
  setRemoved t = setRemoved s /\ handlers t = handlers s /\ maxHeight t = maxHeight s /\ log t = log s /\
  (forall m, has t m <-> has s m).

Lemma rest_eq_refl s : rest_eq s s.
Proof. repeat split; auto. Qed.

Lemma rest_eq_trans s t u : rest_eq s t -> rest_eq t u -> rest_eq s u.
Proof.
  intros (A1&A2&A3&A4&A5&A6&A7&A8&A9&A10&A11&A12&A13&A14&A15) (B1&B2&B3&B4&B5&B6&B7&B8&B9&B10&B11&B12&B13&B14&B15).
  repeat split; try congruence; intros; [apply A15, B15|apply B15, A15]; assumption.
Qed.

Lemma rest_eq_varSetD s v x : rest_eq s (varSetD s v x).
Proof.
  unfold varSetD. destruct (_ && _ && _); [apply rest_eq_refl|].
  repeat split; try reflexivity; unfold has; cbn; intros H.
  - destruct (decide (m = v)) as [->|]; [rewrite lookup_alter, fmap_is_Some in H|rewrite lookup_alter_ne in H by congruence]; exact H.
  - destruct (decide (m = v)) as [->|]; [rewrite lookup_alter, fmap_is_Some|rewrite lookup_alter_ne by congruence]; exact H.
Qed.

Lemma rest_eq_setAct s a : rest_eq s (setAct s a).
Proof. destruct a; cbn [setAct]; try apply rest_eq_varSetD. apply rest_eq_refl. Qed.

Lemma rest_eq_setsT acts : forall s, rest_eq s (setsT acts s).
Proof.
  induction acts as [|a acts IH]; intros s; [apply rest_eq_refl|]. cbn [setsT foldl]. fold (setsT acts (setAct s a)).
  eapply rest_eq_trans; [apply rest_eq_setAct|apply IH].
Qed.

(** what does not look at [pending] *)
Lemma pend_proj {A} (g : node -> A) s t m : pend_eq s t -> (forall y q, g (y <| pending := q |>) = g y) -> g (nd t m) = g (nd s m).
Proof. intros H Hg. destruct (H m) as [q ->]. apply Hg. Qed.

Lemma pend_shape s t : pend_eq s t -> same_shape s t.
Proof. intros H m. split; [apply (pend_proj nkind)|apply (pend_proj decl)]; auto. Qed.

Lemma pend_valueOf s t a : pend_eq s t -> valueOf t a = valueOf s a.
Proof. intros H. apply valueOf_shape; [apply pend_shape, H|]. intros m _. apply (pend_proj value); auto. Qed.

(** updates of other fields commute with the sets *)
Definition pend_compat (f : node -> node) : Prop :=
  (forall y, nkind (f y) = nkind y) /\ (forall y, value (f y) = value y) /\ (forall y, pending (f y) = pending y) /\
  (forall y q, f (y <| pending := q |>) = f y <| pending := q |>).

Lemma alter_alter_comm (mp : gmap nid node) f g n v :
  (forall y, f (g y) = g (f y)) -> alter f v (alter g n mp) = alter g n (alter f v mp).
Proof.
  intros H. destruct (decide (v = n)) as [->|Hne].
  - rewrite <- !alter_compose. apply alter_ext. intros y _. apply H.
  - apply alter_commute. exact Hne.
Qed.

Lemma varSetD_upd s n f v x : pend_compat f -> varSetD (upd s n f) v x = upd (varSetD s v x) n f.
Proof.
  intros (F1 & F2 & F3 & F4). unfold varSetD.
  rewrite (nd_upd_proj nkind s n f v F1), (nd_upd_proj pending s n f v F3), (nd_upd_proj value s n f v F2).
  destruct (_ && _ && _); [reflexivity|].
  apply state_ext; try reflexivity. cbn. apply alter_alter_comm. intros y. symmetry. apply F4.
Qed.

Lemma setAct_upd s n f a : pend_compat f -> setAct (upd s n f) a = upd (setAct s a) n f.
Proof.
  intros F. destruct a as [k|v x|v d]; cbn [setAct]; [reflexivity|apply varSetD_upd, F|].
  destruct F as (F1 & F2 & F3 & F4).
  rewrite (nd_upd_proj pending s n f v F3), (nd_upd_proj value s n f v F2).
  apply varSetD_upd. repeat split; assumption.
Qed.

Lemma setsT_upd acts : forall s n f, pend_compat f -> setsT acts (upd s n f) = upd (setsT acts s) n f.
Proof.
  induction acts as [|a acts IH]; intros s n f F; [reflexivity|]. cbn [setsT foldl].
  fold (setsT acts (setAct (upd s n f) a)). fold (setsT acts (setAct s a)).
  rewrite (setAct_upd s n f a F). apply IH, F.
Qed.

Lemma pend_compat_stamp k : pend_compat (set recomputedAt (fun _ => k)).
Proof. repeat split. Qed.

(** running the node with the plan = running it without a plan on the state where its sets have
    been applied *)
Lemma rnp_shift fuel p s n :
  has s n -> is_lhs (nkind (nd s n)) = false -> status s = 1 ->
  (forall a, a ∈ nodeActs p s n -> is_fault a = false) ->
  recomputeNodeParallel fuel p s n = recomputeNodeParallel fuel [] (setsT (nodeActs p s n) s) n.
Proof.
  intros Hn Hk Hst Hnf.
  set (A := nodeActs p s n) in *. set (s' := setsT A s).
  pose proof (pend_eq_setsT A s) as PE. pose proof (rest_eq_setsT A s) as RE.
  assert (Hstab : stabNum s' = stabNum s) by apply RE.
  unfold recomputeNodeParallel. rewrite Hstab.
  set (s0 := upd s n (set recomputedAt (fun _ => stabNum s))).
  set (s0' := upd s' n (set recomputedAt (fun _ => stabNum s))).
  assert (E0 : setsT A s0 = s0') by (apply setsT_upd, pend_compat_stamp).
  assert (Hst0 : status s0 = 1) by exact Hst.
  assert (Hkind : nkind (nd s' n) = nkind (nd s n)) by (apply (pend_proj nkind); auto).
  assert (Hdecl : decl (nd s' n) = decl (nd s n)) by (apply (pend_proj decl); auto).
  assert (Hval : value (nd s' n) = value (nd s n)) by (apply (pend_proj value); auto).
  assert (Hk0 : nkind (nd s0 n) = nkind (nd s n)) by (apply (nd_upd_proj nkind); reflexivity).
  assert (Hk0' : nkind (nd s0' n) = nkind (nd s n)) by (unfold s0'; rewrite (nd_upd_proj nkind) by reflexivity; exact Hkind).
  assert (Hd0 : decl (nd s0 n) = decl (nd s n)) by (apply (nd_upd_proj decl); reflexivity).
  assert (Hd0' : decl (nd s0' n) = decl (nd s n)) by (unfold s0'; rewrite (nd_upd_proj decl) by reflexivity; exact Hdecl).
  assert (Hv : forall a, valueOf s0' a = valueOf s0 a).
  { intros a. rewrite <- E0. apply pend_valueOf, pend_eq_setsT. }
  rewrite Hkind, Hdecl, Hval.
  unfold A, nodeActs in *. destruct (nkind (nd s n)) eqn:Ek; try discriminate.
  6: { (* KCutoff *)
    rewrite (invoke_sets p s0 n WCut Hst0 Hnf), E0. rewrite ?Hd0, ?Hd0', ?Hv.
    change (invoke [] s0' n WCut) with (Ok (s0', @None err)). cbn [rbind].
    destruct (apCut _ _ _); [reflexivity|].
    unfold stabilizeNode. change (nd (emit ?e s0') n) with (nd s0' n). rewrite ?Hk0', ?Hd0'. reflexivity. }
  all: cbn [rbind]; unfold stabilizeNode; rewrite ?Hk0, ?Hk0', ?Hd0, ?Hd0', ?Hv.
  all: try reflexivity.
  - (* KMap *)
    rewrite (invoke_sets p s0 n WFn Hst0 Hnf), E0. reflexivity.
  - rewrite (invoke_sets p s0 n WFn Hst0 Hnf), E0. reflexivity.
  - rewrite (invoke_sets p s0 n WFn Hst0 Hnf), E0. rewrite (map_ext _ _ Hv). reflexivity.
Qed.

(** ** the hypotheses do not look at [pending] / [setDuring] *)
Lemma reads_pend s t n : pend_eq s t -> binds t = binds s -> reads t n = reads s n.
Proof.
  intros PE Hb. apply reads_shape; [|exact Hb]. intros m. right. apply (pend_shape s t PE m).
Qed.

Lemma ok_state_pend s t B h : pend_eq s t -> rest_eq s t -> ok_state s B h -> ok_state t B h.
Proof.
  intros PE RE [Bo G]. destruct RE as (Rb&_&_&_&Rh&_&_&Rst&_&_&_&_&_&_&Rhas).
  assert (Hshape : same_shape s t) by apply pend_shape, PE.
  assert (Hheight : forall m, height (nd t m) = height (nd s m)) by (intros m; apply (pend_proj height); auto).
  split.
  - destruct Bo as [B1 B2 B3 B4 B5 B6]. constructor; auto.
    + intros x Hx. apply Rhas, B3, Hx.
    + intros x Hx. rewrite Hheight. auto.
    + intros x Hx. rewrite (pend_proj nkind s t x PE) by auto. auto.
    + intros x Hx a m Ha Hv. rewrite Hheight. rewrite (reads_pend s t x PE Rb) in Ha.
      rewrite (vsrc_shape s t a Hshape) in Hv. eapply B6; eauto.
  - destruct G as [G1 G2 G3 G4]. constructor.
    + rewrite Rh. exact G1.
    + intros n c. rewrite (pend_proj children s t n PE), (pend_proj parents s t c PE) by auto. apply G2.
    + intros c q. rewrite (pend_proj parents s t c PE), !Hheight by auto. apply G3.
    + intros x. rewrite (pend_proj changedAt s t x PE), Rst by auto. apply G4.
Qed.

Section pend_inv.
  Context (s t : state) (PE : pend_eq s t) (Hb : binds t = binds s) (Hst : stabNum t = stabNum s).

  Lemma cutv_pend n : cutv t n = cutv s n.
  Proof.
    unfold cutv. rewrite (pend_proj nkind s t n PE), (pend_proj value s t n PE), (pend_proj decl s t n PE) by auto.
    destruct (nkind (nd s n)); try reflexivity. rewrite (pend_valueOf s t _ PE). reflexivity.
  Qed.

  Lemma newval_pend n : newval t n = newval s n.
  Proof.
    unfold newval. rewrite (pend_proj nkind s t n PE), (pend_proj decl s t n PE) by auto.
    destruct (nkind (nd s n)); try reflexivity; rewrite ?(pend_valueOf s t _ PE); try reflexivity.
    - rewrite (map_ext _ _ (fun a => pend_valueOf s t a PE)). reflexivity.
    - rewrite (bd_ext t s _ Hb). destruct (b_rhs (bd s b)); rewrite ?(pend_valueOf s t _ PE); reflexivity.
  Qed.

  Lemma localEvs_pend n : localEvs t n = localEvs s n.
  Proof.
    unfold localEvs. rewrite (pend_proj nkind s t n PE), (pend_proj decl s t n PE), (pend_proj value s t n PE) by auto.
    destruct (nkind (nd s n)); try reflexivity; rewrite ?(pend_valueOf s t _ PE); try reflexivity.
    rewrite (map_ext _ _ (fun a => pend_valueOf s t a PE)). reflexivity.
  Qed.

  Lemma localF_pend n y : localF t n y = localF s n y.
  Proof. unfold localF. rewrite cutv_pend, newval_pend, Hst. reflexivity. Qed.

  Lemma hkeys_pend n : hkeys t n = hkeys s n.
  Proof. unfold hkeys. rewrite cutv_pend, (pend_proj observers s t n PE) by auto. reflexivity. Qed.

  Lemma wantPush_pend c : wantPush t c = wantPush s c.
  Proof.
    unfold wantPush, isStale, staleWrtParents, isNecessary.
    rewrite (pend_proj forceNec s t c PE), (pend_proj children s t c PE), (pend_proj observers s t c PE),
      (pend_proj valid s t c PE), (pend_proj nkind s t c PE), (pend_proj recomputedAt s t c PE),
      (pend_proj parents s t c PE), Hst by auto.
    assert (existsb (fun q => changedAt (nd t q) >? recomputedAt (nd s c)) (parents (nd s c)) =
            existsb (fun q => changedAt (nd s q) >? recomputedAt (nd s c)) (parents (nd s c))) as ->; [|reflexivity].
    induction (parents (nd s c)) as [|q l IH]; [reflexivity|]. cbn [existsb].
    rewrite IH, (pend_proj changedAt s t q PE) by auto. reflexivity.
  Qed.
End pend_inv.

Lemma localF_pending s n y q : localF s n (y <| pending := q |>) = localF s n y <| pending := q |>.
Proof. unfold localF. destruct (cutv s n); [|destruct (newval s n)]; reflexivity. Qed.

Lemma pend_eq_afterLocal s t n : pend_eq s t -> binds t = binds s -> stabNum t = stabNum s ->
  (has t n <-> has s n) -> pend_eq (afterLocal s n) (afterLocal t n).
Proof.
  intros PE Hb Hst Hhas m. rewrite !nd_afterLocal. destruct (decide (m = n)) as [->|]; [|apply PE].
  destruct (PE n) as [q Eq]. unfold nd in Eq. unfold has in Hhas.
  destruct (nodes s !! n) as [x|] eqn:Es, (nodes t !! n) as [x'|] eqn:Et; cbn in Eq.
  - exists q. rewrite Eq, (localF_pend s t PE Hb Hst), localF_pending. reflexivity.
  - exfalso. destruct Hhas as [_ H]. destruct H as [? H]; [eauto|discriminate].
  - exfalso. destruct Hhas as [H _]. destruct H as [? H]; [eauto|discriminate].
  - exists None. reflexivity.
Qed.

Lemma pushlist_pend s t n : pend_eq s t -> binds t = binds s -> stabNum t = stabNum s ->
  (has t n <-> has s n) -> pushlist t n = pushlist s n.
Proof.
  intros PE Hb Hst Hhas. unfold pushlist. rewrite (cutv_pend s t PE). destruct (cutv s n); [reflexivity|].
  rewrite (pend_proj children s t n PE) by auto. apply list_filter_iff. intros c.
  rewrite (wantPush_pend (afterLocal s n) (afterLocal t n)); [reflexivity| |exact Hst].
  apply pend_eq_afterLocal; assumption.
Qed.

(** ** the sets commute with the effect of a recompute *)
Definition applyEff (F : node -> node) (n : nid) (evs : list event) (w : Heap.t) (H : list nid) (u : state) : state :=
  u <| nodes := alter F n (nodes u) |> <| log := evs ++ log u |> <| heap := w |> <| handlers := H |>.

Lemma targets_cons a l : targets (a :: l) = match target a with Some v => v :: targets l | None => targets l end.
Proof. reflexivity. Qed.

Section eff.
  Context (F : node -> node) (n : nid) (evs : list event) (w : Heap.t) (H : list nid).
  Context (F1 : forall y, nkind (F y) = nkind y) (F3 : forall y, pending (F y) = pending y)
          (F4 : forall y q, F (y <| pending := q |>) = F y <| pending := q |>).
  Notation G := (applyEff F n evs w H).

  Lemma nd_G_proj {A} (g : node -> A) u m : (forall y, g (F y) = g y) -> g (nd (G u) m) = g (nd u m).
  Proof.
    intros Hg. unfold nd, applyEff; cbn. rewrite nd_alter. destruct (decide (m = n)) as [->|]; [|reflexivity].
    destruct (nodes u !! n); cbn; [apply Hg|reflexivity].
  Qed.

  Lemma nd_G_ne u m : m <> n -> nd (G u) m = nd u m.
  Proof. intros Hne. unfold nd, applyEff; cbn. rewrite nd_alter, decide_False by exact Hne. reflexivity. Qed.

  Definition val_ok (v : nid) : Prop := v <> n \/ forall y, value (F y) = value y.

  Lemma value_G u v : val_ok v -> value (nd (G u) v) = value (nd u v).
  Proof. intros [Hne|Hv]; [rewrite nd_G_ne by exact Hne; reflexivity|apply nd_G_proj, Hv]. Qed.

  Lemma varSetD_G u v x : val_ok v -> varSetD (G u) v x = G (varSetD u v x).
  Proof.
    intros Hv. unfold varSetD. rewrite (nd_G_proj nkind u v F1), (nd_G_proj pending u v F3), (value_G u v Hv).
    destruct (_ && _ && _); [reflexivity|].
    apply state_ext; try reflexivity. cbn. apply alter_alter_comm. intros y. symmetry. apply F4.
  Qed.

  Lemma setAct_G u a : (forall v, target a = Some v -> val_ok v) -> setAct (G u) a = G (setAct u a).
  Proof.
    intros Hv. destruct a as [k|v x|v d]; cbn [setAct]; [reflexivity|apply varSetD_G, Hv; reflexivity|].
    assert (Hvv : val_ok v) by (apply Hv; reflexivity).
    rewrite (nd_G_proj pending u v F3), (value_G u v Hvv). apply varSetD_G, Hvv.
  Qed.

  Lemma setsT_G acts : forall u, (forall v, v ∈ targets acts -> val_ok v) -> setsT acts (G u) = G (setsT acts u).
  Proof.
    induction acts as [|a acts IH]; intros u Hv; [reflexivity|]. cbn [setsT foldl].
    fold (setsT acts (setAct (G u) a)). fold (setsT acts (setAct u a)).
    rewrite setAct_G.
    - apply IH. intros v Hin. apply Hv. rewrite targets_cons. destruct (target a); [right|]; exact Hin.
    - intros v Ev. apply Hv. rewrite targets_cons, Ev. left.
  Qed.
End eff.

Lemma localF_value_var s n y : isVarKind (nkind (nd s n)) = true -> value (localF s n y) = value y.
Proof.
  intros Hk. unfold localF, cutv, newval. destruct (nkind (nd s n)); try discriminate. reflexivity.
Qed.

Lemma rnp_spec_applyEff s n s1 e : rnp_spec s n = Ok (s1, e) ->
  exists w, addAll (fun c => height (nd s c)) (pushlist s n) (heap s) = Ok w /\
            s1 = applyEff (localF s n) n (localEvs s n) w (newHandlers s n) s /\ e = None.
Proof. intros H. apply rnp_spec_inv in H as (-> & w & Hw & ->). exists w. auto. Qed.

(** D: a recompute followed by sets = the sets followed by the recompute *)
Lemma rnp_spec_setsT s n s1 e acts :
  (forall v, v ∈ targets acts -> isVarKind (nkind (nd s v)) = true) ->
  rnp_spec s n = Ok (s1, e) -> rnp_spec (setsT acts s) n = Ok (setsT acts s1, e).
Proof.
  intros Hvars H. destruct (rnp_spec_applyEff _ _ _ _ H) as (w & Hw & -> & ->).
  set (t := setsT acts s).
  pose proof (pend_eq_setsT acts s) as PE. pose proof (rest_eq_setsT acts s) as RE. fold t in PE, RE.
  destruct RE as (Rb&Rnx&Rr&Ro&Rh&Ra&Ri&Rst&Rstat&Rnn&Rsr&Rhd&Rmx&Rlog&Rhas).
  rewrite (setsT_G (localF s n) n (localEvs s n) w (newHandlers s n)).
  - unfold rnp_spec. rewrite (pushlist_pend s t n PE Rb Rst (Rhas n)), Rh.
    rewrite (addAll_ext _ (fun c => height (nd s c))) by (intros c _; apply (pend_proj height); auto).
    rewrite Hw. cbn [rbind]. apply (f_equal (fun x : state => Ok (x, @None err))).
    apply state_ext; try reflexivity; cbn.
    + apply alter_ext. intros y _. apply (localF_pend s t PE Rb Rst).
    + unfold newHandlers. rewrite Rhd, (hkeys_pend s t PE). reflexivity.
    + rewrite (localEvs_pend s t PE). reflexivity.
  - intros y. apply localF_frame.
  - intros y. apply localF_frame.
  - intros y q. apply localF_pending.
  - intros v Hv. destruct (decide (v = n)) as [->|Hne]; [right|left; exact Hne].
    intros y. apply localF_value_var, Hvars, Hv.
Qed.

(** ** sets on different vars commute *)
Lemma varSetD_nd_other s u y v : v <> u -> nd (varSetD s u y) v = nd s v.
Proof.
  intros Hne. unfold varSetD. destruct (_ && _ && _); [reflexivity|].
  change (nd (_ <| setDuring := _ |>) v) with (nd (upd s u (set pending (fun _ => Some y))) v).
  apply nd_upd_ne, Hne.
Qed.

Lemma varSetD_comm s u y v x : u <> v ->
  varSetD (varSetD s u y) v x = varSetD (varSetD s v x) u y.
Proof.
  intros Hne. unfold varSetD at 1 3.
  rewrite (varSetD_nd_other s u y v) by congruence. rewrite (varSetD_nd_other s v x u) by congruence.
  set (cu := (match nkind (nd s u) with KVar e => e | _ => false end) && _ && _).
  set (cv := (match nkind (nd s v) with KVar e => e | _ => false end) && _ && _).
  unfold varSetD. fold cu cv. destruct cu, cv; try reflexivity.
  apply state_ext; try reflexivity; cbn.
  - apply alter_commute. congruence.
  - apply insert_sorted_comm.
Qed.

Definition tgt_ne (a b : action) : Prop := forall u v, target a = Some u -> target b = Some v -> u <> v.

Lemma setAct_comm s a b : tgt_ne a b -> setAct (setAct s a) b = setAct (setAct s b) a.
Proof.
  intros Hne. destruct a as [ka|u y|u d], b as [kb|v x|v e]; cbn [setAct]; try reflexivity.
  all: assert (Huv : u <> v) by (apply Hne; reflexivity).
  all: rewrite ?(varSetD_nd_other s u _ v) by congruence; rewrite ?(varSetD_nd_other s v _ u) by congruence.
  all: apply varSetD_comm, Huv.
Qed.

Lemma setsT_cons a acts s : setsT (a :: acts) s = setsT acts (setAct s a).
Proof. reflexivity. Qed.

Lemma setsT_setAct_comm acts : forall s b, (forall a, a ∈ acts -> tgt_ne a b) ->
  setAct (setsT acts s) b = setsT acts (setAct s b).
Proof.
  induction acts as [|a acts IH]; intros s b Hne; [reflexivity|]. rewrite !setsT_cons.
  rewrite IH by (intros; apply Hne; right; assumption).
  rewrite (setAct_comm s a b) by (apply Hne; left). reflexivity.
Qed.

Lemma setsT_comm l1 : forall l2 s, (forall a b, a ∈ l1 -> b ∈ l2 -> tgt_ne a b) ->
  setsT l2 (setsT l1 s) = setsT l1 (setsT l2 s).
Proof.
  intros l2. induction l2 as [|b l2 IH]; intros s Hne; [reflexivity|]. rewrite !setsT_cons.
  rewrite setsT_setAct_comm by (intros a Ha; apply Hne; [exact Ha|left]).
  apply IH. intros a b' Ha Hb. apply Hne; [exact Ha|right; exact Hb].
Qed.

Lemma tgt_ne_of_targets l1 l2 : (forall v, v ∈ targets l1 -> v ∈ targets l2 -> False) ->
  forall a b, a ∈ l1 -> b ∈ l2 -> tgt_ne a b.
Proof.
  intros H a b Ha Hb u v Eu Ev ->. apply (H v).
  - unfold targets. apply elem_of_list_omap. eauto.
  - unfold targets. apply elem_of_list_omap. eauto.
Qed.

(** all the sets of a block, with the actions of every node fixed *)
Definition setsAllA (A : nid -> list action) (l : list nid) (s : state) : state :=
  foldl (fun s n => setsT (A n) s) s l.

Lemma setsAllA_perm A l l' : l ≡ₚ l' -> NoDup l ->
  (forall n m v, n ∈ l -> m ∈ l -> n <> m -> v ∈ targets (A n) -> v ∈ targets (A m) -> False) ->
  forall s, setsAllA A l s = setsAllA A l' s.
Proof.
  induction 1 as [|x l l' Hp IH|x y l|l l' l'' Hp1 IH1 Hp2 IH2]; intros Hnd Hdis s.
  - reflexivity.
  - cbn [setsAllA foldl]. apply IH.
    + apply NoDup_cons_1_2 in Hnd. exact Hnd.
    + intros n m v Hn Hm. apply Hdis; right; assumption.
  - cbn [setsAllA foldl]. f_equal. apply setsT_comm. apply tgt_ne_of_targets.
    intros v Hy Hx. apply (Hdis y x v); [left|right; left| |exact Hy|exact Hx].
    apply NoDup_cons_1_1 in Hnd. intros ->. apply Hnd. left.
  - rewrite IH1 by assumption. apply IH2.
    + rewrite <- Hp1. exact Hnd.
    + intros n m v Hn Hm. apply Hdis; rewrite Hp1; assumption.
Qed.

Lemma pend_eq_setsAllA A l : forall s, pend_eq s (setsAllA A l s).
Proof.
  induction l as [|n l IH]; intros s; [apply pend_eq_refl|]. cbn [setsAllA foldl].
  eapply pend_eq_trans; [apply pend_eq_setsT|apply IH].
Qed.

Lemma rest_eq_setsAllA A l : forall s, rest_eq s (setsAllA A l s).
Proof.
  induction l as [|n l IH]; intros s; [apply rest_eq_refl|]. cbn [setsAllA foldl].
  eapply rest_eq_trans; [apply rest_eq_setsT|apply IH].
Qed.

Lemma rnp_spec_setsAllA A n l : forall t t1 e,
  (forall m v, m ∈ l -> v ∈ targets (A m) -> isVarKind (nkind (nd t v)) = true) ->
  rnp_spec t n = Ok (t1, e) -> rnp_spec (setsAllA A l t) n = Ok (setsAllA A l t1, e).
Proof.
  induction l as [|m l IH]; intros t t1 e Hv H; [exact H|]. cbn [setsAllA foldl].
  apply IH.
  - intros m' v Hm' Hin. rewrite (pend_proj nkind t _ v (pend_eq_setsT (A m) t)) by auto.
    apply (Hv m' v); [right|]; assumption.
  - apply rnp_spec_setsT; [|exact H]. intros v Hin. apply (Hv m v); [left|exact Hin].
Qed.

Lemma nodeActs_kind p s t n : nkind (nd t n) = nkind (nd s n) -> nodeActs p t n = nodeActs p s n.
Proof. unfold nodeActs. intros ->. reflexivity. Qed.

(** the invariant of the factorisation *)
Record sinv (p : plan) (A : nid -> list action) (s : state) (B : list nid) (h : Z) : Prop := {
  si_ok : ok_state s B h;
  si_status : status s = 1;
  si_acts : forall n, n ∈ B -> nodeActs p s n = A n;
  si_nofault : forall n a, n ∈ B -> a ∈ A n -> is_fault a = false;
  si_vars : forall n v, n ∈ B -> v ∈ targets (A n) -> isVarKind (nkind (nd s v)) = true
}.

Lemma sinv_sets p A s B h acts : sinv p A s B h -> sinv p A (setsT acts s) B h.
Proof.
  intros [S1 S2 S3 S4 S5]. pose proof (pend_eq_setsT acts s) as PE. pose proof (rest_eq_setsT acts s) as RE.
  constructor.
  - eapply ok_state_pend; eassumption.
  - rewrite status_setsT. exact S2.
  - intros n Hn. rewrite (nodeActs_kind p s _ n); [apply S3, Hn|]. apply (pend_proj nkind); auto.
  - exact S4.
  - intros n v Hn Hv. rewrite (pend_proj nkind s _ v PE) by auto. eapply S5; eassumption.
Qed.

Lemma sinv_step p A s B h n s1 e : sinv p A s B h -> n ∈ B -> rnp_spec s n = Ok (s1, e) -> sinv p A s1 B h.
Proof.
  intros [S1 S2 S3 S4 S5] Hn H.
  assert (Hk : forall m, nkind (nd s1 m) = nkind (nd s m)).
  { intros m. apply (rnp_spec_proj nkind s n s1 e m); [|exact H]. intros; apply localF_frame. }
  constructor.
  - eapply rnp_spec_ok_state; eassumption.
  - apply rnp_spec_inv in H as (_ & w & _ & ->). exact S2.
  - intros m Hm. rewrite (nodeActs_kind p s s1 m (Hk m)). apply S3, Hm.
  - exact S4.
  - intros m v Hm Hv. rewrite Hk. eapply S5; eassumption.
Qed.

Lemma quiet_nil B : quiet [] B.
Proof. intros n w _. reflexivity. Qed.

(** running a block with the plan = running it without plan after all the sets of the block *)
Lemma run_factor fuel p A B h l : forall s e al, sinv p A s B h -> (forall x, x ∈ l -> x ∈ B) ->
  rfold (block_step fuel p) l (s, e, al) = rfold (block_step fuel []) l (setsAllA A l s, e, al).
Proof.
  induction l as [|n l IH]; intros s e al SI Hl; [reflexivity|].
  assert (Hn : n ∈ B) by (apply Hl; left).
  cbn [rfold setsAllA foldl]. fold (setsAllA A l (setsT (A n) s)).
  set (t := setsT (A n) s). set (S := setsAllA A l t).
  pose proof (sinv_sets p A s B h (A n) SI) as SIt. fold t in SIt.
  destruct SI as [[Bo G] Sst Sacts Snf Svars].
  destruct (step_total fuel [] B h (quiet_nil B) t e al n (si_ok _ _ _ _ _ SIt) Hn) as (t1 & E1 & R1 & Ok1).
  (* the left-hand step *)
  assert (EL : block_step fuel p (s, e, al) n = Ok (t1, e, alw t n al)).
  { unfold block_step. rewrite (bo_height _ _ _ Bo n Hn).
    destruct (Z.eqb_spec h unset) as [E|_]; [pose proof (bo_h _ _ _ Bo); unfold unset in E; lia|].
    rewrite (rnp_shift fuel p s n (bo_has _ _ _ Bo n Hn) (bo_kind _ _ _ Bo n Hn) Sst).
    2: { intros a Ha. rewrite (Sacts n Hn) in Ha. eapply Snf; eassumption. }
    rewrite (Sacts n Hn). fold t.
    unfold block_step in E1. destruct (si_ok _ _ _ _ _ SIt) as [Bot _].
    rewrite (bo_height _ _ _ Bot n Hn) in E1.
    destruct (Z.eqb_spec h unset) as [E|_]; [pose proof (bo_h _ _ _ Bo); unfold unset in E; lia|].
    destruct (recomputeNodeParallel fuel [] t n) as [[t1' e1']| |]; cbn [rbind] in *; try discriminate.
    injection E1 as -> He Hal. rewrite Hal, He. reflexivity. }
  rewrite EL. cbn [rbind].
  (* the right-hand step *)
  pose proof (pend_eq_setsAllA A l t) as PES. pose proof (rest_eq_setsAllA A l t) as RES. fold S in PES, RES.
  assert (OkS : ok_state S B h) by (eapply ok_state_pend; [exact PES|exact RES|apply (si_ok _ _ _ _ _ SIt)]).
  assert (RS : rnp_spec S n = Ok (setsAllA A l t1, None)).
  { apply rnp_spec_setsAllA; [|exact R1]. intros m v Hm Hv. apply (si_vars _ _ _ _ _ SIt m v); [apply Hl; right; exact Hm|exact Hv]. }
  destruct (step_total fuel [] B h (quiet_nil B) S e al n OkS Hn) as (S1 & ES & RS' & _).
  rewrite RS in RS'. injection RS' as <-.
  rewrite ES. cbn [rbind].
  assert (alw S n al = alw t n al) as ->.
  { unfold alw. rewrite (pend_proj nkind t S n PES) by auto. reflexivity. }
  apply IH.
  - eapply sinv_step; [exact SIt|exact Hn|exact R1].
  - intros; apply Hl; right; assumption.
Qed.

(** ** C04, block level, node functions that set vars *)
Theorem block_confluence_sets fuel1 fuel2 p s B h o1 o2 :
  block_ok s B h -> graph_ok s -> sets_ok p s B -> o1 ≡ₚ B -> o2 ≡ₚ B ->
  exists r1 r2, run_block fuel1 p s o1 = Ok r1 /\ run_block fuel2 p s o2 = Ok r2 /\
                sim_blk r1 r2 /\ r1.1.2 = None.
Proof.
  intros Bo G [So1 So2 So3 So4] H1 H2. unfold run_block, run_block_acc.
  set (A := nodeActs p s).
  assert (SI : sinv p A s B h) by (constructor; auto; split; assumption).
  assert (Hl1 : forall x, x ∈ o1 -> x ∈ B) by (intros x; rewrite H1; auto).
  assert (Hl2 : forall x, x ∈ o2 -> x ∈ B) by (intros x; rewrite H2; auto).
  rewrite (run_factor fuel1 p A B h o1 s None [] SI Hl1), (run_factor fuel2 p A B h o2 s None [] SI Hl2).
  assert (Hnd : NoDup o1) by (rewrite H1; apply (bo_nodup _ _ _ Bo)).
  rewrite <- (setsAllA_perm A o1 o2 (Permutation_trans H1 (Permutation_sym H2)) Hnd).
  2: { intros n m v Hn Hm. apply So4; apply Hl1; assumption. }
  set (S := setsAllA A o1 s).
  assert (OkS : ok_state S B h).
  { eapply ok_state_pend; [apply pend_eq_setsAllA|apply rest_eq_setsAllA|split; assumption]. }
  destruct OkS as [BoS GS].
  exact (block_confluence fuel1 fuel2 [] S B h o1 o2 BoS GS (quiet_nil B) H1 H2).
Qed.

(** * J. Footprints and locks *)
Inductive acc_class (s : state) (n : nid) (a : access) : Prop :=
| AcOwn f : a_locks a = [] -> a_loc a = LNode n f ->
            (a_write a = true -> f = FRecomputedAt \/ (cutv s n = false /\ (f = FValue \/ f = FChangedAt))) -> acc_class s n a
| AcSrc x : a = Rd (LNode x FValue) [] -> x ∈ valsrcs s n -> acc_class s n a
| AcSelfLocked : a = Rd (LNode n FShape) [RecomputeMu] -> acc_class s n a
| AcChild c f w : c ∈ children (nd s n) -> f <> FChangedAt -> a = mkAcc (LNode c f) w [RecomputeMu] -> acc_class s n a
| AcParent c q : c ∈ children (nd s n) -> cutv s n = false -> readsParents (afterLocal s n) c = true ->
                 q ∈ parents (nd s c) -> a = Rd (LNode q FChangedAt) [RecomputeMu] -> acc_class s n a
| AcHeap : a = Wr LHeap [RecomputeMu] -> acc_class s n a
| AcHandlers : a = Wr LHandlers [HandlersMu] -> acc_class s n a
| AcAlways : a = Wr LAlways [AlwaysMu] -> acc_class s n a.

Lemma fp_classify s n a : a ∈ footprint s n -> acc_class s n a.
Proof.
  unfold footprint. rewrite !elem_of_app. intros [H|[H|[H|H]]].
  - unfold fp_free in H. rewrite !elem_of_app in H. destruct H as [H|[H|[H|H]]].
    + repeat (apply elem_of_cons in H as [->|H]); [| | |inversion H].
      * eapply (AcOwn _ _ _ FRecomputedAt); auto.
      * eapply (AcOwn _ _ _ FShape); [reflexivity|reflexivity|discriminate].
      * eapply (AcOwn _ _ _ FValue); [reflexivity|reflexivity|discriminate].
    + destruct (isVarKind _); [|inversion H]. apply elem_of_list_singleton in H as ->.
      eapply (AcOwn _ _ _ FPending); [reflexivity|reflexivity|discriminate].
    + apply elem_of_list_fmap in H as (x & -> & Hx). eapply AcSrc; eauto.
    + destruct (cutv s n) eqn:Ec; [inversion H|].
      repeat (apply elem_of_cons in H as [->|H]); [| |inversion H].
      * eapply (AcOwn _ _ _ FValue); auto.
      * eapply (AcOwn _ _ _ FChangedAt); auto.
  - unfold fp_locked in H. destruct (cutv s n) eqn:Ec; [inversion H|].
    apply elem_of_cons in H as [->|H]; [apply AcSelfLocked; reflexivity|].
    apply elem_of_list_In, in_concat in H as (l & Hl & Ha). apply elem_of_list_In in Hl, Ha.
    apply elem_of_list_fmap in Hl as (c & -> & Hc).
    unfold fp_child in Ha. rewrite !elem_of_app in Ha. destruct Ha as [Ha|[Ha|Ha]].
    + repeat (apply elem_of_cons in Ha as [->|Ha]); [| | |inversion Ha]; eapply AcChild; eauto; discriminate.
    + destruct (readsParents _ c) eqn:Er; [|inversion Ha].
      apply elem_of_list_fmap in Ha as (q & -> & Hq). eapply (AcParent _ _ _ c q); eauto.
      rewrite (afterLocal_proj parents) in Hq by (intros y; apply localF_frame). exact Hq.
    + destruct (wantPush _ c); [|inversion Ha].
      repeat (apply elem_of_cons in Ha as [->|Ha]); [| |inversion Ha]; [apply AcHeap; reflexivity|eapply AcChild; eauto; discriminate].
  - unfold fp_handlers in H. destruct (cutv s n); [inversion H|].
    repeat (apply elem_of_cons in H as [->|H]); [| |inversion H].
    + eapply (AcOwn _ _ _ FShape); [reflexivity|reflexivity|discriminate].
    + apply AcHandlers; reflexivity.
  - unfold fp_always in H. destruct (isAlways _); [|inversion H].
    apply elem_of_list_singleton in H as ->. apply AcAlways; reflexivity.
Qed.

Lemma valsrcs_below s n h x : reads_below s n h -> x ∈ valsrcs s n -> height (nd s x) < h.
Proof.
  intros Hr Hx. unfold valsrcs in Hx. apply elem_of_list_omap in Hx as (a & Ha & Hv). eapply Hr; eauto.
Qed.

Lemma child_above s n c : graph_ok s -> c ∈ children (nd s n) -> height (nd s n) < height (nd s c).
Proof. intros G Hc. apply (go_heights _ G), (go_edges _ G), Hc. Qed.

Lemma covered_same l a b : a_locks a = [l] -> a_locks b = [l] -> covered a b.
Proof. intros Ha Hb. exists l. rewrite Ha, Hb. split; left. Qed.

(** one direction of the case analysis *)
Lemma lockset_half s n m h a b :
  graph_ok s -> height (nd s n) = h -> height (nd s m) = h -> n <> m ->
  reads_below s n h -> reads_below s m h ->
  acc_class s n a -> acc_class s m b -> a_loc a = a_loc b -> a_write a = true ->
  covered a b \/ stale_pair a b n.
Proof.
  intros G Hhn Hhm Hne Hrn Hrm Ca Cb Hloc Hw.
  destruct Ca as [f La Ea Wa|x -> Hx| -> |c f w Hc Hf ->|c q Hc _ _ Hq ->| -> | -> | -> ]; cbn in Hw; try discriminate.
  - (* a: a lock-free write of n's own field *)
    destruct Cb as [g Lb Eb Wb|y -> Hy| -> |d g w' Hd Hg ->|d q Hd Hcm Hrp Hq ->| -> | -> | -> ]; cbn in Hloc; rewrite Ea in Hloc; try discriminate.
    + rewrite Eb in Hloc. injection Hloc as ? ?. congruence.
    + injection Hloc as Ey Ef. subst y. pose proof (valsrcs_below s m h n Hrm Hy). lia.
    + injection Hloc as ? ?. congruence.
    + injection Hloc as Ey Ef. subst d. pose proof (child_above s m n G Hd). lia.
    + injection Hloc as Ey Ef. subst q f. right. split; [|reflexivity].
      destruct a as [l w' ls]; cbn in *. subst. reflexivity.
  - (* a: a locked access to a child of n *)
    left. destruct Cb as [g Lb Eb Wb|y -> Hy| -> |d g w' Hd Hg ->|d q Hd Hcm Hrp Hq ->| -> | -> | -> ]; cbn in Hloc; try discriminate;
      try (eapply covered_same; reflexivity).
    + (* b lock-free on m's own field: the child of n would be m *)
      rewrite Eb in Hloc. injection Hloc as Ey Ef. subst c. pose proof (child_above s n m G Hc). lia.
    + injection Hloc as Ey Ef. subst c. pose proof (child_above s n y G Hc). pose proof (valsrcs_below s m h y Hrm Hy). lia.
  - (* a: the heap *)
    left. destruct Cb as [g Lb Eb Wb|y -> Hy| -> |d g w' Hd Hg ->|d q Hd Hcm Hrp Hq ->| -> | -> | -> ]; cbn in Hloc;
      try discriminate; try (rewrite Eb in Hloc; discriminate). eapply covered_same; reflexivity.
  - left. destruct Cb as [g Lb Eb Wb|y -> Hy| -> |d g w' Hd Hg ->|d q Hd Hcm Hrp Hq ->| -> | -> | -> ]; cbn in Hloc;
      try discriminate; try (rewrite Eb in Hloc; discriminate). eapply covered_same; reflexivity.
  - left. destruct Cb as [g Lb Eb Wb|y -> Hy| -> |d g w' Hd Hg ->|d q Hd Hcm Hrp Hq ->| -> | -> | -> ]; cbn in Hloc;
      try discriminate; try (rewrite Eb in Hloc; discriminate). eapply covered_same; reflexivity.
Qed.

(** ** C04, lock sets: two nodes of one block (neither a bind lhs-change), success paths *)
Theorem lockset s B h n m a b :
  block_ok s B h -> graph_ok s -> n ∈ B -> m ∈ B -> n <> m ->
  a ∈ footprint s n -> b ∈ footprint s m -> conflict a b ->
  covered a b \/ stale_pair a b n \/ stale_pair b a m.
Proof.
  intros Bo G Hn Hm Hne Ha Hb [Hloc Hw].
  pose proof (fp_classify _ _ _ Ha) as Ca. pose proof (fp_classify _ _ _ Hb) as Cb.
  apply orb_true_iff in Hw as [Hw|Hw].
  - destruct (lockset_half s n m h a b G (bo_height _ _ _ Bo n Hn) (bo_height _ _ _ Bo m Hm) Hne
               (bo_reads _ _ _ Bo n Hn) (bo_reads _ _ _ Bo m Hm) Ca Cb Hloc Hw) as [?|?]; auto.
  - destruct (lockset_half s m n h b a G (bo_height _ _ _ Bo m Hm) (bo_height _ _ _ Bo n Hn) (not_eq_sym Hne)
               (bo_reads _ _ _ Bo m Hm) (bo_reads _ _ _ Bo n Hn) Cb Ca (eq_sym Hloc) Hw) as [[l [H1 H2]]|?]; auto.
    left. exists l. auto.
Qed.

(** when the uncovered pair can arise at all: the common child is a bind main node, or it has
    already been recomputed in the running pass *)
Lemma readsParents_cases t c : readsParents t c = true ->
  (exists b, nkind (nd t c) = KBindMain b) \/ stabNum t <= recomputedAt (nd t c).
Proof.
  unfold readsParents. rewrite !andb_true_iff. intros [[_ H1] H2].
  destruct (nkind (nd t c)) eqn:Ek; try discriminate; cbn in H1; try (right; lia).
  left. eauto.
Qed.

Lemma no_stale_read s B h m x b :
  block_ok s B h -> graph_ok s -> m ∈ B ->
  (forall c, c ∈ children (nd s m) ->
     recomputedAt (nd s c) < stabNum s /\ forall bb, nkind (nd s c) <> KBindMain bb) ->
  b ∈ footprint s m -> b <> Rd (LNode x FChangedAt) [RecomputeMu].
Proof.
  intros Bo G Hm Hfresh Hb ->. apply fp_classify in Hb.
  destruct Hb as [f La Ea Wa|y E Hy| E |c f w Hc Hf E|c q Hc Hcut Hrp Hq E| E | E | E ]; try discriminate.
  - injection E as _ <-. congruence.
  - destruct (Hfresh c Hc) as [F1 F2].
    assert (Hcm : c <> m) by (intros ->; pose proof (child_above s m m G Hc); lia).
    destruct (readsParents_cases _ _ Hrp) as [[bb Hk]|Hge]; rewrite nd_afterLocal_ne in * by exact Hcm.
    + exact (F2 bb Hk).
    + change (stabNum (afterLocal s m)) with (stabNum s) in Hge. lia.
Qed.

(** with fresh children (not recomputed yet in this pass, no bind main) every conflict is covered *)
Theorem lockset_fresh s B h n m a b :
  block_ok s B h -> graph_ok s -> n ∈ B -> m ∈ B -> n <> m ->
  (forall x c, x ∈ B -> c ∈ children (nd s x) ->
     recomputedAt (nd s c) < stabNum s /\ forall bb, nkind (nd s c) <> KBindMain bb) ->
  a ∈ footprint s n -> b ∈ footprint s m -> conflict a b -> covered a b.
Proof.
  intros Bo G Hn Hm Hne Hfresh Ha Hb Hc.
  destruct (lockset s B h n m a b Bo G Hn Hm Hne Ha Hb Hc) as [?|[[_ E]|[_ E]]]; [assumption| |].
  - exfalso. eapply (no_stale_read s B h m n b); eauto.
  - exfalso. eapply (no_stale_read s B h n m a); eauto.
Qed.

(** ** pairs the locks of graph.go do NOT cover (candidates for the race detector) *)
(** 1. a node whose function fails re-queues itself under the heap's own mutex while a sibling
       queues a child under recomputeMu: two writers of the recompute heap, no common lock *)
Theorem lockset_refuted_heap s n m : pushlist s m <> [] ->
  exists a b, a ∈ fp_fail n /\ b ∈ footprint s m /\ conflict a b /\ ~ covered a b.
Proof.
  intros Hp. exists (Wr LHeap [HeapMu]), (Wr LHeap [RecomputeMu]).
  split; [unfold fp_fail; do 2 right; left|]. split; [|split].
  - unfold footprint, fp_locked, pushlist in *. apply elem_of_app; right. apply elem_of_app; left.
    destruct (cutv s m); [congruence|]. right.
    destruct (filter _ _) as [|c l] eqn:Ef; [congruence|].
    assert (Hc : c ∈ filter (fun c => wantPush (afterLocal s m) c = true) (children (nd s m))) by (rewrite Ef; left).
    apply elem_of_list_filter in Hc as [Hw Hc].
    apply elem_of_list_In, in_concat. exists (fp_child (afterLocal s m) c).
    split; [apply in_map, elem_of_list_In, Hc|]. apply elem_of_list_In.
    unfold fp_child. rewrite Hw. rewrite !elem_of_app. right; right. left.
  - split; reflexivity.
  - intros (l & H1 & H2). cbn in H1, H2. apply elem_of_list_singleton in H1, H2. congruence.
Qed.

(** 2. a node function calling Set on a var that is being recomputed in the same block: the var's
       Stabilize reads setDuringStabilization while Set writes it, both without a lock *)
Theorem lockset_refuted_pending s v : isVarKind (nkind (nd s v)) = true ->
  exists a b, a ∈ fp_set v /\ b ∈ footprint s v /\ conflict a b /\ ~ covered a b.
Proof.
  intros Hk. exists (Wr (LNode v FPending) []), (Rd (LNode v FPending) []).
  split; [unfold fp_set; do 3 right; left|]. split; [|split].
  - unfold footprint, fp_free. rewrite Hk. rewrite !elem_of_app. left. right. left. left.
  - split; reflexivity.
  - intros (l & H1 & _). inversion H1.
Qed.

(** ** the footprints are sound: what is not in the write footprint is not changed *)
Lemma add_hin_other w c h w' x : Heap.add w c h = Ok w' -> x <> c -> Heap.hinOf w' x = Heap.hinOf w x.
Proof.
  unfold Heap.add. destruct (h <? 0); [discriminate|]. destruct (if Heap.cnt w =? 0 then _ else _) as [mn mx].
  intros [= <-] Hne. unfold Heap.hinOf; cbn. rewrite lookup_insert_ne by congruence. reflexivity.
Qed.

Lemma addAll_hin_other hf l : forall w w' x, addAll hf l w = Ok w' -> x ∉ l -> Heap.hinOf w' x = Heap.hinOf w x.
Proof.
  induction l as [|c l IH]; intros w w' x H Hx; [injection H as <-; reflexivity|].
  rewrite addAll_cons in H. apply rbind_ok in H as (w1 & H1 & H2).
  rewrite (IH _ _ x H2) by (intros ?; apply Hx; right; assumption).
  unfold Heap.addIfNotPresent in H1. destruct (Heap.mem w c); [injection H1 as <-; reflexivity|].
  apply (add_hin_other _ _ _ _ x H1). intros ->. apply Hx. left.
Qed.

Lemma pushlist_written s n c : c ∈ pushlist s n ->
  Wr LHeap [RecomputeMu] ∈ footprint s n /\ Wr (LNode c FHeapHeight) [RecomputeMu] ∈ footprint s n.
Proof.
  intros Hc. unfold pushlist in Hc. unfold footprint, fp_locked.
  destruct (cutv s n); [inversion Hc|]. apply elem_of_list_filter in Hc as [Hw Hc].
  assert (Hsub : forall a, a ∈ fp_child (afterLocal s n) c ->
            a ∈ fp_free s n ++ (Rd (LNode n FShape) [RecomputeMu] :: concat (map (fp_child (afterLocal s n)) (children (nd s n))))
                  ++ fp_handlers s n ++ fp_always s n).
  { intros a Ha. apply elem_of_app; right. apply elem_of_app; left. right.
    apply elem_of_list_In, in_concat. exists (fp_child (afterLocal s n) c).
    split; [apply in_map, elem_of_list_In, Hc|apply elem_of_list_In, Ha]. }
  split; apply Hsub; unfold fp_child; rewrite Hw, !elem_of_app; right; right; [left|right; left].
Qed.

Lemma rnp_spec_nd_cases s n s1 e x : rnp_spec s n = Ok (s1, e) ->
  nd s1 x = nd s x \/ (x = n /\ nd s1 n = localF s n (nd s n)).
Proof.
  intros H. rewrite (rnp_spec_nd s n s1 e x H), nd_afterLocal.
  destruct (decide (x = n)) as [->|Hne]; [|left; reflexivity].
  rewrite (rnp_spec_nd s n s1 e n H), nd_afterLocal, decide_True by reflexivity.
  unfold nd. destruct (nodes s !! n); cbn; [right; auto|left; reflexivity].
Qed.

Theorem fp_write_sound s n s1 e : rnp_spec s n = Ok (s1, e) ->
  (forall x f, not_written (footprint s n) (LNode x f) -> field_same f s s1 x) /\
  (not_written (footprint s n) LHeap -> heap s1 = heap s) /\
  (not_written (footprint s n) LHandlers -> handlers s1 = handlers s) /\
  binds s1 = binds s /\ next s1 = next s /\ reg s1 = reg s /\ obs s1 = obs s /\ adj s1 = adj s /\
  invq s1 = invq s /\ stabNum s1 = stabNum s /\ status s1 = status s /\ numNodes s1 = numNodes s /\
  setDuring s1 = setDuring s /\ setRemoved s1 = setRemoved s /\ maxHeight s1 = maxHeight s.
Proof.
  intros H. pose proof (rnp_spec_inv _ _ _ _ H) as (_ & w & Hw & Es1).
  assert (Hfree : forall a, a ∈ fp_free s n -> a ∈ footprint s n) by (intros; apply elem_of_app; auto).
  split; [|split; [|split]].
  - intros x f NW. destruct f; cbn [field_same].
    + destruct (rnp_spec_nd_cases s n s1 e x H) as [->|[-> E]]; [reflexivity|].
      exfalso. apply (NW (Wr (LNode n FRecomputedAt) [])); [|reflexivity|reflexivity].
      apply Hfree. unfold fp_free. left.
    + destruct (rnp_spec_nd_cases s n s1 e x H) as [->|[-> E]]; [reflexivity|]. rewrite E.
      unfold localF. destruct (cutv s n) eqn:Ec; [reflexivity|].
      exfalso. apply (NW (Wr (LNode n FChangedAt) [])); [|reflexivity|reflexivity].
      apply Hfree. unfold fp_free. rewrite Ec, !elem_of_app. do 3 right. right. left.
    + destruct (rnp_spec_nd_cases s n s1 e x H) as [->|[-> E]]; [reflexivity|]. rewrite E.
      unfold localF. destruct (cutv s n) eqn:Ec; [reflexivity|].
      exfalso. apply (NW (Wr (LNode n FValue) [])); [|reflexivity|reflexivity].
      apply Hfree. unfold fp_free. rewrite Ec, !elem_of_app. do 3 right. left.
    + destruct (rnp_spec_nd_cases s n s1 e x H) as [->|[-> E]]; [reflexivity|]. rewrite E. apply localF_frame.
    + rewrite Es1. cbn [heap set]. change (Heap.hinOf w x = Heap.hinOf (heap s) x).
      apply (addAll_hin_other _ _ _ _ x Hw). intros Hx.
      destruct (pushlist_written s n x Hx) as [_ Hin]. exact (NW _ Hin eq_refl eq_refl).
    + destruct (rnp_spec_nd_cases s n s1 e x H) as [->|[-> E]]; [unfold shape_eq; repeat split; reflexivity|].
      rewrite E. pose proof (localF_frame s n (nd s n)) as F. unfold shape_eq. intuition.
  - intros NW. rewrite Es1. cbn. destruct (pushlist s n) as [|c l] eqn:Ep.
    + cbn in Hw. congruence.
    + exfalso. destruct (pushlist_written s n c) as [Hin _]; [rewrite Ep; left|]. exact (NW _ Hin eq_refl eq_refl).
  - intros NW. rewrite Es1. cbn. unfold newHandlers, hkeys. destruct (cutv s n) eqn:Ec; [reflexivity|].
    exfalso. apply (NW (Wr LHandlers [HandlersMu])); [|reflexivity|reflexivity].
    unfold footprint, fp_handlers. rewrite Ec, !elem_of_app. right; right; left. right; left.
  - rewrite Es1. repeat split; reflexivity.
Qed.

(** ** ... and what is not in the read footprint does not matter *)
Section reads_sound.
  Context (s t : state) (n : nid).
  Context (Hnd : nd t n = nd s n) (Hst : stabNum t = stabNum s) (Hb : binds t = binds s) (Hshape : same_shape s t).
  Context (Hsrc : forall x, x ∈ valsrcs s n -> value (nd t x) = value (nd s x)).

  Lemma rs_value a : a ∈ reads s n -> valueOf t a = valueOf s a.
  Proof.
    intros Ha. apply valueOf_shape; [exact Hshape|]. intros x Hx. apply Hsrc.
    unfold valsrcs. apply elem_of_list_omap. eauto.
  Qed.

  Lemma rs_cutv : cutv t n = cutv s n.
  Proof.
    unfold cutv. rewrite Hnd. destruct (nkind (nd s n)) eqn:Ek; try reflexivity.
    rewrite rs_value; [reflexivity|]. unfold reads. rewrite Ek. left.
  Qed.

  Lemma rs_newval : newval t n = newval s n.
  Proof.
    unfold newval. rewrite Hnd. destruct (nkind (nd s n)) eqn:Ek; try reflexivity.
    - rewrite rs_value; [reflexivity|]. unfold reads. rewrite Ek. left.
    - rewrite !rs_value; [reflexivity| |]; unfold reads; rewrite Ek; [right; left|left].
    - f_equal. f_equal. apply map_ext_in. intros a Ha. apply rs_value. unfold reads. rewrite Ek.
      apply elem_of_list_In. exact Ha.
    - rewrite rs_value; [reflexivity|]. unfold reads. rewrite Ek. left.
    - rewrite (bd_ext t s _ Hb). destruct (b_rhs (bd s b)) as [r|] eqn:Er; [|reflexivity].
      rewrite rs_value; [reflexivity|]. unfold reads. rewrite Ek, Er. left.
  Qed.

  Lemma rs_localEvs : localEvs t n = localEvs s n.
  Proof.
    unfold localEvs. rewrite Hnd. destruct (nkind (nd s n)) eqn:Ek; try reflexivity.
    - rewrite rs_value; [reflexivity|]. unfold reads. rewrite Ek. left.
    - rewrite !rs_value; [reflexivity| |]; unfold reads; rewrite Ek; [right; left|left].
    - assert (map (valueOf t) (decl (nd s n)) = map (valueOf s) (decl (nd s n))) as ->; [|reflexivity].
      apply map_ext_in. intros a Ha. apply rs_value. unfold reads. rewrite Ek. apply elem_of_list_In. exact Ha.
    - rewrite rs_value; [reflexivity|]. unfold reads. rewrite Ek. left.
  Qed.

  Lemma rs_localF y : localF t n y = localF s n y.
  Proof. unfold localF. rewrite rs_cutv, rs_newval, Hst. reflexivity. Qed.
End reads_sound.

(** the lock-free section of [n] computes the same thing in any two states that agree on [n]'s own
    record and on the [value] of the nodes in its read footprint *)
Theorem fp_read_sound_free s t n :
  nd t n = nd s n -> stabNum t = stabNum s -> binds t = binds s -> same_shape s t ->
  (forall x, Rd (LNode x FValue) [] ∈ fp_free s n -> value (nd t x) = value (nd s x)) ->
  cutv t n = cutv s n /\ newval t n = newval s n /\ localEvs t n = localEvs s n /\
  forall y, localF t n y = localF s n y.
Proof.
  intros Hnd Hst Hb Hsh Hv.
  assert (Hsrc : forall x, x ∈ valsrcs s n -> value (nd t x) = value (nd s x)).
  { intros x Hx. apply Hv. unfold fp_free. rewrite !elem_of_app. right; right; left.
    apply elem_of_list_fmap. eauto. }
  split; [eapply rs_cutv; eauto|]. split; [eapply rs_newval; eauto|]. split; [eapply rs_localEvs; eauto|].
  intros y. eapply rs_localF; eauto.
Qed.

(** the children scan's verdict on [c] depends on [c]'s own record, the pass number and -- only
    when [readsParents] -- the changedAt of [c]'s inputs *)
Theorem fp_read_sound_child t t' c :
  nd t' c = nd t c -> stabNum t' = stabNum t ->
  (readsParents t c = true -> forall q, q ∈ parents (nd t c) -> changedAt (nd t' q) = changedAt (nd t q)) ->
  wantPush t' c = wantPush t c.
Proof.
  intros Hnd Hst Hp. unfold wantPush, isStale, readsParents in *. rewrite Hnd, Hst.
  destruct (isNecessary (nd t c)); cbn [negb andb] in *; [|reflexivity].
  destruct (valid (nd t c)); cbn [negb andb] in *; [|reflexivity].
  destruct (negb (hasStaler (nkind (nd t c))) && (recomputedAt (nd t c) <? stabNum t)); cbn [negb andb] in *; [reflexivity|].
  destruct (nkind (nd t c)); try reflexivity.
  all: destruct (recomputedAt (nd t c) =? 0); cbn [negb orb] in *; [reflexivity|].
  all: unfold staleWrtParents; specialize (Hp eq_refl).
  all: induction (parents (nd t c)) as [|q l IH]; [reflexivity|]; cbn [existsb].
  all: rewrite (Hp q) by left; rewrite IH by (intros; apply Hp; right; assumption); reflexivity.
Qed.

(** * K. The bind case *)
(** whatever the scheduler, the bind lhs-change nodes of a block run first, one at a time, in queue
    order; the scheduler only orders the other nodes of the block, none of which is a lhs-change *)
Theorem bind_prefix_sequential sched fuel p s al :
  parLoopS sched (S fuel) p s al =
  if Heap.cnt (heap s) <=? 0 then Ok (s, None, al) else
  let '(block, w) := Heap.takeMinBlock (heap s) in
  let s := s <| heap := w |> in
  r0 <-! run_block_acc fuel p s al (lhs_part s block);
  '(s', e, al') <-! rfold (block_step fuel p) (sched s (rest_part s block)) r0;
  match e with
  | Some _ => Ok (s', e, al')
  | None => parLoopS sched fuel p s' al'
  end.
Proof.
  cbn [parLoopS]. destruct (Heap.cnt (heap s) <=? 0); [reflexivity|].
  destruct (Heap.takeMinBlock (heap s)) as [block w]. unfold run_block_acc. rewrite rfold_app.
  destruct (rfold _ (lhs_part _ block) _); reflexivity.
Qed.

Theorem rest_part_no_lhs sched s block n : fair sched ->
  n ∈ sched s (rest_part s block) -> isLhsNode s n = false /\ n ∈ block.
Proof.
  intros F Hn. rewrite (F s (rest_part s block)) in Hn. unfold rest_part in Hn.
  apply elem_of_list_filter in Hn. exact Hn.
Qed.

Lemma sw_sched_fair : fair sw_sched.
Proof. intros s b. unfold sw_sched. case_bool_decide as E; [rewrite E; apply perm_swap|reflexivity]. Qed.

Lemma rev_sched_fair : fair rev_sched.
Proof. intros s b. unfold rev_sched. apply reverse_Permutation. Qed.

Lemma queue_order_fair : fair queue_order.
Proof. intros s b. reflexivity. Qed.

Lemma sets_okb_sound p s B : sets_okb p s B = true -> sets_ok p s B.
Proof.
  unfold sets_okb. rewrite !andb_true_iff. intros [[H1 H2] H3]. rewrite forallb_forall in H2, H3.
  constructor.
  - lia.
  - intros n a Hn Ha. apply elem_of_list_In, H2 in Hn. apply andb_true_iff in Hn as [Hn _].
    rewrite forallb_forall in Hn. apply elem_of_list_In, Hn in Ha. destruct (is_fault a); [discriminate|reflexivity].
  - intros n v Hn Hv. apply elem_of_list_In, H2 in Hn. apply andb_true_iff in Hn as [_ Hn].
    rewrite forallb_forall in Hn. apply Hn, elem_of_list_In, Hv.
  - intros n m v Hn Hm Hne Hvn Hvm. apply elem_of_list_In, H3 in Hn. rewrite forallb_forall in Hn.
    apply elem_of_list_In, Hn in Hm. apply orb_true_iff in Hm as [Hm|Hm].
    + apply bool_decide_eq_true in Hm. contradiction.
    + rewrite forallb_forall in Hm. apply elem_of_list_In, Hm in Hvn.
      apply negb_true_iff, bool_decide_eq_false in Hvn. contradiction.
Qed.

(** * L. The pass with node functions that set vars *)
Lemma elem_of_insert_sorted x n l : x ∈ insert_sorted n l <-> x = n \/ x ∈ l.
Proof.
  induction l as [|y l IH]; cbn [insert_sorted].
  - rewrite elem_of_list_singleton. split; [auto|intros [?|H]; [assumption|inversion H]].
  - destruct (Nat.ltb_spec n y); [rewrite elem_of_cons; reflexivity|].
    destruct (Nat.eqb_spec n y) as [->|Hne].
    + split; [auto|]. intros [->|?]; [left|assumption].
    + rewrite !elem_of_cons, IH. tauto.
Qed.

(** ** the sets respect ≈ *)
Lemma sim_varSetD s s' v x : s ≈ s' -> varSetD s v x ≈ varSetD s' v x.
Proof.
  intros Hs. pose proof Hs as [Sn Sb Snx Sr So Sh Sa Si Sst Sstat Snn Ssd Ssr Shd Smx Sl].
  unfold varSetD. rewrite (nd_ext s s' v Sn). destruct (_ && _ && _); [exact Hs|].
  constructor; cbn; try assumption; congruence.
Qed.

Lemma sim_setAct s s' a : s ≈ s' -> setAct s a ≈ setAct s' a.
Proof.
  intros Hs. destruct a as [k|v x|v d]; cbn [setAct]; [exact Hs|apply sim_varSetD, Hs|].
  rewrite (nd_ext s s' v (sim_nodes _ _ Hs)). apply sim_varSetD, Hs.
Qed.

Lemma sim_setsT acts : forall s s', s ≈ s' -> setsT acts s ≈ setsT acts s'.
Proof.
  induction acts as [|a acts IH]; intros s s' Hs; [exact Hs|]. rewrite !setsT_cons. apply IH, sim_setAct, Hs.
Qed.

Lemma sim_setsAllA A l : forall s s', s ≈ s' -> setsAllA A l s ≈ setsAllA A l s'.
Proof.
  induction l as [|n l IH]; intros s s' Hs; [exact Hs|]. cbn [setsAllA foldl]. apply IH, sim_setsT, Hs.
Qed.

(** ** the sets keep the pass invariant *)
Lemma setDuring_varSetD s v x u : u ∈ setDuring (varSetD s v x) -> u = v \/ u ∈ setDuring s.
Proof.
  unfold varSetD. destruct (_ && _ && _); [auto|]. cbn. apply elem_of_insert_sorted.
Qed.

Lemma setDuring_setAct s a u : u ∈ setDuring (setAct s a) -> target a = Some u \/ u ∈ setDuring s.
Proof.
  destruct a as [k|v x|v d]; cbn [setAct target]; [auto| |]; intros [->|?]%setDuring_varSetD; auto.
Qed.

Lemma setDuring_setsT acts : forall s u, u ∈ setDuring (setsT acts s) -> u ∈ targets acts \/ u ∈ setDuring s.
Proof.
  induction acts as [|a acts IH]; intros s u Hu; [auto|]. rewrite setsT_cons in Hu.
  destruct (IH _ _ Hu) as [H|H].
  - left. rewrite targets_cons. destruct (target a); [right|]; exact H.
  - destruct (setDuring_setAct _ _ _ H) as [E|?]; [|auto]. left. rewrite targets_cons, E. left.
Qed.

Lemma pass_ok_setsT acts s :
  (forall v, v ∈ targets acts -> isVarKind (nkind (nd s v)) = true) -> pass_ok s -> pass_ok (setsT acts s).
Proof.
  intros Hv [G I Q NL HR RD SD SR].
  pose proof (pend_eq_setsT acts s) as PE. pose proof (rest_eq_setsT acts s) as RE.
  set (t := setsT acts s) in *.
  destruct RE as (Rb&Rnx&Rr&Ro&Rh&Ra&Ri&Rst&Rstat&Rnn&Rsr&Rhd&Rmx&Rlog&Rhas).
  assert (Hheight : forall m, height (nd t m) = height (nd s m)) by (intros m; apply (pend_proj height); auto).
  constructor.
  - destruct G as [G1 G2 G3 G4]. constructor.
    + rewrite Rh. exact G1.
    + intros n c. rewrite (pend_proj children s t n PE), (pend_proj parents s t c PE) by auto. apply G2.
    + intros c q. rewrite (pend_proj parents s t c PE), !Hheight by auto. apply G3.
    + intros x. rewrite (pend_proj changedAt s t x PE), Rst by auto. apply G4.
  - rewrite Rh. exact I.
  - intros n. rewrite Rh, Hheight. intros Hn. destruct (Q n Hn) as [Q1 Q2]. split; [apply Rhas, Q1|exact Q2].
  - intros n. rewrite (pend_proj nkind s t n PE) by auto. apply NL.
  - intros n. rewrite Hheight. apply HR.
  - intros n. rewrite Hheight. intros H0 a m Ha Hm. rewrite Hheight.
    rewrite (reads_pend s t n PE Rb) in Ha. rewrite (vsrc_shape s t a (pend_shape s t PE)) in Hm. eapply RD; eauto.
  - intros v Hin. rewrite (pend_proj nkind s t v PE) by auto.
    destruct (setDuring_setsT acts s v Hin) as [H|H]; [apply Hv, H|apply SD, H].
  - rewrite Rsr. exact SR.
Qed.

Lemma pass_ok_setsAllA A l : forall s,
  (forall n v, n ∈ l -> v ∈ targets (A n) -> isVarKind (nkind (nd s v)) = true) -> pass_ok s -> pass_ok (setsAllA A l s).
Proof.
  induction l as [|n l IH]; intros s Hv P; [exact P|]. cbn [setsAllA foldl]. apply IH.
  - intros m v Hm Hin. rewrite (pend_proj nkind s _ v (pend_eq_setsT (A n) s)) by auto. apply (Hv m v); [right|]; assumption.
  - apply pass_ok_setsT; [|exact P]. intros v Hin. apply (Hv n v); [left|exact Hin].
Qed.

(** ** a block with sets, from ≈ states *)
Lemma sinv_of_sets_ok p s B h : ok_state s B h -> sets_ok p s B -> sinv p (nodeActs p s) s B h.
Proof. intros Ok [S1 S2 S3 S4]. constructor; auto. Qed.

Lemma sets_ok_sim p s s' B : s ≈ s' -> sets_ok p s B -> sets_ok p s' B.
Proof.
  intros Hs [S1 S2 S3 S4].
  assert (Hna : forall n, nodeActs p s' n = nodeActs p s n).
  { intros n. apply nodeActs_kind. rewrite (nd_ext s s' n (sim_nodes _ _ Hs)). reflexivity. }
  constructor.
  - rewrite <- (sim_status _ _ Hs). exact S1.
  - intros n a. rewrite Hna. apply S2.
  - intros n v. rewrite Hna, <- (nd_ext s s' v (sim_nodes _ _ Hs)). apply S3.
  - intros n m v. rewrite !Hna. apply S4.
Qed.

Lemma run_perm_sets fuel p B h l l' s s' e al al' r :
  ok_state s B h -> sets_ok p s B -> l ≡ₚ l' -> (forall x, x ∈ l -> x ∈ B) -> NoDup l -> s ≈ s' -> al ≡ₚ al' ->
  rfold (block_step fuel p) l (s, e, al) = Ok r ->
  exists r', rfold (block_step fuel p) l' (s', e, al') = Ok r' /\ sim_blk r r'.
Proof.
  intros Ok SO Hp Hl Hnd Hs Hal H.
  set (A := nodeActs p s).
  assert (Hl' : forall x, x ∈ l' -> x ∈ B) by (intros x Hx; apply Hl; rewrite Hp; exact Hx).
  assert (HA : forall n, nodeActs p s' n = A n).
  { intros n. apply nodeActs_kind. rewrite (nd_ext s s' n (sim_nodes _ _ Hs)). reflexivity. }
  pose proof (sinv_of_sets_ok p s B h Ok SO) as SI. fold A in SI.
  assert (SI' : sinv p A s' B h).
  { pose proof (sinv_of_sets_ok p s' B h (ok_state_sim _ _ _ _ Hs Ok) (sets_ok_sim p s s' B Hs SO)) as X.
    destruct X as [X1 X2 X3 X4 X5]. constructor; auto.
    - intros n a Hn Ha. apply (X4 n a Hn). rewrite HA. exact Ha.
    - intros n v Hn Hv. apply (X5 n v Hn). rewrite HA. exact Hv. }
  rewrite (run_factor fuel p A B h l s e al SI Hl) in H.
  rewrite (run_factor fuel p A B h l' s' e al' SI' Hl').
  assert (Ssim : setsAllA A l s ≈ setsAllA A l' s').
  { rewrite (setsAllA_perm A l l' Hp Hnd).
    - apply sim_setsAllA, Hs.
    - intros n m v Hn Hm. apply (so_disjoint _ _ _ SO); apply Hl; assumption. }
  assert (OkS : ok_state (setsAllA A l s) B h).
  { eapply ok_state_pend; [apply pend_eq_setsAllA|apply rest_eq_setsAllA|exact Ok]. }
  exact (run_perm fuel [] B h (quiet_nil B) l l' _ _ e al al' r Hp OkS Hl Hnd Ssim Hal H).
Qed.

Lemma run_pass_ok_sets fuel p B h l s e al r :
  pass_ok s -> ok_state s B h -> sets_ok p s B -> (forall x, x ∈ l -> x ∈ B) ->
  rfold (block_step fuel p) l (s, e, al) = Ok r -> pass_ok r.1.1 /\ r.1.2 = e /\ status r.1.1 = 1.
Proof.
  intros P Ok SO Hl H. set (A := nodeActs p s).
  pose proof (sinv_of_sets_ok p s B h Ok SO) as SI. fold A in SI.
  rewrite (run_factor fuel p A B h l s e al SI Hl) in H.
  assert (PS : pass_ok (setsAllA A l s)).
  { apply pass_ok_setsAllA; [|exact P]. intros n v Hn Hv. apply (so_vars _ _ _ SO n v (Hl n Hn) Hv). }
  assert (OkS : ok_state (setsAllA A l s) B h).
  { eapply ok_state_pend; [apply pend_eq_setsAllA|apply rest_eq_setsAllA|exact Ok]. }
  destruct (run_pass_ok fuel [] B h (quiet_nil B) l _ e al r PS OkS Hl H) as [P1 E1].
  split; [exact P1|]. split; [exact E1|].
  (* status *)
  assert (Hst : status (setsAllA A l s) = 1).
  { destruct (rest_eq_setsAllA A l s) as (_&_&_&_&_&_&_&_&Rstat&_). rewrite Rstat. apply (so_status _ _ _ SO). }
  clear -H Hst OkS Hl. revert H Hst OkS. generalize (setsAllA A l s) as t. revert e al r.
  induction l as [|n l IH]; intros e al r t H Hst OkS.
  - injection H as <-. exact Hst.
  - destruct (step_total fuel [] B h (quiet_nil B) t e al n OkS (Hl n ltac:(left))) as (t1 & E1 & R1 & Ok1).
    cbn [rfold] in H. rewrite E1 in H. cbn [rbind] in H.
    apply (IH (fun x Hx => Hl x ltac:(right; exact Hx)) _ _ _ _ H); [|exact Ok1].
    apply rnp_spec_inv in R1 as (_ & w & _ & ->). exact Hst.
Qed.

(** ** the deferred sets at the end of the pass respect ≈ *)
Definition varApply (s : state) (v : nid) : state :=
  match pending (nd s v) with
  | Some x => if recomputedAt (nd s v) =? stabNum s then s
              else upd s v (fun y => y <| value := x |> <| pending := None |>)
  | None => s
  end.

Lemma stabilizeNode_var fuel p s v : isVarKind (nkind (nd s v)) = true -> stabilizeNode fuel p s v = ok (varApply s v).
Proof.
  intros Hk. unfold stabilizeNode, varApply. destruct (nkind (nd s v)); try discriminate.
  destruct (pending (nd s v)); [destruct (_ =? _)|]; reflexivity.
Qed.

Definition hk_eq (s t : state) : Prop := forall m, nkind (nd t m) = nkind (nd s m) /\ height (nd t m) = height (nd s m).

Lemma hk_eq_refl s : hk_eq s s. Proof. intros m; split; reflexivity. Qed.
Lemma hk_eq_trans s t u : hk_eq s t -> hk_eq t u -> hk_eq s u.
Proof. intros H1 H2 m. destruct (H1 m), (H2 m). split; congruence. Qed.

Lemma sim_upd s s' v f : s ≈ s' -> upd s v f ≈ upd s' v f.
Proof. intros []. constructor; cbn; try assumption. congruence. Qed.

Lemma sim_varApply s s' v : s ≈ s' -> varApply s v ≈ varApply s' v.
Proof.
  intros Hs. unfold varApply. rewrite (nd_ext s s' v (sim_nodes _ _ Hs)), (sim_stabNum _ _ Hs).
  destruct (pending (nd s' v)); [destruct (_ =? _)|]; auto using sim_upd.
Qed.

Lemma hk_varApply s v : hk_eq s (varApply s v).
Proof.
  unfold varApply. destruct (pending (nd s v)); [destruct (_ =? _)|]; try apply hk_eq_refl.
  intros m. split; [apply (nd_upd_proj nkind)|apply (nd_upd_proj height)]; reflexivity.
Qed.

Lemma setStale_sim s s' v t : s ≈ s' -> -1 <= height (nd s v) -> setStale s v = Ok t ->
  exists t', setStale s' v = Ok t' /\ t ≈ t' /\ hk_eq s t /\ (0 <= Heap.cnt (heap s) -> 0 <= Heap.cnt (heap t)).
Proof.
  intros Hs Hh H. unfold setStale in *. rewrite <- (nd_ext s s' v (sim_nodes _ _ Hs)).
  destruct (Z.eqb_spec (height (nd s v)) unset) as [E|E].
  { injection H as <-. exists s'. split; [reflexivity|]. split; [exact Hs|]. split; [apply hk_eq_refl|auto]. }
  rewrite <- (sim_stabNum _ _ Hs).
  set (u := upd s v (set setAt (fun _ => stabNum s))) in *. set (u' := upd s' v (set setAt (fun _ => stabNum s))).
  assert (Su : u ≈ u') by apply sim_upd, Hs.
  assert (Hku : hk_eq s u).
  { intros m. split; [apply (nd_upd_proj nkind)|apply (nd_upd_proj height)]; reflexivity. }
  change (inHeap u' v) with (Heap.mem (heap s') v). change (inHeap u v) with (Heap.mem (heap s) v) in H.
  rewrite <- (heap_sim_mem _ _ v (sim_heap _ _ Hs)).
  destruct (Heap.mem (heap s) v).
  { injection H as <-. exists u'. split; [reflexivity|]. split; [exact Su|]. split; [exact Hku|auto]. }
  unfold heapAdd in *. apply rbind_ok in H as (w & Hw & [= <-]).
  assert (Hhu : height (nd u v) = height (nd s v)) by apply Hku.
  rewrite Hhu in Hw. assert (H0 : 0 <= height (nd s v)) by (unfold unset in E; lia).
  destruct (add_sim _ _ _ _ _ (sim_heap _ _ Su) H0 Hw) as (w' & Hw' & Sw).
  assert (height (nd u' v) = height (nd s v)) as ->.
  { unfold u'. rewrite (nd_upd_proj height) by reflexivity. rewrite <- (nd_ext s s' v (sim_nodes _ _ Hs)). reflexivity. }
  change (heap u') with (heap s') in *. change (heap u) with (heap s) in *. rewrite Hw'. cbn [rbind].
  eexists. split; [reflexivity|]. split; [apply sim_set_heap; assumption|]. split.
  - intros m. apply Hku.
  - intros Hc. cbn. rewrite (add_cnt _ _ _ _ H0 Hw). lia.
Qed.

Definition dstep (s : state) (v : nid) : res state :=
  '(s, _) <-! stabilizeNode 0 [] s v; setStale s v.

Lemma dstep_sim s s' v t : s ≈ s' -> isVarKind (nkind (nd s v)) = true -> -1 <= height (nd s v) ->
  dstep s v = Ok t ->
  exists t', dstep s' v = Ok t' /\ t ≈ t' /\ hk_eq s t /\ (0 <= Heap.cnt (heap s) -> 0 <= Heap.cnt (heap t)).
Proof.
  intros Hs Hk Hh H. unfold dstep in *.
  rewrite (stabilizeNode_var 0 [] s v Hk) in H.
  rewrite (stabilizeNode_var 0 [] s' v) by (rewrite <- (nd_ext s s' v (sim_nodes _ _ Hs)); exact Hk).
  cbn [ok rbind] in *.
  pose proof (hk_varApply s v) as HK.
  destruct (setStale_sim _ _ v t (sim_varApply s s' v Hs)) as (t' & H' & St & HKt & Hc); [| exact H|].
  { destruct (HK v) as [_ ->]. exact Hh. }
  exists t'. split; [exact H'|]. split; [exact St|]. split; [eapply hk_eq_trans; eassumption|].
  intros X. apply Hc. unfold varApply. destruct (pending _); [destruct (_ =? _)|]; exact X.
Qed.

Lemma dsteps_sim L : forall s s' t, s ≈ s' ->
  (forall v, v ∈ L -> isVarKind (nkind (nd s v)) = true) -> (forall m, -1 <= height (nd s m)) ->
  rfold dstep L s = Ok t -> exists t', rfold dstep L s' = Ok t' /\ t ≈ t'.
Proof.
  induction L as [|v L IH]; intros s s' t Hs Hk Hh H.
  - injection H as <-. exists s'. auto.
  - cbn [rfold] in *. apply rbind_ok in H as (s1 & H1 & H).
    destruct (dstep_sim s s' v s1 Hs (Hk v ltac:(left)) (Hh v) H1) as (s1' & H1' & S1 & HK & _).
    rewrite H1'. cbn [rbind]. eapply IH; [exact S1| | |exact H].
    + intros u Hu. destruct (HK u) as [-> _]. apply Hk. right. exact Hu.
    + intros m. destruct (HK m) as [_ ->]. apply Hh.
Qed.

Lemma applyDeferredSets_sim s s' t : s ≈ s' ->
  (forall v, v ∈ setRemoved s ++ setDuring s -> isVarKind (nkind (nd s v)) = true) ->
  (forall m, -1 <= height (nd s m)) ->
  applyDeferredSets s = Ok t -> exists t', applyDeferredSets s' = Ok t' /\ t ≈ t'.
Proof.
  intros Hs Hk Hh H. unfold applyDeferredSets in *.
  rewrite <- (sim_setRemoved _ _ Hs), <- (sim_setDuring _ _ Hs).
  apply rbind_ok in H as (s1 & H1 & [= <-]).
  destruct (dsteps_sim _ s s' s1 Hs Hk Hh H1) as (s1' & H1' & S1).
  change (rfold dstep (setRemoved s ++ setDuring s) s' = Ok s1') in H1'. unfold dstep in H1'. rewrite H1'.
  cbn [rbind]. eexists. split; [reflexivity|]. destruct S1. constructor; cbn; try assumption; reflexivity.
Qed.

(** the state the deferred sets are applied to *)
Definition preEnd (s : state) (e : option err) : state :=
  s <| log := endEvs s e ++ log s |> <| status := 2 |> <| handlers := [] |> <| stabNum := stabNum s + 1 |>.

Lemma stabilizeEnd_pre s e : stabilizeEnd s e = (s1 <-! applyDeferredSets (preEnd s e); Ok (s1 <| status := 0 |>)).
Proof.
  unfold stabilizeEnd, runUpdateHandlers. rewrite foldl_handlers.
  assert (forall u u', u = u' -> (s1 <-! applyDeferredSets u; Ok (s1 <| status := 0 |>)) = (s1 <-! applyDeferredSets u'; Ok (s1 <| status := 0 |>))) as X by (intros ? ? ->; reflexivity).
  apply X. apply state_ext; cbn; try reflexivity.
  unfold endEvs. rewrite <- app_assoc. cbn. f_equal. f_equal. apply map_ext. intros k. apply handlerEv_ext; reflexivity.
Qed.

Lemma stabilizeEnd_sim2 s s' e t : s ≈ s' ->
  (forall v, v ∈ setRemoved s ++ setDuring s -> isVarKind (nkind (nd s v)) = true) ->
  (forall m, -1 <= height (nd s m)) ->
  stabilizeEnd s e = Ok t -> exists t', stabilizeEnd s' e = Ok t' /\ t ≈ t'.
Proof.
  intros Hs Hk Hh H. rewrite stabilizeEnd_pre in *. apply rbind_ok in H as (s1 & H1 & [= <-]).
  assert (Sp : preEnd s e ≈ preEnd s' e).
  { destruct Hs as [Sn Sb Snx Sr So Sh Sa Si Sst Sstat Snn Ssd Ssr Shd Smx Sl]. constructor; cbn; try assumption; try reflexivity.
    - rewrite Sst. reflexivity.
    - unfold endEvs. rewrite Shd.
      rewrite (map_ext (handlerEv s) (handlerEv s')) by (intros k; symmetry; apply handlerEv_ext; congruence).
      apply Permutation_app_head. exact Sl. }
  destruct (applyDeferredSets_sim _ _ s1 Sp Hk Hh H1) as (s1' & H1' & S1).
  rewrite H1'. cbn [rbind]. eexists. split; [reflexivity|]. destruct S1. constructor; cbn; try assumption; reflexivity.
Qed.

Lemma tgt_target a : tgt a = target a.
Proof. destruct a; reflexivity. Qed.

Lemma plan_par_ok_hk p s t : hk_eq s t -> plan_par_ok p s -> plan_par_ok p t.
Proof.
  intros HK [P1 P2 P3]. constructor.
  - exact P1.
  - intros n w a v Ha Hv. destruct (HK v) as [-> _]. eapply P2; eauto.
  - intros n m w w' a a' v Hne Hh. destruct (HK n) as [_ E1], (HK m) as [_ E2]. rewrite E1, E2 in Hh. eapply P3; eauto.
Qed.

Lemma nodeActs_in p s n a : a ∈ nodeActs p s n -> exists w, a ∈ actions_of p n w.
Proof. unfold nodeActs. destruct (nkind (nd s n)); try (intros H; inversion H; fail); eauto. Qed.

Lemma sets_ok_of_plan p t B h : plan_par_ok p t -> status t = 1 -> (forall n, n ∈ B -> height (nd t n) = h) -> sets_ok p t B.
Proof.
  intros [P1 P2 P3] Hst Hh. constructor.
  - exact Hst.
  - intros n a _ Ha. destruct (nodeActs_in _ _ _ _ Ha) as [w Hw]. specialize (P1 n w a Hw). destruct a; [contradiction|reflexivity|reflexivity].
  - intros n v _ Hv. unfold targets in Hv. apply elem_of_list_omap in Hv as (a & Ha & Ev).
    destruct (nodeActs_in _ _ _ _ Ha) as [w Hw]. apply (P2 n w a v Hw). rewrite tgt_target. exact Ev.
  - intros n m v Hn Hm Hne Hvn Hvm. unfold targets in Hvn, Hvm.
    apply elem_of_list_omap in Hvn as (a & Ha & Ea). apply elem_of_list_omap in Hvm as (a' & Ha' & Ea').
    destruct (nodeActs_in _ _ _ _ Ha) as [w Hw]. destruct (nodeActs_in _ _ _ _ Ha') as [w' Hw'].
    apply (P3 n m w w' a a' v Hne); try assumption; try (rewrite tgt_target; assumption).
    rewrite (Hh n Hn), (Hh m Hm). reflexivity.
Qed.

Lemma pend_hk s t : pend_eq s t -> hk_eq s t.
Proof. intros PE m. split; [apply (pend_proj nkind)|apply (pend_proj height)]; auto. Qed.

Lemma run_quiet_hk fuel B h l : forall t e al r, ok_state t B h -> (forall x, x ∈ l -> x ∈ B) ->
  rfold (block_step fuel []) l (t, e, al) = Ok r -> hk_eq t r.1.1.
Proof.
  induction l as [|n l IH]; intros t e al r Ok Hl H.
  - injection H as <-. apply hk_eq_refl.
  - destruct (step_total fuel [] B h (quiet_nil B) t e al n Ok (Hl n ltac:(left))) as (t1 & E1 & R1 & Ok1).
    cbn [rfold] in H. rewrite E1 in H. cbn [rbind] in H.
    eapply hk_eq_trans; [|eapply IH; [exact Ok1| |exact H]].
    + intros m. split; [apply (rnp_spec_proj nkind t n t1 None m)|apply (rnp_spec_proj height t n t1 None m)];
        first [exact R1|intros; apply localF_frame].
    + intros; apply Hl; right; assumption.
Qed.

Lemma run_hk_sets fuel p B h l s e al r :
  ok_state s B h -> sets_ok p s B -> (forall x, x ∈ l -> x ∈ B) ->
  rfold (block_step fuel p) l (s, e, al) = Ok r -> hk_eq s r.1.1.
Proof.
  intros Ok SO Hl H. set (A := nodeActs p s).
  pose proof (sinv_of_sets_ok p s B h Ok SO) as SI. fold A in SI.
  rewrite (run_factor fuel p A B h l s e al SI Hl) in H.
  assert (OkS : ok_state (setsAllA A l s) B h).
  { eapply ok_state_pend; [apply pend_eq_setsAllA|apply rest_eq_setsAllA|exact Ok]. }
  eapply hk_eq_trans; [apply pend_hk, pend_eq_setsAllA|]. eapply run_quiet_hk; eassumption.
Qed.

Lemma parLoopS_sim2 sched1 sched2 p : fair sched1 -> fair sched2 ->
  forall fuel s s' al al' r, pass_ok s -> pass_ok s' -> s ≈ s' -> al ≡ₚ al' ->
  plan_par_ok p s -> status s = 1 ->
  parLoopS sched1 fuel p s al = Ok r ->
  exists r', parLoopS sched2 fuel p s' al' = Ok r' /\ sim_blk r r' /\
             pass_ok r.1.1 /\ pass_ok r'.1.1 /\ r.1.2 = None.
Proof.
  intros F1 F2. induction fuel as [|fuel IH]; intros s s' al al' r P P' Hs Hal PP Hst H; [discriminate|].
  cbn [parLoopS] in *. rewrite <- (hs_cnt _ _ (sim_heap _ _ Hs)).
  destruct (Heap.cnt (heap s) <=? 0).
  { injection H as <-. eexists. split; [reflexivity|]. cbn. split; [|auto]. split; [exact Hs|]. split; [reflexivity|exact Hal]. }
  destruct (Heap.takeMinBlock (heap s)) as [b w] eqn:Et.
  destruct (Heap.takeMinBlock (heap s')) as [b' w'] eqn:Et'.
  destruct (takeMinBlock_sim _ _ _ _ _ _ (sim_heap _ _ Hs) Et Et') as [Hb Hw].
  destruct (block_of_pass s b w P Et) as (Pw & h & Okb).
  destruct (block_of_pass s' b' w' P' Et') as (Pw' & h' & Okb').
  set (sw := s <| heap := w |>) in *. set (sw' := s' <| heap := w' |>) in *.
  assert (Hsw : sw ≈ sw') by (apply sim_set_heap; assumption).
  destruct (parts_nolhs sw b (po_nolhs _ Pw)) as [L1 L2]. rewrite L1, L2 in H.
  destruct (parts_nolhs sw' b' (po_nolhs _ Pw')) as [L1' L2']. rewrite L1', L2'.
  cbn [app] in *. unfold run_block_acc in *.
  apply rbind_ok in H as ([[s1 e1] al1] & H1 & H).
  assert (PPw : plan_par_ok p sw) by (eapply plan_par_ok_hk; [|exact PP]; intros m; split; reflexivity).
  assert (SO : sets_ok p sw b) by (apply (sets_ok_of_plan p sw b h PPw Hst), (bo_height _ _ _ (proj1 Okb))).
  assert (SO' : sets_ok p sw' b').
  { apply (sets_ok_of_plan p sw' b' h').
    - eapply plan_par_ok_hk; [|exact PPw]. intros m. rewrite (nd_ext sw sw' m (sim_nodes _ _ Hsw)). split; reflexivity.
    - rewrite <- (sim_status _ _ Hsw). exact Hst.
    - apply (bo_height _ _ _ (proj1 Okb')). }
  assert (Hl1 : forall x, x ∈ sched1 sw b -> x ∈ b) by (intros x; rewrite (F1 sw b); auto).
  assert (Hl2 : forall x, x ∈ sched2 sw' b' -> x ∈ b') by (intros x; rewrite (F2 sw' b'); auto).
  destruct (run_pass_ok_sets fuel p b h _ sw None al _ Pw Okb SO Hl1 H1) as (P1 & E1 & St1). cbn in P1, E1, St1. subst e1.
  pose proof (run_hk_sets fuel p b h _ sw None al _ Okb SO Hl1 H1) as HK1. cbn in HK1.
  assert (Hperm : sched1 sw b ≡ₚ sched2 sw' b') by (rewrite (F1 sw b), (F2 sw' b'); exact Hb).
  assert (Hnd : NoDup (sched1 sw b)) by (rewrite (F1 sw b); apply (bo_nodup _ _ _ (proj1 Okb))).
  destruct (run_perm_sets fuel p b h _ _ sw sw' None al al' _ Okb SO Hperm Hl1 Hnd Hsw Hal H1)
    as ([[s1' e1'] al1'] & H1' & S1 & S2 & S3). cbn in S1, S2, S3. subst e1'.
  destruct (run_pass_ok_sets fuel p b' h' _ sw' None al' _ Pw' Okb' SO' Hl2 H1') as (P1' & _ & _). cbn in P1'.
  rewrite H1'. cbn [rbind]. change (parLoopS sched1 fuel p s1 al1 = Ok r) in H.
  eapply (IH s1 s1' al1 al1'); try eassumption.
  eapply plan_par_ok_hk; [exact HK1|exact PPw].
Qed.

(** ** C04, pass level: on a bind-free graph the result of ParallelStabilize does not depend on
    the order in which the nodes of each height block are processed (node functions may set vars). *)
Theorem pass_schedule_independent_sets sched1 sched2 p s t e :
  fair sched1 -> fair sched2 -> plan_par_ok p s -> pass_ok s ->
  parStabilizeS sched1 p s = Ok (t, e) ->
  exists t', parStabilizeS sched2 p s = Ok (t', e) /\ t ≈ t' /\ (status s = 0 -> e = None).
Proof.
  intros F1 F2 PP P H. unfold parStabilizeS in *.
  destruct (Z.eqb_spec (status s) 0) as [Est|Est]; cbn [negb] in *.
  2: { injection H as <- <-. exists s. split; [reflexivity|]. split; [apply sim_refl|contradiction]. }
  set (s0 := emit EvPassStart (s <| status := 1 |>)) in *.
  assert (P0 : pass_ok s0) by (apply (pass_ok_core s); auto).
  assert (PP0 : plan_par_ok p s0) by (eapply plan_par_ok_hk; [|exact PP]; intros m; split; reflexivity).
  apply rbind_ok in H as ([[s1 e1] al1] & H1 & H).
  destruct (parLoopS_sim2 sched1 sched2 p F1 F2 _ s0 s0 [] [] _ P0 P0 (sim_refl _) (Permutation_refl _) PP0 eq_refl H1)
    as ([[s1' e1'] al1'] & H1' & (S1 & S2 & S3) & P1 & P1' & E1). cbn in S1, S2, S3, P1, P1', E1. subst e1 e1'.
  rewrite H1'. cbn [rbind].
  apply rbind_ok in H as (s2 & H2 & H). apply rbind_ok in H as (s3 & H3 & [= <- <-]).
  rewrite requeue_char in H2. apply rbind_ok in H2 as (w2 & Hw2 & [= <-]).
  rewrite requeue_char.
  assert (Hnd : forall x, nd s1' x = nd s1 x) by (intros x; symmetry; apply nd_ext, (sim_nodes _ _ S1)).
  assert (Hfil : filter (fun n => height (nd s1 n) <> unset) al1 ≡ₚ filter (fun n => height (nd s1' n) <> unset) al1').
  { rewrite S3. apply Permutation_refl'. apply list_filter_iff. intros x. rewrite Hnd. reflexivity. }
  assert (Hpos : forall c, c ∈ filter (fun n => height (nd s1 n) <> unset) al1 -> 0 <= height (nd s1 c)).
  { intros c [Hc _]%elem_of_list_filter. pose proof (po_hrange _ P1 c). unfold unset in Hc. lia. }
  destruct (addAll_perm _ _ _ Hfil _ (heap s1') _ Hpos (go_cnt _ (po_graph _ P1)) (sim_heap _ _ S1) Hw2)
    as (w2' & Hw2' & Sw2).
  rewrite (addAll_ext _ (fun c => height (nd s1 c))) by (intros; apply f_equal, Hnd).
  rewrite Hw2'. cbn [rbind].
  assert (S2' : (s1 <| heap := w2 |>) ≈ (s1' <| heap := w2' |>)) by (apply sim_set_heap; assumption).
  destruct (stabilizeEnd_sim2 _ _ None s3 S2') as (s3' & H3' & S3'); [| |exact H3|].
  { intros v Hv. cbn in Hv. rewrite (po_setRemoved _ P1) in Hv. apply (po_setDuring _ P1 v Hv). }
  { intros m. apply (po_hrange _ P1 m). }
  rewrite H3'. cbn [rbind]. exists s3'. split; [reflexivity|]. split; [exact S3'|reflexivity].
Qed.

Lemma plan_par_ok_quiet p s : quiet_all p -> plan_par_ok p s.
Proof.
  intros Hq. constructor.
  - intros n w a Ha. rewrite (Hq n w) in Ha. inversion Ha.
  - intros n w a v Ha. rewrite (Hq n w) in Ha. inversion Ha.
  - intros n m w w' a a' v _ _ Ha. rewrite (Hq n w) in Ha. inversion Ha.
Qed.

Theorem pass_schedule_independent sched1 sched2 p s t e :
  fair sched1 -> fair sched2 -> quiet_all p -> pass_ok s ->
  parStabilizeS sched1 p s = Ok (t, e) ->
  exists t', parStabilizeS sched2 p s = Ok (t', e) /\ t ≈ t' /\ (status s = 0 -> e = None).
Proof. intros F1 F2 Hq. apply pass_schedule_independent_sets; auto using plan_par_ok_quiet. Qed.

(** the model's own schedule (queue order) against any other *)
Corollary parStabilize_any_schedule sched p s t e :
  fair sched -> plan_par_ok p s -> pass_ok s -> parStabilize p s = Ok (t, e) ->
  exists t', parStabilizeS sched p s = Ok (t', e) /\ t ≈ t'.
Proof.
  intros F PP P H. rewrite <- parStabilizeS_queue_order in H.
  destruct (pass_schedule_independent_sets queue_order sched p s t e) as (t' & H' & S & _); auto.
  - intros s0 b. reflexivity.
  - eauto.
Qed.

Lemma actions_of_in p n w a : a ∈ actions_of p n w -> (n, w, a) ∈ p.
Proof.
  unfold actions_of. intros H. apply elem_of_list_omap in H as ([[m w'] a'] & Hin & E).
  destruct (Nat.eqb_spec m n) as [->|]; [|discriminate]. cbn in E.
  destruct w, w'; cbn in E; try discriminate; injection E as ->; exact Hin.
Qed.

Lemma plan_par_okb_sound p s : plan_par_okb p s = true -> plan_par_ok p s.
Proof.
  unfold plan_par_okb. rewrite andb_true_iff. intros [H1 H2]. rewrite forallb_forall in H1, H2.
  constructor.
  - intros n w a Ha. apply actions_of_in, elem_of_list_In, H1 in Ha. cbn in Ha.
    apply andb_true_iff in Ha as [Ha _]. destruct a; [discriminate|exact I|exact I].
  - intros n w a v Ha Hv. apply actions_of_in, elem_of_list_In, H1 in Ha. cbn in Ha.
    apply andb_true_iff in Ha as [_ Ha]. rewrite tgt_target in Hv. rewrite Hv in Ha. exact Ha.
  - intros n m w w' a a' v Hne Hh Ha Ha' Hv Hv'. rewrite tgt_target in Hv, Hv'.
    apply actions_of_in, elem_of_list_In, H2 in Ha. cbn in Ha. rewrite forallb_forall in Ha.
    apply actions_of_in, elem_of_list_In, Ha in Ha'. cbn in Ha'. rewrite Hv, Hv', Hh in Ha'.
    rewrite Z.eqb_refl, Nat.eqb_refl in Ha'. destruct (Nat.eqb_spec n m); [contradiction|discriminate].
Qed.
