(** C13 for serial passes with ANY plan on graphs with binds: var writes and any number of faults
    (errors and panics of node functions, bind functions, cutoff functions).  The update handlers
    that run at the end of the pass are those of the nodes that are registered when the pass
    returns and carry its change stamp -- whether the pass failed or not. *)
From incr Require Import Base Heap HeapSpec HeapProofs EngineDefs Engine EngineRun EngineWf Spec EngineLemmas EngineLocal
     EngineInv EngineInvProofs PassInv PassProofs PassPlanProofs PassPlanProofs2 PassBind PassBindProofs PassBindSwap
     PassBindSwapProofs PassBindSwapStep PassBindOps PassBindSwapLog PassBindFault PassBindWrites PassBindTotal PassBindMixed
     PassBindFaultGen PassBindMultiFault PassBindSwapHandlers PassBindHandlersW PassBindPlanLog.
From incr Require Import SpecProofs.

Local Arguments valueOf : simpl never.

(** * 1. The handler-set invariant across one recompute under a plan of faults *)
(* a panicking recompute files no handler *)
Lemma panic_hdl_map x s s' e imm fuel :
  has s x -> mapKind (nkind (nd s x)) = true ->
  recomputeNodeSerial fuel (panicPlan x) s x = Ok (s', e, imm) -> handlers s' = handlers s.
Proof. intros Hx Hmk H. destruct (rns_panicPlan_fail fuel x s s' e imm Hx Hmk H) as (_ & _ & ->). reflexivity. Qed.

Lemma panic_hdl_lhs b s s' e imm fuel :
  has s b -> nkind (nd s b) = KBindLhs b -> is_Some (binds s !! b) -> b_memo (bd s b) = false ->
  recomputeNodeSerial fuel (panicPlan b) s b = Ok (s', e, imm) -> handlers s' = handlers s.
Proof.
  intros Hx Hk [r Hr] Hmemo H. rewrite recomputeNodeSerial_unfold in H. cbv zeta in H.
  set (s0 := upd s b (set recomputedAt (fun _ => stabNum s))) in *.
  assert (Hk0 : nkind (nd s0 b) = KBindLhs b) by (unfold s0; rewrite (nd_upd_proj nkind) by reflexivity; exact Hk).
  assert (Hmc : maybeCutoff (panicPlan b) s0 b (nd s b) = Ok (s0, None, false)).
  { unfold maybeCutoff. rewrite Hk. reflexivity. }
  rewrite Hmc in H. simpl in H.
  assert (Hbd0 : bd s0 b = r) by (unfold bd; change (binds s0) with (binds s); rewrite Hr; reflexivity).
  assert (Hbd : bd s b = r) by (unfold bd; rewrite Hr; reflexivity).
  set (s1 := updb s0 b (set b_rhsNodes (fun _ : list nid => []))) in *.
  set (sF := updb (emit (EvFault b WFn FPanic) s1) b (set b_rhsNodes (fun _ => b_rhsNodes r))).
  assert (Hsn : stabilizeNode fuel (panicPlan b) s0 b = Ok (sF, Some (EPanic b))).
  { unfold stabilizeNode. rewrite Hk0. unfold bindLhsStabilize. cbv zeta. rewrite Hbd0.
    rewrite Hbd in Hmemo. rewrite Hmemo. fold s1.
    assert (Hinv : invoke (panicPlan b) s1 b WFn = Ok (emit (EvFault b WFn FPanic) s1, Some (EPanic b))).
    { unfold invoke. rewrite panicPlan_actions, Nat.eqb_refl. reflexivity. }
    rewrite Hinv. reflexivity. }
  rewrite Hsn in H. simpl in H. injection H as <- <- <-. reflexivity.
Qed.

Lemma panic_hdl_cut fuel x s s' e imm :
  has s x -> cutKind (nkind (nd s x)) = true ->
  recomputeNodeSerial fuel (cutPlan x FPanic) s x = Ok (s', e, imm) -> handlers s' = handlers s.
Proof.
  intros Hx Hck H. rewrite recomputeNodeSerial_unfold in H. cbv zeta in H.
  set (s0 := upd s x (set recomputedAt (fun _ => stabNum s))) in *.
  assert (Hinv : invoke (cutPlan x FPanic) s0 x WCut = Ok (emit (EvFault x WCut FPanic) s0, Some (EPanic x))).
  { unfold invoke. rewrite cutPlan_actions, Nat.eqb_refl. reflexivity. }
  assert (Hmc : maybeCutoff (cutPlan x FPanic) s0 x (nd s x) = Ok (emit (EvFault x WCut FPanic) s0, Some (EPanic x), false)).
  { unfold maybeCutoff. destruct (nkind (nd s x)); try discriminate Hck. rewrite Hinv. reflexivity. }
  rewrite Hmc in H. cbn [rbind] in H. unfold failTail in H. injection H as <- <- <-. reflexivity.
Qed.


Lemma rnsM_panic_hdl fuel q s n s1 e1 imm w :
  nowrites q -> PInv s -> inGraph (nd s n) = true -> fireK q (nkind (nd s n)) n = Some (w, FPanic) ->
  recomputeNodeSerial fuel q s n = Ok (s1, e1, imm) -> handlers s1 = handlers s.
Proof.
  intros Hq P Hg Ef H. pose proof (has_inGraph _ _ Hg) as Hn.
  assert (Hb : forall b, nkind (nd s n) = KBindLhs b -> b = n).
  { intros b K. pose proof (p_kinds _ P n Hn) as Hkk. rewrite K in Hkk. symmetry. apply Hkk. }
  rewrite (rns_fire fuel q s n Hq Hb), Ef in H. cbn [onePlan] in H.
  destruct (fireK_kind q _ n w FPanic Ef) as [(-> & Hf & _)|(-> & Hc & _)].
  - unfold fnKind in Hf. destruct (mapKind (nkind (nd s n))) eqn:Emk.
    + exact (panic_hdl_map n s s1 e1 imm fuel Hn Emk H).
    + simpl in Hf. destruct (nkind (nd s n)) eqn:K0; try discriminate Hf.
      pose proof (p_kinds _ P n Hn) as Hkk. rewrite K0 in Hkk. destruct Hkk as [-> [r Hr]].
      apply (panic_hdl_lhs b s s1 e1 imm fuel Hn K0); [eauto| |exact H].
      unfold bd. rewrite Hr. apply (bw_memo _ _ _ (p_binds _ P b r Hr)).
  - exact (panic_hdl_cut fuel n s s1 e1 imm Hn Hc H).
Qed.


Lemma HInv_panicked s x s' : panickedTo s x s' -> handlers s' = handlers s -> HInv s -> HInv s'.
Proof.
  intros K Hh HI k. destruct (pk_fields _ _ _ K) as (_ & Kk & _).
  assert (Hf : forall (A : Type) (g : node -> A) y, (forall z a, g (z <| recomputedAt := a |>) = g z) -> g (nd s' y) = g (nd s y)).
  { intros A g y Hgg. destruct (decide (y = x)) as [->|Hy]; [rewrite (pk_self _ _ _ K); apply Hgg|rewrite (pk_other _ _ _ K y Hy); reflexivity]. }
  rewrite Hh, Kk, (HI k). rewrite (Hf _ inGraph), (Hf _ changedAt) by reflexivity. apply or_iff_compat_l.
  split; intros (n & A1 & A2 & A3); exists n.
  - rewrite (Hf _ inGraph), (Hf _ observers), (Hf _ changedAt) by reflexivity. auto.
  - rewrite (Hf _ inGraph), (Hf _ observers), (Hf _ changedAt) in * by reflexivity. auto.
Qed.

Lemma rnsMH fuel q s n s1 e1 imm :
  nowrites q -> Tplain s -> PInv s -> LInvC s (Some n) -> inGraph (nd s n) = true -> HInv s ->
  recomputeNodeSerial fuel q s n = Ok (s1, e1, imm) -> (e1 = None \/ fireK q (nkind (nd s n)) n <> None) -> HInv s1.
Proof.
  intros Hq TP P L Hg HI H He.
  pose proof (rnsM fuel q s n s1 e1 imm Hq TP P L Hg H) as R.
  destruct (fireK q (nkind (nd s n)) n) as [[w f]|] eqn:Ef.
  - destruct f.
    + destruct R as (_ & _ & F & _). destruct (ft_fields _ _ _ F) as (_ & Fk & _).
      exact (HInv_fields s s1 (ft_nodes _ _ _ F) Fk (ft_handlers _ _ _ F) HI).
    + destruct R as (_ & _ & K). exact (HInv_panicked s n s1 K (rnsM_panic_hdl fuel q s n s1 e1 imm w Hq P Hg Ef H) HI).
  - destruct He as [-> |He]; [|congruence]. exact (rnsH fuel s n s1 imm TP P L Hg HI R).
Qed.

(** * 2. The chain and the loop *)
Lemma chainMH q (Hq : nowrites q) fuel : forall s n s' e at_,
  Tplain s -> PInv s -> LInvC s (Some n) -> inGraph (nd s n) = true -> HInv s ->
  recomputeChain fuel q s n = Ok (s', e, at_) -> rejErr e \/ HInv s'.
Proof.
  induction fuel as [|fuel IH]; intros s n s' e at_ TP P L Hg HI H; [discriminate|].
  cbn [recomputeChain] in H.
  destruct (recomputeNodeSerial fuel q s n) as [[[s1 e1] imm]| |] eqn:E1; simpl in H; try discriminate.
  pose proof (rnsM fuel q s n s1 e1 imm Hq TP P L Hg E1) as R.
  destruct (fireK q (nkind (nd s n)) n) as [[w f]|] eqn:Ef.
  - pose proof (rnsMH fuel q s n s1 e1 imm Hq TP P L Hg HI E1 ltac:(right; rewrite Ef; discriminate)) as HI1.
    destruct f.
    + destruct R as (-> & -> & _). injection H as <- <- <-. right. exact HI1.
    + destruct R as (-> & -> & _). injection H as <- <- <-. right. exact HI1.
  - pose proof (E_rns _ _ _ _ _ _ R) as Ge.
    destruct e1 as [r|].
    { left. exists r. split; [|exact Ge]. destruct imm; injection H as _ <- _; reflexivity. }
    pose proof (rnsMH fuel q s n s1 None imm Hq TP P L Hg HI E1 ltac:(left; reflexivity)) as HI1.
    destruct (rnsT fuel s n s1 imm TP P L Hg R) as (TP1 & P1 & L1 & Hk1 & Himm & _).
    destruct imm as [c|].
    + exact (IH s1 c s' e at_ TP1 P1 L1 (Himm c eq_refl) HI1 H).
    + injection H as <- <- <-. right. exact HI1.
Qed.

Lemma loopMH q (Hq : nowrites q) fuel : forall s always s' e at_ always',
  Tplain s -> PInv s -> LInvC s None -> AW s always -> HInv s ->
  passLoop fuel q s always = Ok (s', e, at_, always') -> rejErr e \/ HInv s'.
Proof.
  induction fuel as [|fuel IH]; intros s always s' e at_ always' TP P L HA HI H; [discriminate|].
  cbn [passLoop] in H.
  destruct (Z.leb_spec (Heap.cnt (heap s)) 0) as [Hc|Hc]; [injection H as <- _ _ _; right; exact HI|].
  destruct (Heap.removeMin (heap s)) as [[n w]|] eqn:Erm; [|discriminate].
  set (s2 := s <| heap := w |>) in *.
  set (always2 := if isAlways (nkind (nd s2 n)) then always ++ [n] else always) in *.
  destruct (recomputeChain fuel q s2 n) as [[[s3 e3] at3]| |] eqn:E3; simpl in H; try discriminate.
  destruct (pop_LInvC s n w P L Erm) as (L2 & P2 & Hgn). fold s2 in L2, P2.
  pose proof (Tplain_binds s s2 eq_refl TP) as TP2.
  assert (HA2 : AW s2 always2).
  { intros y A B C. unfold always2. destruct (isAlways (nkind (nd s2 n))); [apply elem_of_app; left|]; apply (HA y A B C). }
  assert (Hn2 : isAlways (nkind (nd s2 n)) = true -> n ∈ always2).
  { intros E. unfold always2. rewrite E. apply elem_of_app. right. left. }
  assert (HI2 : HInv s2) by exact HI.
  destruct (chainMH q Hq fuel s2 n s3 e3 at3 TP2 P2 L2 Hgn HI2 E3) as [R|HI3].
  { left. destruct R as (r & -> & Hr). injection H as _ <- _ _. exists r. auto. }
  destruct e3 as [e3|].
  - injection H as <- <- _ _. right. exact HI3.
  - destruct (chainM q Hq fuel s2 n s3 None at3 always2 TP2 P2 L2 Hgn HA2 Hn2 E3)
      as [(r & Er & _)|[(_ & (TP3 & P3 & L3 & _ & _ & HA3))|[(x & Ex & _)|(x & Ex & _)]]]; try discriminate.
    exact (IH s3 always2 s' e at_ always' TP3 P3 L3 HA3 HI3 H).
Qed.

(** * 3. The pass *)
Theorem passM_handlers s q s' e :
  nowrites q -> Inv s -> ValInvB s -> Tplain s -> plan_ok s q = true ->
  stabilize q false s = Ok (s', e) -> rejected e = false ->
  exists L H,
    rev (log s') = rev (log s) ++ [EvPassStart] ++ L ++ [EvPassEnd (classify e)] ++ H /\
    Forall passEv L /\ Forall EngineLocal.isHandlerEv H /\ NoDup H /\
    (forall n, EvUpd n ∈ H <-> inGraph (nd s' n) = true /\ changedAt (nd s' n) = stabNum s) /\
    (forall o v, EvObsUpd o v ∈ H <->
       exists n, obs s' !! o = Some n /\ changedAt (nd s' n) = stabNum s /\ v = valueOf s' n).
Proof.
  intros Hq IV V TP Hpok H Hrej. pose proof (Inv_wfb s IV) as Hwf. destruct (wfb_transients _ Hwf) as (Hst & Hsd & Hsr & Hh).
  destruct (C13_bracket_and_order q false s s' e Hst) as (L & sL & at_ & always & EL & Hlog & HL & Hobs & Hsort);
    [intros n Hn; apply (io_lt _ (inv_ids _ IV)); exact Hn|exact Hpok|rewrite Hsd, Hsr; constructor|exact H|].
  destruct (Hsort ltac:(rewrite Hh; constructor)) as [_ Hnd].
  pose proof EL as EL'. unfold passResult in EL'. cbv zeta in EL'. simpl in EL'.
  set (s1 := EngineLocal.passStart s) in *.
  destruct (pass_start_factsB s IV V TP) as (TP1 & P1 & L1 & HA1). fold s1 in TP1, P1, L1, HA1.
  assert (HI1 : HInv s1).
  { intros k. change (handlers s1) with (handlers s). rewrite Hh. split; [intros Hk; inversion Hk|].
    intros [[_ Hc]|(n & _ & _ & Hc)]; exfalso.
    - pose proof (stamps_node_true _ _ (vb_stamps _ V k)). change (changedAt (nd s k) = stabNum s) in Hc. lia.
    - pose proof (stamps_node_true _ _ (vb_stamps _ V n)). change (changedAt (nd s n) = stabNum s) in Hc. lia. }
  destruct (loopMH q Hq _ s1 [] sL e at_ always TP1 P1 L1 HA1 HI1 EL') as [(r & -> & [-> | ->])|HIL];
    [discriminate Hrej|discriminate Hrej|].
  (* quietness and the stabilization number of the loop's final state *)
  assert (Fin : setDuring sL = [] /\ setRemoved sL = [] /\ stabNum sL = stabNum s).
  { destruct (loopM q Hq _ s1 [] sL e at_ always TP1 P1 L1 HA1 EL')
      as [(r & -> & [-> | ->])|[(_ & (_ & PL & LL & HkL & _) & _)|[(x & _ & _ & (_ & PL & LL & HkL & _) & _)|(x & _ & _ & _ & sG & G)]]];
      [discriminate Hrej|discriminate Hrej| | |].
    - split; [apply (lc_quiet _ _ LL)|]. split; [apply (lc_quiet _ _ LL)|exact HkL].
    - split; [apply (lc_quiet _ _ LL)|]. split; [apply (lc_quiet _ _ LL)|exact HkL].
    - destruct G as (_ & PG & LG & HgG & _ & HkG & _ & _ & KG). destruct (pk_fields _ _ _ KG) as (_ & Kk & Ksd & Ksr).
      rewrite Ksd, Ksr, Kk. split; [apply (lc_quiet _ _ LG)|]. split; [apply (lc_quiet _ _ LG)|exact HkG]. }
  destruct Fin as (HsdL & HsrL & HkLs).
  (* the final state has the nodes of the loop's final state, up to recompute stamps *)
  destruct (stabilize_decompose _ _ _ _ _ Hst H) as (sL' & at' & al' & s2 & s3 & EL2 & ER & EP & EE).
  rewrite EL in EL2. injection EL2 as <- <- <-.
  pose proof (requeue_only_heap _ _ _ ER) as OR.
  destruct (recoverPanic_spec _ _ _ _ EP) as (LE & _ & _ & O3 & _ & _ & _ & SD3 & SR3 & N3 & _).
  destruct (stabilizeEnd_quiet s3 _ s' ltac:(rewrite SD3, (oh_setDuring _ _ OR); exact HsdL)
              ltac:(rewrite SR3, (oh_setRemoved _ _ OR); exact HsrL) EE) as (En & _ & _ & _ & _ & _ & Eo & _).
  assert (RN : forall m, exists r, nd s' m = nd sL m <| recomputedAt := r |>).
  { intros m. destruct (N3 m) as [r Er]. exists r. rewrite (nodes_eq_nd _ _ En m), Er, (oh_nd _ _ OR). reflexivity. }
  assert (Hf : forall (A : Type) (g : node -> A) m, (forall z a, g (z <| recomputedAt := a |>) = g z) -> g (nd s' m) = g (nd sL m)).
  { intros A g m Hgg. destruct (RN m) as [r ->]. apply Hgg. }
  assert (Hobs' : obs s' = obs sL) by (rewrite Eo, O3; apply (oh_obs _ _ OR)).
  assert (Hvo : forall m, valueOf s' m = valueOf sL m).
  { intros m. apply PassProofs.valueOf_ext. intros n. rewrite (Hf _ nkind), (Hf _ decl), (Hf _ value) by reflexivity. auto. }
  destruct (pass_any_plan s q s' e IV V TP Hpok H Hrej) as (IV' & _).
  pose proof (Inv_Struct s' IV') as HS'. pose proof (inv_obs _ IV') as HO'.
  assert (HIL' : forall k, k ∈ handlers sL <->
            (inGraph (nd s' k) = true /\ changedAt (nd s' k) = stabNum s) \/
            (exists n, inGraph (nd s' n) = true /\ k ∈ observers (nd s' n) /\ changedAt (nd s' n) = stabNum s)).
  { intros k. rewrite (HIL k), HkLs. rewrite (Hf _ inGraph), (Hf _ changedAt) by reflexivity. apply or_iff_compat_l.
    split; intros (n & A1 & A2 & A3); exists n.
    - rewrite (Hf _ inGraph), (Hf _ observers), (Hf _ changedAt) by reflexivity. auto.
    - rewrite (Hf _ inGraph), (Hf _ observers), (Hf _ changedAt) in * by reflexivity. auto. }
  assert (Hhev : forall k, hev sL k = hev s' k).
  { intros k. symmetry. apply hev_ext; [exact Hobs'|]. intros m. rewrite (Hf _ nkind), (Hf _ decl), (Hf _ value) by reflexivity. auto. }
  exists L, (map (hev sL) (handlers sL)). split; [exact Hlog|]. split; [exact HL|].
  split; [apply Forall_forall; intros e0 He0; apply elem_of_list_In, elem_of_list_fmap in He0 as (k & -> & _); apply hev_isHandlerEv|].
  split; [apply NoDup_fmap_2; [intros k1 k2; apply hev_inj|exact Hnd]|].
  split.
  - intros n. rewrite elem_of_list_fmap. split.
    + intros (k & Ek & Hk). rewrite Hhev in Ek. unfold hev in Ek. destruct (obs s' !! k) as [n'|] eqn:Eo'; [discriminate|].
      injection Ek as ->. apply HIL' in Hk as [Hk|(n' & _ & Hin & _)]; [exact Hk|].
      apply (ob_iff _ HO') in Hin. congruence.
    + intros [Hg Hc]. exists n. split; [|apply HIL'; left; auto].
      rewrite Hhev. unfold hev. destruct (obs s' !! n) as [n'|] eqn:Eo'; [|reflexivity].
      exfalso. destruct (ob_ids _ HO' n n' Eo') as (_ & Hno & _). apply Hno. apply has_inGraph, Hg.
  - intros o v. rewrite elem_of_list_fmap. split.
    + intros (k & Ek & Hk). rewrite Hhev in Ek. unfold hev in Ek. destruct (obs s' !! k) as [n|] eqn:Eo'; [|discriminate].
      injection Ek as -> ->. exists n. split; [exact Eo'|]. split; [|reflexivity].
      apply HIL' in Hk as [[Hg _]|(n' & _ & Hin & Hc)].
      * exfalso. destruct (ob_ids _ HO' k n Eo') as (_ & Hno & _). apply Hno. apply has_inGraph, Hg.
      * apply (ob_iff _ HO') in Hin. congruence.
    + intros (n & Ho & Hc & ->).
      exists o. split; [rewrite Hhev; unfold hev; rewrite Ho; reflexivity|].
      apply HIL'. right. exists n. split; [|split; [apply (ob_iff _ HO'), Ho|exact Hc]].
      rewrite (st_nec _ HS' n). unfold isNecessary.
      apply (ob_iff _ HO') in Ho. destruct (observers (nd s' n)) as [|o' l]; [inversion Ho|].
      rewrite (bool_decide_eq_false_2 (o' :: l = [])) by discriminate. rewrite orb_true_r. reflexivity.
Qed.

(** * 4. Var writes as well: the handlers of the pass under the faults of the plan alone *)
Lemma stabilize_obs p c s s' e :
  status s = 0 -> ids_below s -> plan_ok s p = true ->
  Forall (fun v => isVar s v = true) (setDuring s ++ setRemoved s) ->
  stabilize p c s = Ok (s', e) -> obs s' = obs s.
Proof.
  intros Hst Hids Hp Hv0 H.
  destruct (stabilize_decompose _ _ _ _ _ Hst H) as (sL & at_ & always & s2 & s3 & H1 & H2 & H3 & H4).
  destruct (passResult_frames _ _ _ _ _ _ _ H1) as (Hpf & Hwv & Hss). specialize (Hwv Hp).
  assert (HvL : Forall (fun v => isVar sL v = true) (setRemoved sL ++ setDuring sL)).
  { eapply (pass_deferred_are_vars (EngineLocal.passStart s) sL p); [exact Hids|exact Hp|exact Hv0|exact Hpf|exact Hwv]. }
  pose proof (requeueAlways_heapOnly _ _ _ H2) as Ho2.
  destruct (recoverPanic_spec _ _ _ _ H3) as (LE & E3 & HLE & O3 & Hh3 & _ & _ & SD3 & SR3 & N3 & V3 & _).
  assert (Hv3 : Forall (fun v => isVar s3 v = true) (setRemoved s3 ++ setDuring s3)).
  { rewrite SD3, SR3. destruct Ho2 as [w ->]. eapply Forall_impl; [|exact HvL]. intros v Hv. cbv beta in *.
    rewrite V3. exact Hv. }
  destruct (EngineLocal.stabilizeEnd_spec _ _ _ Hv3 H4) as (_ & _ & _ & _ & _ & Eo & _).
  destruct Hpf as (Ob & _). rewrite Eo, O3. destruct Ho2 as [w ->]. exact Ob.
Qed.

Theorem passA_handlers s p s' e :
  Inv s -> ValInvB s -> Tplain s -> plan_ok s p = true ->
  stabilize p false s = Ok (s', e) -> rejected e = false ->
  exists t' L H,
    stabilize (fo p) false s = Ok (t', e) /\
    rev (log s') = rev (log s) ++ [EvPassStart] ++ L ++ [EvPassEnd (classify e)] ++ H /\
    Forall passEv L /\ Forall EngineLocal.isHandlerEv H /\ NoDup H /\
    (forall n, EvUpd n ∈ H <-> inGraph (nd s' n) = true /\ changedAt (nd s' n) = stabNum s) /\
    (forall o v, EvObsUpd o v ∈ H <->
       exists n, obs s' !! o = Some n /\ changedAt (nd s' n) = stabNum s /\ v = valueOf t' n).
Proof.
  intros IV V TP Hpok H Hrej. pose proof (Inv_wfb s IV) as Hwf. destruct (wfb_transients _ Hwf) as (Hst & Hsd & Hsr & Hh).
  destruct (passL_any s p s' e IV V TP Hpok H Hrej) as (t' & H0 & _ & Hl & Hv).
  destruct (passM_handlers s (fo p) t' e (nowrites_fo p) IV V TP (plan_ok_fo s p Hpok) H0 Hrej)
    as (L & Hh' & Hlog & HL & HH & Hnd & Hupd & Hobs).
  assert (Hids : ids_below s) by (intros n Hn; apply (io_lt _ (inv_ids _ IV)); exact Hn).
  assert (Hv0 : Forall (fun v => isVar s v = true) (setDuring s ++ setRemoved s)) by (rewrite Hsd, Hsr; constructor).
  assert (Eo : obs s' = obs t').
  { rewrite (stabilize_obs p false s s' e Hst Hids Hpok Hv0 H).
    rewrite (stabilize_obs (fo p) false s t' e Hst Hids (plan_ok_fo s p Hpok) Hv0 H0). reflexivity. }
  assert (Hf : forall n, inGraph (nd s' n) = inGraph (nd t' n) /\ changedAt (nd s' n) = changedAt (nd t' n)).
  { intros n. destruct (Hv n) as (a & b & c & ->). split; reflexivity. }
  exists t', L, Hh'. split; [exact H0|]. rewrite Hl. split; [exact Hlog|]. split; [exact HL|]. split; [exact HH|]. split; [exact Hnd|].
  split.
  - intros n. destruct (Hf n) as [-> ->]. apply Hupd.
  - intros o v. rewrite Eo. rewrite (Hobs o v). split; intros (n & A & B & C); exists n; destruct (Hf n) as [_ E2];
      (split; [exact A|]); (split; [congruence|exact C]).
Qed.

(** * 5. Non-vacuity *)
Lemma exHA_results :
  match histN_run (init 64) (take 8 exNF_ops) with
  | Some s =>
    plan_ok s exN2_plan &&
    match stabilize exN2_plan false s with
    | Ok (s1, Some (EPanic 3%nat)) =>
      bool_decide (take 8 (log s1) =
        [EvUpd 2; EvUpd 0; EvPassEnd XPanic; EvErrH 3; EvErrH 4; EvFault 3 WFn FPanic; EvCutoff 2 2 3 false; EvPassStart]) &&
      bool_decide (filter (fun n => inGraph (nd s1 n) && (changedAt (nd s1 n) =? stabNum s)) (seq 0 (next s1)) = [0; 2]%nat)
    | _ => false
    end
  | None => false
  end = true.
Proof. vm_compute. reflexivity. Qed.
