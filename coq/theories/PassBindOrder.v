(** C08, the ordering half ("F25"): in a serial pass no node of the generation a bind is about to
    replace has run before the swap.  The pass-order invariant [OD]: a registered node that has run
    in this pass (or is being recomputed), created in the scope of bind [b], witnesses that no node
    still owed a recompute reaches [b]'s lhs-change node -- so [b] will not swap any more.  It is
    established when a node is taken from the queue (it is a minimum, and lies above its scope's
    lhs-change node) or recomputed directly ([canRecomputeImmediately] refuses a node whose scope's
    lhs-change node is not below everything queued: the F25 guard), and it is stable because
    recomputes only add edges below nodes that are owed. *)
From incr Require Import Base Heap HeapSpec HeapProofs EngineDefs Engine EngineRun EngineWf Spec EngineLemmas EngineLocal
     EngineInv EngineInvProofs PassInv PassProofs PassPlanProofs PassBind PassBindProofs PassBindSwap PassBindSwapProofs
     PassBindSwapStep PassBindOps PassBindSwapLog.
From incr Require Import SpecProofs.

Local Arguments valueOf : simpl never.

(** * 1. Definitions *)
Definition settled (s : state) (cur : option nid) (b : nid) : Prop :=
  forall w, inW s cur w = true -> ~ reach s w b.

(* [n] was created in the scope of bind [b], directly or in a nested generation *)
Inductive sub (s : state) : nid -> nid -> Prop :=
| sub_here n b : scope (nd s n) = Some b -> sub s n b
| sub_up n b1 b : scope (nd s n) = Some b1 -> sub s b1 b -> sub s n b.

Lemma sub_ext s s' : (forall x, scope (nd s' x) = scope (nd s x)) -> forall n b, sub s' n b -> sub s n b.
Proof.
  intros E n b H. induction H as [n b H|n b1 b H _ IH].
  - apply sub_here. rewrite <- E. exact H.
  - apply (sub_up s n b1 b); [rewrite <- E; exact H|exact IH].
Qed.

Definition OD (s : state) (cur : option nid) : Prop :=
  forall b n, sub s n b -> inGraph (nd s n) = true ->
    (isDone s n = true \/ cur = Some n) -> settled s cur b.

(** the point of the invariant *)
Lemma OD_not_done s a :
  OD s (Some a) -> forall n, sub s n a -> inGraph (nd s n) = true -> isDone s n = false.
Proof.
  intros K n Hs Hg. destruct (isDone s n) eqn:Ed; [exfalso|reflexivity].
  apply (K a n Hs Hg (or_introl Ed) a); [|apply rtc_refl].
  unfold inW. rewrite (bool_decide_eq_true_2 _ eq_refl). apply orb_true_r.
Qed.

(** * 2. A registered node's scope is registered *)
Lemma parent_registered s c p : PInv s -> inGraph (nd s c) = true -> p ∈ parents (nd s c) -> inGraph (nd s p) = true.
Proof.
  intros P Hc Hp. pose proof (PInv_Struct s P) as HS.
  exact (proj1 (edge_reg s HS p c (parent_edge s HS c p Hp))).
Qed.

Lemma scope_registered s : PInv s -> forall k n b,
  (Z.to_nat (maxHeight s - height (nd s n)) <= k)%nat ->
  inGraph (nd s n) = true -> scope (nd s n) = Some b -> inGraph (nd s b) = true.
Proof.
  intros P. pose proof (PInv_Struct s P) as HS. pose proof (p_t _ P) as T.
  induction k as [|k IH]; intros n b Hk Hg Hs.
  - destruct (t_height _ _ _ T n Hg) as ((_ & Hlt) & _). lia.
  - (* necessary: a child (no observer: observed nodes are top-level; no forced necessity in a pass) *)
    pose proof (t_nec _ _ _ T n ltac:(apply not_elem_of_nil) ltac:(intros F; exact F)) as Hn. rewrite Hg in Hn.
    unfold isNecessary in Hn. rewrite (pq_force _ (p_pq _ P) n) in Hn. cbn [orb] in Hn. symmetry in Hn.
    apply orb_true_iff in Hn as [Hc|Ho].
    + apply negb_true_iff, bool_decide_eq_false in Hc.
      destruct (children (nd s n)) as [|c l] eqn:Ec; [contradiction|].
      assert (Hcn : edge s n c) by (unfold edge; rewrite Ec; left).
      destruct (edge_reg s HS n c Hcn) as [_ Hgc].
      pose proof (edge_height s HS n c Hcn) as Hh.
      assert (Hpc : n ∈ parents (nd s c)) by (apply (st_edge _ HS); exact Hcn).
      assert (Hdc : n ∈ decl (nd s c)) by (apply (st_par _ HS c n Hgc); exact Hpc).
      destruct (sc_decl _ (p_scoping _ P) c n Hdc) as [E|[E|(b' & Kc & E & _)]].
      * congruence.
      * apply (IH c b); [|exact Hgc|congruence].
        destruct (t_height _ _ _ T c Hgc) as ((_ & Hlt) & _). lia.
      * assert (b' = b) by congruence. subst b'.
        pose proof (p_kinds _ P c (has_inGraph _ _ Hgc)) as Hkk. rewrite Kc in Hkk. destruct Hkk as [-> [r Hr]].
        pose proof (bw_decl_main _ _ _ (p_binds _ P b r Hr)) as Hd.
        apply (parent_registered s (S b) b P Hgc). apply (st_par _ HS (S b) b Hgc). rewrite Hd. left.
    + exfalso. apply negb_true_iff, bool_decide_eq_false in Ho.
      destruct (observers (nd s n)) as [|o l] eqn:Eo; [contradiction|].
      assert (Hin : o ∈ observers (nd s n)) by (rewrite Eo; left).
      apply (ob_iff _ (t_obs _ _ _ T)) in Hin. destruct (ob_ids _ (t_obs _ _ _ T) o n Hin) as (_ & _ & Hsc). congruence.
Qed.

Lemma scope_reg s n b : PInv s -> inGraph (nd s n) = true -> scope (nd s n) = Some b -> inGraph (nd s b) = true.
Proof. intros P. apply (scope_registered s P _ n b (le_n _)). Qed.

Lemma sub_height s : PInv s -> forall n b, sub s n b -> inGraph (nd s n) = true ->
  inGraph (nd s b) = true /\ height (nd s b) < height (nd s n).
Proof.
  intros P n b H. induction H as [n b H|n b1 b H _ IH]; intros Hg.
  - split; [exact (scope_reg s n b P Hg H)|].
    destruct (t_height _ _ _ (p_t _ P) n Hg) as (_ & _ & Hsh). rewrite H in Hsh. exact Hsh.
  - pose proof (scope_reg s n b1 P Hg H) as Hg1. destruct (IH Hg1) as [Hgb Hlt]. split; [exact Hgb|].
    destruct (t_height _ _ _ (p_t _ P) n Hg) as (_ & _ & Hsh). rewrite H in Hsh. cbn in Hsh. lia.
Qed.

Lemma sub_back s s' : PInv s -> (forall x, has s x -> scope (nd s' x) = scope (nd s x)) ->
  forall n b, sub s' n b -> inGraph (nd s n) = true -> sub s n b.
Proof.
  intros P E n b H. induction H as [n b H|n b1 b H _ IH]; intros Hg.
  - apply sub_here. rewrite <- (E n (has_inGraph _ _ Hg)). exact H.
  - assert (H0 : scope (nd s n) = Some b1) by (rewrite <- (E n (has_inGraph _ _ Hg)); exact H).
    apply (sub_up s n b1 b H0). apply IH. exact (scope_reg s n b1 P Hg H0).
Qed.

(** * 3. Establishing [settled]: heights *)
Lemma settled_unreg s cur b : PInv s -> (forall w, inW s cur w = true -> inGraph (nd s w) = true) ->
  inGraph (nd s b) = false -> settled s cur b.
Proof.
  intros P HW Hb w Hw Hr. pose proof (PInv_Struct s P) as HS.
  pose proof (reach_reg s HS w b Hr (HW w Hw)). congruence.
Qed.

Lemma settled_low s n b : PInv s -> inGraph (nd s n) = true -> sub s n b ->
  (forall w, w ∈ Heap.ids (heap s) -> height (nd s b) < height (nd s w)) ->
  settled s (Some n) b.
Proof.
  intros P Hg Hs Hlow w Hw Hr. pose proof (PInv_Struct s P) as HS. destruct (PInv_heap s P) as [I Hq].
  destruct (sub_height s P n b Hs Hg) as [_ Hsh].
  unfold inW in Hw. apply orb_true_iff in Hw as [Hw|Hw].
  - apply (inHeap_iff0 s w I) in Hw. pose proof (Hlow w Hw) as Hl.
    destruct (reach_height s HS w b Hr) as [->|Hh]; lia.
  - apply bool_decide_eq_true in Hw. injection Hw as <-.
    destruct (reach_height s HS n b Hr) as [->|Hh]; lia.
Qed.

(* a node taken from the queue is a minimum *)
Lemma pop_low s m w : PInv s -> Heap.removeMin (heap s) = Some (m, w) ->
  forall x, x ∈ Heap.ids w -> height (nd s m) <= height (nd s x).
Proof.
  intros P Hrm x Hx. destruct (PInv_heap s P) as [I Hq].
  destruct (heap_removeMin_spec _ _ _ I Hrm) as ([Hmin Hle] & _ & Hperm & _).
  assert (Hx' : x ∈ Heap.ids (heap s)) by (rewrite Hperm; right; exact Hx).
  pose proof (Hle x Hx') as H. rewrite (proj2 (Hq m Hmin)), (proj2 (Hq x Hx')) in H. exact H.
Qed.

(* the guard of a direct recompute: everything queued lies above the scope's lhs-change node *)
Lemma imm_low1 s m c b : PInv s -> canRecomputeImmediately s m c = true -> scope (nd s c) = Some b ->
  forall x, x ∈ Heap.ids (heap s) -> height (nd s b) < height (nd s x).
Proof.
  intros P Hc Hs x Hx. destruct (PInv_heap s P) as [I Hq]. pose proof (PInv_Struct s P) as HS.
  destruct (Hq x Hx) as [Hgx Hhx]. pose proof (st_hnonneg _ HS x Hgx) as H0.
  unfold canRecomputeImmediately in Hc. cbv zeta in Hc. rewrite Hs in Hc. cbn [scopeHeight] in Hc.
  destruct (isAlways (nkind (nd s c)) || requiresHeapOrdering (nkind (nd s c)) || (height (nd s m) <=? height (nd s b)));
    [discriminate Hc|].
  destruct (Z.eqb_spec (height (nd s b)) unset) as [Eu|Hu]; [unfold unset in Eu; lia|].
  cbn [negb andb] in Hc.
  destruct (Heap.minHeight (heap s)) as [mm|] eqn:Em.
  - pose proof (heap_cursor_sound _ _ I Em x Hx) as Hle. rewrite Hhx in Hle.
    destruct (Z.leb_spec mm (height (nd s b))) as [Hl|Hl]; [discriminate Hc|lia].
  - exfalso. unfold Heap.minHeight in Em. destruct (Z.eqb_spec (Heap.cnt (heap s)) 0) as [E0|]; [|discriminate Em].
    pose proof (cnt_zero_ids (heap s) I ltac:(lia)) as Hemp. rewrite Hemp in Hx. inversion Hx.
Qed.

Lemma imm_low s m c b : PInv s -> canRecomputeImmediately s m c = true -> inGraph (nd s c) = true -> sub s c b ->
  forall x, x ∈ Heap.ids (heap s) -> height (nd s b) < height (nd s x).
Proof.
  intros P Hc Hg Hs x Hx. inversion Hs as [n0 b0 H|n0 b1 b0 H H1]; subst.
  - exact (imm_low1 s m c b P Hc H x Hx).
  - pose proof (imm_low1 s m c b1 P Hc H x Hx) as Hl.
    destruct (sub_height s P b1 b H1 (scope_reg s c b1 P Hg H)) as [_ Hlt]. lia.
Qed.

(** * 4. Stability: a recompute of a node that is not a lhs-change node *)
Lemma OD_step fuel s m s' imm :
  Tplain s -> PInv s -> LInvC s (Some m) -> inGraph (nd s m) = true -> isLhs (nkind (nd s m)) = false ->
  recomputeNodeSerial fuel [] s m = Ok (s', None, imm) -> PInv s' ->
  OD s (Some m) -> OD s' imm.
Proof.
  intros TP P L Hg Hnl H P' K.
  pose proof (PInv_BFB s P (lc_shape _ _ L)) as HB. destruct (PInv_heap s P) as [I Hq]. destruct (PInv_heap s' P') as [I' Hq'].
  destruct (rns_stepB fuel s m s' None imm HB (has_inGraph _ _ Hg) I Hnl H) as [_ PP].
  pose proof (stepPostB_sframe _ _ _ _ PP) as F.
  assert (Hsk : forall (A : Type) (g : node -> A) n, (forall z, g (skel z) = g z) -> g (nd s' n) = g (nd s n)).
  { intros A g n Hgg. rewrite <- (Hgg (nd s' n)), <- (Hgg (nd s n)), (sf_nd _ _ F n). reflexivity. }
  assert (Hmem : forall x, inW s' imm x = true -> inW s (Some m) x = true \/ edge s m x).
  { intros x Hx. unfold inW in Hx. destruct (sq_case _ _ _ _ PP) as [C|R].
    - rewrite (cp_imm _ _ _ _ C) in Hx. rewrite (bool_decide_eq_false_2 (None = Some x)) in Hx by discriminate.
      rewrite orb_false_r in Hx. left. unfold inW, inHeap in *. rewrite (cp_heap _ _ _ _ C) in Hx. rewrite Hx. reflexivity.
    - assert (Hx' : x ∈ Heap.ids (heap s') \/ imm = Some x).
      { apply orb_true_iff in Hx as [Hx|Hx]; [left; apply (inHeap_iff0 s' x I'), Hx|right; apply bool_decide_eq_true in Hx; exact Hx]. }
      apply (rq_mem _ _ _ _ R) in Hx' as [Hx'|[Hx' _]].
      + left. unfold inW. rewrite (proj2 (inHeap_iff0 s x I) Hx'). reflexivity.
      + right. exact Hx'. }
  assert (Hst : forall b, settled s (Some m) b -> settled s' imm b).
  { intros b Hb x Hx Hr. apply (sf_reach s s' F) in Hr. destruct (Hmem x Hx) as [Hx'|He].
    - exact (Hb x Hx' Hr).
    - apply (Hb m); [unfold inW; rewrite (bool_decide_eq_true_2 _ eq_refl); apply orb_true_r|].
      eapply rtc_l; [exact He|exact Hr]. }
  intros b n Hs' Hgn Hd.
  assert (Hs : sub s n b) by (apply (sub_ext s s'); [intros x; apply (Hsk _ scope x); reflexivity|exact Hs']).
  rewrite (Hsk _ inGraph n) in Hgn by reflexivity.
  destruct Hd as [Hd|Hd].
  - apply Hst. destruct (decide (n = m)) as [->|Hne].
    + apply (K b m Hs Hgn). right. reflexivity.
    + apply (K b n Hs Hgn). left. unfold isDone in *. rewrite (sq_other _ _ _ _ PP n Hne), (sf_stabNum _ _ F) in Hd. exact Hd.
  - (* the node recomputed directly next *)
    subst imm. destruct (sq_case _ _ _ _ PP) as [C|R]; [pose proof (cp_imm _ _ _ _ C); discriminate|].
    destruct (rq_imm _ _ _ _ R n eq_refl) as [_ Hcan].
    assert (Hgn' : inGraph (nd s' n) = true) by (rewrite (Hsk _ inGraph n) by reflexivity; exact Hgn).
    apply (settled_low s' n b P' Hgn' Hs'). exact (imm_low s' m n b P' Hcan Hgn' Hs').
Qed.

(** * 5. Stability: the recompute of a lhs-change node (a swap) *)
Lemma reach_back s a s' : bfr s a s' -> Struct s -> Struct s' -> forall w b,
  reach s' w b -> inGraph (nd s b) = true -> inGraph (nd s' b) = true ->
  (reach s w b /\ inGraph (nd s w) = true) \/ reach s a b.
Proof.
  intros F HS HS' w b Hr. induction Hr as [b|w x b Hwx Hxb IH]; intros Hgb Hgb'.
  - left. split; [apply rtc_refl|exact Hgb].
  - destruct (IH Hgb Hgb') as [[Hr Hgx]|Hr]; [|right; exact Hr].
    destruct (edge_reg s' HS' w x Hwx) as [_ Hgx'].
    destruct (decide (x = S a)) as [->|Hne].
    + right. eapply rtc_l; [exact (bx_edge _ _ _ F)|exact Hr].
    + assert (Hp' : w ∈ parents (nd s' x)) by (apply (st_edge _ HS'); exact Hwx).
      apply (bx_parents _ _ _ F x w Hgx Hgx' Hne) in Hp'.
      assert (He : edge s w x) by (apply (st_edge _ HS); exact Hp').
      left. split; [eapply rtc_l; [exact He|exact Hr]|exact (proj1 (edge_reg s HS w x He))].
Qed.

Lemma OD_bind fuel s a s' imm :
  Tplain s -> PInv s -> LInvC s (Some a) -> inGraph (nd s a) = true -> nkind (nd s a) = KBindLhs a ->
  recomputeNodeSerial fuel [] s a = Ok (s', None, imm) -> PInv s' ->
  OD s (Some a) -> imm = None /\ OD s' None.
Proof.
  intros TP P L Hg Hk H P' K.
  destruct (bind_step_full fuel s a s' imm TP P L Hg Hk H P') as (_ & -> & _).
  split; [reflexivity|].
  pose proof (bind_step_frame fuel s a s' None TP P L Hg Hk H P') as F.
  pose proof (PInv_Struct s P) as HS. pose proof (PInv_Struct s' P') as HS'.
  destruct (PInv_heap s P) as [I Hq]. destruct (PInv_heap s' P') as [I' Hq'].
  assert (Hids : ids_below s) by (intros n Hn; apply (io_lt _ (p_ids _ P)); exact Hn).
  destruct (pf_recomputeNodeSerial fuel [] s a s' None None H) as (_ & _ & _ & _ & _ & _ & Hst & _).
  destruct (Hst Hids) as [_ Hstat].
  assert (HinWa : inW s (Some a) a = true) by (unfold inW; rewrite (bool_decide_eq_true_2 _ eq_refl); apply orb_true_r).
  assert (Hstab : forall b, inGraph (nd s b) = true -> settled s (Some a) b -> settled s' None b).
  { intros b Hgb Hb. destruct (inGraph (nd s' b)) eqn:Hgb'.
    - intros w Hw Hr. unfold inW in Hw. rewrite (bool_decide_eq_false_2 (None = Some w)) in Hw by discriminate.
      rewrite orb_false_r in Hw.
      destruct (reach_back s a s' F HS HS' w b Hr Hgb Hgb') as [[Hr0 Hgw]|Hr0].
      + destruct (bx_queued _ _ _ F w Hw) as [Hw0|[->|Hw0]].
        * apply (Hb w); [unfold inW; rewrite Hw0; reflexivity|exact Hr0].
        * apply (Hb a HinWa). eapply rtc_l; [exact (bx_edge _ _ _ F)|exact Hr0].
        * congruence.
      + exact (Hb a HinWa Hr0).
    - apply (settled_unreg s' None b P'); [|exact Hgb'].
      intros w Hw. unfold inW in Hw. rewrite (bool_decide_eq_false_2 (None = Some w)) in Hw by discriminate.
      rewrite orb_false_r in Hw. apply (inHeap_iff0 s' w I') in Hw. apply (Hq' w Hw). }
  intros b n Hs' Hgn' [Hd|Hd]; [|discriminate Hd].
  assert (Hold : inGraph (nd s n) = true /\ (isDone s n = true \/ Some a = Some n)).
  { destruct (decide (n = a)) as [->|Hne]; [split; [exact Hg|right; reflexivity]|].
    destruct (bx_done _ _ _ F n Hne Hd) as [Hc|[A B]]; [congruence|auto]. }
  destruct Hold as [Hgn Hd0].
  assert (Hs : sub s n b).
  { apply (sub_back s s' P); [intros x Hx; apply (Hstat x Hx)|exact Hs'|exact Hgn]. }
  apply Hstab; [exact (proj1 (sub_height s P n b Hs Hgn))|]. exact (K b n Hs Hgn Hd0).
Qed.

(** * 6. Taking a node from the queue; the start of a pass *)
Lemma OD_pop s m w :
  PInv s -> LInvC s None -> Heap.removeMin (heap s) = Some (m, w) -> OD s None ->
  OD (s <| heap := w |>) (Some m).
Proof.
  intros P L Hrm K. set (s2 := s <| heap := w |>).
  destruct (pop_LInvC s m w P L Hrm) as (_ & P2 & Hgm). fold s2 in P2.
  destruct (PInv_heap s P) as [I Hq]. destruct (PInv_heap s2 P2) as [I2 _].
  destruct (heap_removeMin_spec _ _ _ I Hrm) as ([Hmin _] & _ & Hperm & _).
  assert (Hr : forall a b, reach s2 a b <-> reach s a b) by (apply sf_reach, sframe_set_heap).
  intros b n Hs Hgn Hd. change (nd s2 n) with (nd s n) in Hgn.
  assert (Hs0 : sub s n b) by (apply (sub_ext s s2); [reflexivity|exact Hs]). clear Hs. rename Hs0 into Hs.
  destruct Hd as [Hd|Hd].
  - change (isDone s n = true) in Hd. pose proof (K b n Hs Hgn (or_introl Hd)) as Hb.
    intros x Hx Hrx. apply Hr in Hrx. apply (Hb x); [|exact Hrx].
    unfold inW in *. rewrite (bool_decide_eq_false_2 (None = Some x)) by discriminate. rewrite orb_false_r.
    apply (inHeap_iff0 s x I). rewrite Hperm. apply orb_true_iff in Hx as [Hx|Hx].
    + right. apply (inHeap_iff0 s2 x I2), Hx.
    + apply bool_decide_eq_true in Hx. injection Hx as <-. left.
  - injection Hd as <-.
    apply (settled_low s2 m b P2 Hgm); [apply (sub_ext s2 s); [reflexivity|exact Hs]|]. intros x Hx. change (height (nd s b) < height (nd s x)).
    pose proof (pop_low s m w P Hrm x Hx) as Hle.
    destruct (sub_height s P m b Hs Hgm) as [_ Hsh]. lia.
Qed.

Lemma OD_start s : (forall n, isDone s n = false) -> OD s None.
Proof. intros H b n _ _ [Hd|Hd]; [rewrite H in Hd; discriminate|discriminate]. Qed.

(** * 7. Every recompute of a pass: the monitored chain and loop *)
(* [chainQ Q] / [loopQ Q]: [Q s n] holds at every call [recomputeNodeSerial _ [] s n] that
   [recomputeChain] / [passLoop] make, as long as the calls succeed *)
Fixpoint chainQ (Q : state -> nid -> Prop) (fuel : nat) (s : state) (n : nid) : Prop :=
  match fuel with
  | O => True
  | S fuel =>
    Q s n /\
    match recomputeNodeSerial fuel [] s n with
    | Ok (s1, None, Some c) => chainQ Q fuel s1 c
    | _ => True
    end
  end.

Fixpoint loopQ (Q : state -> nid -> Prop) (fuel : nat) (s : state) : Prop :=
  match fuel with
  | O => True
  | S fuel =>
    if Heap.cnt (heap s) <=? 0 then True else
    match Heap.removeMin (heap s) with
    | None => True
    | Some (n, w) =>
      let s2 := s <| heap := w |> in
      chainQ Q fuel s2 n /\
      match recomputeChain fuel [] s2 n with
      | Ok (s3, None, _) => loopQ Q fuel s3
      | _ => True
      end
    end
  end.

(* what holds when a lhs-change node is recomputed: no registered node created in its scope has run
   in this pass -- by its stamp, and by the events logged since the pass began *)
Definition QOrd (base : list event) (s : state) (a : nid) : Prop :=
  nkind (nd s a) = KBindLhs a ->
  (forall n, sub s n a -> inGraph (nd s n) = true -> isDone s n = false) /\
  (forall evs pre e post n, log s = evs ++ base -> evs = pre ++ e :: post -> ev_node e = Some n ->
     sub s n a -> inGraph (nd s n) = true -> EvNec n ∈ pre).

Lemma QOrd_of s0 base s a : OD s (Some a) -> LGx s0 base s -> QOrd base s a.
Proof.
  intros K (evs0 & El0 & G) _. split; [exact (OD_not_done s a K)|].
  intros evs pre e post n El E Hn Hs Hg.
  assert (evs = evs0) by (apply (app_inv_tail base); rewrite <- El, <- El0; reflexivity). subst evs0.
  destruct (decide (EvNec n ∈ pre)) as [Hin|Hnin]; [exact Hin|exfalso].
  pose proof (lg_ok _ _ _ G pre e post n E Hn Hnin Hg) as Hok.
  assert (Hd : isDone s n = true).
  { destruct e; try discriminate Hn; injection Hn as ->; unfold PassInv.ev_ok in Hok; rewrite !andb_true_iff in Hok; tauto. }
  rewrite (OD_not_done s a K n Hs Hg) in Hd. discriminate.
Qed.

Lemma chainO fuel : forall s0 base s n,
  Tplain s -> PInv s -> LInvC s (Some n) -> inGraph (nd s n) = true -> OD s (Some n) -> LGx s0 base s ->
  chainQ (QOrd base) fuel s n /\
  (forall s' at_, recomputeChain fuel [] s n = Ok (s', None, at_) -> OD s' None).
Proof.
  induction fuel as [|fuel IH]; intros s0 base s n TP P L Hg K G; [split; [exact Logic.I|discriminate]|].
  cbn [chainQ recomputeChain].
  destruct (recomputeNodeSerial fuel [] s n) as [[[s1 e1] imm]| |] eqn:E1; cbn [rbind];
    try (split; [split; [exact (QOrd_of s0 base s n K G)|exact Logic.I]|discriminate]).
  destruct e1 as [e1|].
  { split; [split; [exact (QOrd_of s0 base s n K G)|exact Logic.I]|].
    intros s' at_ H. destruct imm; injection H as _ ? _; discriminate. }
  destruct (rnsT fuel s n s1 imm TP P L Hg E1) as (TP1 & P1 & L1 & Hk1 & Himm & _).
  assert (K1 : OD s1 imm).
  { destruct (isLhs (nkind (nd s n))) eqn:El.
    - destruct (nkind (nd s n)) eqn:Kn; try discriminate El.
      pose proof (p_kinds _ P n (has_inGraph _ _ Hg)) as Hkk. rewrite Kn in Hkk. destruct Hkk as [-> _].
      destruct (OD_bind fuel s b s1 imm TP P L Hg Kn E1 P1 K) as [-> K1]. exact K1.
    - exact (OD_step fuel s n s1 imm TP P L Hg El E1 P1 K). }
  destruct G as (evs & Elg & G).
  destruct (rnsL fuel s0 s n s1 imm evs TP P L Hg E1 G) as (new & El1 & G1).
  assert (G1x : LGx s0 base s1) by (exists (new ++ evs); split; [rewrite El1, Elg, app_assoc; reflexivity|exact G1]).
  assert (Gx : LGx s0 base s) by (exists evs; auto).
  destruct imm as [c|].
  - destruct (IH s0 base s1 c TP1 P1 L1 (Himm c eq_refl) K1 G1x) as [Q1 F1].
    split; [split; [exact (QOrd_of s0 base s n K Gx)|exact Q1]|exact F1].
  - split; [split; [exact (QOrd_of s0 base s n K Gx)|exact Logic.I]|].
    intros s' at_ H. injection H as <- _. exact K1.
Qed.

Lemma loopO fuel : forall s0 base s,
  Tplain s -> PInv s -> LInvC s None -> OD s None -> LGx s0 base s -> loopQ (QOrd base) fuel s.
Proof.
  induction fuel as [|fuel IH]; intros s0 base s TP P L K G; [exact Logic.I|].
  cbn [loopQ]. destruct (Z.leb_spec (Heap.cnt (heap s)) 0) as [Hc|Hc]; [exact Logic.I|].
  destruct (Heap.removeMin (heap s)) as [[n w]|] eqn:Erm; [|exact Logic.I]. cbv zeta.
  set (s2 := s <| heap := w |>).
  destruct (pop_LInvC s n w P L Erm) as (L2 & P2 & Hgn). fold s2 in L2, P2.
  pose proof (Tplain_binds s s2 eq_refl TP) as TP2.
  pose proof (OD_pop s n w P L Erm K) as K2. fold s2 in K2.
  assert (G2 : LGx s0 base s2).
  { destruct G as (evs & El & G). exists evs. split; [exact El|]. apply (LG_ext s0 s s2 evs); auto. }
  destruct (chainO fuel s0 base s2 n TP2 P2 L2 Hgn K2 G2) as [Q2 F2].
  split; [exact Q2|].
  destruct (recomputeChain fuel [] s2 n) as [[[s3 e3] at3]| |] eqn:E3; try exact Logic.I.
  destruct e3 as [e3|]; [exact Logic.I|].
  destruct (chainT fuel s2 n s3 at3 TP2 P2 L2 Hgn E3) as (TP3 & P3 & L3 & Hk3 & _).
  pose proof (chainL fuel s0 base s2 n s3 at3 TP2 P2 L2 Hgn E3 G2) as G3.
  exact (IH s0 base s3 TP3 P3 L3 (F2 s3 at3 eq_refl) G3).
Qed.

(** * 8. The pass *)
Theorem pass_order s :
  Inv s -> ValInvB s -> Tplain s ->
  let s1 := EngineLocal.passStart s in
  loopQ (QOrd (log s1)) (passFuel s1) s1.
Proof.
  intros IV V TP s1.
  pose proof (LInvC_start s IV V) as L1. change (PassProofs.passStart s) with s1 in L1.
  pose proof (Inv_PInv_start s IV) as P1. change (PInv s1) in P1.
  pose proof (Tplain_binds s s1 eq_refl TP) as TP1.
  assert (Hnd0 : forall y, isDone s1 y = false).
  { intros y. unfold isDone. apply Z.eqb_neq. pose proof (stamps_node_true _ _ (vb_stamps _ V y)).
    change (recomputedAt (nd s y) <> stabNum s). lia. }
  apply (loopO _ s1 (log s1) s1 TP1 P1 L1 (OD_start s1 Hnd0)).
  exists []. split; [reflexivity|apply LG_start].
Qed.

(** * 9. Non-vacuity: the F25 shape.  Node 2 (a Map over var 1) is an outer input of the single-input
    node 6 that the bind (lhs-change 3, same height as node 2) built; var 1 and the bind's input both
    change.  Node 2 is recomputed first; node 6 is owed, the direct recompute is refused (the bind is
    queued at the height of node 6's scope), the bind swaps and invalidates node 6, which has no run
    event in the pass. *)
Definition exO_ops : list op :=
  [ NewVar 0 false; NewVar 5 false;
    NewMap (Aff 1 1) 1%nat;                                    (* 2 *)
    NewBind [TMap (Aff 2 0) (TOuter 2%nat); TRet 7] 0%nat;     (* lhs-change 3, main 4; builds node 6 *)
    Observe 4%nat;
    Stabilize [];
    SetVar 1%nat 9; SetVar 0%nat 1 ].

Lemma exO_results :
  match histB_run (init 64) exO_ops with
  | Some s =>
    inGraph (nd s 6%nat) && bool_decide (scope (nd s 6%nat) = Some 3%nat) && bool_decide (parents (nd s 6%nat) = [2%nat]) &&
    match stabilize [] false s with
    | Ok (s', None) =>
      let evs := take (length (log s') - length (log s)) (log s') in
      bool_decide (log s' = evs ++ log s) &&
      bool_decide (EvInvoked 2 [9] 10 ∈ evs) && bool_decide (EvBindFn 3 1 (Some 7%nat) ∈ evs) && bool_decide (EvInval 6 ∈ evs) &&
      forallb (fun e => negb (bool_decide (ev_node e = Some 6%nat))) evs
    | _ => false
    end
  | None => false
  end = true.
Proof. vm_compute. reflexivity. Qed.
