(** C20 — [parallelBatch] (parallel_batch.go) as a transition system.

    <<
    func parallelBatch(ctx, fn, iter, parallelism) (err error) {
        sem := make(chan A, parallelism)
        wg := new(sync.WaitGroup)
        process := func() {
            defer wg.Done()
            workErr := fn(ctx, <-sem)          // Recv, then fn runs, then Finish
            ...
        }
        w, ok := iter()
        for ok {
            sem <- w                            // Send: blocks while the channel holds [parallelism] items
            wg.Add(1)
            go process()                        // Spawn
            w, ok = iter()
        }
        wg.Wait()
        return
    }
    >>

    For [w] items and parallelism [p] the state counts the items in each stage; goroutines
    are anonymous, so a schedule is a list of step labels and a label that is not enabled
    is a stutter.  "All schedules" therefore covers every interleaving the Go scheduler can
    produce; the scheduler itself, and what [fn] does, are outside the model.

    Two variants, selected by a parameter:
    - [Current]: exactly the code above.  The goroutine receives from the channel and THEN
      runs [fn], so the channel slot is free again while [fn] runs.
    - [Semaphore]: the discipline the option promises: a slot is held for the whole
      duration of [fn] -- taken by the producer's send, given back when [fn] returns. *)
From incr Require Import Base.
Local Open Scope nat_scope.

Inductive variant := Current | Semaphore.

Inductive label :=
| Send      (* producer: sem <- w *)
| Spawn     (* producer: wg.Add(1); go process() *)
| Recv      (* a spawned goroutine takes its item (<-sem) and enters fn *)
| Finish.   (* fn returns; wg.Done() *)

Record bstate := BState {
  pending : nat;    (* items the iterator has not yet handed out *)
  inchan  : nat;    (* items (slots) held in the channel buffer *)
  carry   : bool;   (* producer is between its send and its [go process()] *)
  spawned : nat;    (* goroutines started that have not entered fn yet *)
  running : nat;    (* goroutines inside fn *)
  done    : nat     (* goroutines that have returned *)
}.

Definition binit (w : nat) : bstate := BState w 0 false 0 0 0.

Definition enabled (v : variant) (p : nat) (s : bstate) (l : label) : bool :=
  match l with
  | Send => (0 <? pending s) && negb (carry s) && (inchan s <? p)
  | Spawn => carry s
  | Recv => match v with
            | Current => (0 <? spawned s) && (0 <? inchan s)
            | Semaphore => 0 <? spawned s
            end
  | Finish => 0 <? running s
  end.

Definition bstep (v : variant) (p : nat) (s : bstate) (l : label) : bstate :=
  if enabled v p s l then
    match l with
    | Send => BState (pending s - 1) (inchan s + 1) true (spawned s) (running s) (done s)
    | Spawn => BState (pending s) (inchan s) false (spawned s + 1) (running s) (done s)
    | Recv => match v with
              | Current => BState (pending s) (inchan s - 1) (carry s) (spawned s - 1) (running s + 1) (done s)
              | Semaphore => BState (pending s) (inchan s) (carry s) (spawned s - 1) (running s + 1) (done s)
              end
    | Finish => match v with
                | Current => BState (pending s) (inchan s) (carry s) (spawned s) (running s - 1) (done s + 1)
                | Semaphore => BState (pending s) (inchan s - 1) (carry s) (spawned s) (running s - 1) (done s + 1)
                end
    end
  else s.

Definition bschedule := list label.

Fixpoint bexec_from (v : variant) (p : nat) (s : bstate) (sch : bschedule) : bstate :=
  match sch with
  | [] => s
  | l :: sch => bexec_from v p (bstep v p s l) sch
  end.

Definition bexec (v : variant) (w p : nat) (sch : bschedule) : bstate :=
  bexec_from v p (binit w) sch.

(** no step is enabled: [wg.Wait()] either returns (everything done) or the batch is stuck *)
Definition stuck (v : variant) (p : nat) (s : bstate) : bool :=
  negb (enabled v p s Send || enabled v p s Spawn || enabled v p s Recv || enabled v p s Finish).

(** [wg.Wait()] returns *)
Definition finished (w : nat) (s : bstate) : bool :=
  (pending s =? 0) && negb (carry s) && (spawned s =? 0) && (running s =? 0) && (done s =? w).

(** every enabled step lowers this *)
Definition measure (s : bstate) : nat :=
  4 * pending s + (if carry s then 3 else 0) + 2 * spawned s + running s.

(** the adversary of the harness: hand out item after item, let each goroutine enter [fn],
    let nobody finish *)
Fixpoint greedy (k : nat) : bschedule :=
  match k with
  | O => []
  | S k => Send :: Spawn :: Recv :: greedy k
  end.

(** what the gate harness must observe in flight when nobody finishes *)
Definition predict (v : variant) (w p : nat) : nat := running (bexec v w p (greedy w)).

(** the high-water mark of [running] along a schedule *)
Fixpoint high_water (v : variant) (p : nat) (s : bstate) (sch : bschedule) : nat :=
  match sch with
  | [] => running s
  | l :: sch => Nat.max (running s) (high_water v p (bstep v p s l) sch)
  end.
