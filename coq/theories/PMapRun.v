(** Executable correspondence runner for incrutil/pmap.

    A case is a HISTORY: a list of operations, each applied to ANY earlier version (index
    0 is the empty map, operation number i creates version i+1), so histories are trees of
    versions.  After every operation the Go harness recorded what the public API (and the
    verif hook, for the shape) said about the new version; after the history it recorded
    SymmetricDiff between chosen pairs of versions and the answers of Reducers driven
    through chosen sequences of versions.  [mismatches] re-runs all of it on the model and
    returns (case index, step index) of the first disagreement of each case; steps are
    numbered operations first, then checks.

    Diff and Reduce are evaluated twice: with pointer identity read as structural equality
    (maximal sharing) and as [fun _ _ => false] (no sharing).  Both must reproduce what Go
    said. *)
From incr Require Import Base PMap.

Inductive pop :=
| PSet (src : nat) (k v : Z)
| PDelete (src : nat) (k : Z)
| PSetAll (src : nat) (m : gomap)
| PDeleteAll (src : nat) (ks : list Z)
| PFromGoMap (m : gomap).

Inductive probe :=
| QGet (k : Z) (r : option Z)
| QHas (k : Z) (r : bool)
| QNth (i : Z) (r : option (Z * Z))
| QRank (k : Z) (r : Z) (present : bool)
| QRange (lo hi : Z) (r : list (Z * Z)).

Record pobs := PObs {
  o_all : list (Z * Z);          (* Map.All *)
  o_len : Z;                     (* Map.Len *)
  o_min : option (Z * Z);
  o_max : option (Z * Z);
  o_pre : list Z;                (* keys in preorder: with o_all this fixes the tree shape *)
  o_height : Z;                  (* cached height of the root *)
  o_probes : list probe
}.

Inductive eqkind := EqStd | EqNil | EqMod2.

Inductive check :=
| CDiff (a b : nat) (e : eqkind) (stop : option nat) (r : list change)
| CReduce (seq : list nat) (rs : list (option Z)).

Definition case := (list (pop * pobs) * list check)%type.

(** ** decidable equalities used to compare observations *)

Fixpoint tree_eqb (a b : tree) : bool :=
  match a, b with
  | E, E => true
  | T l k v r h s, T l' k' v' r' h' s' =>
    (k =? k') && (v =? v') && (h =? h') && (s =? s') && tree_eqb l l' && tree_eqb r r'
  | _, _ => false
  end.

Definition kv_eqb (a b : Z * Z) : bool := (fst a =? fst b) && (snd a =? snd b).

Fixpoint list_eqb {A} (f : A -> A -> bool) (a b : list A) : bool :=
  match a, b with
  | [], [] => true
  | x :: a', y :: b' => f x y && list_eqb f a' b'
  | _, _ => false
  end.

Definition opt_eqb {A} (f : A -> A -> bool) (a b : option A) : bool :=
  match a, b with
  | None, None => true
  | Some x, Some y => f x y
  | _, _ => false
  end.

Definition change_eqb (a b : change) : bool :=
  match a, b with
  | Added k v, Added k' v' => (k =? k') && (v =? v')
  | Removed k v, Removed k' v' => (k =? k') && (v =? v')
  | Updated k o n, Updated k' o' n' => (k =? k') && (o =? o') && (n =? n')
  | _, _ => false
  end.

(** ** the model's own view of a version *)

Fixpoint preorder (n : tree) : list Z :=
  match n with E => [] | T l k _ r _ _ => k :: preorder l ++ preorder r end.

(* real height / size, recomputed *)
Fixpoint real_height (n : tree) : Z :=
  match n with E => 0 | T l _ _ r _ _ => Z.max (real_height l) (real_height r) + 1 end.
Fixpoint real_size (n : tree) : Z :=
  match n with E => 0 | T l _ _ r _ _ => real_size l + real_size r + 1 end.

Fixpoint sorted_keysb (l : list (Z * Z)) : bool :=
  match l with
  | [] => true
  | (k, _) :: l' => match l' with [] => true | (k', _) :: _ => (k <? k') && sorted_keysb l' end
  end.

(* cached fields right and AVL balance at every node *)
Fixpoint shapeb (n : tree) : bool :=
  match n with
  | E => true
  | T l _ _ r h s =>
    shapeb l && shapeb r && (h =? real_height n) && (s =? real_size n) &&
    (Z.abs (real_height l - real_height r) <=? 1)
  end.

Definition okb (n : tree) : bool := sorted_keysb (all n) && shapeb n.

Definition probe_ok (t : tree) (q : probe) : bool :=
  match q with
  | QGet k r => opt_eqb Z.eqb (get t k) r
  | QHas k r => Bool.eqb (has t k) r
  | QNth i r => opt_eqb kv_eqb (nth t i) r
  | QRank k r p => let '(r', p') := rank t k in (r' =? r) && Bool.eqb p' p
  | QRange lo hi r => list_eqb kv_eqb (range t lo hi) r
  end.

Definition obs_ok (t : tree) (o : pobs) : bool :=
  list_eqb kv_eqb (all t) (o_all o) &&
  (len t =? o_len o) &&
  opt_eqb kv_eqb (min t) (o_min o) &&
  opt_eqb kv_eqb (max t) (o_max o) &&
  list_eqb Z.eqb (preorder t) (o_pre o) &&
  (treeHeight t =? o_height o) &&
  okb t &&
  forallb (probe_ok t) (o_probes o).

Definition pstep (vs : list tree) (o : pop) : option (res tree) :=
  match o with
  | PSet src k v => t ← vs !! src; Some (insert t k v)
  | PDelete src k => t ← vs !! src; Some (remove t k)
  | PSetAll src m => t ← vs !! src; Some (setAll t m)
  | PDeleteAll src ks => t ← vs !! src; Some (deleteAll t ks)
  | PFromGoMap m => Some (fromGoMap m)
  end.

(** ** the equality functions and the reducer's monoid used by the harness *)

Definition eq_of (e : eqkind) : option (Z -> Z -> bool) :=
  match e with
  | EqStd => Some Z.eqb
  | EqNil => None
  | EqMod2 => Some (fun a b => (a mod 2) =? (b mod 2))
  end.

(* affine maps x |-> a*x+b over Z/P, encoded as a*P+b; composition is associative and
   not commutative *)
Definition P : Z := 1000003.
Definition rproject (k v : Z) : Z :=
  (1 + (k * 31 + v * 17) mod (P - 1)) * P + (k * 7 + v + 1) mod P.
Definition rcombine (x y : Z) : Z :=
  let a1 := x / P in let b1 := x mod P in
  let a2 := y / P in let b2 := y mod P in
  ((a1 * a2) mod P) * P + (a2 * b1 + b2) mod P.

Definition no_sharing (_ _ : tree) : bool := false.

Definition res_list_eqb {A} (f : A -> A -> bool) (m : res (list A)) (r : list A) : bool :=
  match m with Ok l => list_eqb f l r | _ => false end.

Definition check_ok (vs : list tree) (c : check) : bool :=
  match c with
  | CDiff a b e stop r =>
    match vs !! a, vs !! b with
    | Some ta, Some tb =>
      res_list_eqb change_eqb (symmetricDiff tree_eqb (eq_of e) ta tb stop) r &&
      res_list_eqb change_eqb (symmetricDiff no_sharing (eq_of e) ta tb stop) r
    | _, _ => false
    end
  | CReduce seq rs =>
    match mapM (fun i => vs !! i) seq with
    | Some ts =>
      list_eqb (opt_eqb Z.eqb) (reduceSeq rproject rcombine tree_eqb [] ts) rs &&
      list_eqb (opt_eqb Z.eqb) (reduceSeq rproject rcombine no_sharing [] ts) rs
    | None => false
    end
  end.

Fixpoint replay_checks (vs : list tree) (cs : list check) (i : nat) : option nat :=
  match cs with
  | [] => None
  | c :: cs' => if check_ok vs c then replay_checks vs cs' (S i) else Some i
  end.

(* [vs] is kept in creation order *)
Fixpoint replay (vs : list tree) (tr : list (pop * pobs)) (cs : list check) (i : nat) : option nat :=
  match tr with
  | [] => replay_checks vs cs i
  | (o, expected) :: tr' =>
    match pstep vs o with
    | Some (Ok t) => if obs_ok t expected then replay (vs ++ [t]) tr' cs (S i) else Some i
    | _ => Some i
    end
  end.

Definition mismatches (cases : list case) : list (nat * nat) :=
  omap (fun '(k, (tr, cs)) => match replay [E] tr cs 0 with
                              | Some i => Some (k, i) | None => None end)
       (imap (fun k c => (k, c)) cases).
