(** C07 on graphs with binds, for a fault anywhere: the development of PassBindFault.v (one
    failing / panicking node function) made generic in the plan.  [Section Gen]: a plan [p] that
    touches only the recompute of node [x], and only when [x] has a kind in [tk]; given what the
    faulting recompute of [x] leaves ([failedTo] for an error, [panickedTo] for a panic), the
    pass returns that error and [Inv], [ValInvB], [Tplain] hold afterwards.
    Instance: a fault in the CUTOFF function of a cutoff node ([WCut]). *)
From incr Require Import Base Heap HeapSpec HeapProofs EngineDefs Engine EngineRun EngineWf Spec EngineLemmas EngineLocal
     EngineInv EngineInvProofs PassInv PassProofs PassPlanProofs PassBind PassBindProofs PassBindSwap PassBindSwapProofs
     PassBindSwapStep PassBindOps PassBindFault PassBindWrites PassBindTotal PassBindMixed.
From incr Require Import SpecProofs.

Local Arguments valueOf : simpl never.

(** * 0. A plan with writes and faults, against the pass with its faults only (black box) *)
Lemma plan_ok_fo s p : plan_ok s p = true -> plan_ok s (fo p) = true.
Proof.
  unfold plan_ok, fo. induction p as [|[[m w] a] p IH]; [reflexivity|]. simpl. intros H.
  apply andb_true_iff in H as [Ha Hp]. destruct a; simpl; [rewrite (IH Hp); reflexivity|apply IH, Hp|apply IH, Hp].
Qed.

Lemma recoverPanic_cl s e a : recoverPanic (cl s) e a = rmap cl (recoverPanic s e a).
Proof.
  unfold recoverPanic. destruct e as [[]|]; try reflexivity.
  rewrite (cl_upd s a (set recomputedAt (fun _ => 0))) by (apply clc_set; reflexivity).
  rewrite heapAddIfNotPresent_cl.
  destruct (heapAddIfNotPresent (upd s a (set recomputedAt (fun _ => 0))) a) as [s1| |]; cbn [rmap rbind]; try reflexivity.
  rewrite cl_errorHandlers. reflexivity.
Qed.

Lemma errorHandlers_fields s n :
  nodes (errorHandlers s n) = nodes s /\ heap (errorHandlers s n) = heap s /\ binds (errorHandlers s n) = binds s /\
  next (errorHandlers s n) = next s /\ stabNum (errorHandlers s n) = stabNum s /\
  setDuring (errorHandlers s n) = setDuring s /\ setRemoved (errorHandlers s n) = setRemoved s.
Proof. unfold errorHandlers. destruct (nkind (nd s n)); repeat split. Qed.

Lemma recoverPanic_fields s e a s' : recoverPanic s e a = Ok s' ->
  setDuring s' = setDuring s /\ setRemoved s' = setRemoved s /\ (forall v, isVar s v = true -> isVar s' v = true).
Proof.
  unfold recoverPanic. intros H.
  assert (Triv : Ok s = Ok s' -> setDuring s' = setDuring s /\ setRemoved s' = setRemoved s /\
                                 (forall v, isVar s v = true -> isVar s' v = true)).
  { intros [= <-]. auto. }
  destruct e as [[]|]; try (apply Triv, H). clear Triv.
  apply rbind_ok in H as (s1 & H1 & [= <-]).
  set (s0 := upd s a (set recomputedAt (fun _ => 0))) in *.
  assert (O1 : only_heap s0 s1).
  { unfold heapAddIfNotPresent in H1. destruct (inHeap s0 a); [injection H1 as <-; apply only_heap_refl|].
    apply heapAdd_inv in H1 as (w & _ & ->). apply only_heap_set. }
  destruct (errorHandlers_fields s1 a) as (En & _ & _ & _ & _ & Esd & Esr).
  rewrite Esd, Esr, (oh_setDuring _ _ O1), (oh_setRemoved _ _ O1). split; [reflexivity|]. split; [reflexivity|].
  intros v Hv. apply isVar_spec in Hv as [k Hk]. apply isVar_spec. exists k.
  rewrite (nodes_eq_nd _ _ En v), (oh_nd _ _ O1). unfold s0. rewrite (nd_upd_proj nkind) by reflexivity. exact Hk.
Qed.

Lemma stabilizeEnd_quiet_okE s2 e :
  setDuring s2 = [] -> setRemoved s2 = [] ->
  stabilizeEnd s2 e = Ok ((endUe e s2) <| setDuring := [] |> <| setRemoved := [] |> <| status := 0 |>).
Proof.
  intros Hsd Hsr. unfold stabilizeEnd. cbv zeta. fold (endUe e s2).
  rewrite applyDeferredSets_unfold. destruct (endUe_facts e s2) as (_ & _ & _ & _ & _ & Usd & Usr).
  rewrite Usr, Usd, Hsr, Hsd. reflexivity.
Qed.

Theorem pass_mixed_bb s p s' e :
  Inv s -> ValInvB s -> Tplain s -> plan_ok s p = true ->
  stabilize p false s = Ok (s', e) -> rejected e = false ->
  (forall tL at_ al, passLoop (passFuel (EngineLocal.passStart s)) (fo p) (EngineLocal.passStart s) [] = Ok (tL, e, at_, al) ->
     setDuring tL = [] /\ setRemoved tL = []) ->
  exists t', stabilize (fo p) false s = Ok (t', e) /\
    (ValInvB t' -> Tplain t' -> CF s t' ->
     Inv s' /\ ValInvB s' /\ Tplain s' /\ CF s s' /\ (forall m, inHeap t' m = true -> inHeap s' m = true)).
Proof.
  intros IV V TP Hpok H Hrej Hquiet. pose proof (Inv_wfb s IV) as Hwf.
  destruct (wfb_transients _ Hwf) as (Hst & Hsd & Hsr & Hh).
  assert (IV' : Inv s').
  { apply (Inv_step_stabilize s (Stabilize p) s' e IV); try reflexivity; [exact Hpok|exact H| |];
      intros ->; discriminate Hrej. }
  destruct (stabilize_decompose p false s s' e Hst H) as (sLp & at_ & al & s2p & s3p & ELp & ERp & EPp & EEp).
  pose proof ELp as ELp'. unfold passResult in ELp'. cbv zeta in ELp'. simpl in ELp'.
  set (s1 := EngineLocal.passStart s) in *.
  assert (Hst1 : status s1 = 1) by reflexivity.
  destruct (loops_agree _ p s1 [] sLp e at_ al Hst1 ELp') as (tL & ET & EclL).
  destruct (Hquiet tL at_ al ET) as [HsdL HsrL].
  (* the requeue *)
  pose proof (requeueAlways_cl al tL) as RQ. rewrite EclL, requeueAlways_cl in RQ.
  change (PassProofs.requeueAlways al sLp) with (EngineLocal.requeueAlways al sLp) in RQ. rewrite ERp in RQ.
  destruct (requeueAlways al tL) as [t2| |] eqn:ERt; try discriminate RQ.
  cbn [rmap rbind] in RQ. apply Ok_cl_inv in RQ. rename RQ into Ecl2.
  pose proof (requeue_only_heap _ _ _ ERt) as ORt. pose proof (requeue_only_heap _ _ _ ERp) as ORp.
  (* the recovery *)
  assert (RP : recoverPanic (cl t2) e at_ = Ok (cl s3p)) by (rewrite <- Ecl2, recoverPanic_cl, EPp; reflexivity).
  rewrite recoverPanic_cl in RP.
  destruct (recoverPanic t2 e at_) as [t3| |] eqn:EPt; try discriminate RP.
  cbn [rmap rbind] in RP. apply Ok_cl_inv in RP. rename RP into Ecl3.
  destruct (recoverPanic_fields _ _ _ _ EPt) as (Rsd & Rsr & _).
  destruct (recoverPanic_fields _ _ _ _ EPp) as (Psd & Psr & Pvar).
  assert (Hsd3 : setDuring t3 = []) by (rewrite Rsd, (oh_setDuring _ _ ORt); exact HsdL).
  assert (Hsr3 : setRemoved t3 = []) by (rewrite Rsr, (oh_setRemoved _ _ ORt); exact HsrL).
  set (t' := (endUe e t3) <| setDuring := [] |> <| setRemoved := [] |> <| status := 0 |>).
  pose proof (stabilizeEnd_quiet_okE t3 e Hsd3 Hsr3) as EEt. fold t' in EEt.
  assert (H0 : stabilize (fo p) false s = Ok (t', e)).
  { rewrite stabilize_unfold, Hst. change (negb (0 =? 0)) with false. cbv iota zeta.
    change (emit EvPassStart (s <| status := 1 |>)) with s1. simpl andb. cbv iota. rewrite ET. cbn [rbind].
    change (EngineLocal.requeueAlways al tL) with (PassProofs.requeueAlways al tL). rewrite ERt. cbn [rbind].
    rewrite EPt. cbn [rbind]. rewrite EEt. reflexivity. }
  exists t'. split; [exact H0|]. intros Vt Tt Ct.
  assert (IVt : Inv t').
  { apply (Inv_step_stabilize s (Stabilize (fo p)) t' e IV); try reflexivity; [apply plan_ok_fo, Hpok|exact H0| |];
      intros ->; discriminate Hrej. }
  (* the write run's epilogue *)
  destruct (stabilizeEnd_unfoldE _ _ _ EEp) as (u1 & Ed & Es').
  assert (EclU : cl t' = cl ((endUe e s3p) <| status := 0 |>)).
  { change (cl t') with ((cl (endUe e t3)) <| status := 0 |>). rewrite cl_endUe, Ecl3, <- cl_endUe. reflexivity. }
  pose proof (Inv_Struct t' IVt) as HSt. pose proof (Inv_BFB t' IVt (vb_shape _ Vt)) as HBt.
  assert (HSu : Struct (endUe e s3p)) by exact (Struct_status _ _ (tr_Struct t' _ EclU HSt)).
  assert (HBu : BFB (endUe e s3p)) by exact (BFB_status _ _ (tr_BFB t' _ EclU HBt)).
  assert (Vu : ValInvB (endUe e s3p)).
  { pose proof (tr_ValInvB t' _ EclU HBt Vt) as Vx. revert Vx. apply ValInvB_fields; reflexivity. }
  destruct (endUe_facts e s3p) as (Un & Uh & Ub & Ux & Uk & Usd & Usr).
  assert (HvL : Forall (fun v => isVar sLp v = true) (setRemoved sLp ++ setDuring sLp)).
  { apply (passResult_deferred_are_vars p false s sLp e at_ al); [|exact Hpok| |exact ELp].
    - intros n Hn. apply (io_lt _ (inv_ids _ IV)). exact Hn.
    - rewrite Hsd, Hsr. constructor. }
  set (W := setRemoved (endUe e s3p) ++ setDuring (endUe e s3p)) in *.
  assert (HvU : Forall (fun v => isVar (endUe e s3p) v = true) W).
  { unfold W. rewrite Usr, Usd, Psr, Psd, (oh_setRemoved _ _ ORp), (oh_setDuring _ _ ORp).
    eapply List.Forall_impl; [|exact HvL]. intros w Hw.
    assert (Hw2 : isVar s2p w = true) by (unfold isVar in *; rewrite (oh_nodes _ _ ORp); exact Hw).
    pose proof (Pvar w Hw2) as Hw3. unfold isVar in *. rewrite Un. exact Hw3. }
  destruct (dsteps_postB W _ u1 HSu HBu Vu HvU Ed) as (A1 & A2 & A3 & (F1 & F2 & F3) & A5 & A6 & A7 & A8 & A9).
  assert (Hb' : binds s' = binds t').
  { rewrite Es'. change (binds u1 = binds t'). rewrite F1. change (binds (endUe e s3p) = binds (cl t')). rewrite EclU. reflexivity. }
  split; [exact IV'|]. split.
  { rewrite Es'. apply (ValInvB_fields u1); try reflexivity. exact A3. }
  split; [apply (Tplain_binds t' s' Hb' Tt)|].
  split; [apply (CF_trans s t' s'); [exact Ct|apply CF_binds, Hb']|].
  intros m Hm. rewrite Es'. change (inHeap u1 m = true). apply A7.
  change (inHeap (cl t') m = true) in Hm. rewrite EclU in Hm. exact Hm.
Qed.

Section Gen.
  Context (pl : plan) (x : nid) (tk : kind -> bool).
  Hypothesis Hpok : forall s, plan_ok s pl = true.
  Hypothesis Hother : forall fuel s m,
    (forall b, nkind (nd s m) = KBindLhs b -> b = m) ->
    (m <> x \/ tk (nkind (nd s m)) = false) ->
    recomputeNodeSerial fuel pl s m = recomputeNodeSerial fuel [] s m.
  Hypothesis HnotAlways : forall k, tk k = true -> isAlways k = false.

Section GenFail.
  Hypothesis Hfail : forall fuel s s' e imm,
    PInv s -> inGraph (nd s x) = true -> tk (nkind (nd s x)) = true ->
    recomputeNodeSerial fuel pl s x = Ok (s', e, imm) ->
    e = Some (EUser x) /\ imm = None /\ failedTo s x s'.

Lemma failed_stepG fuel s s' e imm :
  Tplain s -> PInv s -> LInvC s (Some x) -> inGraph (nd s x) = true -> tk (nkind (nd s x)) = true ->
  recomputeNodeSerial fuel pl s x = Ok (s', e, imm) ->
  e = Some (EUser x) /\ imm = None /\ failedTo s x s' /\ Tplain s' /\ PInv s' /\ LInvC s' None /\ inHeap s' x = true.
Proof.
  intros TP P L Hg Hf H.
  destruct (Hfail fuel s s' e imm P Hg Hf H) as (-> & -> & F). split; [reflexivity|]. split; [reflexivity|]. split; [exact F|].
  split; [apply (Tplain_binds s s' (ft_binds _ _ _ F) TP)|].
  destruct (recomputeNodeSerial_spec PT PT_struct bind_spec_holds fuel pl s x s' _ None Logic.I P (Hpok s) Hg H)
    as [Hr|[(P' & _) _]]; [destruct Hr; discriminate|].
  split; [exact P'|]. exact (failedTo_LInvC s x s' P L F).
Qed.

Lemma chain_failG fuel : forall s n s' e at_ always,
  Tplain s -> PInv s -> LInvC s (Some n) -> inGraph (nd s n) = true ->
  AW s always -> (isAlways (nkind (nd s n)) = true -> n ∈ always) ->
  recomputeChain fuel pl s n = Ok (s', e, at_) ->
  rejErr e \/
  (Tplain s' /\ PInv s' /\ LInvC s' None /\ stabNum s' = stabNum s /\ CF s s' /\ AW s' always /\
   (e = None \/ (e = Some (EUser x) /\ inHeap s' x = true))).
Proof.
  induction fuel as [|fuel IH]; intros s n s' e at_ always TP P L Hg HA Hn H; [discriminate|].
  cbn [recomputeChain] in H.
  destruct (recomputeNodeSerial fuel pl s n) as [[[s1 e1] imm]| |] eqn:E1; simpl in H; try discriminate.
  destruct (decide (n = x /\ tk (nkind (nd s n)) = true)) as [[-> Hf]|Hno].
  - destruct (failed_stepG fuel s s1 e1 imm TP P L Hg Hf E1) as (-> & -> & F & TP1 & P1 & L1 & Hq).
    injection H as <- <- <-. right. destruct (ft_fields _ _ _ F) as (_ & Fk & _).
    split; [exact TP1|]. split; [exact P1|]. split; [exact L1|]. split; [exact Fk|].
    split; [apply CF_binds, (ft_binds _ _ _ F)|]. split; [exact (AW_nodes s s1 always (ft_nodes _ _ _ F) Fk HA)|].
    right. auto.
  - rewrite Hother in E1.
    2:{ intros b K. pose proof (p_kinds _ P n (has_inGraph _ _ Hg)) as Hkk. rewrite K in Hkk. symmetry. apply Hkk. }
    2:{ destruct (decide (n = x)) as [->|]; [right|left; assumption].
        destruct (tk (nkind (nd s x))); [exfalso; apply Hno; auto|reflexivity]. }
    pose proof (E_rns _ _ _ _ _ _ E1) as Ge.
    destruct e1 as [r|].
    { left. exists r. split; [|exact Ge]. destruct imm; injection H as _ <- _; reflexivity. }
    destruct (rnsT fuel s n s1 imm TP P L Hg E1) as (TP1 & P1 & L1 & Hk1 & Himm & C1).
    destruct (rnsT2 fuel s n s1 imm TP P L Hg E1) as (Hd & Hna).
    assert (HA1 : AW s1 always).
    { intros y A B C. destruct (Hd y B C A) as [(X1 & X2 & X3)|[-> X]]; [apply (HA y X3 X1 X2)|apply Hn, X]. }
    destruct imm as [c|].
    + destruct (IH s1 c s' e at_ always TP1 P1 L1 (Himm c eq_refl) HA1) as [R|(TP' & P' & L' & Hk' & C' & HA' & He)];
        [intros Hc; rewrite (Hna c eq_refl) in Hc; discriminate|exact H|left; exact R|].
      right. split; [exact TP'|]. split; [exact P'|]. split; [exact L'|]. split; [congruence|].
      split; [eapply CF_trans; eauto|]. split; [exact HA'|exact He].
    + injection H as <- <- <-. right. auto 10.
Qed.

Lemma loop_failG fuel : forall s always s' e at_ always',
  Tplain s -> PInv s -> LInvC s None -> AW s always ->
  passLoop fuel pl s always = Ok (s', e, at_, always') ->
  rejErr e \/
  (Tplain s' /\ PInv s' /\ LInvC s' None /\ stabNum s' = stabNum s /\ CF s s' /\ AW s' always' /\
   ((e = None /\ Heap.ids (heap s') = []) \/ (e = Some (EUser x) /\ inHeap s' x = true))).
Proof.
  induction fuel as [|fuel IH]; intros s always s' e at_ always' TP P L HA H; [discriminate|].
  cbn [passLoop] in H. destruct (PInv_heap s P) as [I _].
  destruct (Z.leb_spec (Heap.cnt (heap s)) 0) as [Hc|Hc].
  { injection H as <- <- _ <-. right. split; [exact TP|]. split; [exact P|]. split; [exact L|]. split; [reflexivity|].
    split; [apply CF_binds; reflexivity|]. split; [exact HA|]. left. split; [reflexivity|apply cnt_zero_ids; assumption]. }
  destruct (Heap.removeMin (heap s)) as [[n w]|] eqn:Erm; [|discriminate].
  set (s2 := s <| heap := w |>) in *.
  set (always2 := if isAlways (nkind (nd s2 n)) then always ++ [n] else always) in *.
  destruct (recomputeChain fuel pl s2 n) as [[[s3 e3] at3]| |] eqn:E3; simpl in H; try discriminate.
  destruct (pop_LInvC s n w P L Erm) as (L2 & P2 & Hgn). fold s2 in L2, P2.
  pose proof (Tplain_binds s s2 eq_refl TP) as TP2.
  assert (HA2 : AW s2 always2).
  { intros y A B C. unfold always2. destruct (isAlways (nkind (nd s2 n))); [apply elem_of_app; left|]; apply (HA y A B C). }
  assert (Hn2 : isAlways (nkind (nd s2 n)) = true -> n ∈ always2).
  { intros E. unfold always2. rewrite E. apply elem_of_app. right. left. }
  destruct (chain_failG fuel s2 n s3 e3 at3 always2 TP2 P2 L2 Hgn HA2 Hn2 E3)
    as [R|(TP3 & P3 & L3 & Hk3 & C3 & HA3 & He3)].
  { left. destruct R as (r & -> & Hr). injection H as _ <- _ _. exists r. auto. }
  assert (C03 : CF s s3) by (apply (CF_trans s s2 s3); [apply CF_binds; reflexivity|exact C3]).
  destruct e3 as [e3|].
  - injection H as <- <- _ <-. destruct He3 as [?|[-> Hq]]; [discriminate|]. right.
    split; [exact TP3|]. split; [exact P3|]. split; [exact L3|]. split; [exact Hk3|]. split; [exact C03|].
    split; [exact HA3|]. right. auto.
  - destruct (IH s3 always2 s' e at_ always' TP3 P3 L3 HA3 H) as [R|(TP' & P' & L' & Hk' & C' & HA' & He')]; [left; exact R|].
    right. split; [exact TP'|]. split; [exact P'|]. split; [exact L'|]. split; [rewrite Hk', Hk3; reflexivity|].
    split; [eapply CF_trans; eauto|]. split; [exact HA'|exact He'].
Qed.

Theorem passG_error s s' e :
  Inv s -> ValInvB s -> Tplain s -> stabilize pl false s = Ok (s', Some e) ->
  e <> ECycle -> e <> EHeightLimit ->
  e = EUser x /\ Inv s' /\ ValInvB s' /\ Tplain s' /\ CF s s' /\ inHeap s' x = true.
Proof.
  intros IV V TP H Hne1 Hne2. pose proof (Inv_wfb s IV) as Hwf.
  destruct (wfb_transients _ Hwf) as (Hst & Hsd & Hsr & Hh).
  assert (IV' : Inv s').
  { apply (Inv_step_stabilize s (Stabilize pl) s' (Some e) IV); try reflexivity; [apply Hpok|exact H|congruence|congruence]. }
  destruct (stabilize_decompose _ _ _ _ _ Hst H) as (sL & at_ & always & s2 & s3 & EL & ER & EP & EE).
  unfold passResult in EL. cbv zeta in EL. simpl in EL.
  set (s1 := EngineLocal.passStart s) in *.
  pose proof (LInvC_start s IV V) as L1. change (PassProofs.passStart s) with s1 in L1.
  pose proof (Inv_PInv_start s IV) as P1. change (PInv s1) in P1.
  pose proof (Tplain_binds s s1 eq_refl TP) as TP1.
  assert (HA1 : AW s1 []).
  { intros y _ Hd _. exfalso. pose proof (stamps_node_true _ _ (vb_stamps _ V y)). unfold isDone in Hd. apply Z.eqb_eq in Hd.
    change (recomputedAt (nd s y) = stabNum s) in Hd. lia. }
  destruct (loop_failG _ s1 [] sL (Some e) at_ always TP1 P1 L1 HA1 EL)
    as [(r & [= ->] & [->| ->])|(TPL & PL & LL & HkL & CL & HAL & He)]; [congruence|congruence|].
  destruct He as [[? _]|[[= ->] HqL]]; [discriminate|].
  injection EP as <-.
  destruct (PInv_heap sL PL) as [IL HqLh].
  pose proof (requeue_only_heap _ _ _ ER) as OR.
  destruct (requeue_mem always sL s2 IL ER) as (IR & MR & AR).
  destruct (stabilizeEnd_quiet s2 _ s' ltac:(rewrite (oh_setDuring _ _ OR); exact (proj1 (lc_quiet _ _ LL)))
              ltac:(rewrite (oh_setRemoved _ _ OR); exact (proj2 (lc_quiet _ _ LL))) EE)
    as (En & Eh & Eb & Ex & Ek & _).
  assert (Hn : nodes s' = nodes sL) by (rewrite En; apply (oh_nodes _ _ OR)).
  assert (Hb : binds s' = binds sL) by (rewrite Eb; apply (oh_binds _ _ OR)).
  assert (Hq' : forall y, y ∈ Heap.ids (heap s2) -> inHeap s' y = true).
  { intros y Hy. unfold inHeap. rewrite Eh. apply (inHeap_iff0 s2 y IR), Hy. }
  assert (V' : ValInvB s').
  { apply (finish_ValInvB sL always s' PL LL HAL Hn Hb).
    - rewrite Ex. apply (oh_next _ _ OR).
    - rewrite Ek, (oh_stabNum _ _ OR). reflexivity.
    - intros y Hy. apply Hq', MR, (inHeap_iff0 sL y IL), Hy.
    - intros y Hy Hg. apply Hq', AR; [exact Hy|]. pose proof (st_hnonneg _ (PInv_Struct sL PL) y Hg). unfold unset. lia. }
  split; [reflexivity|]. split; [exact IV'|]. split; [exact V'|].
  split; [apply (Tplain_binds sL s' Hb TPL)|].
  split; [apply (CF_trans s sL s'); [|apply CF_binds, Hb]; apply (CF_trans s s1 sL); [apply CF_binds; reflexivity|exact CL]|].
  apply Hq', MR, (inHeap_iff0 sL x IL), HqL.
Qed.

Theorem passG_fail_none s s' :
  Inv s -> ValInvB s -> Tplain s -> stabilize pl false s = Ok (s', None) ->
  Inv s' /\ ValInvB s' /\ Tplain s' /\ CF s s' /\ consistent s' = true.
Proof.
  intros IV V TP H. pose proof (Inv_wfb s IV) as Hwf. destruct (wfb_transients _ Hwf) as (Hst & _).
  assert (IV' : Inv s').
  { apply (Inv_step_stabilize s (Stabilize pl) s' None IV); try reflexivity; [apply Hpok|exact H|discriminate|discriminate]. }
  destruct (stabilize_decompose _ _ _ _ _ Hst H) as (sL & at_ & always & s2 & s3 & EL & ER & EP & EE).
  unfold passResult in EL. cbv zeta in EL. simpl in EL. apply recoverPanic_None in EP as ->.
  destruct (pass_start_factsB s IV V TP) as (TP1 & P1 & L1 & HA1).
  destruct (loop_failG _ _ [] sL None at_ always TP1 P1 L1 HA1 EL)
    as [(r & ? & _)|(TPL & PL & LL & HkL & CL & HAL & He)]; [discriminate|].
  destruct He as [[_ Hemp]|[? _]]; [|discriminate].
  destruct (finish_none sL always s2 s' TPL PL LL HAL Hemp ER EE) as (V' & T' & C' & Hc).
  split; [exact IV'|]. split; [exact V'|]. split; [exact T'|]. split; [|exact Hc].
  apply (CF_trans s sL s'); [|exact C']. apply (CF_trans s (EngineLocal.passStart s) sL); [apply CF_binds; reflexivity|exact CL].
Qed.


(** writes and the failing invocation in one plan *)
Theorem pass_mixed_failG s p s' e :
  Inv s -> ValInvB s -> Tplain s -> plan_ok s p = true -> fo p = pl ->
  stabilize p false s = Ok (s', e) -> rejected e = false ->
  (e = None \/ e = Some (EUser x)) /\ Inv s' /\ ValInvB s' /\ Tplain s' /\ CF s s' /\
  (e = Some (EUser x) -> inHeap s' x = true).
Proof.
  intros IV V TP Hpok2 Hfo H Hrej.
  destruct (pass_start_factsB s IV V TP) as (TP1 & P1 & L1 & HA1).
  destruct (pass_mixed_bb s p s' e IV V TP Hpok2 H Hrej) as (t' & H0 & K).
  { intros tL at_ al ET. rewrite Hfo in ET.
    destruct (loop_failG _ _ [] tL e at_ al TP1 P1 L1 HA1 ET) as [(r & -> & [-> | ->])|(_ & _ & LL & _)];
      [discriminate Hrej|discriminate Hrej|]. exact (lc_quiet _ _ LL). }
  rewrite Hfo in H0. destruct e as [e0|].
  - destruct (passG_error s t' e0 IV V TP H0) as (-> & _ & Vt & Tt & Ct & Hq);
      [intros ->; discriminate Hrej|intros ->; discriminate Hrej|].
    destruct (K Vt Tt Ct) as (A & B & C & D & E). split; [right; reflexivity|]. split; [exact A|]. split; [exact B|].
    split; [exact C|]. split; [exact D|]. intros _. apply E, Hq.
  - destruct (passG_fail_none s t' IV V TP H0) as (_ & Vt & Tt & Ct & _).
    destruct (K Vt Tt Ct) as (A & B & C & D & E). split; [left; reflexivity|]. split; [exact A|]. split; [exact B|].
    split; [exact C|]. split; [exact D|]. discriminate.
Qed.
End GenFail.

Section GenPanic.
  Hypothesis Hpanic : forall fuel s s' e imm,
    PInv s -> inGraph (nd s x) = true -> tk (nkind (nd s x)) = true ->
    recomputeNodeSerial fuel pl s x = Ok (s', e, imm) ->
    e = Some (EPanic x) /\ imm = None /\ panickedTo s x s'.

(* the state just before the panicking recompute *)
Definition beforePanicG (s : state) (always : list nid) (sG s' : state) : Prop :=
  Tplain sG /\ PInv sG /\ LInvC sG (Some x) /\ inGraph (nd sG x) = true /\ tk (nkind (nd sG x)) = true /\
  stabNum sG = stabNum s /\ CF s sG /\ AW sG always /\ panickedTo sG x s'.

Lemma chain_panicG fuel : forall s n s' e at_ always,
  Tplain s -> PInv s -> LInvC s (Some n) -> inGraph (nd s n) = true ->
  AW s always -> (isAlways (nkind (nd s n)) = true -> n ∈ always) ->
  recomputeChain fuel pl s n = Ok (s', e, at_) ->
  rejErr e \/
  (e = None /\ Tplain s' /\ PInv s' /\ LInvC s' None /\ stabNum s' = stabNum s /\ CF s s' /\ AW s' always) \/
  (e = Some (EPanic x) /\ at_ = x /\ exists sG, beforePanicG s always sG s').
Proof.
  induction fuel as [|fuel IH]; intros s n s' e at_ always TP P L Hg HA Hn H; [discriminate|].
  cbn [recomputeChain] in H.
  destruct (recomputeNodeSerial fuel pl s n) as [[[s1 e1] imm]| |] eqn:E1; simpl in H; try discriminate.
  destruct (decide (n = x /\ tk (nkind (nd s n)) = true)) as [[-> Hf]|Hno].
  - destruct (Hpanic fuel s s1 e1 imm P Hg Hf E1) as (-> & -> & K).
    injection H as <- <- <-. right. right. split; [reflexivity|]. split; [reflexivity|]. exists s.
    split; [exact TP|]. split; [exact P|]. split; [exact L|]. split; [exact Hg|]. split; [exact Hf|].
    split; [reflexivity|]. split; [apply CF_binds; reflexivity|]. split; [exact HA|exact K].
  - rewrite Hother in E1.
    2:{ intros b K. pose proof (p_kinds _ P n (has_inGraph _ _ Hg)) as Hkk. rewrite K in Hkk. symmetry. apply Hkk. }
    2:{ destruct (decide (n = x)) as [->|]; [right|left; assumption].
        destruct (tk (nkind (nd s x))); [exfalso; apply Hno; auto|reflexivity]. }
    pose proof (E_rns _ _ _ _ _ _ E1) as Ge.
    destruct e1 as [r|].
    { left. exists r. split; [|exact Ge]. destruct imm; injection H as _ <- _; reflexivity. }
    destruct (rnsT fuel s n s1 imm TP P L Hg E1) as (TP1 & P1 & L1 & Hk1 & Himm & C1).
    destruct (rnsT2 fuel s n s1 imm TP P L Hg E1) as (Hd & Hna).
    assert (HA1 : AW s1 always).
    { intros y A B C. destruct (Hd y B C A) as [(X1 & X2 & X3)|[-> X]]; [apply (HA y X3 X1 X2)|apply Hn, X]. }
    destruct imm as [c|].
    + destruct (IH s1 c s' e at_ always TP1 P1 L1 (Himm c eq_refl) HA1)
        as [R|[(-> & TP' & P' & L' & Hk' & C' & HA')|(-> & -> & sG & TG & PG & LG & HgG & HfG & HkG & CG & HAG & KG)]];
        [intros Hc; rewrite (Hna c eq_refl) in Hc; discriminate|exact H|left; exact R| |].
      * right. left. split; [reflexivity|]. split; [exact TP'|]. split; [exact P'|]. split; [exact L'|].
        split; [congruence|]. split; [eapply CF_trans; eauto|exact HA'].
      * right. right. split; [reflexivity|]. split; [reflexivity|]. exists sG.
        split; [exact TG|]. split; [exact PG|]. split; [exact LG|]. split; [exact HgG|]. split; [exact HfG|].
        split; [congruence|]. split; [eapply CF_trans; eauto|]. split; [exact HAG|exact KG].
    + injection H as <- <- <-. right. left. auto 10.
Qed.

Lemma loop_panicG fuel : forall s always s' e at_ always',
  Tplain s -> PInv s -> LInvC s None -> AW s always ->
  passLoop fuel pl s always = Ok (s', e, at_, always') ->
  rejErr e \/
  (e = None /\ Tplain s' /\ PInv s' /\ LInvC s' None /\ stabNum s' = stabNum s /\ CF s s' /\ AW s' always' /\
   Heap.ids (heap s') = []) \/
  (e = Some (EPanic x) /\ at_ = x /\ exists sG, beforePanicG s always' sG s').
Proof.
  induction fuel as [|fuel IH]; intros s always s' e at_ always' TP P L HA H; [discriminate|].
  cbn [passLoop] in H. destruct (PInv_heap s P) as [I _].
  destruct (Z.leb_spec (Heap.cnt (heap s)) 0) as [Hc|Hc].
  { injection H as <- <- _ <-. right. left. split; [reflexivity|]. split; [exact TP|]. split; [exact P|]. split; [exact L|].
    split; [reflexivity|]. split; [apply CF_binds; reflexivity|]. split; [exact HA|apply cnt_zero_ids; assumption]. }
  destruct (Heap.removeMin (heap s)) as [[n w]|] eqn:Erm; [|discriminate].
  set (s2 := s <| heap := w |>) in *.
  set (always2 := if isAlways (nkind (nd s2 n)) then always ++ [n] else always) in *.
  destruct (recomputeChain fuel pl s2 n) as [[[s3 e3] at3]| |] eqn:E3; simpl in H; try discriminate.
  destruct (pop_LInvC s n w P L Erm) as (L2 & P2 & Hgn). fold s2 in L2, P2.
  pose proof (Tplain_binds s s2 eq_refl TP) as TP2.
  assert (HA2 : AW s2 always2).
  { intros y A B C. unfold always2. destruct (isAlways (nkind (nd s2 n))); [apply elem_of_app; left|]; apply (HA y A B C). }
  assert (Hn2 : isAlways (nkind (nd s2 n)) = true -> n ∈ always2).
  { intros E. unfold always2. rewrite E. apply elem_of_app. right. left. }
  assert (C02 : CF s s2) by (apply CF_binds; reflexivity).
  destruct (chain_panicG fuel s2 n s3 e3 at3 always2 TP2 P2 L2 Hgn HA2 Hn2 E3)
    as [R|[(-> & TP3 & P3 & L3 & Hk3 & C3 & HA3)|(-> & -> & sG & TG & PG & LG & HgG & HfG & HkG & CG & HAG & KG)]].
  - left. destruct R as (r & -> & Hr). injection H as _ <- _ _. exists r. auto.
  - destruct (IH s3 always2 s' e at_ always' TP3 P3 L3 HA3 H)
      as [R|[(-> & TP' & P' & L' & Hk' & C' & HA' & Hemp)|(-> & -> & sG & TG & PG & LG & HgG & HfG & HkG & CG & HAG & KG)]].
    + left. exact R.
    + right. left. split; [reflexivity|]. split; [exact TP'|]. split; [exact P'|]. split; [exact L'|].
      split; [rewrite Hk', Hk3; reflexivity|]. split; [|auto].
      eapply CF_trans; [exact C02|]. eapply CF_trans; eauto.
    + right. right. split; [reflexivity|]. split; [reflexivity|]. exists sG.
      split; [exact TG|]. split; [exact PG|]. split; [exact LG|]. split; [exact HgG|]. split; [exact HfG|].
      split; [rewrite HkG, Hk3; reflexivity|]. split; [|auto].
      eapply CF_trans; [exact C02|]. eapply CF_trans; eauto.
  - injection H as <- <- <- <-. right. right. split; [reflexivity|]. split; [reflexivity|]. exists sG.
    split; [exact TG|]. split; [exact PG|]. split; [exact LG|]. split; [exact HgG|]. split; [exact HfG|].
    split; [exact HkG|]. split; [exact (CF_trans s s2 sG C02 CG)|]. split; [exact HAG|exact KG].
Qed.

(** resetting the stamp of a queued node that has a function keeps the quiescent invariant *)
Lemma ValInvB_resetG s s' :
  ValInvB s -> BFB s -> inHeap s x = true -> tk (nkind (nd s x)) = true ->
  (forall n, n <> x -> nd s' n = nd s n) -> nd s' x = nd s x <| recomputedAt := 0 |> ->
  (forall n, has s' n <-> has s n) -> heap s' = heap s -> binds s' = binds s -> next s' = next s ->
  stabNum s' = stabNum s -> ValInvB s'.
Proof.
  intros V HB Hqx Hfk Hne Hx Hhas Hh Hb Hnx Hk.
  assert (Hf : forall (A : Type) (g : node -> A) n, (forall y a, g (y <| recomputedAt := a |>) = g y) -> g (nd s' n) = g (nd s n)).
  { intros A g n Hg. destruct (decide (n = x)) as [->|Hn]; [rewrite Hx; apply Hg|rewrite (Hne n Hn); reflexivity]. }
  assert (Hq : forall n, inHeap s' n = inHeap s n) by (intros n; unfold inHeap; rewrite Hh; reflexivity).
  assert (Hval : forall p, valueOf s' p = valueOf s p).
  { intros p. apply valueOf_ext. intros n. repeat split; apply Hf; reflexivity. }
  assert (Hxna : forall p, nkind (nd s p) = KAlways -> p <> x).
  { intros q K ->. pose proof (HnotAlways _ Hfk) as Hna. rewrite K in Hna. discriminate. }
  assert (Hgd : forall n, n <> x -> guarded s' None n = guarded s None n).
  { intros n Hn. unfold guarded. rewrite (Hne n Hn). apply forallb_ext. intros p _.
    rewrite (Hf _ changedAt) by reflexivity. f_equal. f_equal. unfold volq, inW.
    rewrite (Hf _ nkind), Hq, Hk by reflexivity. destruct (nkind (nd s p)) eqn:Kp; try reflexivity.
    rewrite (Hne p (Hxna p Kp)). reflexivity. }
  assert (Hkpos : 1 <= stabNum s) by (pose proof (stamps_node_true _ _ (vb_stamps _ V 0%nat)); lia).
  constructor.
  - intros n y E. assert (Hn : has s n) by (apply Hhas; exists y; exact E). destruct Hn as [y0 E0].
    rewrite <- (nd_lookup _ _ _ E). rewrite (shape_node_ext n (nd s n) (nd s' n)); try (apply Hf; reflexivity).
    rewrite (nd_lookup _ _ _ E0). exact (vb_shape _ V n y0 E0).
  - intros n. pose proof (stamps_node_true _ _ (vb_stamps _ V n)) as Hs. apply stamps_node_true_intro; rewrite Hk.
    + rewrite (Hf _ changedAt) by reflexivity. lia.
    + destruct (decide (n = x)) as [->|Hn]; [rewrite Hx; simpl; lia|rewrite (Hne n Hn); lia].
  - intros n. rewrite (Hf _ inGraph), (Hf _ valid), (Hf _ changedAt) by reflexivity. intros Hg Hv.
    destruct (vb_unreg _ V n Hg Hv) as [H1 H2]. split; [|exact H2].
    destruct (decide (n = x)) as [->|Hn]; [rewrite Hx; reflexivity|rewrite (Hne n Hn); exact H1].
  - intros n Hg Hs. rewrite Hq. destruct (decide (n = x)) as [->|Hn]; [exact Hqx|].
    rewrite (Hf _ inGraph) in Hg by reflexivity. apply (vb_owed _ V n Hg). rewrite <- Hs. symmetry.
    apply isStale_same; [apply Hne, Hn|exact Hk|]. intros p _. apply Hf; reflexivity.
  - intros n Hg Hnq Hgd'. rewrite Hq in Hnq. rewrite (Hf _ inGraph) in Hg by reflexivity.
    assert (Hn : n <> x) by (intros ->; congruence).
    rewrite (Hgd n Hn) in Hgd'. rewrite (Hne n Hn).
    rewrite (consistent_valB_ext s s' n _ HB Hb); [exact (vb_clean _ V n Hg Hnq Hgd')| | |].
    + apply Hf; reflexivity.
    + apply Hf; reflexivity.
    + intros p _. apply Hval.
  - intros b Hg K Hnq Hgd'. rewrite Hq in Hnq. rewrite (Hf _ inGraph) in Hg by reflexivity.
    rewrite (Hf _ nkind) in K by reflexivity.
    assert (Hn : b <> x) by (intros ->; congruence).
    rewrite (Hgd b Hn) in Hgd'.
    rewrite (matchesOK_ext s s' b Hb Hnx); [exact (vb_match _ V b Hg K Hnq Hgd')| | |].
    + intros n. repeat split; apply Hf; reflexivity.
    + intros n _. apply Hf; reflexivity.
    + apply Hval.
Qed.

Theorem passG_panic s s' e :
  Inv s -> ValInvB s -> Tplain s -> stabilize pl false s = Ok (s', Some e) ->
  e <> ECycle -> e <> EHeightLimit ->
  e = EPanic x /\ Inv s' /\ ValInvB s' /\ Tplain s' /\ CF s s' /\ inHeap s' x = true.
Proof.
  intros IV V TP H Hne1 Hne2. pose proof (Inv_wfb s IV) as Hwf.
  destruct (wfb_transients _ Hwf) as (Hst & Hsd & Hsr & Hh).
  assert (IV' : Inv s').
  { apply (Inv_step_stabilize s (Stabilize pl) s' (Some e) IV); try reflexivity; [apply Hpok|exact H|congruence|congruence]. }
  destruct (stabilize_decompose _ _ _ _ _ Hst H) as (sL & at_ & always & s2 & s3 & EL & ER & EP & EE).
  unfold passResult in EL. cbv zeta in EL. simpl in EL.
  set (s1 := EngineLocal.passStart s) in *.
  pose proof (LInvC_start s IV V) as L1. change (PassProofs.passStart s) with s1 in L1.
  pose proof (Inv_PInv_start s IV) as P1. change (PInv s1) in P1.
  pose proof (Tplain_binds s s1 eq_refl TP) as TP1.
  assert (HA1 : AW s1 []).
  { intros y _ Hd _. exfalso. pose proof (stamps_node_true _ _ (vb_stamps _ V y)). unfold isDone in Hd. apply Z.eqb_eq in Hd.
    change (recomputedAt (nd s y) = stabNum s) in Hd. lia. }
  destruct (loop_panicG _ s1 [] sL (Some e) at_ always TP1 P1 L1 HA1 EL)
    as [(r & [= ->] & [->| ->])|[(? & _)|([= ->] & -> & sG & TG & PG & LG & HgG & HfG & HkG & CG & HAG & KG)]];
    [congruence|congruence|discriminate|].
  destruct (PInv_heap sG PG) as [IG HqG]. pose proof (PInv_Struct sG PG) as HSG.
  pose proof (has_inGraph _ _ HgG) as Hxh.
  assert (Hxq : x ∉ Heap.ids (heap sG)).
  { intros Hq. exact (lc_M _ _ LG x x eq_refl Hq (rtc_refl _ _)). }
  destruct (pk_fields _ _ _ KG) as (Kn & Kk & Ksd & Ksr).
  (* node records at the end of the loop *)
  assert (HndL : forall n, nd sL n = if decide (n = x) then nd sG x <| recomputedAt := stabNum sG |> else nd sG n).
  { intros n. destruct (decide (n = x)) as [->|Hn]; [apply (pk_self _ _ _ KG)|apply (pk_other _ _ _ KG n Hn)]. }
  assert (HhL : forall n, height (nd sL n) = height (nd sG n)).
  { intros n. rewrite HndL. destruct (decide (n = x)) as [->|]; reflexivity. }
  assert (IL : HeapSpec.inv (heap sL)) by (rewrite (pk_heap _ _ _ KG); exact IG).
  pose proof (requeue_only_heap _ _ _ ER) as OR.
  destruct (requeue_mem always sL s2 IL ER) as (IR & MR & AR).
  (* the recovery *)
  unfold recoverPanic in EP.
  set (s2' := upd s2 x (set recomputedAt (fun _ => 0))) in *.
  destruct (heapAddIfNotPresent s2' x) as [s3'| |] eqn:E3; simpl in EP; try discriminate. injection EP as <-.
  assert (Hx2 : has s2 x) by (apply (oh_has _ _ OR), (pk_has _ _ _ KG), Hxh).
  assert (Hnd2' : forall n, nd s2' n = if decide (n = x) then nd sG x <| recomputedAt := 0 |> else nd sG n).
  { intros n. unfold s2'. rewrite nd_upd by exact Hx2. destruct (decide (n = x)) as [->|Hn].
    - rewrite (oh_nd _ _ OR), HndL, decide_True by reflexivity. apply node_set_rec2.
    - rewrite (oh_nd _ _ OR), HndL, decide_False by exact Hn. reflexivity. }
  assert (I2' : HeapSpec.inv (heap s2')) by exact IR.
  destruct (heapAddIfNotPresent_spec0 s2' x s3' I2') as (O3 & I3 & M3 & _); [|exact E3|].
  { rewrite Hnd2', decide_True by reflexivity. apply (st_hnonneg _ HSG x HgG). }
  assert (Hsd3 : setDuring (errorHandlers s3' x) = [] /\ setRemoved (errorHandlers s3' x) = []).
  { assert (Hsd3' : setDuring s3' = [] /\ setRemoved s3' = []).
    { rewrite (oh_setDuring _ _ O3), (oh_setRemoved _ _ O3). unfold s2'. cbn.
      rewrite (oh_setDuring _ _ OR), (oh_setRemoved _ _ OR), Ksd, Ksr. exact (lc_quiet _ _ LG). }
    unfold errorHandlers. destruct (nkind (nd s3' x)); exact Hsd3'. }
  destruct (stabilizeEnd_quiet _ _ s' (proj1 Hsd3) (proj2 Hsd3) EE) as (En & Eh & Eb & Ex & Ek & _).
  assert (EH : nodes (errorHandlers s3' x) = nodes s3' /\ heap (errorHandlers s3' x) = heap s3' /\
               binds (errorHandlers s3' x) = binds s3' /\ next (errorHandlers s3' x) = next s3' /\
               stabNum (errorHandlers s3' x) = stabNum s3').
  { unfold errorHandlers. destruct (nkind (nd s3' x)); repeat split. }
  destruct EH as (EH1 & EH2 & EH3 & EH4 & EH5).
  assert (Hnd' : forall n, nd s' n = if decide (n = x) then nd sG x <| recomputedAt := 0 |> else nd sG n).
  { intros n. rewrite (nodes_eq_nd _ _ En n), (nodes_eq_nd _ _ EH1 n), (oh_nd _ _ O3). apply Hnd2'. }
  assert (Hheap' : heap s' = heap s3') by (rewrite Eh; exact EH2).
  assert (I' : HeapSpec.inv (heap s')) by (rewrite Hheap'; exact I3).
  assert (Hids' : forall y, y ∈ Heap.ids (heap s') <-> y = x \/ y ∈ Heap.ids (heap s2)).
  { intros y. rewrite Hheap', M3. reflexivity. }
  assert (Hb' : binds s' = binds sG).
  { rewrite Eb, EH3, (oh_binds _ _ O3). unfold s2'. cbn. rewrite (oh_binds _ _ OR). apply (pk_binds _ _ _ KG). }
  assert (Hx' : next s' = next sG).
  { rewrite Ex, EH4, (oh_next _ _ O3). unfold s2'. cbn. rewrite (oh_next _ _ OR). exact Kn. }
  assert (Hk' : stabNum s' = stabNum sG + 1).
  { rewrite Ek, EH5, (oh_stabNum _ _ O3). unfold s2'. cbn. rewrite (oh_stabNum _ _ OR), Kk. reflexivity. }
  assert (Hhas' : forall n, has s' n <-> has sG n).
  { intros n. unfold has. rewrite En, EH1, (oh_nodes _ _ O3). fold (has s2' n). unfold s2'.
    rewrite has_upd, (oh_has _ _ OR). apply (pk_has _ _ _ KG). }
  (* the virtual state: [sG] with [x] back in the queue *)
  destruct (heapAdd_ok_of_height sG x (st_hnonneg _ HSG x HgG)) as [sV EV].
  assert (Hxq' : inHeap sG x = false) by (apply (inHeap_false_iff0 sG x IG), Hxq).
  destruct (heapAdd_spec0 sG x sV IG Hxq' (st_hnonneg _ HSG x HgG) EV) as (OV & IV0 & PV & _).
  assert (PVv : PInv sV) by (apply (PInv_of_soft sG sV PG), (soft_heapAdd sG x sV Hxq' EV)).
  assert (FV : failedTo sG x sV).
  { constructor.
    - apply (oh_nodes _ _ OV).
    - apply (oh_binds _ _ OV).
    - rewrite (oh_next _ _ OV), (oh_stabNum _ _ OV), (oh_setDuring _ _ OV), (oh_setRemoved _ _ OV). auto.
    - apply LQ_oh, OV.
    - exact IV0.
    - intros y. rewrite PV, elem_of_cons. reflexivity.
    - apply (oh_handlers _ _ OV). }
  destruct (failedTo_LInvC sG x sV PG LG FV) as [LV _].
  assert (HAV : AW sV always) by (apply (AW_nodes sG sV always (oh_nodes _ _ OV) (oh_stabNum _ _ OV) HAG)).
  set (sW := sV <| heap := heap s' |> <| stabNum := stabNum sV + 1 |>).
  assert (VW : ValInvB sW).
  { apply (finish_ValInvB sV always sW PVv LV HAV); try reflexivity.
    - intros y Hy. apply (inHeap_iff0 sV y IV0) in Hy. rewrite PV, elem_of_cons in Hy.
      apply (inHeap_iff0 sW y I'), Hids'. destruct Hy as [->|Hy]; [auto|right].
      apply MR. rewrite (pk_heap _ _ _ KG). exact Hy.
    - intros y Hy Hg. apply (inHeap_iff0 sW y I'), Hids'. right. apply AR; [exact Hy|].
      rewrite HhL. rewrite (oh_nd _ _ OV) in Hg. pose proof (st_hnonneg _ HSG y Hg). unfold unset. lia. }
  assert (V' : ValInvB s').
  { apply (ValInvB_resetG sW s' VW).
    - apply (BFB_nodes sV sW eq_refl eq_refl eq_refl). apply (PInv_BFB sV PVv (lc_shape _ _ LV)).
    - apply (inHeap_iff0 sW x I'), Hids'. auto.
    - change (nd sW x) with (nd sV x). rewrite (oh_nd _ _ OV). exact HfG.
    - intros n Hn. change (nd sW n) with (nd sV n). rewrite (oh_nd _ _ OV), Hnd', decide_False by exact Hn. reflexivity.
    - change (nd sW x) with (nd sV x). rewrite (oh_nd _ _ OV), Hnd', decide_True by reflexivity. reflexivity.
    - intros n. change (has sW n) with (has sV n). rewrite (oh_has _ _ OV). apply Hhas'.
    - reflexivity.
    - change (binds sW) with (binds sV). rewrite (oh_binds _ _ OV). exact Hb'.
    - change (next sW) with (next sV). rewrite (oh_next _ _ OV). exact Hx'.
    - change (stabNum sW) with (stabNum sV + 1). rewrite (oh_stabNum _ _ OV). exact Hk'. }
  split; [reflexivity|]. split; [exact IV'|]. split; [exact V'|].
  split; [apply (Tplain_binds sG s' Hb' TG)|].
  split; [apply (CF_trans s sG s'); [|apply CF_binds, Hb']; apply (CF_trans s s1 sG); [apply CF_binds; reflexivity|exact CG]|].
  apply (inHeap_iff0 s' x I'), Hids'. auto.
Qed.

Theorem passG_panic_none s s' :
  Inv s -> ValInvB s -> Tplain s -> stabilize pl false s = Ok (s', None) ->
  Inv s' /\ ValInvB s' /\ Tplain s' /\ CF s s' /\ consistent s' = true.
Proof.
  intros IV V TP H. pose proof (Inv_wfb s IV) as Hwf. destruct (wfb_transients _ Hwf) as (Hst & _).
  assert (IV' : Inv s').
  { apply (Inv_step_stabilize s (Stabilize pl) s' None IV); try reflexivity; [apply Hpok|exact H|discriminate|discriminate]. }
  destruct (stabilize_decompose _ _ _ _ _ Hst H) as (sL & at_ & always & s2 & s3 & EL & ER & EP & EE).
  unfold passResult in EL. cbv zeta in EL. simpl in EL. apply recoverPanic_None in EP as ->.
  destruct (pass_start_factsB s IV V TP) as (TP1 & P1 & L1 & HA1).
  destruct (loop_panicG _ _ [] sL None at_ always TP1 P1 L1 HA1 EL)
    as [(r & ? & _)|[(_ & TPL & PL & LL & HkL & CL & HAL & Hemp)|(? & _)]]; [discriminate| |discriminate].
  destruct (finish_none sL always s2 s' TPL PL LL HAL Hemp ER EE) as (V' & T' & C' & Hc).
  split; [exact IV'|]. split; [exact V'|]. split; [exact T'|]. split; [|exact Hc].
  apply (CF_trans s sL s'); [|exact C']. apply (CF_trans s (EngineLocal.passStart s) sL); [apply CF_binds; reflexivity|exact CL].
Qed.


(** writes and the panicking invocation in one plan *)
Theorem pass_mixed_panicG s p s' e :
  Inv s -> ValInvB s -> Tplain s -> plan_ok s p = true -> fo p = pl ->
  stabilize p false s = Ok (s', e) -> rejected e = false ->
  (e = None \/ e = Some (EPanic x)) /\ Inv s' /\ ValInvB s' /\ Tplain s' /\ CF s s' /\
  (e = Some (EPanic x) -> inHeap s' x = true).
Proof.
  intros IV V TP Hpok2 Hfo H Hrej.
  destruct (pass_start_factsB s IV V TP) as (TP1 & P1 & L1 & HA1).
  destruct (pass_mixed_bb s p s' e IV V TP Hpok2 H Hrej) as (t' & H0 & K).
  { intros tL at_ al ET. rewrite Hfo in ET.
    destruct (loop_panicG _ _ [] tL e at_ al TP1 P1 L1 HA1 ET)
      as [(r & -> & [-> | ->])|[(_ & _ & _ & LL & _)|(_ & _ & sG & _ & _ & LG & _ & _ & _ & _ & _ & KG)]];
      [discriminate Hrej|discriminate Hrej|exact (lc_quiet _ _ LL)|].
    destruct (pk_fields _ _ _ KG) as (_ & _ & -> & ->). exact (lc_quiet _ _ LG). }
  rewrite Hfo in H0. destruct e as [e0|].
  - destruct (passG_panic s t' e0 IV V TP H0) as (-> & _ & Vt & Tt & Ct & Hq);
      [intros ->; discriminate Hrej|intros ->; discriminate Hrej|].
    destruct (K Vt Tt Ct) as (A & B & C & D & E). split; [right; reflexivity|]. split; [exact A|]. split; [exact B|].
    split; [exact C|]. split; [exact D|]. intros _. apply E, Hq.
  - destruct (passG_panic_none s t' IV V TP H0) as (_ & Vt & Tt & Ct & _).
    destruct (K Vt Tt Ct) as (A & B & C & D & E). split; [left; reflexivity|]. split; [exact A|]. split; [exact B|].
    split; [exact C|]. split; [exact D|]. discriminate.
Qed.
End GenPanic.
End Gen.

(** * Instance: a fault in the cutoff function of a cutoff node *)
Definition cutKind (k : kind) : bool := match k with KCutoff _ => true | _ => false end.
Definition cutPlan (x : nid) (k : faultkind) : plan := [(x, WCut, AFail k)].

Lemma cutPlan_actions x k m w :
  actions_of (cutPlan x k) m w = if (x =? m)%nat && which_eqb w WCut then [AFail k] else [].
Proof. unfold cutPlan, actions_of. simpl. destruct ((x =? m)%nat && which_eqb w WCut); reflexivity. Qed.

Lemma cutPlan_plan_ok x k s : plan_ok s (cutPlan x k) = true.
Proof. reflexivity. Qed.

(* the plans of a recompute matter for the cutoff function only at a cutoff node *)
Lemma rns_plan_eq2 fuel p q s m :
  (cutKind (nkind (nd s m)) = true -> actions_of p m WCut = actions_of q m WCut) ->
  (fnKind (nkind (nd s m)) = true -> actions_of p m WFn = actions_of q m WFn) ->
  (forall b, nkind (nd s m) = KBindLhs b -> b = m) ->
  recomputeNodeSerial fuel p s m = recomputeNodeSerial fuel q s m.
Proof.
  intros Hc Hf Hb. rewrite !recomputeNodeSerial_unfold. cbv zeta.
  set (s0 := upd s m (set recomputedAt (fun _ => stabNum s))).
  assert (Hmc : maybeCutoff p s0 m (nd s m) = maybeCutoff q s0 m (nd s m)).
  { unfold maybeCutoff. destruct (nkind (nd s m)); try reflexivity.
    rewrite (invoke_eq p q s0 m WCut (Hc eq_refl)). reflexivity. }
  rewrite Hmc. destruct (maybeCutoff q s0 m (nd s m)) as [[[s1 e1] cut]| |] eqn:E1; simpl; try reflexivity.
  destruct e1; [reflexivity|]. destruct cut; [reflexivity|].
  assert (Hk1 : nkind (nd s1 m) = nkind (nd s m)).
  { apply maybeCutoff_spec in E1 as (V1 & _). destruct (vps_fields _ _ (V1 m)) as (-> & _).
    apply (nd_upd_proj nkind). reflexivity. }
  assert (Hsn : stabilizeNode fuel p s1 m = stabilizeNode fuel q s1 m).
  { unfold stabilizeNode. rewrite Hk1. unfold fnKind in Hf.
    destruct (nkind (nd s m)) eqn:K; try reflexivity;
      try (rewrite (invoke_eq p q s1 m WFn (Hf eq_refl)); reflexivity).
    rewrite (Hb b eq_refl). apply bindLhs_plan_eq. apply Hf. reflexivity. }
  rewrite Hsn. reflexivity.
Qed.

Lemma rns_cutPlan_other x k fuel s m :
  (forall b, nkind (nd s m) = KBindLhs b -> b = m) ->
  (m <> x \/ cutKind (nkind (nd s m)) = false) ->
  recomputeNodeSerial fuel (cutPlan x k) s m = recomputeNodeSerial fuel [] s m.
Proof.
  intros Hb Hx. apply rns_plan_eq2; [| |exact Hb].
  - intros Hc. rewrite cutPlan_actions. destruct Hx as [Hx|Hx]; [|congruence].
    destruct (Nat.eqb_spec x m); [congruence|reflexivity].
  - intros _. rewrite cutPlan_actions. simpl. rewrite andb_false_r. reflexivity.
Qed.

Lemma cutKind_notAlways k : cutKind k = true -> isAlways k = false.
Proof. destruct k; try discriminate; reflexivity. Qed.

(* the cutoff function of [x] returns an error: [x] keeps its value and its old stamp, and is queued *)
Lemma rns_cutPlan_fail fuel x s s' e imm :
  PInv s -> inGraph (nd s x) = true -> cutKind (nkind (nd s x)) = true ->
  recomputeNodeSerial fuel (cutPlan x FErr) s x = Ok (s', e, imm) ->
  e = Some (EUser x) /\ imm = None /\ failedTo s x s'.
Proof.
  intros P Hg Hck H. pose proof (has_inGraph _ _ Hg) as Hx. destruct (PInv_heap s P) as [I _].
  pose proof (st_hnonneg _ (PInv_Struct s P) x Hg) as Hh.
  rewrite recomputeNodeSerial_unfold in H. cbv zeta in H.
  set (s0 := upd s x (set recomputedAt (fun _ => stabNum s))) in *.
  assert (Hinv : invoke (cutPlan x FErr) s0 x WCut = Ok (emit (EvFault x WCut FErr) s0, Some (EUser x))).
  { unfold invoke. rewrite cutPlan_actions, Nat.eqb_refl. reflexivity. }
  assert (Hmc : maybeCutoff (cutPlan x FErr) s0 x (nd s x) = Ok (emit (EvFault x WCut FErr) s0, Some (EUser x), false)).
  { unfold maybeCutoff. destruct (nkind (nd s x)); try discriminate Hck. rewrite Hinv. reflexivity. }
  rewrite Hmc in H. cbn [rbind] in H. unfold failTail, recomputeFailed in H.
  destruct (heapAddIfNotPresent _ x) as [s3| |] eqn:E3; cbn [rbind] in H; try discriminate.
  injection H as <- <- <-. split; [reflexivity|]. split; [reflexivity|].
  set (sB := upd (emit (EvFault x WCut FErr) s0) x (set recomputedAt (fun _ => recomputedAt (nd s x)))) in *.
  assert (Hk3 : nkind (nd s3 x) = nkind (nd s x)).
  { unfold heapAddIfNotPresent in E3. destruct (inHeap sB x).
    - injection E3 as <-. unfold sB. rewrite (nd_upd_proj nkind) by reflexivity. rewrite nd_emit. apply (nd_upd_proj nkind). reflexivity.
    - apply heapAdd_inv in E3 as (w & _ & ->). change (nkind (nd sB x) = nkind (nd s x)).
      unfold sB. rewrite (nd_upd_proj nkind) by reflexivity. rewrite nd_emit. apply (nd_upd_proj nkind). reflexivity. }
  assert (Eerr : errorHandlers s3 x = emit (EvErrH x) s3).
  { unfold errorHandlers. rewrite Hk3. destruct (nkind (nd s x)); try discriminate Hck. reflexivity. }
  rewrite Eerr.
  apply (failedTo_of s x sB s3 [EvFault x WCut FErr] I Hh); try reflexivity; try exact E3.
  - intros y. unfold sB. destruct (decide (y = x)) as [->|Hy].
    + rewrite nd_upd_eq by (apply has_emit, has_upd, Hx). rewrite nd_emit. unfold s0. rewrite nd_upd_eq by exact Hx.
      apply node_eta_rec.
    + rewrite nd_upd_ne by exact Hy. rewrite nd_emit. unfold s0. apply nd_upd_ne, Hy.
  - intros y. unfold sB. rewrite has_upd, has_emit. apply has_upd.
  - repeat split.
  - repeat constructor.
  - repeat split.
  - apply LQ_emit. reflexivity.
Qed.

Lemma rns_cutPlan_panic fuel x s s' e imm :
  PInv s -> inGraph (nd s x) = true -> cutKind (nkind (nd s x)) = true ->
  recomputeNodeSerial fuel (cutPlan x FPanic) s x = Ok (s', e, imm) ->
  e = Some (EPanic x) /\ imm = None /\ panickedTo s x s'.
Proof.
  intros P Hg Hck H. pose proof (has_inGraph _ _ Hg) as Hx.
  rewrite recomputeNodeSerial_unfold in H. cbv zeta in H.
  set (s0 := upd s x (set recomputedAt (fun _ => stabNum s))) in *.
  assert (Hinv : invoke (cutPlan x FPanic) s0 x WCut = Ok (emit (EvFault x WCut FPanic) s0, Some (EPanic x))).
  { unfold invoke. rewrite cutPlan_actions, Nat.eqb_refl. reflexivity. }
  assert (Hmc : maybeCutoff (cutPlan x FPanic) s0 x (nd s x) = Ok (emit (EvFault x WCut FPanic) s0, Some (EPanic x), false)).
  { unfold maybeCutoff. destruct (nkind (nd s x)); try discriminate Hck. rewrite Hinv. reflexivity. }
  rewrite Hmc in H. cbn [rbind] in H. unfold failTail in H. injection H as <- <- <-.
  split; [reflexivity|]. split; [reflexivity|]. constructor; try reflexivity.
  - intros y Hy. rewrite nd_emit. apply nd_upd_ne, Hy.
  - rewrite nd_emit. apply nd_upd_eq, Hx.
  - intros y. rewrite has_emit. apply has_upd.
  - repeat split.
Qed.

(** C07 for a failing / panicking cutoff function, on graphs with binds *)
Theorem passCut_error s x s' e :
  Inv s -> ValInvB s -> Tplain s -> stabilize (cutPlan x FErr) false s = Ok (s', Some e) ->
  e <> ECycle -> e <> EHeightLimit ->
  e = EUser x /\ Inv s' /\ ValInvB s' /\ Tplain s' /\ CF s s' /\ inHeap s' x = true.
Proof.
  apply (passG_error (cutPlan x FErr) x cutKind);
    [apply cutPlan_plan_ok|apply rns_cutPlan_other|intros fuel; apply rns_cutPlan_fail].
Qed.

Theorem passCut_error_none s x s' :
  Inv s -> ValInvB s -> Tplain s -> stabilize (cutPlan x FErr) false s = Ok (s', None) ->
  Inv s' /\ ValInvB s' /\ Tplain s' /\ CF s s' /\ consistent s' = true.
Proof.
  apply (passG_fail_none (cutPlan x FErr) x cutKind);
    [apply cutPlan_plan_ok|apply rns_cutPlan_other|intros fuel; apply rns_cutPlan_fail].
Qed.

Theorem passCut_panic s x s' e :
  Inv s -> ValInvB s -> Tplain s -> stabilize (cutPlan x FPanic) false s = Ok (s', Some e) ->
  e <> ECycle -> e <> EHeightLimit ->
  e = EPanic x /\ Inv s' /\ ValInvB s' /\ Tplain s' /\ CF s s' /\ inHeap s' x = true.
Proof.
  apply (passG_panic (cutPlan x FPanic) x cutKind);
    [apply cutPlan_plan_ok|apply rns_cutPlan_other|exact cutKind_notAlways|intros fuel; apply rns_cutPlan_panic].
Qed.

Theorem passCut_panic_none s x s' :
  Inv s -> ValInvB s -> Tplain s -> stabilize (cutPlan x FPanic) false s = Ok (s', None) ->
  Inv s' /\ ValInvB s' /\ Tplain s' /\ CF s s' /\ consistent s' = true.
Proof.
  apply (passG_panic_none (cutPlan x FPanic) x cutKind);
    [apply cutPlan_plan_ok|apply rns_cutPlan_other|intros fuel; apply rns_cutPlan_panic].
Qed.

(** * Plans with writes and ONE fault of any kind: the function or the cutoff function of a node,
    returning an error or panicking *)
Lemma fnKind_notAlways k : fnKind k = true -> isAlways k = false.
Proof. destruct k; try discriminate; reflexivity. Qed.

Definition faultErr (x : nid) (k : faultkind) : err := match k with FErr => EUser x | FPanic => EPanic x end.

Theorem pass_writes_and_fault s p x w k s' e :
  Inv s -> ValInvB s -> Tplain s -> plan_ok s p = true -> fo p = [(x, w, AFail k)] ->
  stabilize p false s = Ok (s', e) -> rejected e = false ->
  (e = None \/ e = Some (faultErr x k)) /\ Inv s' /\ ValInvB s' /\ Tplain s' /\ CF s s' /\
  (e = Some (faultErr x k) -> inHeap s' x = true).
Proof.
  intros IV V TP Hpok Hfo H Hrej. destruct w, k; cbn [faultErr].
  - exact (pass_mixed_fail s p x s' e IV V TP Hpok Hfo H Hrej).
  - apply (pass_mixed_panicG (panicPlan x) x fnKind) with (p := p); try assumption;
      [intros ?; reflexivity|intros fuel s0 m; apply (rns_faultPlan_other fuel x FPanic s0 m)|exact fnKind_notAlways|intros fuel; apply panic_stepC].
  - apply (pass_mixed_failG (cutPlan x FErr) x cutKind) with (p := p); try assumption;
      [apply cutPlan_plan_ok|apply rns_cutPlan_other|intros fuel; apply rns_cutPlan_fail].
  - apply (pass_mixed_panicG (cutPlan x FPanic) x cutKind) with (p := p); try assumption;
      [apply cutPlan_plan_ok|apply rns_cutPlan_other|exact cutKind_notAlways|intros fuel; apply rns_cutPlan_panic].
Qed.

(** histories: every operation of the bind fragment, and passes whose plan consists of writes and at
    most one fault *)
Definition isOneFaultPlan (p : plan) : bool :=
  match fo p with
  | [] => true
  | [(_, _, AFail _)] => true
  | _ => false
  end.
Definition isPlanOp (o : op) : bool := match o with Stabilize p => isOneFaultPlan p | _ => false end.

Fixpoint histX_run (s : state) (os : list op) : option state :=
  match os with
  | [] => Some s
  | o :: os =>
    if histB_op o && parity_op o && op_ok s o && op_clean s o then
      match step s o with
      | Ok (s', None) => histX_run s' os
      | _ => None
      end
    else if isPlanOp o && op_ok s o then
      match step s o with
      | Ok (s', e) => if rejected e then None else histX_run s' os
      | _ => None
      end
    else None
  end.

Lemma stepX_inv s o s' e :
  Inv s -> ValInvB s -> Tplain s -> templates_ok s = true -> isPlanOp o = true -> op_ok s o = true ->
  step s o = Ok (s', e) -> rejected e = false ->
  Inv s' /\ ValInvB s' /\ Tplain s' /\ templates_ok s' = true.
Proof.
  intros IV V TP Ht Ho Hok H Hr. destruct o; try discriminate Ho. simpl in Ho, H, Hok. unfold isOneFaultPlan in Ho.
  destruct (fo p) as [|[[x w] a] l] eqn:Hfo.
  - pose proof (pass_writes_result s p s' e IV Hfo H Hr) as ->.
    destruct (pass_writesB s p s' IV V TP (fo_nil_writes_only p Hfo) Hok H) as (t' & W & E).
    destruct (we_inv _ _ _ _ E) as (A & B & C & D).
    split; [exact A|]. split; [exact B|]. split; [exact C|apply (templates_ok_CF s s' D Ht)].
  - destruct a as [k| |]; try discriminate Ho. destruct l; try discriminate Ho.
    destruct (pass_writes_and_fault s p x w k s' e IV V TP Hok Hfo H Hr) as (_ & A & B & C & D & _).
    split; [exact A|]. split; [exact B|]. split; [exact C|apply (templates_ok_CF s s' D Ht)].
Qed.

Lemma histX_inv os : forall s0 s,
  Inv s0 -> ValInvB s0 -> Tplain s0 -> templates_ok s0 = true -> histX_run s0 os = Some s ->
  Inv s /\ ValInvB s /\ Tplain s /\ templates_ok s = true.
Proof.
  induction os as [|o os IH]; intros s0 s IV V TP Ht H; simpl in H; [injection H as <-; auto|].
  destruct (histB_op o && parity_op o && op_ok s0 o && op_clean s0 o) eqn:Eo.
  - rewrite !andb_true_iff in Eo. destruct Eo as [[[Ho Hpo] Hok] Hcl].
    destruct (step s0 o) as [[s1 [e|]]| |] eqn:Es; try discriminate.
    destruct (stepB_inv s0 o s1 IV V TP Ho Hok Hcl Es) as (I1 & V1 & T1).
    apply (IH s1 s I1 V1 T1 (stepB_templates s0 o s1 IV V TP Ho Hpo Es Ht) H).
  - destruct (isPlanOp o && op_ok s0 o) eqn:Ef; [|discriminate]. apply andb_true_iff in Ef as [Ef Hok].
    destruct (step s0 o) as [[s1 e]| |] eqn:Es; try discriminate.
    destruct (rejected e) eqn:Er; [discriminate|].
    destruct (stepX_inv s0 o s1 e IV V TP Ht Ef Hok Es Er) as (I1 & V1 & T1 & Ht1). apply (IH s1 s I1 V1 T1 Ht1 H).
Qed.

Lemma histX_split os1 : forall s0 o os2 sf,
  histX_run s0 (os1 ++ o :: os2) = Some sf ->
  exists s1, histX_run s0 os1 = Some s1 /\ histX_run s1 (o :: os2) = Some sf.
Proof.
  induction os1 as [|a os1 IH]; intros s0 o os2 sf H; [exists s0; auto|].
  simpl in H |- *.
  destruct (histB_op a && parity_op a && op_ok s0 a && op_clean s0 a).
  - destruct (step s0 a) as [[s1 [e|]]| |]; try discriminate. apply (IH s1 o os2 sf H).
  - destruct (isPlanOp a && op_ok s0 a); [|discriminate].
    destruct (step s0 a) as [[s1 e]| |]; try discriminate. destruct (rejected e); [discriminate|].
    apply (IH s1 o os2 sf H).
Qed.

Theorem histX_planfree mh os1 os2 sf :
  (0 < mh)%nat -> histX_run (init mh) (os1 ++ Stabilize [] :: os2) = Some sf ->
  exists s1 s2, histX_run (init mh) os1 = Some s1 /\ step s1 (Stabilize []) = Ok (s2, None) /\
    consistent s2 = true /\ observers_agree s2 = true /\ Inv s2 /\ ValInvB s2.
Proof.
  intros Hmh H. destruct (histX_split os1 (init mh) _ os2 sf H) as (s1 & H1 & H2).
  assert (TP0 : Tplain (init mh)) by (intros b r Hr; inversion Hr).
  destruct (histX_inv os1 (init mh) s1 (Inv_init mh Hmh) (ValInvB_init mh) TP0 eq_refl H1) as (I1 & V1 & T1 & Ht1).
  simpl in H2.
  destruct (stabilize [] false s1) as [[s2 [e|]]| |] eqn:Es; try discriminate.
  exists s1, s2. split; [exact H1|]. split; [exact Es|].
  destruct (passS_ValInvB s1 s2 I1 V1 T1 Es) as (V2 & T2 & C2).
  destruct (passS_observers_agree s1 s2 I1 V1 T1 Es (templates_ok_CF s1 s2 C2 Ht1)) as (A & B & C & _).
  auto.
Qed.

(** Example: a cutoff (node 2, over var 0) feeds a bind; the cutoff function fails, then panics while
    after writing a var *)
Definition exX_plan : plan := [(2%nat, WCut, ASet 1%nat 9); (2%nat, WCut, AFail FPanic)].
Definition exX_ops : list op :=
  [ NewVar 2 false; NewVar 3 false;
    NewCutoff CEq 0%nat;                                        (* 2 *)
    NewBind [TMap (Aff 1 1) (TOuter 1%nat); TRet 5] 2%nat;      (* lhs-change 3, main 4 *)
    NewMap (Aff 2 0) 4%nat;                                     (* 5 *)
    NewMap (Aff 1 7) 1%nat;                                     (* 6 *)
    Observe 5%nat; Observe 6%nat;
    Stabilize [];
    SetVar 0%nat 3;
    Stabilize (cutPlan 2%nat FErr);                             (* the cutoff function fails *)
    Stabilize [];                                               (* retry: the bind swaps *)
    SetVar 0%nat 4; SetVar 1%nat 5;
    Stabilize exX_plan;                                         (* the cutoff function writes var 1, then panics *)
    Stabilize [] ].

Lemma exX_runs : exists s, histX_run (init 64) exX_ops = Some s.
Proof.
  assert (H : match histX_run (init 64) exX_ops with Some _ => true | None => false end = true)
    by (vm_compute; reflexivity).
  destruct (histX_run (init 64) exX_ops) as [s|]; [eauto|discriminate H].
Qed.

Lemma exX_faults :
  match histX_run (init 64) (take 10 exX_ops) with
  | Some s =>
    match stabilize (cutPlan 2%nat FErr) false s with
    | Ok (s1, Some (EUser 2%nat)) =>
      match histX_run s1 [Stabilize []; SetVar 0%nat 4; SetVar 1%nat 5] with
      | Some s2 =>
        match stabilize exX_plan false s2 with
        | Ok (s3, Some (EPanic 2%nat)) => inHeap s3 2%nat && (value (nd s3 1%nat) =? 9)
        | _ => false
        end
      | None => false
      end
    | _ => false
    end
  | None => false
  end = true.
Proof. vm_compute. reflexivity. Qed.
