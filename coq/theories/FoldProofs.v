(** Proofs for C14 about the models in Fold.v. *)
From incr Require Import Base Fold.

Local Open Scope nat_scope.

(** * UnorderedArrayFold *)
Section UAFProofs.
  Context {A B : Type}.
  Variable zeroA : A.
  Variable initial : B.
  Variable fold : B -> A -> B.
  Variable update : B -> A -> A -> B.
  Variable inputs : list nat.

  Notation F l := (fold_left fold l initial).

  (** the documented contract of [update]: it undoes the old value's contribution and
      applies the new one, so that the result is what folding from scratch gives *)
  Definition update_contract : Prop :=
    forall (l : list A) (i : nat) (x : A), i < length l ->
      update (F l) (nth i l zeroA) x = F (<[i := x]> l).

  Hypothesis update_ok : update_contract.

  (** ** slots *)
  Lemma slots_from_spec k ins id slot :
    slot ∈ slots_from k ins id <-> exists i, slot = k + i /\ ins !! i = Some id.
  Proof.
    revert k; induction ins as [|input ins IH]; intros k; simpl.
    - split; [intros H; inversion H|intros (i & _ & H); discriminate].
    - destruct (Nat.eqb_spec input id) as [->|Hne].
      + rewrite elem_of_cons, IH. split.
        * intros [->|(i & -> & Hi)]; [exists 0; split; [lia|reflexivity]|exists (S i); split; [lia|exact Hi]].
        * intros ([|i] & -> & Hi); [left; lia|right; exists i; split; [lia|exact Hi]].
      + rewrite IH. split.
        * intros (i & -> & Hi). exists (S i); split; [lia|exact Hi].
        * intros ([|i] & -> & Hi); [simpl in Hi; congruence|exists i; split; [lia|exact Hi]].
  Qed.

  Lemma slots_spec id slot : slot ∈ slots inputs id <-> inputs !! slot = Some id.
  Proof.
    unfold slots. rewrite slots_from_spec. split.
    - intros (i & -> & Hi). exact Hi.
    - intros H. exists slot. split; [lia|exact H].
  Qed.

  (** ** pending changes form a chain from the list the accumulator stands for to [last] *)
  Fixpoint chain (base : list A) (p : list (change (A:=A))) (lst : list A) : Prop :=
    match p with
    | [] => base = lst
    | c :: p => c_slot c < length base /\ c_old c = nth (c_slot c) base zeroA /\
                chain (<[c_slot c := c_new c]> base) p lst
    end.

  Lemma chain_length base p lst : chain base p lst -> length lst = length base.
  Proof.
    revert base; induction p as [|c p IH]; intros base; simpl.
    - intros ->. reflexivity.
    - intros (_ & _ & H). rewrite (IH _ H). apply insert_length.
  Qed.

  Lemma apply_chain base p lst :
    chain base p lst -> applyPending update (F base) p = F lst.
  Proof.
    revert base; induction p as [|c p IH]; intros base; simpl.
    - intros ->. reflexivity.
    - intros (Hlt & Hold & H). unfold applyPending in *. simpl.
      rewrite Hold, update_ok by exact Hlt. apply IH, H.
  Qed.

  Lemma chain_snoc base p mid slot x :
    chain base p mid -> slot < length mid ->
    chain base (p ++ [Change slot (nth slot mid zeroA) x]) (<[slot := x]> mid).
  Proof.
    revert base; induction p as [|c p IH]; intros base; simpl.
    - intros -> Hlt. repeat split; auto.
    - intros (Hlt & Hold & H) Hs. repeat split; auto.
  Qed.

  (** ** ChildChanged *)
  Lemma childChanged_loop st j sl (f : uaf (A:=A) (B:=B)) :
    (forall slot, slot ∈ sl -> inputs !! slot = Some j) ->
    length (last f) = length inputs ->
    exists f', rfold (childChanged1 inputs st) sl f = Ok f' /\
      value f' = value f /\ folded f' = folded f /\
      length (last f') = length inputs /\
      (forall base, chain base (pending f) (last f) -> chain base (pending f') (last f')) /\
      (forall slot, last f' !! slot = if decide (slot ∈ sl) then Some (st j) else last f !! slot).
  Proof.
    revert f; induction sl as [|s sl IH]; intros f Hsl Hlen; simpl.
    - exists f. split; [reflexivity|]. do 4 (split; [auto|]). intros slot.
      destruct (decide (slot ∈ [])) as [H|H]; [inversion H|reflexivity].
    - assert (Hs : inputs !! s = Some j) by (apply Hsl; left).
      assert (Hlt : s < length (last f)) by (rewrite Hlen; eapply lookup_lt_Some; eauto).
      destruct (lookup_lt_is_Some_2 _ _ Hlt) as [ov Hov].
      unfold childChanged1 at 1. rewrite Hs, Hov. simpl.
      set (f1 := UAF (value f) (<[s := st j]> (last f)) (pending f ++ [Change s ov (st j)]) (folded f)).
      destruct (IH f1) as (f' & Hrun & Hv & Hf & Hl & Hch & Hlast).
      { intros slot H. apply Hsl. right; exact H. }
      { simpl. rewrite insert_length. exact Hlen. }
      exists f'. split; [exact Hrun|]. split; [rewrite Hv; reflexivity|]. split; [rewrite Hf; reflexivity|].
      split; [exact Hl|]. split.
      + intros base Hb. apply Hch. simpl.
        assert (ov = nth s (last f) zeroA) as -> by (rewrite nth_lookup, Hov; reflexivity).
        apply chain_snoc; auto.
      + intros slot. rewrite Hlast. simpl.
        destruct (decide (slot ∈ sl)) as [Hin|Hnin].
        * rewrite decide_True by (right; exact Hin). reflexivity.
        * destruct (decide (slot = s)) as [->|Hne].
          -- rewrite decide_True by left. apply list_lookup_insert. exact Hlt.
          -- rewrite decide_False by (intros H; apply elem_of_cons in H as [H|H]; tauto).
             apply list_lookup_insert_ne. congruence.
  Qed.

  (** ** the initial full fold *)
  Lemma fullFold_spec st ins k lst acc :
    k + length ins = length lst ->
    fullFold fold st ins k lst acc = Ok (take k lst ++ map st ins, fold_left fold (map st ins) acc).
  Proof.
    revert k lst acc; induction ins as [|i ins IH]; intros k lst acc Hlen; simpl in *.
    - rewrite app_nil_r, take_ge by lia. reflexivity.
    - destruct (Nat.ltb_spec k (length lst)) as [Hlt|]; [|lia].
      rewrite IH by (rewrite insert_length; lia). f_equal. f_equal.
      rewrite (take_S_r (<[k := st i]> lst) k (st i)) by (apply list_lookup_insert; exact Hlt).
      rewrite take_insert by lia. rewrite <- app_assoc. reflexivity.
  Qed.

  (** ** the invariant *)
  Definition agree (st : store (A:=A)) (dirty : list nat) (lst : list A) : Prop :=
    forall slot id, inputs !! slot = Some id -> id ∉ dirty -> lst !! slot = Some (st id).

  Lemma agree_all st lst :
    length lst = length inputs -> agree st [] lst -> lst = current inputs st.
  Proof.
    intros Hlen Hag. apply list_eq. intros slot. unfold current.
    change (map st inputs) with (st <$> inputs). rewrite list_lookup_fmap.
    destruct (inputs !! slot) as [id|] eqn:Hi; simpl.
    - apply Hag; [exact Hi|]. intros H; inversion H.
    - apply lookup_ge_None. rewrite Hlen. apply lookup_ge_None. exact Hi.
  Qed.

  Section Variant.
    Variable reset : bool.

    Notation step' := (step initial fold update reset inputs).
    Notation run' := (run initial fold update reset inputs).

    Record Inv (dirty : list nat) (computed : bool) (w : world (A:=A) (B:=B)) : Prop := {
      inv_len : length (last (w_f w)) = length inputs;
      inv_unlinked : w_linked w = false -> dirty = [];
      inv_reset : reset = true -> w_linked w = false -> folded (w_f w) = false;
      inv_computed : reset = false -> computed = folded (w_f w);
      inv_folded : folded (w_f w) = true ->
        exists base, value (w_f w) = F base /\ chain base (pending (w_f w)) (last (w_f w)) /\
                     agree (w_store w) dirty (last (w_f w))
    }.

    Lemma inv_init st : Inv [] false (init zeroA initial inputs st).
    Proof.
      constructor; simpl; auto; try discriminate.
      apply replicate_length.
    Qed.

    (* the trackers of [admissible] / [quiet] after one event *)
    Definition dirty_after (linked : bool) (dirty : list nat) (e : ev (A:=A)) : list nat :=
      match e with
      | Write i _ => if linked && is_input inputs i then i :: dirty else dirty
      | Notify j => filter (fun i => negb (Nat.eqb i j)) dirty
      | Recompute => dirty
      | Unlink | Relink => []
      end.
    Definition computed_after (linked computed : bool) (e : ev (A:=A)) : bool :=
      match e with Recompute => computed || linked | _ => computed end.
    Definition linked_after (linked : bool) (e : ev (A:=A)) : bool :=
      match e with Unlink => false | Relink => true | _ => linked end.

    Lemma admissible_cons linked dirty e (h : list (ev (A:=A))) :
      admissible inputs linked dirty (e :: h) ->
      admissible inputs (linked_after linked e) (dirty_after linked dirty e) h.
    Proof. destruct e; simpl; tauto. Qed.

    Lemma quiet_cons linked dirty computed e (h : list (ev (A:=A))) :
      quiet inputs linked dirty computed (e :: h) ->
      quiet inputs (linked_after linked e) (dirty_after linked dirty e) (computed_after linked computed e) h.
    Proof. destruct e; simpl; tauto. Qed.

    Lemma step_inv dirty computed w e h :
      Inv dirty computed w ->
      admissible inputs (w_linked w) dirty (e :: h) ->
      (reset = false -> quiet inputs (w_linked w) dirty computed (e :: h)) ->
      exists w', step' w e = Ok w' /\
        w_linked w' = linked_after (w_linked w) e /\
        Inv (dirty_after (w_linked w) dirty e) (computed_after (w_linked w) computed e) w' /\
        (e = Recompute -> value (w_f w') = full initial fold inputs (w_store w')).
    Proof.
      intros [Hlen Hunl Hres Hcomp Hfold] Hadm Hq.
      destruct w as [st f linked]; simpl in *.
      destruct e as [i x|j| | |]; simpl in Hadm |- *.
      - (* Write *)
        eexists; split; [reflexivity|]. split; [reflexivity|]. split; [|discriminate].
        constructor; simpl; auto.
        + intros ->. auto.
        + intros Hf. destruct (Hfold Hf) as (base & Hv & Hch & Hag).
          exists base. split; [exact Hv|]. split; [exact Hch|].
          destruct (is_input inputs i) eqn:Hin.
          * destruct linked; simpl.
            -- intros slot id Hs Hnin. rewrite (Hag slot id Hs).
               ++ unfold write. destruct (Nat.eqb_spec id i) as [->|]; [|reflexivity].
                  exfalso. apply Hnin. left.
               ++ intros H. apply Hnin. right. exact H.
            -- (* a write to an input behind the back of a computed fold is excluded *)
               exfalso. destruct reset eqn:Hr.
               ++ rewrite Hres in Hf by auto. discriminate.
               ++ destruct (Hq eq_refl) as [Hc _]. rewrite Hcomp, Hf in Hc by reflexivity.
                  specialize (Hc eq_refl eq_refl). discriminate.
          * (* not an input: no slot reads it *)
            rewrite andb_false_r. intros slot id Hs Hnin. rewrite (Hag slot id Hs Hnin).
            unfold write. destruct (Nat.eqb_spec id i) as [->|]; [|reflexivity].
            exfalso. unfold is_input in Hin.
            assert (existsb (Nat.eqb i) inputs = true); [|congruence].
            apply existsb_exists. exists i. split; [|apply Nat.eqb_refl].
            apply elem_of_list_In. eapply elem_of_list_lookup_2; eauto.
      - (* Notify *)
        destruct Hadm as [-> Hadm].
        unfold childChanged. destruct (folded f) eqn:Hf; simpl.
        + destruct (Hfold eq_refl) as (base & Hv & Hch & Hag).
          destruct (childChanged_loop st j (slots inputs j) f) as (f' & Hrun & Hv' & Hf' & Hl' & Hch' & Hlast).
          { intros slot. apply slots_spec. }
          { exact Hlen. }
          rewrite Hrun. simpl. eexists; split; [reflexivity|]. split; [reflexivity|]. split; [|discriminate].
          constructor; simpl; auto; try discriminate.
          * rewrite Hf', Hf. exact Hcomp.
          * intros _. exists base. split; [congruence|]. split; [apply Hch', Hch|].
            intros slot id Hs Hnin. rewrite Hlast.
            destruct (decide (slot ∈ slots inputs j)) as [Hin|Hnin'].
            -- apply slots_spec in Hin. congruence.
            -- apply Hag; [exact Hs|]. intros Hd. apply Hnin.
               apply elem_of_list_filter. split; [|exact Hd].
               destruct (Nat.eqb_spec id j) as [->|]; [|exact I].
               exfalso. apply Hnin', slots_spec, Hs.
        + eexists; split; [reflexivity|]. split; [reflexivity|]. split; [|discriminate].
          constructor; simpl; auto; try discriminate; rewrite Hf; auto.
          intros H; discriminate H.
      - (* Recompute *)
        destruct Hadm as (-> & -> & Hadm).
        unfold stabilize. destruct (folded f) eqn:Hf; simpl.
        + destruct (Hfold eq_refl) as (base & Hv & Hch & Hag).
          eexists; split; [reflexivity|]. split; [reflexivity|].
          assert (Hval : applyPending update (value f) (pending f) = F (last f))
            by (rewrite Hv; apply apply_chain, Hch).
          split.
          * constructor; simpl; auto; try discriminate.
            -- intros _. apply orb_true_r.
            -- intros _. exists (last f). repeat split; auto.
          * intros _. simpl. rewrite Hval. unfold full. f_equal. apply agree_all; auto.
        + rewrite fullFold_spec by (simpl; lia). simpl.
          eexists; split; [reflexivity|]. split; [reflexivity|]. split.
          * constructor; simpl; auto; try discriminate.
            -- rewrite map_length. reflexivity.
            -- intros _. apply orb_true_r.
            -- intros _. exists (map st inputs). repeat split; auto.
               intros slot id Hs _. change (map st inputs) with (st <$> inputs).
               rewrite list_lookup_fmap, Hs. reflexivity.
          * intros _. reflexivity.
      - (* Unlink *)
        destruct Hadm as [-> Hadm].
        eexists; split; [reflexivity|]. split; [reflexivity|]. split; [|discriminate].
        unfold release. constructor; simpl; try discriminate.
        + destruct reset; exact Hlen.
        + reflexivity.
        + intros -> _. reflexivity.
        + intros Hr. rewrite Hr. apply Hcomp, Hr.
        + destruct reset eqn:Hr; simpl; [intros H; discriminate H|].
          intros Hf. destruct (Hfold Hf) as (base & Hv & Hch & Hag).
          exists base. repeat split; auto.
          destruct (Hq eq_refl) as [Hd _]. rewrite (Hcomp eq_refl), Hf in Hd.
          rewrite (Hd eq_refl) in Hag. exact Hag.
      - (* Relink *)
        destruct Hadm as [-> Hadm].
        eexists; split; [reflexivity|]. split; [reflexivity|]. split; [|discriminate].
        constructor; simpl; auto; try discriminate.
        intros Hf. destruct (Hfold Hf) as (base & Hv & Hch & Hag).
        exists base. repeat split; auto. rewrite (Hunl eq_refl) in Hag. exact Hag.
    Qed.

    Lemma run_inv h : forall dirty computed w,
      Inv dirty computed w ->
      admissible inputs (w_linked w) dirty (h ++ [Recompute]) ->
      (reset = false -> quiet inputs (w_linked w) dirty computed (h ++ [Recompute])) ->
      exists w', run' w (h ++ [Recompute]) = Ok w' /\
                 value (w_f w') = full initial fold inputs (w_store w').
    Proof.
      induction h as [|e h IH]; intros dirty computed w Hinv Hadm Hq; simpl app in *.
      - destruct (step_inv _ _ _ _ _ Hinv Hadm Hq) as (w' & Hstep & _ & _ & Hval).
        exists w'. unfold run; cbn [rfold]. rewrite Hstep. cbn [rbind]. auto.
      - destruct (step_inv _ _ _ _ _ Hinv Hadm Hq) as (w' & Hstep & Hl & Hinv' & _).
        destruct (IH _ _ w' Hinv') as (w'' & Hrun & Hval).
        + rewrite Hl. apply admissible_cons, Hadm.
        + intros Hr. rewrite Hl. apply quiet_cons, Hq, Hr.
        + exists w''. split; [|exact Hval]. unfold run in *; cbn [rfold]. rewrite Hstep. cbn [rbind]. exact Hrun.
    Qed.
  End Variant.

  (** The fold of the code as it is equals a full fold of its current inputs after every
      recompute of every history the engine's discipline admits in which, once the fold has
      been computed, nothing changes behind its back. *)
  Theorem uaf_as_is st0 (h : list (ev (A:=A))) :
    admissible inputs false [] (h ++ [Recompute]) ->
    quiet inputs false [] false (h ++ [Recompute]) ->
    exists w, run initial fold update false inputs (init zeroA initial inputs st0) (h ++ [Recompute]) = Ok w /\
              value (w_f w) = full initial fold inputs (w_store w).
  Proof.
    intros Hadm Hq. eapply (run_inv false h [] false); eauto. apply inv_init.
  Qed.

  (** With the repair, the extra hypothesis is not needed. *)
  Theorem uaf_fixed st0 (h : list (ev (A:=A))) :
    admissible inputs false [] (h ++ [Recompute]) ->
    exists w, run initial fold update true inputs (init zeroA initial inputs st0) (h ++ [Recompute]) = Ok w /\
              value (w_f w) = full initial fold inputs (w_store w).
  Proof.
    intros Hadm. eapply (run_inv true h [] false); eauto; [apply inv_init|discriminate].
  Qed.
End UAFProofs.

(** ** the executable versions of the discipline are sound *)
Lemma admissibleb_sound {A} (inputs : list nat) (h : list (ev (A:=A))) : forall linked dirty,
  admissibleb inputs linked dirty h = true -> admissible inputs linked dirty h.
Proof.
  induction h as [|e h IH]; intros linked dirty; simpl; [auto|].
  destruct e; simpl; rewrite ?andb_true_iff.
  - apply IH.
  - intros [-> H]. split; [reflexivity|apply IH, H].
  - intros [[-> Hd] H]. split; [reflexivity|]. split; [destruct dirty; [reflexivity|discriminate]|apply IH, H].
  - intros [-> H]. split; [reflexivity|apply IH, H].
  - intros [Hl H]. split; [destruct linked; [discriminate|reflexivity]|apply IH, H].
Qed.

Lemma quietb_sound {A} (inputs : list nat) (h : list (ev (A:=A))) : forall linked dirty computed,
  quietb inputs linked dirty computed h = true -> quiet inputs linked dirty computed h.
Proof.
  induction h as [|e h IH]; intros linked dirty computed; simpl; [auto|].
  destruct e; simpl; rewrite ?andb_true_iff.
  - intros [Hc H]. split; [|apply IH, H]. intros -> Hin. rewrite Hin in Hc. simpl in Hc.
    destruct computed; [discriminate|reflexivity].
  - apply IH.
  - apply IH.
  - intros [Hc H]. split; [|apply IH, H]. intros ->. simpl in Hc. destruct dirty; [reflexivity|discriminate].
  - apply IH.
Qed.

(** ** The sum instance satisfies the contract, and refutes the full statement *)
Lemma fold_left_add_acc (l : list Z) (a : Z) : (fold_left Z.add l a = a + fold_left Z.add l 0)%Z.
Proof.
  revert a; induction l as [|x l IH]; intros a; simpl; [lia|].
  rewrite (IH (a + x)%Z), (IH (0 + x)%Z). lia.
Qed.

Lemma sum_contract :
  update_contract (A:=Z) (B:=Z) 0%Z 0%Z Z.add (fun acc o n => (acc - o + n)%Z).
Proof.
  intros l; induction l as [|a l IH]; intros i x Hi; simpl in Hi; [lia|].
  destruct i as [|i]; simpl.
  - rewrite (fold_left_add_acc l (0 + a)), (fold_left_add_acc l (0 + x)). lia.
  - specialize (IH i x ltac:(lia)).
    rewrite (fold_left_add_acc l (0 + a)), (fold_left_add_acc (<[i:=x]> l) (0 + a)). lia.
Qed.

Definition refuting_history : list (ev (A:=Z)) :=
  [Relink; Recompute; Unlink; Write 0 10%Z; Relink].

Theorem uaf_refuted :
  exists (st0 : store (A:=Z)) (h : list (ev (A:=Z))),
    update_contract (A:=Z) (B:=Z) 0%Z 0%Z Z.add (fun acc o n => (acc - o + n)%Z) /\
    admissible [0; 1] false [] (h ++ [Recompute]) /\
    exists w, run 0%Z Z.add (fun acc o n => (acc - o + n)%Z) false [0; 1] (init 0%Z 0%Z [0; 1] st0) (h ++ [Recompute]) = Ok w /\
              value (w_f w) = 3%Z /\ full 0%Z Z.add [0; 1] (w_store w) = 12%Z.
Proof.
  exists (fun j => match j with 0 => 1%Z | _ => 2%Z end), refuting_history.
  split; [exact sum_contract|]. split; [simpl; tauto|].
  eexists. split; [vm_compute; reflexivity|]. split; reflexivity.
Qed.

(* the hypotheses of [uaf_as_is] are satisfiable by a history that exercises everything
   the extra hypothesis leaves: repeats, several writes per pass, re-notification, an
   unobserve / re-observe episode without writes *)
Example uaf_as_is_nonvacuous :
  let h : list (ev (A:=Z)) :=
    [Write 1 5%Z; Relink; Recompute; Write 0 7%Z; Write 1 8%Z; Notify 0; Notify 1; Notify 1; Recompute;
     Unlink; Relink] in
  admissible [0; 1; 0] false [] (h ++ [Recompute]) /\ quiet [0; 1; 0] false [] false (h ++ [Recompute]).
Proof. simpl. repeat split; auto; discriminate. Qed.

(** * ReduceBalanced *)
Section ReduceProofs.
  Context {A : Type}.
  Variable op : A -> A -> A.
  Hypothesis op_assoc : forall a b c, op a (op b c) = op (op a b) c.

  Lemma pair_level_length {T} (m : T -> T -> T) (l : list T) :
    length (pair_level m l) = Nat.div2 (S (length l)).
  Proof.
    induction l as [l IH] using (induction_ltof1 _ (@length T)); unfold ltof in *.
    destruct l as [|a [|b l]]; try reflexivity.
    simpl. rewrite IH by (simpl; lia). reflexivity.
  Qed.

  (* pairing a level up keeps the left-to-right reduction *)
  Lemma pair_level_eval (l : list (tree A)) : forall acc,
    fold_left op (map (eval op) (pair_level Node l)) acc = fold_left op (map (eval op) l) acc.
  Proof.
    induction l as [l IH] using (induction_ltof1 _ (@length (tree A))); unfold ltof in *.
    intros acc. destruct l as [|a [|b l]]; try reflexivity.
    simpl. rewrite IH by (simpl; lia). rewrite op_assoc. reflexivity.
  Qed.

  Lemma pair_level_head (l : list (tree A)) d :
    foldl1 op d (map (eval op) (pair_level Node l)) = foldl1 op d (map (eval op) l).
  Proof.
    destruct l as [|a [|b l]]; try reflexivity.
    simpl. apply pair_level_eval.
  Qed.

  Lemma reduce_loop_spec fuel : forall (l : list (tree A)) d,
    l <> [] -> length l <= S fuel ->
    exists t, reduce_loop Node fuel l = Ok t /\ eval op t = foldl1 op d (map (eval op) l).
  Proof.
    induction fuel as [|fuel IH]; intros l d Hne Hlen.
    - destruct l as [|a [|b l]]; [congruence| |simpl in Hlen; lia].
      exists a. split; reflexivity.
    - destruct l as [|a [|b l]]; [congruence|exists a; split; reflexivity|].
      change (reduce_loop Node (S fuel) (a :: b :: l)) with (reduce_loop Node fuel (pair_level Node (a :: b :: l))).
      destruct (IH (pair_level Node (a :: b :: l)) d) as (t & Hrun & Hev).
      + simpl. discriminate.
      + rewrite pair_level_length. simpl length in *.
        assert (Nat.div2 (S (S (S (length l)))) <= S (length l)); [|lia].
        pose proof (Nat.div2_decr (S (length l)) (length l) ltac:(lia)).
        change (Nat.div2 (S (S (S (length l))))) with (S (Nat.div2 (S (length l)))). lia.
      + exists t. split; [exact Hrun|]. rewrite Hev. apply pair_level_head.
  Qed.

  (** for every non-empty list of inputs the tree ReduceBalanced builds evaluates to the
      left-to-right reduction, in the order given *)
  Theorem reduce_balanced_correct (l : list A) d :
    l <> [] ->
    exists t, reduce_tree l = Ok (Some t) /\ eval op t = foldl1 op d l.
  Proof.
    intros Hne. unfold reduce_tree, reduceBalanced.
    destruct (reduce_loop_spec (length (map Leaf l)) (map Leaf l) d) as (t & Hrun & Hev).
    - destruct l; [congruence|discriminate].
    - lia.
    - exists t. split.
      + destruct l as [|a l]; [congruence|]. simpl map at 1. cbv iota. rewrite Hrun. reflexivity.
      + rewrite Hev. f_equal. rewrite map_map. simpl. apply map_id.
  Qed.
End ReduceProofs.

Theorem reduce_balanced_empty {A} : reduce_tree (A:=A) [] = Ok None.
Proof. reflexivity. Qed.

(* a non-commutative instance: composition of affine maps (a pair (a,b) is x -> a*x+b) *)
Example reduce_noncommutative :
  let op := fun f g : Z * Z => (fst f * fst g, fst g * snd f + snd g)%Z in
  (forall a b c, op a (op b c) = op (op a b) c) /\ op (2, 1)%Z (3, 5)%Z <> op (3, 5)%Z (2, 1)%Z.
Proof.
  split.
  - intros [a1 b1] [a2 b2] [a3 b3]. simpl. f_equal; lia.
  - simpl. intros H. inversion H.
Qed.

(** * ArrayFold, All, MapN, ForAll, Exists *)
Theorem arrayfold_correct {A B} (initial : B) (fold : B -> A -> B) (values : list A) :
  arrayFold initial fold values = fold_left fold values initial.
Proof. reflexivity. Qed.

Theorem all_correct {A} (values : list A) : all values = values.
Proof. destruct values; reflexivity. Qed.

Theorem mapn_correct {A B} (fn : list A -> B) (values : list A) : mapN fn values = fn values.
Proof. reflexivity. Qed.

Lemma foldl1_andb (l : list bool) a : fold_left andb l a = a && forallb id l.
Proof.
  revert a; induction l as [|b l IH]; intros a; simpl; [rewrite andb_true_r; reflexivity|].
  rewrite IH. unfold id. rewrite andb_assoc. reflexivity.
Qed.

Lemma foldl1_orb (l : list bool) a : fold_left orb l a = a || existsb id l.
Proof.
  revert a; induction l as [|b l IH]; intros a; simpl; [rewrite orb_false_r; reflexivity|].
  rewrite IH. unfold id. rewrite orb_assoc. reflexivity.
Qed.

Theorem forall_correct (values : list bool) : forAll values = Ok (forallb id values).
Proof.
  destruct values as [|b values]; [reflexivity|].
  destruct (reduce_balanced_correct andb (fun a b c => andb_assoc a b c) (b :: values) true) as (t & Hrun & Hev);
    [discriminate|].
  unfold forAll. unfold reduce_tree, reduceBalanced in Hrun. simpl map in *. cbv iota in Hrun.
  destruct (reduce_loop Node (length (Leaf b :: map Leaf values)) (Leaf b :: map Leaf values)) as [t'| |] eqn:Hl;
    try discriminate.
  simpl in Hrun. injection Hrun as ->. simpl length in *. rewrite map_length in Hl.
  rewrite Hl. simpl. rewrite Hev. simpl. rewrite foldl1_andb. reflexivity.
Qed.

Theorem exists_correct (values : list bool) : exists_ values = Ok (existsb id values).
Proof.
  destruct values as [|b values]; [reflexivity|].
  destruct (reduce_balanced_correct orb (fun a b c => orb_assoc a b c) (b :: values) false) as (t & Hrun & Hev);
    [discriminate|].
  unfold exists_. unfold reduce_tree, reduceBalanced in Hrun. simpl map in *. cbv iota in Hrun.
  destruct (reduce_loop Node (length (Leaf b :: map Leaf values)) (Leaf b :: map Leaf values)) as [t'| |] eqn:Hl;
    try discriminate.
  simpl in Hrun. injection Hrun as ->. simpl length in *. rewrite map_length in Hl.
  rewrite Hl. simpl. rewrite Hev. simpl. rewrite foldl1_orb. reflexivity.
Qed.
