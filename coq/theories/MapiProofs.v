(** Proofs for C17: every mapi operator of Mapi.v equals its plain definition of
    MapiSpec.v on the current input, for every history of inputs. *)
From incr Require Import Base MapiSpec Mapi.

(** * Generic list / fold facts *)

Lemma fold_left_ext' {A B} (f g : A -> B -> A) (l : list B) (a : A) :
  (forall a b, f a b = g a b) -> fold_left f l a = fold_left g l a.
Proof.
  intros Hfg. revert a. induction l as [|b l IH]; intros a; simpl; [reflexivity|].
  rewrite Hfg. apply IH.
Qed.

Lemma last_cons_indep {A} (x : A) (l : list A) (d d' : A) : List.last (x :: l) d = List.last (x :: l) d'.
Proof. revert x. induction l as [|y l IH]; intros x; [reflexivity|]. simpl in *. apply IH. Qed.

(** A history is a list of inputs; the invariant is re-established by every recompute. *)
Lemma history_inv {S I} (stab : S -> I -> S) (P : S -> Prop) (cur : S -> I) (init : S) (ms : list I) :
  P init ->
  (forall s x, P s -> P (stab s x)) ->
  (forall s x, cur (stab s x) = x) ->
  P (fold_left stab ms init) /\ cur (fold_left stab ms init) = List.last ms (cur init).
Proof.
  intros Hinit Hstep Hcur. revert init Hinit.
  induction ms as [|m ms IH]; intros init Hinit; simpl; [auto|].
  destruct (IH (stab init m) (Hstep _ _ Hinit)) as [HP Hc]. split; [exact HP|].
  rewrite Hc, Hcur. destruct ms as [|m' ms]; [reflexivity|].
  change (List.last (m :: m' :: ms) (cur init)) with (List.last (m' :: ms) (cur init)).
  apply last_cons_indep.
Qed.

(** * Sorted keys, entries *)

Lemma elem_of_sorted_keys (s : gset Z) k : k ∈ sorted_keys s <-> k ∈ s.
Proof. unfold sorted_keys. rewrite merge_sort_Permutation. apply elem_of_elements. Qed.

Lemma NoDup_sorted_keys (s : gset Z) : NoDup (sorted_keys s).
Proof. unfold sorted_keys. rewrite merge_sort_Permutation. apply NoDup_elements. Qed.

Lemma Sorted_sorted_keys (s : gset Z) : Sorted Z.le (sorted_keys s).
Proof. unfold sorted_keys. apply Sorted_merge_sort. apply _. Qed.

Lemma elem_of_keys_of (m : zmap) k : k ∈ keys_of m <-> is_Some (m !! k).
Proof. unfold keys_of. rewrite elem_of_sorted_keys. apply elem_of_dom. Qed.

Lemma elem_of_entries (m : zmap) k v : (k, v) ∈ entries m <-> m !! k = Some v.
Proof.
  unfold entries. rewrite elem_of_list_omap. split.
  - intros (k' & _ & Hk). destruct (m !! k') eqn:E; inversion Hk; subst. exact E.
  - intros Hk. exists k. split; [apply elem_of_keys_of; eauto|]. rewrite Hk. reflexivity.
Qed.

Lemma entries_fst (m : zmap) : map fst (entries m) = keys_of m.
Proof.
  unfold entries.
  assert (H : forall ks, (forall k, k ∈ ks -> is_Some (m !! k)) ->
    map fst (omap (fun k => match m !! k with Some v => Some (k, v) | None => None end) ks) = ks).
  { induction ks as [|k ks IH]; intros Hks; simpl; [reflexivity|].
    destruct (Hks k) as [v Hv]; [left|]. rewrite Hv. simpl. f_equal.
    apply IH. intros k' Hk'. apply Hks. right. exact Hk'. }
  apply H. intros k. apply elem_of_keys_of.
Qed.

Lemma NoDup_entries_fst (m : zmap) : NoDup (map fst (entries m)).
Proof. rewrite entries_fst. apply NoDup_sorted_keys. Qed.

Lemma list_to_map_entries (m : zmap) : list_to_map (entries m) = m.
Proof.
  apply map_eq. intros k. destruct (m !! k) as [v|] eqn:E.
  - apply elem_of_list_to_map; [apply NoDup_entries_fst|]. apply elem_of_entries. exact E.
  - apply not_elem_of_list_to_map. rewrite entries_fst. rewrite elem_of_keys_of, E.
    intros [? ?]; discriminate.
Qed.

(** * The spec diff, pointwise *)

Lemma classify_key eq k o n c : classify eq k o n = Some c -> ckey c = k.
Proof.
  unfold classify. destruct o, n; try destruct (veqb eq _ _); intros H; inversion H; reflexivity.
Qed.

Definition diff_at (eq : eqfn) (m m' : zmap) (k : Z) : option change :=
  classify eq k (m !! k) (m' !! k).

Lemma diff_at_outside eq (m m' : zmap) k : k ∉ dom m ∪ dom m' -> diff_at eq m m' k = None.
Proof.
  intros Hk. unfold diff_at.
  rewrite (proj1 (not_elem_of_dom m k)), (proj1 (not_elem_of_dom m' k)); [reflexivity| |]; set_solver.
Qed.

Lemma elem_of_merge_diff eq m m' c : c ∈ merge_diff eq m m' <-> diff_at eq m m' (ckey c) = Some c.
Proof.
  unfold merge_diff. rewrite elem_of_list_omap. split.
  - intros (k & _ & Hk). rewrite (classify_key _ _ _ _ _ Hk). exact Hk.
  - intros Hc. exists (ckey c). split; [|exact Hc].
    apply elem_of_sorted_keys. destruct (decide (ckey c ∈ dom m ∪ dom m')) as [|Hn]; [assumption|].
    rewrite (diff_at_outside _ _ _ _ Hn) in Hc. discriminate.
Qed.

(** Folding per-key edits over a list of distinct keys. *)
Lemma fold_omap_lookup {V} (g : Z -> option change) (h : change -> option V -> option V)
    (ks : list Z) (out : gmap Z V) (k : Z) :
  (forall k c, g k = Some c -> ckey c = k) -> NoDup ks ->
  fold_left (fun o c => partial_alter (h c) (ckey c) o) (omap g ks) out !! k =
  if decide (k ∈ ks) then match g k with Some c => h c (out !! k) | None => out !! k end
  else out !! k.
Proof.
  intros Hg. revert out. induction ks as [|k0 ks IH]; intros out Hnd; simpl.
  { destruct (decide (k ∈ [])) as [H|]; [inversion H|reflexivity]. }
  inversion Hnd as [|? ? Hk0 Hnd']; subst.
  destruct (g k0) as [c|] eqn:Eg; simpl.
  - rewrite IH by assumption. pose proof (Hg _ _ Eg) as Hc. rewrite Hc.
    destruct (decide (k = k0)) as [->|Hne].
    + destruct (decide (k0 ∈ ks)); [contradiction|].
      destruct (decide (k0 ∈ k0 :: ks)) as [_|Hn]; [|exfalso; apply Hn; left].
      rewrite Eg. apply lookup_partial_alter.
    + rewrite lookup_partial_alter_ne by congruence.
      destruct (decide (k ∈ ks)) as [Hin|Hnin].
      * destruct (decide (k ∈ k0 :: ks)) as [_|Hn]; [reflexivity|exfalso; apply Hn; right; exact Hin].
      * destruct (decide (k ∈ k0 :: ks)) as [Hin'|_]; [|reflexivity].
        inversion Hin'; subst; [congruence|contradiction].
  - rewrite IH by assumption.
    destruct (decide (k = k0)) as [->|Hne].
    + destruct (decide (k0 ∈ ks)); [contradiction|].
      destruct (decide (k0 ∈ k0 :: ks)) as [_|Hn]; [|exfalso; apply Hn; left].
      rewrite Eg. reflexivity.
    + destruct (decide (k ∈ ks)) as [Hin|Hnin].
      * destruct (decide (k ∈ k0 :: ks)) as [_|Hn]; [reflexivity|exfalso; apply Hn; right; exact Hin].
      * destruct (decide (k ∈ k0 :: ks)) as [Hin'|_]; [|reflexivity].
        inversion Hin'; subst; [congruence|contradiction].
Qed.

(** The workhorse: a loop of per-key edits over the diff, read back at one key. *)
Lemma fold_diff_lookup {V} (h : change -> option V -> option V) eq (m m' : zmap) (out : gmap Z V) k :
  fold_left (fun o c => partial_alter (h c) (ckey c) o) (merge_diff eq m m') out !! k =
  match diff_at eq m m' k with Some c => h c (out !! k) | None => out !! k end.
Proof.
  unfold merge_diff.
  rewrite (fold_omap_lookup (fun k => classify eq k (m !! k) (m' !! k)) h).
  - destruct (decide (k ∈ sorted_keys (dom m ∪ dom m'))) as [Hin|Hnin]; [reflexivity|].
    rewrite elem_of_sorted_keys in Hnin. rewrite (diff_at_outside _ _ _ _ Hnin). reflexivity.
  - intros k0 c. apply classify_key.
  - apply NoDup_sorted_keys.
Qed.

(** * MapValues *)
Section map_values.
  Context (eq : eqfn) (f : Z -> Z -> Z).

  Definition mv_h (c : change) (_ : option Z) : option Z :=
    match c with
    | Removed _ _ => None
    | Added k v | Updated k _ v => Some (f k v)
    end.

  Lemma mv_stabilize_value s cur :
    MapValues.value (MapValues.Stabilize eq f s cur) =
    fold_left (fun o c => partial_alter (mv_h c) (ckey c) o)
              (merge_diff eq (MapValues.last s) cur) (MapValues.value s).
  Proof.
    unfold MapValues.Stabilize; simpl. apply fold_left_ext'. intros o [k v|k v|k v v']; reflexivity.
  Qed.

  Lemma F_map_values_lookup (m : zmap) k : F_map_values f m !! k = f k <$> m !! k.
  Proof. unfold F_map_values. rewrite map_lookup_imap. destruct (m !! k); reflexivity. Qed.

  Lemma mv_step s cur :
    respects eq f ->
    MapValues.value s = F_map_values f (MapValues.last s) ->
    MapValues.value (MapValues.Stabilize eq f s cur) = F_map_values f cur.
  Proof.
    intros Hr Hinv. apply map_eq. intros k.
    rewrite mv_stabilize_value, fold_diff_lookup, Hinv, !F_map_values_lookup.
    unfold diff_at, classify.
    destruct (MapValues.last s !! k) as [v|] eqn:El, (cur !! k) as [v'|] eqn:Ec; simpl; try reflexivity.
    destruct (veqb eq v v') eqn:Ev; simpl; [|reflexivity].
    f_equal. apply Hr. exact Ev.
  Qed.

  Theorem map_values_correct (ms : list zmap) :
    respects eq f ->
    MapValues.value (fold_left (MapValues.Stabilize eq f) ms MapValues.init) = F_map_values f (List.last ms ∅).
  Proof.
    intros Hr.
    destruct (history_inv (MapValues.Stabilize eq f)
                (fun s => MapValues.value s = F_map_values f (MapValues.last s))
                MapValues.last MapValues.init ms) as [HP Hc].
    - apply map_eq. intros k. rewrite F_map_values_lookup. simpl. rewrite !lookup_empty. reflexivity.
    - intros s x Hs. simpl. apply (mv_step s x Hr Hs).
    - reflexivity.
    - rewrite HP, Hc. reflexivity.
  Qed.
End map_values.

(** * FilterMapValues *)
Section filter_map_values.
  Context (eq : eqfn) (fn : Z -> Z -> option Z).

  Definition fmv_h (c : change) (_ : option Z) : option Z :=
    match c with
    | Removed _ _ => None
    | Added k v | Updated k _ v => fn k v
    end.

  Lemma fmv_stabilize_value s cur :
    FilterMapValues.value (FilterMapValues.Stabilize eq fn s cur) =
    fold_left (fun o c => partial_alter (fmv_h c) (ckey c) o)
              (merge_diff eq (FilterMapValues.last s) cur) (FilterMapValues.value s).
  Proof.
    unfold FilterMapValues.Stabilize; simpl. apply fold_left_ext'.
    intros o [k v|k v|k v v']; cbv [fmv_h ckey]; try reflexivity; destruct (fn k _); reflexivity.
  Qed.

  Lemma F_filter_map_values_lookup (m : zmap) k : F_filter_map_values fn m !! k = m !! k ≫= fn k.
  Proof. unfold F_filter_map_values. apply map_lookup_imap. Qed.

  Lemma fmv_step s cur :
    respects eq fn ->
    FilterMapValues.value s = F_filter_map_values fn (FilterMapValues.last s) ->
    FilterMapValues.value (FilterMapValues.Stabilize eq fn s cur) = F_filter_map_values fn cur.
  Proof.
    intros Hr Hinv. apply map_eq. intros k.
    rewrite fmv_stabilize_value, fold_diff_lookup, Hinv, !F_filter_map_values_lookup.
    unfold diff_at, classify.
    destruct (FilterMapValues.last s !! k) as [v|] eqn:El, (cur !! k) as [v'|] eqn:Ec; simpl; try reflexivity.
    destruct (veqb eq v v') eqn:Ev; simpl; [|reflexivity].
    apply Hr. exact Ev.
  Qed.

  Theorem filter_map_values_correct (ms : list zmap) :
    respects eq fn ->
    FilterMapValues.value (fold_left (FilterMapValues.Stabilize eq fn) ms FilterMapValues.init)
    = F_filter_map_values fn (List.last ms ∅).
  Proof.
    intros Hr.
    destruct (history_inv (FilterMapValues.Stabilize eq fn)
                (fun s => FilterMapValues.value s = F_filter_map_values fn (FilterMapValues.last s))
                FilterMapValues.last FilterMapValues.init ms) as [HP Hc].
    - apply map_eq. intros k. rewrite F_filter_map_values_lookup. simpl. rewrite !lookup_empty. reflexivity.
    - intros s x Hs. apply (fmv_step s x Hr Hs).
    - reflexivity.
    - rewrite HP, Hc. reflexivity.
  Qed.
End filter_map_values.

(** * Keys *)
Lemma keys_stabilize s m : Keys.Stabilize s m = F_keys m.
Proof. unfold Keys.Stabilize, F_keys. apply entries_fst. Qed.

Theorem keys_correct (ms : list zmap) :
  fold_left Keys.Stabilize ms Keys.init = F_keys (List.last ms ∅).
Proof.
  assert (H : forall init, fold_left Keys.Stabilize ms init = match ms with [] => init | _ => F_keys (List.last ms ∅) end).
  { induction ms as [|m ms IH]; intros init; [reflexivity|]. simpl fold_left. rewrite IH.
    destruct ms as [|m' ms]; [apply keys_stabilize|].
    change (List.last (m :: m' :: ms) ∅) with (List.last (m' :: ms) (∅ : zmap)). reflexivity. }
  rewrite H. destruct ms; [|reflexivity].
  unfold F_keys, keys_of, sorted_keys. simpl. rewrite dom_empty_L, elements_empty. reflexivity.
Qed.

(** What [F_keys] is: the keys of the map, strictly increasing. *)
Lemma F_keys_spec (m : zmap) :
  (forall k, k ∈ F_keys m <-> is_Some (m !! k)) /\ Sorted Z.le (F_keys m) /\ NoDup (F_keys m).
Proof.
  split; [|split].
  - intros k. apply elem_of_keys_of.
  - apply Sorted_sorted_keys.
  - apply NoDup_sorted_keys.
Qed.

(** * Changes *)

Lemma NoDup_omap_keys (g : Z -> option change) (ks : list Z) :
  (forall k c, g k = Some c -> ckey c = k) -> NoDup ks -> NoDup (map ckey (omap g ks)).
Proof.
  intros Hg. induction ks as [|k ks IH]; intros Hnd; simpl; [constructor|].
  inversion Hnd as [|? ? Hk Hnd']; subst.
  destruct (g k) as [c|] eqn:Eg; simpl; [|auto].
  constructor; [|auto]. rewrite (Hg _ _ Eg). intros Hin.
  apply elem_of_list_fmap in Hin as (c' & Hc' & Hin).
  apply elem_of_list_omap in Hin as (k' & Hk' & Hg'). rewrite (Hg _ _ Hg') in Hc'. subst. contradiction.
Qed.

Lemma NoDup_merge_diff_keys eq m m' : NoDup (map ckey (merge_diff eq m m')).
Proof.
  unfold merge_diff. apply NoDup_omap_keys; [|apply NoDup_sorted_keys].
  intros k c. apply classify_key.
Qed.

Lemma NoDup_omap_sel (sel : change -> option (Z * Z)) (d : list change) :
  (forall c p, sel c = Some p -> p.1 = ckey c) -> NoDup (map ckey d) -> NoDup (map fst (omap sel d)).
Proof.
  intros Hsel. induction d as [|c d IH]; intros Hnd; simpl; [constructor|].
  inversion Hnd as [|? ? Hc Hnd']; subst.
  destruct (sel c) as [p|] eqn:Es; simpl; [|auto].
  constructor; [|auto]. rewrite (Hsel _ _ Es). intros Hin.
  apply elem_of_list_fmap in Hin as (p' & Hp' & Hin).
  apply elem_of_list_omap in Hin as (c' & Hc' & Hs'). rewrite (Hsel _ _ Hs') in Hp'.
  apply Hc. rewrite Hp'. apply elem_of_list_fmap. eauto.
Qed.

Section changes.
  Context (eq : eqfn).

  Definition ch_added (c : change) (old : option Z) : option Z :=
    match c with Added _ v => Some v | _ => old end.
  Definition ch_removed (c : change) (old : option Z) : option Z :=
    match c with Removed _ v => Some v | _ => old end.
  Definition ch_updated (c : change) (old : option Z) : option Z :=
    match c with Updated _ _ v => Some v | _ => old end.

  Definition ch_step (next : change_set) (change : change) : change_set :=
    match change with
    | Added key new => ChangeSet (<[key := new]> (cs_added next)) (cs_removed next) (cs_updated next)
    | Removed key old => ChangeSet (cs_added next) (<[key := old]> (cs_removed next)) (cs_updated next)
    | Updated key _ new => ChangeSet (cs_added next) (cs_removed next) (<[key := new]> (cs_updated next))
    end.

  Lemma partial_alter_id {V} (m : gmap Z V) k : partial_alter (fun old => old) k m = m.
  Proof.
    apply map_eq. intros k'. destruct (decide (k' = k)) as [->|Hne].
    - rewrite lookup_partial_alter. reflexivity.
    - apply lookup_partial_alter_ne. congruence.
  Qed.

  Lemma ch_fold_components (cs : list change) (acc : change_set) :
    let r := fold_left ch_step cs acc in
    cs_added r = fold_left (fun o c => partial_alter (ch_added c) (ckey c) o) cs (cs_added acc) /\
    cs_removed r = fold_left (fun o c => partial_alter (ch_removed c) (ckey c) o) cs (cs_removed acc) /\
    cs_updated r = fold_left (fun o c => partial_alter (ch_updated c) (ckey c) o) cs (cs_updated acc).
  Proof.
    revert acc. induction cs as [|c cs IH]; intros acc; simpl; [auto|].
    destruct (IH (ch_step acc c)) as (Ha & Hr & Hu). rewrite Ha, Hr, Hu.
    destruct c as [k v|k v|k o v]; simpl; unfold ch_added, ch_removed, ch_updated;
      rewrite ?partial_alter_id; auto.
  Qed.

  (** the value produced by one recompute, read at one key *)
  Lemma changes_lookup c cur k :
    let v := Changes.value (Changes.Stabilize eq c cur) in
    let d := diff_at eq (Changes.last c) cur k in
    cs_added v !! k = match d with Some (Added _ x) => Some x | _ => None end /\
    cs_removed v !! k = match d with Some (Removed _ x) => Some x | _ => None end /\
    cs_updated v !! k = match d with Some (Updated _ _ x) => Some x | _ => None end.
  Proof.
    unfold Changes.Stabilize; simpl.
    destruct (ch_fold_components (merge_diff eq (Changes.last c) cur) (ChangeSet ∅ ∅ ∅)) as (Ha & Hr & Hu).
    fold ch_step. rewrite Ha, Hr, Hu, !fold_diff_lookup. simpl. rewrite !lookup_empty.
    destruct (diff_at eq (Changes.last c) cur k) as [[]|]; simpl; auto.
  Qed.

  (** ... is exactly the spec diff between the input at the previous recompute and now. *)
  Theorem changes_exact c cur k x :
    let v := Changes.value (Changes.Stabilize eq c cur) in
    let d := merge_diff eq (Changes.last c) cur in
    (cs_added v !! k = Some x <-> Added k x ∈ d) /\
    (cs_removed v !! k = Some x <-> Removed k x ∈ d) /\
    (cs_updated v !! k = Some x <-> exists old, Updated k old x ∈ d).
  Proof.
    intros v d. destruct (changes_lookup c cur k) as (Ha & Hr & Hu). fold v in Ha, Hr, Hu.
    rewrite Ha, Hr, Hu. unfold d.
    split; [|split].
    - rewrite elem_of_merge_diff. simpl.
      destruct (diff_at eq (Changes.last c) cur k) as [[k' y|k' y|k' o y]|] eqn:E; split; intros H; try discriminate.
      + inversion H; subst. pose proof (classify_key _ _ _ _ _ E) as Hk. simpl in Hk. subst. reflexivity.
      + inversion H; subst. reflexivity.
    - rewrite elem_of_merge_diff. simpl.
      destruct (diff_at eq (Changes.last c) cur k) as [[k' y|k' y|k' o y]|] eqn:E; split; intros H; try discriminate.
      + inversion H; subst. pose proof (classify_key _ _ _ _ _ E) as Hk. simpl in Hk. subst. reflexivity.
      + inversion H; subst. reflexivity.
    - destruct (diff_at eq (Changes.last c) cur k) as [[k' y|k' y|k' o y]|] eqn:E; split; intros H; try discriminate;
        try (match type of H with ex _ => destruct H as [? H] end; apply elem_of_merge_diff in H; simpl in H; rewrite E in H; discriminate).
      + inversion H; subst. exists o. apply elem_of_merge_diff. simpl.
        pose proof (classify_key _ _ _ _ _ E) as Hk. simpl in Hk. subst. exact E.
      + destruct H as [old H]. apply elem_of_merge_diff in H. simpl in H. rewrite E in H. inversion H; subst. reflexivity.
  Qed.

  (** the same, as an equation with the list-based [F_changes] *)
  Lemma list_to_map_sel_lookup (sel : change -> option (Z * Z)) (d : list change) k x :
    (forall c p, sel c = Some p -> p.1 = ckey c) -> NoDup (map ckey d) ->
    (list_to_map (omap sel d) : zmap) !! k = Some x <-> exists c, c ∈ d /\ sel c = Some (k, x).
  Proof.
    intros Hsel Hnd. rewrite <- elem_of_list_to_map by (apply NoDup_omap_sel; assumption).
    apply elem_of_list_omap.
  Qed.

  Theorem changes_value_eq c cur :
    Changes.value (Changes.Stabilize eq c cur) = F_changes eq (Changes.last c) cur.
  Proof.
    assert (Hopt : forall (a b : zmap), (forall k x, a !! k = Some x <-> b !! k = Some x) -> a = b).
    { intros a b H. apply map_eq. intros k. destruct (a !! k) as [x|] eqn:Ea.
      - symmetry. apply H. exact Ea.
      - destruct (b !! k) as [y|] eqn:Eb; [|reflexivity]. apply H in Eb. congruence. }
    pose proof (NoDup_merge_diff_keys eq (Changes.last c) cur) as Hnd.
    remember (Changes.value (Changes.Stabilize eq c cur)) as v eqn:Ev.
    assert (Hx : forall k x,
      (cs_added v !! k = Some x <-> Added k x ∈ merge_diff eq (Changes.last c) cur) /\
      (cs_removed v !! k = Some x <-> Removed k x ∈ merge_diff eq (Changes.last c) cur) /\
      (cs_updated v !! k = Some x <-> exists old, Updated k old x ∈ merge_diff eq (Changes.last c) cur)).
    { intros k x. subst v. apply changes_exact. }
    destruct v as [va vr vu]. unfold F_changes. simpl in Hx. f_equal; apply Hopt; intros k x.
    - rewrite (proj1 (Hx k x)), list_to_map_sel_lookup; [|intros [] p Hp; inversion Hp; reflexivity|exact Hnd].
      split; [intros H; exists (Added k x); auto|].
      intros ([k' y|k' y|k' o y] & Hin & Hs); inversion Hs; subst; exact Hin.
    - rewrite (proj1 (proj2 (Hx k x))), list_to_map_sel_lookup; [|intros [] p Hp; inversion Hp; reflexivity|exact Hnd].
      split; [intros H; exists (Removed k x); auto|].
      intros ([k' y|k' y|k' o y] & Hin & Hs); inversion Hs; subst; exact Hin.
    - rewrite (proj2 (proj2 (Hx k x))), list_to_map_sel_lookup; [|intros [] p Hp; inversion Hp; reflexivity|exact Hnd].
      split; [intros [old H]; exists (Updated k old x); auto|].
      intros ([k' y|k' y|k' o y] & Hin & Hs); inversion Hs; subst; eauto.
  Qed.

  (** For every history: after the last recompute the value is the diff between the last two
      inputs the node saw (the empty map before the first). *)
  Theorem changes_correct (ms : list zmap) (m m' : zmap) :
    Changes.value (fold_left (Changes.Stabilize eq) (ms ++ [m; m']) Changes.init) = F_changes eq m m'.
  Proof.
    rewrite fold_left_app. cbn [fold_left].
    rewrite changes_value_eq. reflexivity.
  Qed.

  (** What the diff means, key by key. *)
  Lemma merge_diff_meaning (m m' : zmap) k :
    (forall v, Added k v ∈ merge_diff eq m m' <-> m !! k = None /\ m' !! k = Some v) /\
    (forall v, Removed k v ∈ merge_diff eq m m' <-> m !! k = Some v /\ m' !! k = None) /\
    (forall o v, Updated k o v ∈ merge_diff eq m m' <-> m !! k = Some o /\ m' !! k = Some v /\ veqb eq o v = false).
  Proof.
    split; [|split]; intros; rewrite elem_of_merge_diff; unfold diff_at, classify; simpl;
      destruct (m !! k) as [a|], (m' !! k) as [b|]; try destruct (veqb eq a b) eqn:E;
      split; intros H; try discriminate; try (inversion H; subst; auto; fail);
      try (destruct H as (H1 & H2); try destruct H2 as (H2 & H3); try discriminate;
           inversion H1; inversion H2; subst; try congruence; reflexivity).
  Qed.
End changes.

(** * Merge *)
Section merge.
  Context (eqL eqR : eqfn) (fn : Z -> merge_element -> option Z).

  Lemma keyed_lookup (m : zmap) k : keyed m !! k = (fun v => (k, v)) <$> m !! k.
  Proof. unfold keyed. rewrite map_lookup_imap. destruct (m !! k); reflexivity. Qed.

  Lemma F_merge_lookup (l r : zmap) k : F_merge fn l r !! k = merge_at fn k (l !! k) (r !! k).
  Proof.
    unfold F_merge. rewrite lookup_merge, !keyed_lookup.
    destruct (l !! k) as [a|], (r !! k) as [b|]; reflexivity.
  Qed.

  (* what the loop writes at a key it visits *)
  Definition merge_g (cl cr : zmap) (k : Z) : option Z := merge_at fn k (cl !! k) (cr !! k).

  Lemma merge_loop_lookup (cl cr : zmap) touched first previous out k :
    (first = false -> out !! previous = merge_g cl cr previous) ->
    Merge.loop fn cl cr touched first previous out !! k =
    if decide (k ∈ touched) then merge_g cl cr k else out !! k.
  Proof.
    revert first previous out. induction touched as [|key touched IH]; intros first previous out Hprev; simpl.
    { destruct (decide (k ∈ [])) as [H|]; [inversion H|reflexivity]. }
    destruct (negb first && (key =? previous)) eqn:Eskip.
    - apply andb_true_iff in Eskip as [Hf Hk]. apply negb_true_iff in Hf. apply Z.eqb_eq in Hk. subst key.
      rewrite IH by (intros _; apply Hprev; exact Hf).
      destruct (decide (k ∈ touched)) as [Hin|Hnin].
      + destruct (decide (k ∈ previous :: touched)) as [_|Hn]; [reflexivity|exfalso; apply Hn; right; exact Hin].
      + destruct (decide (k ∈ previous :: touched)) as [Hin'|_]; [|reflexivity].
        apply elem_of_cons in Hin' as [->|?]; [|contradiction]. apply Hprev. exact Hf.
    - match goal with |- Merge.loop _ _ _ _ false key ?o !! _ = _ =>
        assert (Ho : o = partial_alter (fun _ => merge_g cl cr key) key out)
          by (unfold merge_g, merge_at; destruct (cl !! key), (cr !! key); try reflexivity;
              destruct (fn key _); reflexivity);
        rewrite Ho; clear Ho end.
      rewrite IH by (intros _; rewrite lookup_partial_alter; reflexivity).
      destruct (decide (k = key)) as [->|Hne].
      + destruct (decide (key ∈ key :: touched)) as [_|Hn]; [|exfalso; apply Hn; left].
        destruct (decide (key ∈ touched)); [reflexivity|]. rewrite lookup_partial_alter. reflexivity.
      + rewrite lookup_partial_alter_ne by congruence.
        destruct (decide (k ∈ touched)) as [Hin|Hnin].
        * destruct (decide (k ∈ key :: touched)) as [_|Hn]; [reflexivity|exfalso; apply Hn; right; exact Hin].
        * destruct (decide (k ∈ key :: touched)) as [Hin'|_]; [|reflexivity].
          inversion Hin'; subst; [congruence|contradiction].
  Qed.

  Lemma elem_of_diff_keys eq (m m' : zmap) k :
    k ∈ map ckey (merge_diff eq m m') <-> diff_at eq m m' k <> None.
  Proof.
    rewrite elem_of_list_fmap. split.
    - intros (c & -> & Hc). apply elem_of_merge_diff in Hc. rewrite Hc. discriminate.
    - intros Hd. destruct (diff_at eq m m' k) as [c|] eqn:E; [|congruence].
      exists c. pose proof (classify_key _ _ _ _ _ E) as Hk. split; [congruence|].
      apply elem_of_merge_diff. rewrite Hk. exact E.
  Qed.

  Definition merge_respects : Prop :=
    (forall k a a' r, veqb eqL a a' = true -> merge_at fn k (Some a) r = merge_at fn k (Some a') r) /\
    (forall k l b b', veqb eqR b b' = true -> merge_at fn k l (Some b) = merge_at fn k l (Some b')).

  Lemma merge_step s cl cr :
    merge_respects ->
    Merge.value s = F_merge fn (Merge.lastLeft s) (Merge.lastRight s) ->
    Merge.value (Merge.Stabilize eqL eqR fn s cl cr) = F_merge fn cl cr.
  Proof.
    intros [HrL HrR] Hinv. apply map_eq. intros k.
    unfold Merge.Stabilize; simpl.
    rewrite merge_loop_lookup by discriminate.
    rewrite F_merge_lookup.
    destruct (decide (k ∈ _)) as [Hin|Hnin]; [reflexivity|].
    rewrite merge_sort_Permutation, elem_of_app, !elem_of_diff_keys in Hnin.
    assert (HL : diff_at eqL (Merge.lastLeft s) cl k = None).
    { destruct (diff_at eqL (Merge.lastLeft s) cl k) eqn:E; [|reflexivity]. exfalso. apply Hnin. left. discriminate. }
    assert (HR : diff_at eqR (Merge.lastRight s) cr k = None).
    { destruct (diff_at eqR (Merge.lastRight s) cr k) eqn:E; [|reflexivity]. exfalso. apply Hnin. right. discriminate. }
    rewrite Hinv, F_merge_lookup. unfold diff_at, classify in HL, HR.
    destruct (Merge.lastLeft s !! k) as [a|], (cl !! k) as [a'|]; try discriminate;
      destruct (Merge.lastRight s !! k) as [b|], (cr !! k) as [b'|]; try discriminate;
      try reflexivity;
      try (destruct (veqb eqL a a') eqn:EL; [|discriminate]);
      try (destruct (veqb eqR b b') eqn:ER; [|discriminate]).
    - rewrite (HrL _ _ _ _ EL). apply HrR. exact ER.
    - apply HrL. exact EL.
    - apply HrR. exact ER.
  Qed.

  Theorem merge_correct (ms : list (zmap * zmap)) :
    merge_respects ->
    Merge.value (fold_left (fun s x => Merge.Stabilize eqL eqR fn s x.1 x.2) ms Merge.init)
    = F_merge fn (List.last ms (∅, ∅)).1 (List.last ms (∅, ∅)).2.
  Proof.
    intros Hr.
    destruct (history_inv (fun s (x : zmap * zmap) => Merge.Stabilize eqL eqR fn s x.1 x.2)
                (fun s => Merge.value s = F_merge fn (Merge.lastLeft s) (Merge.lastRight s))
                (fun s => (Merge.lastLeft s, Merge.lastRight s)) Merge.init ms) as [HP Hc].
    - apply map_eq. intros k. rewrite F_merge_lookup. simpl. rewrite !lookup_empty. reflexivity.
    - intros s x Hs. apply (merge_step s x.1 x.2 Hr Hs).
    - intros s [a b]. reflexivity.
    - rewrite HP. change (∅, ∅) with (Merge.lastLeft Merge.init, Merge.lastRight Merge.init).
      rewrite <- Hc. reflexivity.
  Qed.
End merge.

(** * Subrange *)

Lemma fold_insert_lookup (l : list (Z * Z)) (out : zmap) k :
  NoDup (map fst l) ->
  fold_left (fun o kv => <[kv.1 := kv.2]> o) l out !! k =
  match list_find (fun kv => kv.1 = k) l with Some (_, kv) => Some kv.2 | None => out !! k end.
Proof.
  revert out. induction l as [|[k0 v0] l IH]; intros out Hnd; simpl; [reflexivity|].
  inversion Hnd as [|? ? Hk0 Hnd']; subst. rewrite IH by assumption. simpl.
  destruct (decide (k0 = k)) as [->|Hne].
  - destruct (list_find _ l) as [[i [k1 v1]]|] eqn:E; simpl.
    + apply list_find_Some in E as (Hl & Hk1 & _). simpl in Hk1. subst k1.
      exfalso. apply Hk0. apply elem_of_list_fmap. exists (k, v1). split; [reflexivity|].
      eapply elem_of_list_lookup_2. exact Hl.
    + apply lookup_insert.
  - destruct (list_find _ l) as [[i [k1 v1]]|]; simpl; [reflexivity|].
    apply lookup_insert_ne. exact Hne.
Qed.

Lemma NoDup_fst_filter (P : Z * Z -> Prop) `{!forall x, Decision (P x)} (l : list (Z * Z)) :
  NoDup (map fst l) -> NoDup (map fst (filter P l)).
Proof.
  induction l as [|x l IH]; intros Hnd; [constructor|].
  inversion Hnd as [|? ? Hx Hnd']; subst. rewrite filter_cons. destruct (decide (P x)); [|auto].
  simpl. constructor; [|auto]. intros Hin. apply Hx.
  apply elem_of_list_fmap in Hin as (y & Hy & Hin). apply elem_of_list_filter in Hin as [_ Hin].
  apply elem_of_list_fmap. eauto.
Qed.

Lemma list_to_map_fold_insert (l : list (Z * Z)) (m : zmap) :
  NoDup (map fst l) ->
  (forall k v, (k, v) ∈ l <-> m !! k = Some v) ->
  fold_left (fun o kv => <[kv.1 := kv.2]> o) l ∅ = m.
Proof.
  intros Hnd Hl. apply map_eq. intros k. rewrite fold_insert_lookup by assumption.
  destruct (list_find _ l) as [[i [k1 v1]]|] eqn:E; simpl.
  - apply list_find_Some in E as (Hi & Hk1 & _). simpl in Hk1. subst k1. symmetry. apply Hl.
    eapply elem_of_list_lookup_2. exact Hi.
  - rewrite lookup_empty. destruct (m !! k) as [v|] eqn:Em; [|reflexivity].
    apply Hl in Em. apply elem_of_list_lookup in Em as [i Hi].
    pose proof (proj1 (list_find_None _ _) E) as Hall. rewrite Forall_forall in Hall.
    exfalso. apply (Hall (k, v)); [eapply elem_of_list_lookup_2; exact Hi|reflexivity].
Qed.

Section subrange.
  Context (eq : eqfn).

  Lemma F_subrange_lookup (m : zmap) lo hi k :
    F_subrange m lo hi !! k = if in_bounds lo hi k then m !! k else None.
  Proof.
    unfold F_subrange. destruct (in_bounds lo hi k) eqn:Eb.
    - destruct (m !! k) as [v|] eqn:Em.
      + apply map_filter_lookup_Some. auto.
      + apply map_filter_lookup_None. left. exact Em.
    - apply map_filter_lookup_None. right. intros v _. simpl. rewrite Eb. discriminate.
  Qed.

  Lemma subrange_rebuild (current : zmap) lo hi :
    fold_left (fun out kv => <[kv.1 := kv.2]> out) (Subrange.Range current lo hi) ∅ = F_subrange current lo hi.
  Proof.
    apply list_to_map_fold_insert.
    - unfold Subrange.Range. apply NoDup_fst_filter. apply NoDup_entries_fst.
    - intros k v. unfold Subrange.Range. rewrite elem_of_list_filter, elem_of_entries. simpl.
      rewrite F_subrange_lookup. destruct (in_bounds lo hi k); split; try tauto; try (intros [? ?]; discriminate); discriminate.
  Qed.

  Definition sr_h (lo hi : Z) (c : change) (old : option Z) : option Z :=
    if (ckey c <? lo) || (hi <? ckey c) then old
    else match c with
         | Removed _ _ => None
         | Added _ v | Updated _ _ v => Some v
         end.

  Lemma in_bounds_skip lo hi k : (k <? lo) || (hi <? k) = negb (in_bounds lo hi k).
  Proof. unfold in_bounds. destruct (k <? lo) eqn:E1, (hi <? k) eqn:E2, (lo <=? k) eqn:E3, (k <=? hi) eqn:E4; simpl; try reflexivity; lia. Qed.

  Lemma subrange_step s current bounds :
    eq_exact eq ->
    Subrange.value s = F_subrange (Subrange.last s) (Subrange.lastBounds s).1 (Subrange.lastBounds s).2 ->
    let s' := Subrange.Stabilize eq s current bounds in
    Subrange.value s' = F_subrange current bounds.1 bounds.2 /\
    Subrange.last s' = current /\ Subrange.lastBounds s' = bounds.
  Proof.
    intros Hex Hinv. unfold Subrange.Stabilize.
    destruct (negb (Subrange.haveBounds s) || negb (Subrange.bounds_eqb bounds (Subrange.lastBounds s))) eqn:Eb; simpl.
    - split; [apply subrange_rebuild|auto].
    - apply orb_false_iff in Eb as [_ Eb]. apply negb_false_iff in Eb.
      unfold Subrange.bounds_eqb in Eb. apply andb_true_iff in Eb as [E1 E2].
      apply Z.eqb_eq in E1, E2.
      assert (Hb : Subrange.lastBounds s = bounds) by (destruct bounds, (Subrange.lastBounds s); simpl in *; congruence).
      split; [|auto].
      rewrite (fold_left_ext' _ (fun o c => partial_alter (sr_h bounds.1 bounds.2 c) (ckey c) o)).
      2:{ intros o c. unfold sr_h. destruct ((ckey c <? bounds.1) || (bounds.2 <? ckey c)).
          - symmetry. apply partial_alter_id.
          - destruct c; reflexivity. }
      apply map_eq. intros k. rewrite fold_diff_lookup, Hinv, Hb, !F_subrange_lookup.
      unfold diff_at, classify, sr_h.
      destruct (Subrange.last s !! k) as [v|] eqn:El, (current !! k) as [v'|] eqn:Ec; simpl;
        rewrite ?in_bounds_skip; try (destruct (in_bounds bounds.1 bounds.2 k); reflexivity).
      destruct (veqb eq v v') eqn:Ev; simpl.
      + rewrite (Hex _ _ Ev). reflexivity.
      + rewrite in_bounds_skip. destruct (in_bounds bounds.1 bounds.2 k); reflexivity.
  Qed.

  Theorem subrange_correct (ms : list (zmap * (Z * Z))) :
    eq_exact eq ->
    let final := List.last ms (∅, (0, 0)) in
    Subrange.value (fold_left (fun s x => Subrange.Stabilize eq s x.1 x.2) ms Subrange.init)
    = F_subrange final.1 final.2.1 final.2.2.
  Proof.
    intros Hex final.
    destruct (history_inv (fun s (x : zmap * (Z * Z)) => Subrange.Stabilize eq s x.1 x.2)
                (fun s => Subrange.value s = F_subrange (Subrange.last s) (Subrange.lastBounds s).1 (Subrange.lastBounds s).2)
                (fun s => (Subrange.last s, Subrange.lastBounds s)) Subrange.init ms) as [HP Hc].
    - apply map_eq. intros k. rewrite F_subrange_lookup. simpl. rewrite lookup_empty. destruct (in_bounds 0 0 k); reflexivity.
    - intros s x Hs. destruct (subrange_step s x.1 x.2 Hex Hs) as (Hv & Hl & Hb). rewrite Hv, Hl, Hb. reflexivity.
    - intros s x. destruct (Subrange.Stabilize eq s x.1 x.2) eqn:E.
      unfold Subrange.Stabilize in E.
      destruct (negb (Subrange.haveBounds s) || negb (Subrange.bounds_eqb x.2 (Subrange.lastBounds s))) eqn:Eb;
        inversion E; subst; simpl; [destruct x as [? []]; reflexivity|].
      apply orb_false_iff in Eb as [_ Eb]. apply negb_false_iff in Eb.
      unfold Subrange.bounds_eqb in Eb. apply andb_true_iff in Eb as [E1 E2].
      apply Z.eqb_eq in E1, E2. destruct x as [m [lo hi]], (Subrange.lastBounds s); simpl in *. congruence.
    - rewrite HP. unfold final. change (∅, (0, 0)) with (Subrange.last Subrange.init, Subrange.lastBounds Subrange.init).
      rewrite <- Hc. reflexivity.
  Qed.
End subrange.

(** * Partition *)
Section partition.
  Context (eq : eqfn) (p : Z -> Z -> bool).

  Definition pt_h (side : bool) (c : change) (_ : option Z) : option Z :=
    match c with
    | Removed _ _ => None
    | Added k v | Updated k _ v => if Bool.eqb (p k v) side then Some v else None
    end.

  Definition pt_step (out : zmap * zmap) (change : change) : zmap * zmap :=
    match change with
    | Removed key _ => (delete key out.1, delete key out.2)
    | Added key new | Updated key _ new =>
        if p key new then (<[key := new]> out.1, delete key out.2)
        else (delete key out.1, <[key := new]> out.2)
    end.

  Lemma pt_fold_components (cs : list change) (acc : zmap * zmap) :
    let r := fold_left pt_step cs acc in
    r.1 = fold_left (fun o c => partial_alter (pt_h true c) (ckey c) o) cs acc.1 /\
    r.2 = fold_left (fun o c => partial_alter (pt_h false c) (ckey c) o) cs acc.2.
  Proof.
    revert acc. induction cs as [|c cs IH]; intros acc; simpl; [auto|].
    destruct (IH (pt_step acc c)) as (H1 & H2). rewrite H1, H2.
    destruct c as [k v|k v|k o v]; simpl; unfold pt_h; try destruct (p k v); simpl; auto.
  Qed.

  Lemma filter_lookup_bool (b : bool) (m : zmap) k :
    filter (fun kv : Z * Z => p kv.1 kv.2 = b) m !! k =
    match m !! k with Some v => if Bool.eqb (p k v) b then Some v else None | None => None end.
  Proof.
    destruct (m !! k) as [v|] eqn:Em.
    - destruct (Bool.eqb (p k v) b) eqn:E.
      + apply map_filter_lookup_Some. split; [exact Em|]. simpl. apply eqb_prop. exact E.
      + apply map_filter_lookup_None. right. intros v' Hv'. rewrite Em in Hv'. inversion Hv'; subst. simpl.
        intros Hp. rewrite Hp in E. rewrite eqb_reflx in E. discriminate.
    - apply map_filter_lookup_None. left. exact Em.
  Qed.

  Lemma partition_step s current :
    eq_exact eq ->
    Partition.value s = F_partition p (Partition.last s) ->
    Partition.value (Partition.Stabilize eq p s current) = F_partition p current.
  Proof.
    intros Hex Hinv. unfold Partition.Stabilize; simpl. fold pt_step.
    destruct (pt_fold_components (merge_diff eq (Partition.last s) current) (Partition.value s)) as (H1 & H2).
    rewrite (surjective_pairing (fold_left pt_step _ _)), H1, H2, Hinv. unfold F_partition. simpl.
    f_equal; apply map_eq; intros k; rewrite fold_diff_lookup, !filter_lookup_bool; unfold diff_at, classify;
      destruct (Partition.last s !! k) as [v|] eqn:El, (current !! k) as [v'|] eqn:Ec; simpl; try reflexivity;
      (destruct (veqb eq v v') eqn:Ev; simpl; [rewrite (Hex _ _ Ev)|]; reflexivity).
  Qed.

  Theorem partition_correct (ms : list zmap) :
    eq_exact eq ->
    Partition.value (fold_left (Partition.Stabilize eq p) ms Partition.init) = F_partition p (List.last ms ∅).
  Proof.
    intros Hex.
    destruct (history_inv (Partition.Stabilize eq p)
                (fun s => Partition.value s = F_partition p (Partition.last s))
                Partition.last Partition.init ms) as [HP Hc].
    - unfold F_partition. simpl. rewrite !map_filter_empty. reflexivity.
    - intros s x Hs. apply (partition_step s x Hex Hs).
    - reflexivity.
    - rewrite HP, Hc. reflexivity.
  Qed.
End partition.

(** * UnorderedFold, Sum, Cardinality, Counti *)

Definition apply_change (m : zmap) (c : change) : zmap :=
  match c with
  | Added k v => <[k := v]> m
  | Removed k _ => delete k m
  | Updated k _ v => <[k := v]> m
  end.

Definition change_valid (c : change) (m : zmap) : Prop :=
  match c with
  | Added k _ => m !! k = None
  | Removed k v => m !! k = Some v
  | Updated k o _ => m !! k = Some o
  end.

Lemma change_valid_other c c' m : ckey c <> ckey c' -> change_valid c' m -> change_valid c' (apply_change m c).
Proof.
  intros Hne. destruct c as [k v|k v|k o v], c' as [k' v'|k' v'|k' o' v']; simpl in *; intros H;
    rewrite ?lookup_insert_ne, ?lookup_delete_ne by congruence; exact H.
Qed.

Lemma merge_diff_valid eq (m m' : zmap) c : c ∈ merge_diff eq m m' -> change_valid c m.
Proof.
  intros Hc. apply elem_of_merge_diff in Hc. unfold diff_at, classify in Hc.
  destruct (m !! ckey c) as [a|] eqn:Em, (m' !! ckey c) as [b|]; try destruct (veqb eq a b);
    inversion Hc as [Hc']; rewrite <- Hc' in Em; simpl in *; exact Em.
Qed.

Definition ap_h (c : change) (_ : option Z) : option Z :=
  match c with Added _ v => Some v | Removed _ _ => None | Updated _ _ v => Some v end.

Lemma applied_lookup eq (m m' : zmap) k :
  fold_left apply_change (merge_diff eq m m') m !! k =
  match diff_at eq m m' k with Some c => ap_h c None | None => m !! k end.
Proof.
  rewrite (fold_left_ext' _ (fun o c => partial_alter (ap_h c) (ckey c) o)).
  - rewrite fold_diff_lookup. destruct (diff_at eq m m' k) as [[]|]; reflexivity.
  - intros o []; reflexivity.
Qed.

Section unordered_fold.
  Context {B : Type} (eq : eqfn) (add remove : B -> Z -> Z -> B) (initial : B).

  (** the documented contract *)
  Hypothesis add_comm : forall a k1 v1 k2 v2, add (add a k1 v1) k2 v2 = add (add a k2 v2) k1 v1.
  Hypothesis remove_add : forall a k v, remove (add a k v) k v = a.
  (** ... and [equal] may only identify values [add] cannot tell apart *)
  Hypothesis add_respects : forall a k v v', veqb eq v v' = true -> add a k v = add a k v'.

  Notation F := (F_fold add initial).

  Lemma F_fold_insert (m : zmap) k v : m !! k = None -> F (<[k := v]> m) = add (F m) k v.
  Proof.
    intros Hk. unfold F_fold.
    rewrite (map_fold_insert_L (fun k v acc => add acc k v) initial k v m); [reflexivity| |exact Hk].
    intros. apply add_comm.
  Qed.

  Lemma F_fold_delete (m : zmap) k v : m !! k = Some v -> F m = add (F (delete k m)) k v.
  Proof.
    intros Hk. rewrite <- (insert_delete m k v Hk) at 1. apply F_fold_insert. apply lookup_delete.
  Qed.

  Definition uf_step (acc : B) (change : change) : B :=
    match change with
    | Added key new => add acc key new
    | Removed key old => remove acc key old
    | Updated key old new => add (remove acc key old) key new
    end.

  Lemma uf_step_valid (m : zmap) c : change_valid c m -> uf_step (F m) c = F (apply_change m c).
  Proof.
    destruct c as [k v|k v|k o v]; simpl; intros Hv.
    - symmetry. apply F_fold_insert. exact Hv.
    - rewrite (F_fold_delete m k v Hv). apply remove_add.
    - rewrite (F_fold_delete m k o Hv), remove_add.
      rewrite <- (insert_delete_insert m k v). symmetry. apply F_fold_insert. apply lookup_delete.
  Qed.

  Lemma uf_fold_valid (cs : list change) (m : zmap) :
    NoDup (map ckey cs) -> (forall c, c ∈ cs -> change_valid c m) ->
    fold_left uf_step cs (F m) = F (fold_left apply_change cs m).
  Proof.
    revert m. induction cs as [|c cs IH]; intros m Hnd Hv; simpl; [reflexivity|].
    inversion Hnd as [|? ? Hc Hnd']; subst.
    rewrite uf_step_valid by (apply Hv; left). apply IH; [exact Hnd'|].
    intros c' Hc'. apply change_valid_other; [|apply Hv; right; exact Hc'].
    intros Heq. apply Hc. rewrite Heq. apply elem_of_list_fmap. eauto.
  Qed.

  Definition add_equiv (k : Z) (a b : option Z) : Prop :=
    match a, b with
    | None, None => True
    | Some v, Some v' => forall acc, add acc k v = add acc k v'
    | _, _ => False
    end.

  Lemma F_fold_congruence (m1 m2 : zmap) :
    (forall k, add_equiv k (m1 !! k) (m2 !! k)) -> F m1 = F m2.
  Proof.
    revert m2. induction m1 as [|i x m Hi IH] using map_ind; intros m2 Hrel.
    - assert (m2 = ∅) as ->; [|reflexivity]. apply map_empty. intros k. specialize (Hrel k).
      rewrite lookup_empty in Hrel. destruct (m2 !! k); [contradiction|reflexivity].
    - pose proof (Hrel i) as Hi2. rewrite lookup_insert in Hi2.
      destruct (m2 !! i) as [y|] eqn:E2; [|contradiction]. simpl in Hi2.
      rewrite (F_fold_insert m i x Hi), (F_fold_delete m2 i y E2), <- Hi2. f_equal.
      apply IH. intros k. destruct (decide (k = i)) as [->|Hne].
      + rewrite Hi, lookup_delete. exact I.
      + rewrite lookup_delete_ne by congruence. specialize (Hrel k).
        rewrite lookup_insert_ne in Hrel by congruence. exact Hrel.
  Qed.

  Lemma uf_step_correct s current :
    UnorderedFold.value s = F (UnorderedFold.last s) ->
    UnorderedFold.value (UnorderedFold.Stabilize eq add remove s current) = F current.
  Proof.
    intros Hinv. unfold UnorderedFold.Stabilize; simpl. fold uf_step. rewrite Hinv.
    rewrite uf_fold_valid; [|apply NoDup_merge_diff_keys|intros c; apply merge_diff_valid].
    apply F_fold_congruence. intros k. rewrite applied_lookup. unfold diff_at, classify, add_equiv.
    destruct (UnorderedFold.last s !! k) as [v|] eqn:El, (current !! k) as [v'|] eqn:Ec; simpl; auto.
    destruct (veqb eq v v') eqn:Ev; simpl; [|auto]. intros acc. apply add_respects. exact Ev.
  Qed.

  Theorem unordered_fold_correct (ms : list zmap) :
    UnorderedFold.value (fold_left (UnorderedFold.Stabilize eq add remove) ms (UnorderedFold.init initial))
    = F (List.last ms ∅).
  Proof.
    destruct (history_inv (UnorderedFold.Stabilize eq add remove)
                (fun s => UnorderedFold.value s = F (UnorderedFold.last s))
                UnorderedFold.last (UnorderedFold.init initial) ms) as [HP Hc].
    - reflexivity.
    - intros s x Hs. apply (uf_step_correct s x Hs).
    - reflexivity.
    - rewrite HP, Hc. reflexivity.
  Qed.

  (** the "unordered": under the contract the fold does not depend on the order, in
      particular it is the fold in key order *)
  Lemma F_fold_key_order (m : zmap) :
    F m = fold_left (fun acc kv => add acc kv.1 kv.2) (entries m) initial.
  Proof.
    assert (H : forall (l : list (Z * Z)) (m : zmap), NoDup (map fst l) ->
              (forall k v, (k, v) ∈ l <-> m !! k = Some v) ->
              F m = fold_left (fun acc kv => add acc kv.1 kv.2) l initial).
    { clear m. induction l as [|[k v] l IH] using rev_ind; intros m Hnd Hl.
      - assert (m = ∅) as ->; [|reflexivity]. apply map_empty. intros k.
        destruct (m !! k) as [v|] eqn:E; [|reflexivity]. apply Hl in E. inversion E.
      - rewrite fold_left_app. simpl. rewrite map_app in Hnd. apply NoDup_app in Hnd as (Hnd1 & Hdisj & _).
        assert (Hk : m !! k = Some v) by (apply Hl, elem_of_app; right; left).
        rewrite (F_fold_delete m k v Hk). f_equal. apply IH; [exact Hnd1|].
        intros k' v'. split.
        + intros Hin. assert (k' <> k).
          { intros ->. apply (Hdisj k); [apply elem_of_list_fmap; exists (k, v'); auto|left]. }
          rewrite lookup_delete_ne by congruence. apply Hl, elem_of_app. left. exact Hin.
        + intros Hd. destruct (decide (k' = k)) as [->|Hne]; [rewrite lookup_delete in Hd; discriminate|].
          rewrite lookup_delete_ne in Hd by congruence. apply Hl, elem_of_app in Hd as [Hd|Hd]; [exact Hd|].
          apply elem_of_list_singleton in Hd. congruence. }
    apply H; [apply NoDup_entries_fst|apply elem_of_entries].
  Qed.
End unordered_fold.

Theorem sum_correct (eq : eqfn) (ms : list zmap) :
  eq_exact eq ->
  UnorderedFold.value (fold_left (UnorderedFold.Sum_Stabilize eq) ms UnorderedFold.Sum_init)
  = F_sum (List.last ms ∅).
Proof.
  intros Hex. unfold UnorderedFold.Sum_Stabilize, UnorderedFold.Sum_init.
  rewrite unordered_fold_correct; [reflexivity| | |]; unfold UnorderedFold.sum_add, UnorderedFold.sum_remove; intros; try lia.
  rewrite (Hex v v') by assumption. reflexivity.
Qed.

Lemma eq_exact_eqb : eq_exact (Some Z.eqb).
Proof. intros a b H. apply Z.eqb_eq. exact H. Qed.

Lemma F_cardinality_fold (m : zmap) : F_fold UnorderedFold.card_add 0 m = F_cardinality m.
Proof.
  unfold F_fold, F_cardinality.
  apply (map_fold_ind (fun r (m : zmap) => r = Z.of_nat (size m))).
  - rewrite map_size_empty. reflexivity.
  - intros i x m' r Hi ->. rewrite map_size_insert_None by exact Hi. unfold UnorderedFold.card_add. lia.
Qed.

Theorem cardinality_correct (ms : list zmap) :
  UnorderedFold.value (fold_left UnorderedFold.Cardinality_Stabilize ms UnorderedFold.Cardinality_init)
  = F_cardinality (List.last ms ∅).
Proof.
  unfold UnorderedFold.Cardinality_Stabilize, UnorderedFold.Cardinality_init.
  rewrite unordered_fold_correct; [apply F_cardinality_fold| | |];
    unfold UnorderedFold.card_add, UnorderedFold.card_remove; intros; try lia; reflexivity.
Qed.

Lemma F_counti_fold (p : Z -> Z -> bool) (m : zmap) :
  F_fold (UnorderedFold.counti_add p) 0 m = F_counti p m.
Proof.
  unfold F_fold, F_counti.
  apply (map_fold_ind (fun r (m : zmap) => r = Z.of_nat (size (filter (fun kv : Z * Z => p kv.1 kv.2 = true) m)))).
  - rewrite map_filter_empty, map_size_empty. reflexivity.
  - intros i x m' r Hi ->. unfold UnorderedFold.counti_add, UnorderedFold.count.
    destruct (p i x) eqn:Ep.
    + rewrite map_filter_insert_True by exact Ep. rewrite map_size_insert_None; [lia|].
      apply map_filter_lookup_None. left. exact Hi.
    + rewrite map_filter_insert_False by (simpl; rewrite Ep; discriminate).
      rewrite delete_notin by exact Hi. reflexivity.
Qed.

Theorem counti_correct (eq : eqfn) (p : Z -> Z -> bool) (ms : list zmap) :
  respects eq p ->
  UnorderedFold.value (fold_left (UnorderedFold.Counti_Stabilize eq p) ms UnorderedFold.Counti_init)
  = F_counti p (List.last ms ∅).
Proof.
  intros Hr. unfold UnorderedFold.Counti_Stabilize, UnorderedFold.Counti_init.
  rewrite unordered_fold_correct; [apply F_counti_fold| | |];
    unfold UnorderedFold.counti_add, UnorderedFold.counti_remove, UnorderedFold.count; intros.
  - destruct (p k1 v1), (p k2 v2); lia.
  - destruct (p k v); lia.
  - rewrite (Hr k v v') by assumption. reflexivity.
Qed.

(** * Reduce, MaxValue, MinValue *)

Lemma entries_empty : entries (∅ : zmap) = [].
Proof. unfold entries, keys_of, sorted_keys. rewrite dom_empty_L, elements_empty. reflexivity. Qed.

Lemma reduce_stabilize {R} (empty : R) project combine (s : R) (m : zmap) :
  Reduce.Stabilize empty project combine s m = F_reduce empty project combine m.
Proof. unfold Reduce.Stabilize, Reduce.reducer_Reduce, F_reduce. destruct (fold1 _ _); reflexivity. Qed.

Lemma fold_left_stateless {S I} (g : I -> S) (ms : list I) (init : S) (d : I) :
  init = g d -> fold_left (fun _ x => g x) ms init = g (List.last ms d).
Proof.
  revert init d. induction ms as [|m ms IH]; intros init d Hinit; simpl; [exact Hinit|].
  rewrite (IH (g m) m eq_refl). destruct ms as [|m' ms]; [reflexivity|].
  f_equal. apply last_cons_indep.
Qed.

Theorem reduce_correct {R} (empty : R) project combine (ms : list zmap) :
  fold_left (Reduce.Stabilize empty project combine) ms (Reduce.init empty)
  = F_reduce empty project combine (List.last ms ∅).
Proof.
  rewrite (fold_left_ext' _ (fun _ x => F_reduce empty project combine x)) by (intros; apply reduce_stabilize).
  apply fold_left_stateless. unfold F_reduce, Reduce.init. rewrite entries_empty. reflexivity.
Qed.

Lemma fold_left_max_combine (vs : list Z) (a : Z) :
  fold_left Reduce.max_combine (map (fun v => (v, true)) vs) (a, true) = (fold_left Z.max vs a, true).
Proof.
  revert a. induction vs as [|v vs IH]; intros a; simpl; [reflexivity|].
  unfold Reduce.max_combine at 2. simpl. destruct (a <? v) eqn:E.
  - rewrite IH. f_equal. f_equal. lia.
  - rewrite IH. f_equal. f_equal. lia.
Qed.

Lemma fold_left_min_combine (vs : list Z) (a : Z) :
  fold_left Reduce.min_combine (map (fun v => (v, true)) vs) (a, true) = (fold_left Z.min vs a, true).
Proof.
  revert a. induction vs as [|v vs IH]; intros a; simpl; [reflexivity|].
  unfold Reduce.min_combine at 2. simpl. destruct (v <? a) eqn:E.
  - rewrite IH. f_equal. f_equal. lia.
  - rewrite IH. f_equal. f_equal. lia.
Qed.

Lemma F_reduce_max (m : zmap) :
  F_reduce Reduce.optional_empty Reduce.optional_project Reduce.max_combine m = F_max_value m.
Proof.
  unfold F_reduce, F_max_value.
  replace (map (fun kv : Z * Z => Reduce.optional_project kv.1 kv.2) (entries m))
    with (map (fun v => (v, true)) (map snd (entries m))) by (rewrite map_map; reflexivity).
  destruct (map snd (entries m)) as [|v vs]; simpl; [reflexivity|]. apply fold_left_max_combine.
Qed.

Lemma F_reduce_min (m : zmap) :
  F_reduce Reduce.optional_empty Reduce.optional_project Reduce.min_combine m = F_min_value m.
Proof.
  unfold F_reduce, F_min_value.
  replace (map (fun kv : Z * Z => Reduce.optional_project kv.1 kv.2) (entries m))
    with (map (fun v => (v, true)) (map snd (entries m))) by (rewrite map_map; reflexivity).
  destruct (map snd (entries m)) as [|v vs]; simpl; [reflexivity|]. apply fold_left_min_combine.
Qed.

Theorem max_value_correct (ms : list zmap) :
  fold_left Reduce.MaxValue_Stabilize ms (Reduce.init Reduce.optional_empty) = F_max_value (List.last ms ∅).
Proof. unfold Reduce.MaxValue_Stabilize. rewrite reduce_correct. apply F_reduce_max. Qed.

Theorem min_value_correct (ms : list zmap) :
  fold_left Reduce.MinValue_Stabilize ms (Reduce.init Reduce.optional_empty) = F_min_value (List.last ms ∅).
Proof. unfold Reduce.MinValue_Stabilize. rewrite reduce_correct. apply F_reduce_min. Qed.

(** [F_max_value] / [F_min_value] really are the extremes of the map's values. *)
Lemma fold_left_max_spec (vs : list Z) (a : Z) :
  let r := fold_left Z.max vs a in (r = a \/ r ∈ vs) /\ a <= r /\ forall v, v ∈ vs -> v <= r.
Proof.
  revert a. induction vs as [|v vs IH]; intros a; simpl.
  - split; [left; reflexivity|]. split; [lia|]. intros v Hv. inversion Hv.
  - destruct (IH (Z.max a v)) as (Hmem & Hge & Hall). split; [|split].
    + destruct Hmem as [Hr|Hr].
      * rewrite Hr. destruct (Z.max_spec a v) as [[_ ->]|[_ ->]]; [right; left|left; reflexivity].
      * right. right. exact Hr.
    + lia.
    + intros w Hw. apply elem_of_cons in Hw as [->|Hw]; [lia|apply Hall; exact Hw].
Qed.

Lemma fold_left_min_spec (vs : list Z) (a : Z) :
  let r := fold_left Z.min vs a in (r = a \/ r ∈ vs) /\ r <= a /\ forall v, v ∈ vs -> r <= v.
Proof.
  revert a. induction vs as [|v vs IH]; intros a; simpl.
  - split; [left; reflexivity|]. split; [lia|]. intros v Hv. inversion Hv.
  - destruct (IH (Z.min a v)) as (Hmem & Hge & Hall). split; [|split].
    + destruct Hmem as [Hr|Hr].
      * rewrite Hr. destruct (Z.min_spec a v) as [[_ ->]|[_ ->]]; [left; reflexivity|right; left].
      * right. right. exact Hr.
    + lia.
    + intros w Hw. apply elem_of_cons in Hw as [->|Hw]; [lia|apply Hall; exact Hw].
Qed.

Lemma elem_of_entries_snd (m : zmap) v : v ∈ map snd (entries m) <-> exists k, m !! k = Some v.
Proof.
  rewrite elem_of_list_fmap. split.
  - intros ([k v'] & -> & Hin). exists k. apply elem_of_entries. exact Hin.
  - intros [k Hk]. exists (k, v). split; [reflexivity|]. apply elem_of_entries. exact Hk.
Qed.

Lemma F_max_value_spec (m : zmap) :
  match F_max_value m with
  | (x, true) => (exists k, m !! k = Some x) /\ forall k v, m !! k = Some v -> v <= x
  | (_, false) => m = ∅
  end.
Proof.
  unfold F_max_value. destruct (map snd (entries m)) as [|v vs] eqn:E.
  - apply map_empty. intros k. destruct (m !! k) as [v|] eqn:Ek; [|reflexivity].
    assert (H : v ∈ map snd (entries m)) by (apply elem_of_entries_snd; eauto). rewrite E in H. inversion H.
  - destruct (fold_left_max_spec vs v) as (Hmem & Hge & Hall). split.
    + apply elem_of_entries_snd. rewrite E. destruct Hmem as [->|H]; [left|right; exact H].
    + intros k w Hk. assert (H : w ∈ map snd (entries m)) by (apply elem_of_entries_snd; eauto).
      rewrite E in H. apply elem_of_cons in H as [->|H]; [exact Hge|apply Hall; exact H].
Qed.

Lemma F_min_value_spec (m : zmap) :
  match F_min_value m with
  | (x, true) => (exists k, m !! k = Some x) /\ forall k v, m !! k = Some v -> x <= v
  | (_, false) => m = ∅
  end.
Proof.
  unfold F_min_value. destruct (map snd (entries m)) as [|v vs] eqn:E.
  - apply map_empty. intros k. destruct (m !! k) as [v|] eqn:Ek; [|reflexivity].
    assert (H : v ∈ map snd (entries m)) by (apply elem_of_entries_snd; eauto). rewrite E in H. inversion H.
  - destruct (fold_left_min_spec vs v) as (Hmem & Hge & Hall). split.
    + apply elem_of_entries_snd. rewrite E. destruct Hmem as [->|H]; [left|right; exact H].
    + intros k w Hk. assert (H : w ∈ map snd (entries m)) by (apply elem_of_entries_snd; eauto).
      rewrite E in H. apply elem_of_cons in H as [->|H]; [exact Hge|apply Hall; exact H].
Qed.

(** * Added / Removed *)
Lemma symmetricDiffAdded_eq (m0 m1 : zmap) : AddedOp.symmetricDiffAdded m0 m1 = F_added m0 m1.
Proof.
  unfold AddedOp.symmetricDiffAdded, F_added.
  apply (map_fold_ind (fun r (m : zmap) => r = m ∖ m0)).
  - apply map_eq. intros k. rewrite lookup_empty. symmetry. apply lookup_difference_None. left. apply lookup_empty.
  - intros i x m r Hi ->. apply map_eq. intros k. destruct (m0 !! i) as [y|] eqn:E0.
    + destruct (decide (k = i)) as [->|Hne].
      * transitivity (@None Z); [apply lookup_difference_None; auto|].
        symmetry. apply lookup_difference_None. right. eauto.
      * destruct ((m ∖ m0) !! k) as [v|] eqn:Ed.
        -- apply lookup_difference_Some in Ed as [? ?]. symmetry. apply lookup_difference_Some.
           rewrite lookup_insert_ne by congruence. auto.
        -- symmetry. apply lookup_difference_None. apply lookup_difference_None in Ed as [Ed|Ed]; [left|right; exact Ed].
           rewrite lookup_insert_ne by congruence. exact Ed.
    + destruct (decide (k = i)) as [->|Hne].
      * rewrite lookup_insert. symmetry. apply lookup_difference_Some. rewrite lookup_insert. auto.
      * rewrite lookup_insert_ne by congruence.
        destruct ((m ∖ m0) !! k) as [v|] eqn:Ed.
        -- apply lookup_difference_Some in Ed as [? ?]. symmetry. apply lookup_difference_Some.
           rewrite lookup_insert_ne by congruence. auto.
        -- symmetry. apply lookup_difference_None. apply lookup_difference_None in Ed as [Ed|Ed]; [left|right; exact Ed].
           rewrite lookup_insert_ne by congruence. exact Ed.
Qed.

Lemma symmetricDiffRemoved_eq (m0 m1 : zmap) : RemovedOp.symmetricDiffRemoved m0 m1 = F_removed m0 m1.
Proof. exact (symmetricDiffAdded_eq m1 m0). Qed.

Theorem added_correct (ms : list zmap) (m m' : zmap) :
  AddedOp.val (fold_left AddedOp.Stabilize (ms ++ [m; m']) AddedOp.init) = F_added m m'.
Proof. rewrite fold_left_app. cbn [fold_left]. unfold AddedOp.Stabilize at 1. simpl. apply symmetricDiffAdded_eq. Qed.

Theorem removed_correct (ms : list zmap) (m m' : zmap) :
  RemovedOp.val (fold_left RemovedOp.Stabilize (ms ++ [m; m']) RemovedOp.init) = F_removed m m'.
Proof. rewrite fold_left_app. cbn [fold_left]. unfold RemovedOp.Stabilize at 1. simpl. apply symmetricDiffRemoved_eq. Qed.

(** * Selector *)
Section selector.
  Context (eq : eqfn).
  Hypothesis eq_is_exact : eq_exact eq.

  Definition mark_dirty (n : Selector.node) : Selector.node :=
    Selector.MkNode (Selector.value n) true (Selector.seeded n) (Selector.necessary n).

  Lemma mark_step (sel : gmap Z Selector.node) k :
    match sel !! k with Some n => <[k := mark_dirty n]> sel | None => sel end
    = partial_alter (fmap mark_dirty) k sel.
  Proof.
    apply map_eq. intros k'. destruct (decide (k' = k)) as [->|Hne].
    - rewrite lookup_partial_alter. destruct (sel !! k) as [n|] eqn:E; simpl.
      + apply lookup_insert.
      + exact E.
    - rewrite lookup_partial_alter_ne by congruence.
      destruct (sel !! k); [apply lookup_insert_ne; congruence|reflexivity].
  Qed.

  Lemma fanout_selected_lookup (s : Selector.t) k :
    Selector.selected (Selector.fanout_Stabilize eq s) !! k =
    match diff_at eq (Selector.last s) (Selector.input s) k with
    | Some _ => mark_dirty <$> Selector.selected s !! k
    | None => Selector.selected s !! k
    end.
  Proof.
    unfold Selector.fanout_Stabilize; simpl.
    rewrite (fold_left_ext' _ (fun o c => partial_alter ((fun _ => fmap mark_dirty) c) (ckey c) o))
      by (intros o c; apply mark_step).
    rewrite (fold_diff_lookup (fun _ : change => fmap mark_dirty)). reflexivity.
  Qed.

  Definition sel_inv (s : Selector.t) : Prop :=
    Selector.current s = Selector.last s /\
    forall k n, Selector.selected s !! k = Some n -> Selector.seeded n = true -> Selector.dirty n = false ->
                Selector.value n = F_select k (Selector.last s).

  Lemma F_select_unchanged (m m' : zmap) k : diff_at eq m m' k = None -> F_select k m = F_select k m'.
  Proof.
    unfold diff_at, classify, F_select. destruct (m !! k) as [v|], (m' !! k) as [v'|]; try discriminate; [|reflexivity].
    destruct (veqb eq v v') eqn:E; [|discriminate]. intros _. rewrite (eq_is_exact _ _ E). reflexivity.
  Qed.

  Lemma fanout_inv (s : Selector.t) :
    sel_inv s ->
    sel_inv (Selector.fanout_Stabilize eq s) /\
    Selector.last (Selector.fanout_Stabilize eq s) = Selector.input s /\
    Selector.input (Selector.fanout_Stabilize eq s) = Selector.input s.
  Proof.
    intros [_ HB]. split; [|split; reflexivity]. split; [reflexivity|].
    intros k n Hn Hseed Hdirty. rewrite fanout_selected_lookup in Hn.
    change (Selector.last (Selector.fanout_Stabilize eq s)) with (Selector.input s).
    destruct (diff_at eq (Selector.last s) (Selector.input s) k) eqn:Ed.
    - destruct (Selector.selected s !! k) as [n0|]; [|discriminate]. inversion Hn; subst. discriminate.
    - rewrite <- (F_select_unchanged _ _ _ Ed). apply HB; assumption.
  Qed.

  Lemma any_necessary_false (sel : gmap Z Selector.node) :
    Selector.any_necessary sel = false -> forall k n, sel !! k = Some n -> Selector.necessary n = false.
  Proof.
    unfold Selector.any_necessary.
    apply (map_fold_ind (fun r (m : gmap Z Selector.node) =>
             r = false -> forall k n, m !! k = Some n -> Selector.necessary n = false)).
    - intros _ k n Hk. rewrite lookup_empty in Hk. discriminate.
    - intros i x m r Hi IH Hr k n Hk. apply orb_false_iff in Hr as [Hr Hx].
      destruct (decide (k = i)) as [->|Hne].
      + rewrite lookup_insert in Hk. inversion Hk; subst. exact Hx.
      + rewrite lookup_insert_ne in Hk by congruence. eapply IH; eauto.
  Qed.

  Lemma pass_spec (s : Selector.t) :
    sel_inv s ->
    sel_inv (Selector.pass eq s) /\
    Selector.input (Selector.pass eq s) = Selector.input s /\
    forall k n, Selector.selected (Selector.pass eq s) !! k = Some n -> Selector.necessary n = true ->
                Selector.value n = F_select k (Selector.input s).
  Proof.
    intros Hinv. unfold Selector.pass. destruct (Selector.any_necessary (Selector.selected s)) eqn:Eany.
    - destruct (fanout_inv s Hinv) as ([HA HB] & Hlast & Hinput).
      set (s1 := Selector.fanout_Stabilize eq s) in *.
      assert (Hnode : forall k n', Selector.selected
                 (Selector.Mk (Selector.last s1) (Selector.current s1)
                    (map_imap (fun key n => Some (if Selector.necessary n && Selector.Stale n
                                                  then Selector.node_Stabilize s1 key n else n)) (Selector.selected s1))
                    (Selector.input s1)) !! k = Some n' ->
               exists n, Selector.selected s1 !! k = Some n /\
                 n' = if Selector.necessary n && Selector.Stale n then Selector.node_Stabilize s1 k n else n).
      { intros k n'. simpl. rewrite map_lookup_imap. intros H.
        apply bind_Some in H as (n & Hn & Hf). inversion Hf. eauto. }
      split; [|split].
      + split; [exact HA|]. intros k n' Hn' Hseed Hdirty. simpl.
        destruct (Hnode k n' Hn') as (n & Hn & ->).
        destruct (Selector.necessary n && Selector.Stale n).
        * unfold Selector.node_Stabilize. cbn [Selector.value]. rewrite HA. reflexivity.
        * apply HB; assumption.
      + exact Hinput.
      + intros k n' Hn' Hnec. destruct (Hnode k n' Hn') as (n & Hn & ->). rewrite <- Hlast.
        destruct (Selector.necessary n && Selector.Stale n) eqn:E.
        * unfold Selector.node_Stabilize. cbn [Selector.value]. rewrite HA. reflexivity.
        * rewrite Hnec in E. simpl in E. unfold Selector.Stale in E.
          apply orb_false_iff in E as [Ed Es]. apply negb_false_iff in Es. apply HB; assumption.
    - split; [exact Hinv|]. split; [reflexivity|]. intros k n Hn Hnec.
      rewrite (any_necessary_false _ Eany k n Hn) in Hnec. discriminate.
  Qed.

  Lemma sel_inv_step (s : Selector.t) (e : Selector.ev) : sel_inv s -> sel_inv (Selector.step eq s e).
  Proof.
    intros Hinv. destruct e as [key|key|key|m|]; simpl.
    - destruct (Selector.selected s !! key) eqn:E; [exact Hinv|].
      destruct Hinv as [HA HB]. split; [exact HA|]. intros k n Hn Hseed Hdirty. simpl in *.
      destruct (decide (k = key)) as [->|Hne].
      + rewrite lookup_insert in Hn. inversion Hn; subst. discriminate.
      + rewrite lookup_insert_ne in Hn by congruence. apply HB; assumption.
    - destruct Hinv as [HA HB]. split; [exact HA|]. intros k n Hn Hseed Hdirty. simpl in *.
      destruct (decide (k = key)) as [->|Hne].
      + rewrite lookup_alter in Hn. destruct (Selector.selected s !! key) as [n0|] eqn:E; [|discriminate].
        inversion Hn; subst. simpl in *. apply (HB key n0); assumption.
      + rewrite lookup_alter_ne in Hn by congruence. apply HB; assumption.
    - destruct Hinv as [HA HB]. split; [exact HA|]. intros k n Hn Hseed Hdirty. simpl in *.
      destruct (decide (k = key)) as [->|Hne].
      + rewrite lookup_alter in Hn. destruct (Selector.selected s !! key) as [n0|] eqn:E; [|discriminate].
        inversion Hn; subst. simpl in *. apply (HB key n0); assumption.
      + rewrite lookup_alter_ne in Hn by congruence. apply HB; assumption.
    - exact Hinv.
    - apply pass_spec. exact Hinv.
  Qed.

  Lemma sel_inv_init : sel_inv Selector.init.
  Proof. split; [reflexivity|]. intros k n Hn. simpl in Hn. rewrite lookup_empty in Hn. discriminate. Qed.

  (** After every pass -- whatever selections, observations, un-observations, input changes
      and earlier passes came before -- each observed per-key node holds its key's current
      value (the zero value while the key is absent). *)
  Theorem selector_correct (evs : list Selector.ev) :
    let s := fold_left (Selector.step eq) (evs ++ [Selector.Pass]) Selector.init in
    forall k n, Selector.selected s !! k = Some n -> Selector.necessary n = true ->
                Selector.value n = F_select k (Selector.input s).
  Proof.
    intros s k n. unfold s. rewrite fold_left_app. simpl.
    set (s0 := fold_left (Selector.step eq) evs Selector.init).
    assert (Hinv : sel_inv s0).
    { unfold s0. generalize Selector.init, sel_inv_init. induction evs as [|e evs IH]; intros i Hi; simpl; [exact Hi|].
      apply IH. apply sel_inv_step. exact Hi. }
    destruct (pass_spec s0 Hinv) as (_ & Hin & Hval). rewrite Hin. apply Hval.
  Qed.
End selector.

(** * Join *)

Lemma elem_of_remove_first (x y : Z) (l : list Z) :
  NoDup l -> (y ∈ Join.remove_first x l <-> y ∈ l /\ y <> x).
Proof.
  induction l as [|z l IH]; intros Hnd; simpl.
  - split; [intros H; inversion H|intros [H _]; inversion H].
  - inversion Hnd as [|? ? Hz Hnd']; subst. destruct (x =? z) eqn:E.
    + apply Z.eqb_eq in E. subst z. split.
      * intros Hy. split; [right; exact Hy|]. intros ->. contradiction.
      * intros [Hy Hne]. apply elem_of_cons in Hy as [->|Hy]; [congruence|exact Hy].
    + apply Z.eqb_neq in E. rewrite elem_of_cons, (IH Hnd'), elem_of_cons. split.
      * intros [->|[Hy Hne]]; [split; [left; reflexivity|congruence]|split; [right; exact Hy|exact Hne]].
      * intros [[->|Hy] Hne]; [left; reflexivity|right; split; assumption].
Qed.

Lemma NoDup_remove_first (x : Z) (l : list Z) : NoDup l -> NoDup (Join.remove_first x l).
Proof.
  induction l as [|z l IH]; intros Hnd; simpl; [constructor|].
  inversion Hnd as [|? ? Hz Hnd']; subst. destruct (x =? z); [exact Hnd'|].
  constructor; [|apply IH; exact Hnd'].
  intros Hin. apply (elem_of_remove_first x z l Hnd') in Hin as [Hin _]. contradiction.
Qed.

Section join.
  Context (fixed : bool) (keyOf : Z -> Z).

  Definition range_has (m : zmap) (x : Z) : Prop := exists k, m !! k = Some x.
  Definition consistent (m : zmap) : Prop := forall k x, m !! k = Some x -> keyOf x = k.

  (** the linking state: [byNode] inverts [linked], the graph edges and [parents] are exactly
      the linked inner nodes *)
  Record structure (j : Join.t) : Prop := {
    st_inverse : forall x k, Join.byNode j !! x = Some k <-> Join.linked j !! k = Some x;
    st_parents_nodup : NoDup (Join.parents j);
    st_parents : forall x, x ∈ Join.parents j <-> range_has (Join.linked j) x;
    st_edges : Join.ingraph j = true -> forall x, x ∈ Join.edges j <-> range_has (Join.linked j) x;
    st_consistent : consistent (Join.linked j)
  }.

  (** fields the linking operations leave alone *)
  Definition frame (j j' : Join.t) : Prop :=
    Join.last j' = Join.last j /\ Join.value j' = Join.value j /\ Join.pending j' = Join.pending j /\
    Join.changedAt0 j' = Join.changedAt0 j /\ Join.ingraph j' = Join.ingraph j /\ Join.vals j' = Join.vals j /\
    Join.outer j' = Join.outer j /\ (Join.dirty j = ∅ -> Join.dirty j' = ∅) /\ Join.cdefs j' = Join.cdefs j.

  Lemma frame_refl j : frame j j.
  Proof. repeat split; auto. Qed.

  Lemma frame_trans j1 j2 j3 : frame j1 j2 -> frame j2 j3 -> frame j1 j3.
  Proof.
    intros (A1 & A2 & A3 & A4 & A5 & A6 & A7 & A8 & A9) (B1 & B2 & B3 & B4 & B5 & B6 & B7 & B8 & B9).
    repeat split; try congruence. auto.
  Qed.

  Lemma linked_injective j k k' x :
    structure j -> Join.linked j !! k = Some x -> Join.linked j !! k' = Some x -> k = k'.
  Proof.
    intros St H1 H2. apply (st_inverse j St) in H1, H2. congruence.
  Qed.

  Lemma unlink_none j key : Join.linked j !! key = None -> Join.unlink j key = j.
  Proof. intros H. unfold Join.unlink. rewrite H. reflexivity. Qed.

  Lemma unlink_spec j key :
    structure j ->
    structure (Join.unlink j key) /\ Join.linked (Join.unlink j key) = delete key (Join.linked j) /\
    frame j (Join.unlink j key).
  Proof.
    intros St. destruct (Join.linked j !! key) as [xo|] eqn:El.
    2:{ rewrite (unlink_none j key El). split; [exact St|]. split; [|apply frame_refl].
        symmetry. apply delete_notin. exact El. }
    unfold Join.unlink. rewrite El. split; [|split].
    - constructor; simpl.
      + intros x k. destruct (decide (x = xo)) as [->|Hx].
        * rewrite lookup_delete. split; [discriminate|]. intros Hk.
          destruct (decide (k = key)) as [->|Hne]; [rewrite lookup_delete in Hk; discriminate|].
          rewrite lookup_delete_ne in Hk by congruence.
          exfalso. apply Hne. eapply linked_injective; eauto.
        * rewrite lookup_delete_ne by congruence. rewrite (st_inverse j St).
          destruct (decide (k = key)) as [->|Hne].
          -- rewrite lookup_delete. split; [|discriminate]. intros H. congruence.
          -- rewrite lookup_delete_ne by congruence. reflexivity.
      + apply NoDup_remove_first. apply (st_parents_nodup j St).
      + intros x. rewrite (elem_of_remove_first _ _ _ (st_parents_nodup j St)), (st_parents j St). split.
        * intros [[k Hk] Hne]. exists k. destruct (decide (k = key)) as [->|?]; [congruence|].
          rewrite lookup_delete_ne by congruence. exact Hk.
        * intros [k Hk]. destruct (decide (k = key)) as [->|Hne]; [rewrite lookup_delete in Hk; discriminate|].
          rewrite lookup_delete_ne in Hk by congruence. split; [exists k; exact Hk|].
          intros ->. apply Hne. eapply linked_injective; eauto.
      + intros Hg x. rewrite elem_of_difference, (st_edges j St Hg), elem_of_singleton. split.
        * intros [[k Hk] Hne]. exists k. destruct (decide (k = key)) as [->|?]; [congruence|].
          rewrite lookup_delete_ne by congruence. exact Hk.
        * intros [k Hk]. destruct (decide (k = key)) as [->|Hne]; [rewrite lookup_delete in Hk; discriminate|].
          rewrite lookup_delete_ne in Hk by congruence. split; [exists k; exact Hk|].
          intros ->. apply Hne. eapply linked_injective; eauto.
      + intros k x Hk. destruct (decide (k = key)) as [->|Hne]; [rewrite lookup_delete in Hk; discriminate|].
        rewrite lookup_delete_ne in Hk by congruence. apply (st_consistent j St). exact Hk.
    - reflexivity.
    - repeat split; simpl; auto. intros ->. set_solver.
  Qed.

  Lemma link_spec j key inner :
    structure j -> Join.linked j !! key = None -> keyOf inner = key ->
    structure (Join.link j key inner) /\ Join.linked (Join.link j key inner) = <[key := inner]> (Join.linked j) /\
    frame j (Join.link j key inner).
  Proof.
    intros St Hnone Hkey.
    assert (Hfree : ~ range_has (Join.linked j) inner).
    { intros [k Hk]. pose proof (st_consistent j St k inner Hk). congruence. }
    split; [|split].
    - constructor; simpl.
      + intros x k. destruct (decide (x = inner)) as [->|Hx].
        * rewrite lookup_insert. destruct (decide (k = key)) as [->|Hne].
          -- rewrite lookup_insert. tauto.
          -- rewrite lookup_insert_ne by congruence. split; [congruence|].
             intros Hk. exfalso. apply Hfree. exists k. exact Hk.
        * rewrite lookup_insert_ne by congruence. rewrite (st_inverse j St).
          destruct (decide (k = key)) as [->|Hne].
          -- rewrite lookup_insert, Hnone. split; [discriminate|congruence].
          -- rewrite lookup_insert_ne by congruence. reflexivity.
      + apply NoDup_app. split; [apply (st_parents_nodup j St)|]. split; [|apply NoDup_singleton].
        intros x Hx Hx'. apply elem_of_list_singleton in Hx'. subst. apply Hfree. apply (st_parents j St). exact Hx.
      + intros x. rewrite elem_of_app, elem_of_list_singleton, (st_parents j St). split.
        * intros [[k Hk]| ->].
          -- exists k. destruct (decide (k = key)) as [->|?]; [congruence|]. rewrite lookup_insert_ne by congruence. exact Hk.
          -- exists key. apply lookup_insert.
        * intros [k Hk]. destruct (decide (k = key)) as [->|Hne].
          -- rewrite lookup_insert in Hk. right. congruence.
          -- rewrite lookup_insert_ne in Hk by congruence. left. exists k. exact Hk.
      + intros Hg x. rewrite elem_of_union, elem_of_singleton, (st_edges j St Hg). split.
        * intros [[k Hk]| ->].
          -- exists k. destruct (decide (k = key)) as [->|?]; [congruence|]. rewrite lookup_insert_ne by congruence. exact Hk.
          -- exists key. apply lookup_insert.
        * intros [k Hk]. destruct (decide (k = key)) as [->|Hne].
          -- rewrite lookup_insert in Hk. right. congruence.
          -- rewrite lookup_insert_ne in Hk by congruence. left. exists k. exact Hk.
      + intros k x Hk. destruct (decide (k = key)) as [->|Hne].
        * rewrite lookup_insert in Hk. congruence.
        * rewrite lookup_insert_ne in Hk by congruence. apply (st_consistent j St). exact Hk.
    - reflexivity.
    - repeat split; simpl; auto.
  Qed.

  (** ** the structural loop of Stabilize *)
  Definition target_consistent (c : change) : Prop :=
    match c with Added k x | Updated k _ x => keyOf x = k | Removed _ _ => True end.

  Definition out_h (vals : zmap) (c : change) (_ : option Z) : option Z :=
    match c with Removed _ _ => None | Added _ x | Updated _ _ x => Some (val_of vals x) end.

  Lemma struct_loop cs j out :
    NoDup (map ckey cs) ->
    (forall c, c ∈ cs -> change_valid c (Join.linked j)) ->
    (forall c, c ∈ cs -> target_consistent c) ->
    structure j ->
    let jo := fold_left Join.struct_step cs (j, out) in
    structure jo.1 /\ Join.linked jo.1 = fold_left apply_change cs (Join.linked j) /\
    jo.2 = fold_left (fun o c => partial_alter (out_h (Join.vals j) c) (ckey c) o) cs out /\
    frame j jo.1.
  Proof.
    revert j out. induction cs as [|c cs IH]; intros j out Hnd Hval Hcons St; simpl.
    { split; [exact St|]. split; [reflexivity|]. split; [reflexivity|apply frame_refl]. }
    inversion Hnd as [|? ? Hc Hnd']; subst.
    assert (Hrest : forall j', Join.linked j' = apply_change (Join.linked j) c ->
                     forall c', c' ∈ cs -> change_valid c' (Join.linked j')).
    { intros j' Hl c' Hc'. rewrite Hl. apply change_valid_other; [|apply Hval; right; exact Hc'].
      intros Heq. apply Hc. rewrite Heq. apply elem_of_list_fmap. eauto. }
    pose proof (Hval c (elem_of_list_here _ _)) as Hv.
    pose proof (Hcons c (elem_of_list_here _ _)) as Ht.
    assert (Hcons' : forall c', c' ∈ cs -> target_consistent c') by (intros c' Hc'; apply Hcons; right; exact Hc').
    destruct c as [k x|k v|k o x]; simpl in Hv, Ht.
    - destruct (link_spec j k x St Hv Ht) as (St' & Hl' & Hf').
      destruct (IH (Join.link j k x) (<[k := val_of (Join.vals j) x]> out) Hnd' (Hrest _ Hl') Hcons' St')
        as (St2 & Hl2 & Ho2 & Hf2).
      split; [exact St2|]. split; [rewrite Hl2, Hl'; reflexivity|]. split; [|exact (frame_trans _ _ _ Hf' Hf2)].
      rewrite Ho2. destruct Hf' as (_ & _ & _ & _ & _ & Hvals & _). rewrite Hvals. reflexivity.
    - destruct (unlink_spec j k St) as (St' & Hl' & Hf').
      destruct (IH (Join.unlink j k) (delete k out) Hnd' (Hrest _ Hl') Hcons' St') as (St2 & Hl2 & Ho2 & Hf2).
      split; [exact St2|]. split; [rewrite Hl2, Hl'; reflexivity|]. split; [|exact (frame_trans _ _ _ Hf' Hf2)].
      rewrite Ho2. destruct Hf' as (_ & _ & _ & _ & _ & Hvals & _). rewrite Hvals. reflexivity.
    - destruct (unlink_spec j k St) as (St' & Hl' & Hf').
      assert (Hnone : Join.linked (Join.unlink j k) !! k = None) by (rewrite Hl'; apply lookup_delete).
      destruct (link_spec (Join.unlink j k) k x St' Hnone Ht) as (St'' & Hl'' & Hf'').
      assert (Hl3 : Join.linked (Join.link (Join.unlink j k) k x) = apply_change (Join.linked j) (Updated k o x)).
      { rewrite Hl'', Hl'. simpl. apply insert_delete_insert. }
      destruct (IH (Join.link (Join.unlink j k) k x) (<[k := val_of (Join.vals j) x]> out) Hnd' (Hrest _ Hl3) Hcons' St'')
        as (St2 & Hl2 & Ho2 & Hf2).
      split; [exact St2|]. split; [rewrite Hl2, Hl3; reflexivity|].
      split; [|exact (frame_trans _ _ _ (frame_trans _ _ _ Hf' Hf'') Hf2)].
      rewrite Ho2. destruct Hf' as (_ & _ & _ & _ & _ & Hvals & _). destruct Hf'' as (_ & _ & _ & _ & _ & Hvals' & _).
      rewrite Hvals', Hvals. reflexivity.
  Qed.

  (** ** the two value loops *)
  Lemma list_find_entries (m : zmap) k :
    match list_find (fun kv : Z * Z => kv.1 = k) (entries m) with Some (_, kv) => Some kv.2 | None => None end = m !! k.
  Proof.
    destruct (list_find _ (entries m)) as [[i [k' v]]|] eqn:E.
    - apply list_find_Some in E as (Hi & Hk & _). simpl in Hk. subst k'. symmetry. apply elem_of_entries.
      eapply elem_of_list_lookup_2. exact Hi.
    - destruct (m !! k) as [v|] eqn:Em; [|reflexivity]. apply elem_of_entries in Em.
      pose proof (proj1 (list_find_None _ _) E) as Hall. rewrite Forall_forall in Hall.
      exfalso. apply (Hall (k, v) Em). reflexivity.
  Qed.

  Lemma fold_insert_map_lookup (g : Z -> Z) (l : list (Z * Z)) (out : zmap) k :
    NoDup (map fst l) ->
    fold_left (fun o kv => <[kv.1 := g kv.2]> o) l out !! k =
    match list_find (fun kv => kv.1 = k) l with Some (_, kv) => Some (g kv.2) | None => out !! k end.
  Proof.
    revert out. induction l as [|[k0 v0] l IH]; intros out Hnd; simpl; [reflexivity|].
    inversion Hnd as [|? ? Hk0 Hnd']; subst. rewrite IH by assumption. simpl.
    destruct (decide (k0 = k)) as [->|Hne].
    - destruct (list_find _ l) as [[i [k1 v1]]|] eqn:E; simpl.
      + apply list_find_Some in E as (Hl & Hk1 & _). simpl in Hk1. subst k1.
        exfalso. apply Hk0. apply elem_of_list_fmap. exists (k, v1). split; [reflexivity|].
        eapply elem_of_list_lookup_2. exact Hl.
      + apply lookup_insert.
    - destruct (list_find _ l) as [[i [k1 v1]]|]; simpl; [reflexivity|].
      apply lookup_insert_ne. exact Hne.
  Qed.

  Lemma refresh_all_lookup j out k :
    Join.refresh_all j out !! k =
    match Join.linked j !! k with Some x => Some (val_of (Join.vals j) x) | None => out !! k end.
  Proof.
    unfold Join.refresh_all. rewrite fold_insert_map_lookup by apply NoDup_entries_fst.
    rewrite <- (list_find_entries (Join.linked j) k).
    destruct (list_find _ (entries (Join.linked j))) as [[i kv]|]; reflexivity.
  Qed.

  Lemma apply_pending_lookup j out k :
    Join.apply_pending j out !! k =
    if decide (k ∈ Join.pending j)
    then match Join.linked j !! k with Some x => Some (val_of (Join.vals j) x) | None => out !! k end
    else out !! k.
  Proof.
    unfold Join.apply_pending. generalize (Join.pending j) as ps. intros ps. revert out.
    induction ps as [|key ps IH]; intros out; simpl.
    { destruct (decide (k ∈ [])) as [H|]; [inversion H|reflexivity]. }
    rewrite IH. destruct (decide (k = key)) as [->|Hne].
    - destruct (decide (key ∈ key :: ps)) as [_|Hn]; [|exfalso; apply Hn; left].
      destruct (Join.linked j !! key) as [x|] eqn:El.
      + rewrite lookup_insert. destruct (decide (key ∈ ps)); reflexivity.
      + destruct (decide (key ∈ ps)); reflexivity.
    - assert (Hout : (match Join.linked j !! key with
                      | Some inner => <[key := val_of (Join.vals j) inner]> out
                      | None => out end) !! k = out !! k).
      { destruct (Join.linked j !! key); [apply lookup_insert_ne; congruence|reflexivity]. }
      rewrite Hout.
      destruct (decide (k ∈ ps)) as [Hin|Hnin].
      + destruct (decide (k ∈ key :: ps)) as [_|Hn]; [reflexivity|exfalso; apply Hn; right; exact Hin].
      + destruct (decide (k ∈ key :: ps)) as [Hin'|_]; [|reflexivity].
        apply elem_of_cons in Hin' as [?|?]; [congruence|contradiction].
  Qed.

  (** ** one recompute *)
  Lemma applied_exact eq (m m' : zmap) : eq_exact eq -> fold_left apply_change (merge_diff eq m m') m = m'.
  Proof.
    intros Hex. apply map_eq. intros k. rewrite applied_lookup. unfold diff_at, classify.
    destruct (m !! k) as [v|] eqn:Em, (m' !! k) as [v'|] eqn:Em'; simpl; try reflexivity.
    destruct (veqb eq v v') eqn:E; simpl; [|reflexivity]. rewrite (Hex _ _ E). reflexivity.
  Qed.

  Lemma structure_with_value_pending j v p l r :
    structure j -> structure (Join.with_value_pending j v p l r).
  Proof. intros St. constructor; simpl; apply St. Qed.

  Record pre (j : Join.t) : Prop := {
    pre_st : structure j;
    pre_linked : Join.linked j = Join.last j;
    pre_dom : forall k, Join.value j !! k = None <-> Join.linked j !! k = None;
    pre_outer : consistent (Join.outer j);
    pre_dirty : Join.dirty j = ∅;
    pre_fresh : (fixed = true /\ Join.changedAt0 j = true) \/
                forall k x, Join.linked j !! k = Some x ->
                  Join.value j !! k = Some (val_of (Join.vals j) x) \/ k ∈ Join.pending j
  }.

  Definition post (j j' : Join.t) : Prop :=
    structure j' /\ Join.linked j' = Join.outer j /\ Join.last j' = Join.outer j /\ Join.outer j' = Join.outer j /\
    Join.ingraph j' = Join.ingraph j /\ Join.dirty j' = ∅ /\ Join.pending j' = [] /\
    Join.changedAt0 j' = false /\ Join.cdefs j' = Join.cdefs j /\
    Join.value j' = F_join (Join.vals j') (Join.outer j).

  Lemma Stabilize_spec j :
    pre j -> post j (Join.Stabilize fixed j) /\ Join.vals (Join.Stabilize fixed j) = Join.vals j.
  Proof.
    intros [St Hlinked Hdom Houter Hdirty Hfresh].
    set (cs := merge_diff (Some Z.eqb) (Join.last j) (Join.outer j)).
    set (out0 := if fixed && Join.changedAt0 j then Join.refresh_all j (Join.value j) else Join.value j).
    destruct (struct_loop cs j out0) as (St1 & Hl1 & Ho1 & Hf1).
    { apply NoDup_merge_diff_keys. }
    { intros c Hc. rewrite Hlinked. eapply merge_diff_valid. exact Hc. }
    { intros c Hc. apply elem_of_merge_diff in Hc. unfold diff_at, classify in Hc.
      destruct (Join.last j !! ckey c) as [a|], (Join.outer j !! ckey c) as [b|] eqn:Eo; try destruct (veqb _ a b);
        inversion Hc as [Hc']; rewrite <- Hc' in *; simpl in *; auto; apply Houter; exact Eo. }
    { exact St. }
    destruct Hf1 as (F1 & F2 & F3 & F4 & F5 & F6 & F7 & F8 & F9).
    assert (HL : Join.linked (fold_left Join.struct_step cs (j, out0)).1 = Join.outer j).
    { rewrite Hl1, Hlinked. apply applied_exact. apply eq_exact_eqb. }
    unfold Join.Stabilize. fold cs. fold out0.
    set (jo := fold_left Join.struct_step cs (j, out0)) in *.
    unfold post. simpl. split; [|exact F6].
    split; [apply structure_with_value_pending; exact St1|].
    split; [exact HL|]. split; [reflexivity|]. split; [exact F7|]. split; [exact F5|].
    split; [exact (F8 Hdirty)|]. split; [reflexivity|]. split; [reflexivity|]. split; [exact F9|].
    apply map_eq. intros k. unfold F_join. rewrite lookup_fmap.
    rewrite apply_pending_lookup, HL, F6, F3.
    assert (Hout0 : out0 !! k =
                    if fixed && Join.changedAt0 j
                    then match Join.last j !! k with Some x => Some (val_of (Join.vals j) x) | None => Join.value j !! k end
                    else Join.value j !! k).
    { unfold out0. destruct (fixed && Join.changedAt0 j); [|reflexivity]. rewrite refresh_all_lookup, Hlinked. reflexivity. }
    assert (Hout1 : jo.2 !! k = match diff_at (Some Z.eqb) (Join.last j) (Join.outer j) k with
                                | Some c => out_h (Join.vals j) c None | None => out0 !! k end).
    { rewrite Ho1. unfold cs. rewrite fold_diff_lookup.
      destruct (diff_at _ _ _ k) as [[]|]; reflexivity. }
    destruct (Join.outer j !! k) as [x|] eqn:Eo; simpl.
    - destruct (decide (k ∈ Join.pending j)) as [Hin|Hnin]; [reflexivity|].
      rewrite Hout1. unfold diff_at, classify. rewrite Eo.
      destruct (Join.last j !! k) as [x'|] eqn:El; [|reflexivity].
      simpl. destruct (x' =? x) eqn:Ex; [|reflexivity].
      apply Z.eqb_eq in Ex. subst x'. rewrite Hout0; try rewrite El.
      destruct (fixed && Join.changedAt0 j) eqn:Efr; [reflexivity|].
      destruct Hfresh as [[-> Hr]|Hfresh]; [rewrite Hr in Efr; discriminate|].
      destruct (Hfresh k x) as [Hv|Hp]; [rewrite Hlinked; exact El|exact Hv|contradiction].
    - assert (Hgoal : jo.2 !! k = None).
      { rewrite Hout1. unfold diff_at, classify. rewrite Eo.
        destruct (Join.last j !! k) as [x'|] eqn:El; [reflexivity|].
        rewrite Hout0; try rewrite El. assert (Hv : Join.value j !! k = None) by (apply Hdom; rewrite Hlinked; exact El).
        destruct (fixed && Join.changedAt0 j); exact Hv. }
      destruct (decide (k ∈ Join.pending j)); exact Hgoal.
  Qed.

  Lemma post_dom j j' : post j j' -> forall k, Join.value j' !! k = None <-> Join.linked j' !! k = None.
  Proof.
    intros (St & Hl & Hlast & Hout & Hg & Hd & Hp & Hr & Hc & Hv) k.
    rewrite Hv, Hl. unfold F_join. rewrite lookup_fmap. destruct (Join.outer j !! k); simpl; split; congruence.
  Qed.

  Lemma post_fresh j j' : post j j' ->
    forall k x, Join.linked j' !! k = Some x -> Join.value j' !! k = Some (val_of (Join.vals j') x).
  Proof.
    intros (St & Hl & Hlast & Hout & Hg & Hd & Hp & Hr & Hc & Hv) k x Hk.
    rewrite Hv. unfold F_join. rewrite lookup_fmap. rewrite Hl in Hk. rewrite Hk. reflexivity.
  Qed.

  (** ** notifications, computed inner nodes, a whole pass, the other events *)
  Lemma with_value_pending_eta j :
    Join.with_value_pending j (Join.value j) (Join.pending j) (Join.last j) (Join.changedAt0 j) = j.
  Proof. destruct j; reflexivity. Qed.

  Lemma ChildChanged_fold (xs : list Z) j :
    fold_left Join.ChildChanged xs j =
    Join.with_value_pending j (Join.value j) (Join.pending j ++ omap (fun x => Join.byNode j !! x) xs)
                            (Join.last j) (Join.changedAt0 j).
  Proof.
    revert j. induction xs as [|x xs IH]; intros j; simpl.
    - rewrite app_nil_r. symmetry. apply with_value_pending_eta.
    - rewrite IH. unfold Join.ChildChanged. destruct (Join.byNode j !! x) as [key|]; simpl.
      + rewrite <- app_assoc. reflexivity.
      + reflexivity.
  Qed.

  Lemma notify_vars_eq j :
    Join.notify_vars j =
    Join.Mk (Join.last j) (Join.linked j) (Join.byNode j) (Join.value j) (Join.parents j)
      (Join.pending j ++ omap (fun x => Join.byNode j !! x)
         (filter (fun x => bool_decide (x ∈ Join.edges j)) (sorted_keys (Join.dirty j))))
      (Join.changedAt0 j) false (Join.ingraph j) (Join.edges j) ∅ (Join.vals j) (Join.outer j)
      (Join.bvals j) (Join.cdefs j) (Join.cstale j).
  Proof. unfold Join.notify_vars. cbv zeta. rewrite ChildChanged_fold. reflexivity. Qed.

  (** *** stale computed nodes: which are known, and that [link] marks the join stale *)
  Definition Sinv (j : Join.t) : Prop := forall x, x ∈ Join.cstale j -> x ∈ map fst (Join.cdefs j).
  Definition Qinv (j : Join.t) : Prop :=
    Join.restale j = true \/ forall x, range_has (Join.linked j) x -> x ∉ Join.cstale j.

  Lemma is_lazy_known j x : Join.is_lazy j x = true -> x ∈ map fst (Join.cdefs j).
  Proof.
    unfold Join.is_lazy, Join.cdef_of. destruct (list_find _ (Join.cdefs j)) as [[i p]|] eqn:E; [|discriminate].
    intros _. apply list_find_Some in E as (Hi & Hp & _). simpl in Hp. subst x.
    apply elem_of_list_fmap. exists p. split; [reflexivity|]. eapply elem_of_list_lookup_2. exact Hi.
  Qed.

  Lemma unlink_QS j key :
    (Qinv j -> Qinv (Join.unlink j key)) /\ (Sinv j -> Sinv (Join.unlink j key)) /\
    Join.cdefs (Join.unlink j key) = Join.cdefs j.
  Proof.
    unfold Join.unlink. destruct (Join.linked j !! key) as [xo|] eqn:El; [|auto].
    split; [|split; [|reflexivity]].
    - intros [Hr|Hq]; [left; exact Hr|right]. simpl. intros x [k Hk]. apply Hq.
      destruct (decide (k = key)) as [->|Hne]; [rewrite lookup_delete in Hk; discriminate|].
      rewrite lookup_delete_ne in Hk by congruence. exists k. exact Hk.
    - intros Hs x Hx. apply Hs. exact Hx.
  Qed.

  Lemma link_QS j key inner :
    Qinv (Join.link j key inner) /\ (Sinv j -> Sinv (Join.link j key inner)) /\
    Join.cdefs (Join.link j key inner) = Join.cdefs j.
  Proof.
    split; [left; reflexivity|]. split; [|reflexivity].
    intros Hs x. unfold Join.link. simpl.
    destruct (Join.is_lazy j inner && negb (bool_decide (inner ∈ Join.edges j))) eqn:E; [|apply Hs].
    rewrite elem_of_union, elem_of_singleton. intros [Hx| ->]; [apply Hs; exact Hx|].
    apply andb_true_iff in E as [E _]. apply is_lazy_known. exact E.
  Qed.

  Lemma struct_loop_QS cs j out :
    Qinv j -> Sinv j ->
    let jo := fold_left Join.struct_step cs (j, out) in
    Qinv jo.1 /\ Sinv jo.1 /\ Join.cdefs jo.1 = Join.cdefs j.
  Proof.
    revert j out. induction cs as [|c cs IH]; intros j out Hq Hs; simpl; [auto|].
    destruct c as [k x|k v|k o x]; simpl.
    - destruct (link_QS j k x) as (Q1 & S1 & C1).
      destruct (IH (Join.link j k x) (<[k := val_of (Join.vals j) x]> out) Q1 (S1 Hs)) as (Q2 & S2 & C2).
      split; [exact Q2|]. split; [exact S2|]. rewrite C2. exact C1.
    - destruct (unlink_QS j k) as (Q1 & S1 & C1).
      destruct (IH (Join.unlink j k) (delete k out) (Q1 Hq) (S1 Hs)) as (Q2 & S2 & C2).
      split; [exact Q2|]. split; [exact S2|]. rewrite C2. exact C1.
    - destruct (unlink_QS j k) as (Q0 & S0 & C0).
      destruct (link_QS (Join.unlink j k) k x) as (Q1 & S1 & C1).
      destruct (IH (Join.link (Join.unlink j k) k x) (<[k := val_of (Join.vals j) x]> out) Q1 (S1 (S0 Hs))) as (Q2 & S2 & C2).
      split; [exact Q2|]. split; [exact S2|]. rewrite C2, C1. exact C0.
  Qed.

  Lemma Stabilize_QS j :
    Qinv j -> Sinv j -> Qinv (Join.Stabilize fixed j) /\ Sinv (Join.Stabilize fixed j).
  Proof.
    intros Hq Hs. unfold Join.Stabilize.
    match goal with |- context [fold_left Join.struct_step ?cs (j, ?o)] =>
      destruct (struct_loop_QS cs j o Hq Hs) as (Q & S & C) end.
    split.
    - destruct Q as [Hr|Hq']; [left; exact Hr|right; exact Hq'].
    - exact S.
  Qed.

  (** *** a computed node recomputes *)
  Definition notif (j : Join.t) (x : Z) : list Z :=
    if Join.ingraph j && bool_decide (x ∈ Join.edges j)
    then match Join.byNode j !! x with Some k => [k] | None => [] end
    else [].

  Lemma recompute_one_eq j x d :
    Join.recompute_one j x d =
    Join.Mk (Join.last j) (Join.linked j) (Join.byNode j) (Join.value j) (Join.parents j)
      (Join.pending j ++ notif j x) (Join.changedAt0 j) (Join.restale j) (Join.ingraph j) (Join.edges j)
      (Join.dirty j) (<[x := Join.cval d (Join.bvals j)]> (Join.vals j)) (Join.outer j) (Join.bvals j)
      (Join.cdefs j) (Join.cstale j ∖ {[x]}).
  Proof.
    unfold Join.recompute_one, notif. simpl.
    destruct (Join.ingraph j && bool_decide (x ∈ Join.edges j)); simpl.
    - unfold Join.ChildChanged. simpl. destruct (Join.byNode j !! x); simpl; [reflexivity|].
      rewrite app_nil_r. reflexivity.
    - rewrite app_nil_r. reflexivity.
  Qed.

  (* what a phase of recomputations leaves alone *)
  Definition phase_frame (j j' : Join.t) : Prop :=
    Join.last j' = Join.last j /\ Join.linked j' = Join.linked j /\ Join.byNode j' = Join.byNode j /\
    Join.value j' = Join.value j /\ Join.parents j' = Join.parents j /\ Join.changedAt0 j' = Join.changedAt0 j /\
    Join.restale j' = Join.restale j /\ Join.ingraph j' = Join.ingraph j /\ Join.edges j' = Join.edges j /\
    Join.dirty j' = Join.dirty j /\ Join.outer j' = Join.outer j /\ Join.cdefs j' = Join.cdefs j /\
    (forall x, x ∈ Join.cstale j' -> x ∈ Join.cstale j) /\
    (Join.ingraph j = false -> Join.pending j' = Join.pending j).

  Lemma phase_frame_refl j : phase_frame j j.
  Proof. unfold phase_frame. auto 20. Qed.

  Lemma phase_frame_trans j1 j2 j3 : phase_frame j1 j2 -> phase_frame j2 j3 -> phase_frame j1 j3.
  Proof.
    intros (A1 & A2 & A3 & A4 & A5 & A6 & A7 & A8 & A9 & A10 & A11 & A12 & A13 & A14)
           (B1 & B2 & B3 & B4 & B5 & B6 & B7 & B8 & B9 & B10 & B11 & B12 & B13 & B14).
    unfold phase_frame. repeat split; try congruence.
    - auto.
    - intros Hg. rewrite B14 by congruence. auto.
  Qed.

  Lemma recompute_one_frame j x d : phase_frame j (Join.recompute_one j x d).
  Proof.
    rewrite recompute_one_eq. unfold phase_frame. simpl. repeat split; auto.
    - intros y Hy. set_solver.
    - intros Hg. unfold notif. rewrite Hg. simpl. apply app_nil_r.
  Qed.

  Lemma structure_phase_frame j j' : phase_frame j j' -> structure j -> structure j'.
  Proof.
    intros (A1 & A2 & A3 & A4 & A5 & A6 & A7 & A8 & A9 & _) St. constructor.
    - rewrite A3, A2. apply St.
    - rewrite A5. apply St.
    - rewrite A5, A2. apply St.
    - rewrite A8, A9, A2. apply St.
    - rewrite A2. apply St.
  Qed.

  Definition pstep (cond : Join.t -> Z -> Join.cdef -> bool) (j : Join.t) (p : Z * Join.cdef) : Join.t :=
    if cond j p.1 p.2 then Join.recompute_one j p.1 p.2 else j.

  Lemma pstep_frame cond j p : phase_frame j (pstep cond j p).
  Proof. unfold pstep. destruct (cond j p.1 p.2); [apply recompute_one_frame|apply phase_frame_refl]. Qed.

  Lemma phase_fold_frame cond l j : phase_frame j (fold_left (pstep cond) l j).
  Proof.
    revert j. induction l as [|p l IH]; intros j; simpl; [apply phase_frame_refl|].
    eapply phase_frame_trans; [apply pstep_frame|apply IH].
  Qed.

  Definition condA (early : list Z) (j : Join.t) (x : Z) (d : Join.cdef) : bool :=
    bool_decide (x ∈ Join.cstale j) && Join.necessary j x d &&
    (Join.ingraph j && bool_decide (x ∈ Join.edges j) || bool_decide (x ∈ early)).
  Definition condC (j : Join.t) (x : Z) (d : Join.cdef) : bool :=
    bool_decide (x ∈ Join.cstale j) && Join.necessary j x d.

  Lemma phaseA_fold early j : Join.phaseA early j = fold_left (pstep (condA early)) (Join.cdefs j) j.
  Proof. reflexivity. Qed.
  Lemma phaseC_fold j : Join.phaseC j = fold_left (pstep condC) (Join.cdefs j) j.
  Proof. reflexivity. Qed.

  (* a phase takes every stale linked node, and only stale nodes *)
  Definition takes_linked (cond : Join.t -> Z -> Join.cdef -> bool) : Prop :=
    forall j y d k, structure j -> Join.ingraph j = true ->
      Join.linked j !! k = Some y -> y ∈ Join.cstale j -> cond j y d = true.
  Definition only_stale (cond : Join.t -> Z -> Join.cdef -> bool) : Prop :=
    forall j y d, cond j y d = true -> y ∈ Join.cstale j.

  Lemma necessary_linked j y d k :
    structure j -> Join.ingraph j = true -> Join.linked j !! k = Some y ->
    Join.necessary j y d = true /\ bool_decide (y ∈ Join.edges j) = true.
  Proof.
    intros St Hg Hk.
    assert (He : bool_decide (y ∈ Join.edges j) = true)
      by (apply bool_decide_eq_true; apply (st_edges j St Hg); exists k; exact Hk).
    split; [|exact He]. unfold Join.necessary. rewrite Hg, He. destruct (Join.cd_lazy d); reflexivity.
  Qed.

  Lemma condA_takes early : takes_linked (condA early).
  Proof.
    intros j y d k St Hg Hk Hc. unfold condA.
    destruct (necessary_linked j y d k St Hg Hk) as [Hn He].
    rewrite Hn, He, Hg. rewrite bool_decide_true by exact Hc. reflexivity.
  Qed.
  Lemma condC_takes : takes_linked condC.
  Proof.
    intros j y d k St Hg Hk Hc. unfold condC.
    destruct (necessary_linked j y d k St Hg Hk) as [Hn _].
    rewrite Hn. rewrite bool_decide_true by exact Hc. reflexivity.
  Qed.
  Lemma condA_only early : only_stale (condA early).
  Proof.
    intros j y d H. unfold condA in H. apply andb_true_iff in H as [H _]. apply andb_true_iff in H as [H _].
    apply bool_decide_eq_true in H. exact H.
  Qed.
  Lemma condC_only : only_stale condC.
  Proof.
    intros j y d H. unfold condC in H. apply andb_true_iff in H as [H _].
    apply bool_decide_eq_true in H. exact H.
  Qed.

  (* the pending-or-fresh form of "every linked key is up to date or about to be" *)
  Definition fresh_pending (j : Join.t) : Prop :=
    forall k x, Join.linked j !! k = Some x ->
      Join.value j !! k = Some (val_of (Join.vals j) x) \/ k ∈ Join.pending j.

  Definition fresh_or_coming (l : list (Z * Join.cdef)) (j : Join.t) : Prop :=
    forall k x, Join.linked j !! k = Some x ->
      Join.value j !! k = Some (val_of (Join.vals j) x) \/ k ∈ Join.pending j \/
      (x ∈ Join.cstale j /\ x ∈ map fst l).

  Lemma pstep_fresh cond (l : list (Z * Join.cdef)) j y d :
    takes_linked cond -> structure j -> Join.ingraph j = true ->
    fresh_or_coming ((y, d) :: l) j -> fresh_or_coming l (pstep cond j (y, d)).
  Proof.
    intros Hmust St Hg H k x. unfold pstep. simpl.
    destruct (cond j y d) eqn:Ec.
    - rewrite recompute_one_eq. simpl. intros Hk.
      destruct (decide (x = y)) as [->|Hne].
      + right. left. apply elem_of_app. right. unfold notif. rewrite Hg. simpl.
        rewrite bool_decide_true by (apply (st_edges j St Hg); exists k; exact Hk).
        rewrite (proj2 (st_inverse j St y k) Hk). left.
      + destruct (H k x Hk) as [Hv|[Hp|[Hc Hin]]].
        * left. rewrite Hv. unfold val_of. rewrite lookup_insert_ne by congruence. reflexivity.
        * right. left. apply elem_of_app. left. exact Hp.
        * right. right. split; [set_solver|]. simpl in Hin. apply elem_of_cons in Hin as [?|?]; [congruence|assumption].
    - intros Hk. destruct (H k x Hk) as [Hv|[Hp|[Hc Hin]]]; [left; exact Hv|right; left; exact Hp|].
      right. right. split; [exact Hc|]. simpl in Hin. apply elem_of_cons in Hin as [Hxy|?]; [|assumption].
      subst x. rewrite (Hmust j y d k St Hg Hk Hc) in Ec. discriminate.
  Qed.

  Lemma phase_fold_fresh cond (l : list (Z * Join.cdef)) j :
    takes_linked cond -> structure j -> Join.ingraph j = true ->
    fresh_or_coming l j -> fresh_pending (fold_left (pstep cond) l j).
  Proof.
    intros Hmust. revert j. induction l as [|[y d] l IH]; intros j St Hg H; simpl.
    - intros k x Hk. destruct (H k x Hk) as [Hv|[Hp|[_ Hin]]]; [left; exact Hv|right; exact Hp|inversion Hin].
    - apply IH.
      + eapply structure_phase_frame; [apply pstep_frame|exact St].
      + destruct (pstep_frame cond j (y, d)) as (_ & _ & _ & _ & _ & _ & _ & Hg' & _). congruence.
      + apply pstep_fresh; assumption.
  Qed.

  (* after a phase no linked node is stale, provided every stale linked node was on the list *)
  Lemma phase_fold_clean cond (l : list (Z * Join.cdef)) j :
    takes_linked cond -> structure j -> Join.ingraph j = true ->
    (forall x, range_has (Join.linked j) x -> x ∈ Join.cstale j -> x ∈ map fst l) ->
    forall x, range_has (Join.linked j) x -> x ∉ Join.cstale (fold_left (pstep cond) l j).
  Proof.
    intros Hmust. revert j. induction l as [|[y d] l IH]; intros j St Hg H x Hx; simpl.
    - intros Hc. specialize (H x Hx Hc). inversion H.
    - destruct (pstep_frame cond j (y, d)) as (_ & Hl & _ & _ & _ & _ & _ & Hg' & _ & _ & _ & _ & Hsub & _).
      assert (Hx' : range_has (Join.linked (pstep cond j (y, d))) x) by (rewrite Hl; exact Hx).
      apply IH; [eapply structure_phase_frame; [apply pstep_frame|exact St]|congruence| |exact Hx'].
      intros z Hz Hc. rewrite Hl in Hz. pose proof (Hsub z Hc) as Hc0.
      specialize (H z Hz Hc0). simpl in H. apply elem_of_cons in H as [->|H]; [|exact H].
      exfalso. destruct Hz as [k Hk]. unfold pstep in Hc. simpl in Hc.
      rewrite (Hmust j y d k St Hg Hk Hc0) in Hc. rewrite recompute_one_eq in Hc. simpl in Hc. set_solver.
  Qed.

  (* a phase that takes no linked node changes nothing the join can see *)
  Lemma phase_fold_quiet cond (l : list (Z * Join.cdef)) j :
    only_stale cond -> structure j -> Join.ingraph j = true ->
    (forall x, range_has (Join.linked j) x -> x ∉ Join.cstale j) ->
    Join.pending (fold_left (pstep cond) l j) = Join.pending j /\
    forall x, range_has (Join.linked j) x -> Join.vals (fold_left (pstep cond) l j) !! x = Join.vals j !! x.
  Proof.
    intros Honly. revert j. induction l as [|[y d] l IH]; intros j St Hg H; simpl; [auto|].
    destruct (pstep_frame cond j (y, d)) as (_ & Hl & _ & _ & _ & _ & _ & Hg' & _ & _ & _ & _ & Hsub & _).
    destruct (IH (pstep cond j (y, d))) as (Hp & Hv).
    { eapply structure_phase_frame; [apply pstep_frame|exact St]. }
    { congruence. }
    { intros x Hx Hc. rewrite Hl in Hx. apply (H x Hx). apply Hsub. exact Hc. }
    assert (Hstep : Join.pending (pstep cond j (y, d)) = Join.pending j /\
                    forall x, range_has (Join.linked j) x -> Join.vals (pstep cond j (y, d)) !! x = Join.vals j !! x).
    { unfold pstep. simpl. destruct (cond j y d) eqn:Ec; [|auto].
      pose proof (Honly j y d Ec) as Hy.
      assert (Hnl : ~ range_has (Join.linked j) y) by (intros Hr; exact (H y Hr Hy)).
      rewrite recompute_one_eq. simpl. split.
      - unfold notif. rewrite Hg. simpl.
        rewrite bool_decide_false by (intros He; apply Hnl; apply (st_edges j St Hg); exact He).
        apply app_nil_r.
      - intros x Hx. apply lookup_insert_ne. intros ->. contradiction. }
    destruct Hstep as (Hp1 & Hv1). split; [congruence|].
    intros x Hx. rewrite Hv by (rewrite Hl; exact Hx). apply Hv1. exact Hx.
  Qed.

  (** *** the invariant between events *)
  Context (cdefs0 : list (Z * Join.cdef)).

  Record jinv (j : Join.t) : Prop := {
    ji_st : structure j;
    ji_linked : Join.linked j = Join.last j;
    ji_dom : forall k, Join.value j !! k = None <-> Join.linked j !! k = None;
    ji_outer : consistent (Join.outer j);
    ji_pending : Join.pending j = [];
    ji_fresh : Join.ingraph j = true ->
               (fixed = true /\ Join.changedAt0 j = true) \/
               forall k x, Join.linked j !! k = Some x ->
                 Join.value j !! k = Some (val_of (Join.vals j) x) \/ x ∈ Join.dirty j \/ x ∈ Join.cstale j;
    (* while out of the graph: the repair is armed, or nothing was ever linked *)
    ji_out : Join.ingraph j = false -> (fixed = true /\ Join.changedAt0 j = true) \/ Join.linked j = ∅;
    ji_cdefs : Join.cdefs j = cdefs0;
    ji_cstale : Sinv j
  }.

  Lemma post_clear_restale j j' : post j j' -> post j (Join.clear_restale j').
  Proof.
    intros (St & H). split; [|exact H]. constructor; simpl; apply St.
  Qed.

  Lemma pre_clear_restale j : pre j -> pre (Join.clear_restale j).
  Proof.
    intros [St H1 H2 H3 H4 H5]. constructor; simpl; auto. constructor; simpl; apply St.
  Qed.

  (* a state reached by a recompute of the join is a good place to stop *)
  Lemma post_final jA jB :
    post jA jB -> consistent (Join.outer jA) -> Join.ingraph jA = true -> Join.cdefs jA = cdefs0 -> Sinv jB ->
    jinv jB /\ Join.value jB = F_join (Join.vals jB) (Join.outer jB) /\ Join.ingraph jB = true.
  Proof.
    intros Hpost Hco Hg Hc Hs.
    pose proof (post_dom _ _ Hpost) as Hdom. pose proof (post_fresh _ _ Hpost) as Hfr.
    destruct Hpost as (St & Hl & Hlast & Hout & Hg' & Hd & Hp & Hr & Hc' & Hv).
    split; [|split; [rewrite Hv, Hout; reflexivity|congruence]].
    constructor.
    - exact St.
    - congruence.
    - exact Hdom.
    - rewrite Hout. exact Hco.
    - exact Hp.
    - intros _. right. intros k x Hk. left. apply Hfr. exact Hk.
    - intros Hg''. congruence.
    - congruence.
    - exact Hs.
  Qed.

  Lemma join_pass_spec early j :
    jinv j -> Join.ingraph j = true ->
    let j' := Join.pass fixed early j in
    jinv j' /\ Join.value j' = F_join (Join.vals j') (Join.outer j') /\ Join.ingraph j' = true.
  Proof.
    intros [St Hlinked Hdom Houter Hpending Hfresh Hout Hcdefs Hsinv] Hg. cbv zeta.
    unfold Join.pass, Join.first_run. rewrite Hg.
    (* inner vars notify *)
    set (j1 := Join.notify_vars j).
    assert (E1 : j1 = Join.Mk (Join.last j) (Join.linked j) (Join.byNode j) (Join.value j) (Join.parents j)
      (Join.pending j ++ omap (fun x => Join.byNode j !! x)
         (filter (fun x => bool_decide (x ∈ Join.edges j)) (sorted_keys (Join.dirty j))))
      (Join.changedAt0 j) false (Join.ingraph j) (Join.edges j) ∅ (Join.vals j) (Join.outer j)
      (Join.bvals j) (Join.cdefs j) (Join.cstale j)) by apply notify_vars_eq.
    assert (St1 : structure j1) by (rewrite E1; constructor; simpl; apply St).
    assert (Hg1 : Join.ingraph j1 = true) by (rewrite E1; exact Hg).
    assert (Hs1 : Sinv j1) by (rewrite E1; exact Hsinv).
    assert (Hc1 : Join.cdefs j1 = cdefs0) by (rewrite E1; exact Hcdefs).
    (* stale computed nodes below the join (and the early ones) recompute and notify *)
    set (j2 := Join.phaseA early j1).
    pose proof (phase_fold_frame (condA early) (Join.cdefs j1) j1) as Hf12.
    rewrite <- phaseA_fold in Hf12. fold j2 in Hf12.
    assert (St2 : structure j2) by (eapply structure_phase_frame; eauto).
    assert (Hclean2 : forall x, range_has (Join.linked j2) x -> x ∉ Join.cstale j2).
    { destruct Hf12 as (_ & Hl & _). intros x Hx. rewrite Hl in Hx. unfold j2. rewrite phaseA_fold.
      apply phase_fold_clean; [apply condA_takes|exact St1|exact Hg1| |exact Hx].
      intros z _ Hz. apply Hs1. exact Hz. }
    assert (Hpre2 : pre j2).
    { destruct Hf12 as (A1 & A2 & A3 & A4 & A5 & A6 & A7 & A8 & A9 & A10 & A11 & A12 & A13 & A14).
      constructor.
      - exact St2.
      - rewrite A2, A1, E1. exact Hlinked.
      - intros k. rewrite A4, A2, E1. apply Hdom.
      - rewrite A11, E1. exact Houter.
      - rewrite A10, E1. reflexivity.
      - destruct (Hfresh Hg) as [Hl|Hr]; [left; rewrite A6, E1; exact Hl|right].
        unfold j2. rewrite phaseA_fold. apply phase_fold_fresh; [apply condA_takes|exact St1|exact Hg1|].
        intros k x Hk. rewrite E1 in Hk. simpl in Hk. rewrite E1. simpl.
        destruct (Hr k x Hk) as [Hv|[Hd|Hc]].
        + left. exact Hv.
        + right. left. rewrite Hpending. simpl.
          apply elem_of_list_omap. exists x. split.
          * apply elem_of_list_filter. split.
            -- apply bool_decide_pack. apply (st_edges j St Hg). exists k. exact Hk.
            -- apply elem_of_sorted_keys. exact Hd.
          * apply (st_inverse j St). exact Hk.
        + right. right. split; [exact Hc|]. apply Hsinv. exact Hc. }
    assert (Hq2 : Qinv j2) by (right; exact Hclean2).
    assert (Hs2 : Sinv j2).
    { destruct Hf12 as (_ & _ & _ & _ & _ & _ & _ & _ & _ & _ & _ & A12 & A13 & _).
      intros x Hx. rewrite A12. apply Hs1. apply A13. exact Hx. }
    assert (Hfields2 : Join.outer j2 = Join.outer j /\ Join.ingraph j2 = true /\ Join.cdefs j2 = cdefs0).
    { destruct Hf12 as (_ & _ & _ & _ & _ & _ & _ & A8 & _ & _ & A11 & A12 & _).
      rewrite A11, A8, A12, E1. simpl. auto. }
    destruct Hfields2 as (Ho2 & Hg2 & Hc2).
    (* the join's first run *)
    destruct (Stabilize_spec j2 Hpre2) as (Hpost3 & _).
    destruct (Stabilize_QS j2 Hq2 Hs2) as (Hq3 & Hs3).
    set (j3 := Join.Stabilize fixed j2) in *.
    (* the other stale necessary nodes recompute; those the join has just linked notify it *)
    set (j4 := Join.phaseC j3).
    pose proof (phase_fold_frame condC (Join.cdefs j3) j3) as Hf34.
    rewrite <- phaseC_fold in Hf34. fold j4 in Hf34.
    pose proof Hpost3 as (St3 & Hl3 & Hlast3 & Hout3 & Hg3 & Hd3 & Hp3 & Hr3 & Hc3 & Hv3).
    assert (Hg3' : Join.ingraph j3 = true) by congruence.
    assert (Hs4 : Sinv j4).
    { destruct Hf34 as (_ & _ & _ & _ & _ & _ & _ & _ & _ & _ & _ & A12 & A13 & _).
      intros x Hx. rewrite A12. apply Hs3. apply A13. exact Hx. }
    assert (St4 : structure j4) by (eapply structure_phase_frame; eauto).
    pose proof Hf34 as (A1 & A2 & A3 & A4 & A5 & A6 & A7 & A8 & A9 & A10 & A11 & A12 & A13 & A14).
    rewrite A7.
    destruct (Join.restale j3) eqn:Er.
    - (* link marked the join stale: it runs a second time, after the nodes it has just linked *)
      assert (Hpre4 : pre j4).
      { constructor.
        - exact St4.
        - rewrite A2, A1. congruence.
        - intros k. rewrite A4, A2. apply (post_dom _ _ Hpost3).
        - rewrite A11, Hout3, Ho2. exact Houter.
        - rewrite A10. exact Hd3.
        - right. unfold j4. rewrite phaseC_fold. apply phase_fold_fresh; [apply condC_takes|exact St3|exact Hg3'|].
          intros k x Hk. left. apply (post_fresh _ _ Hpost3). exact Hk. }
      pose proof (pre_clear_restale _ Hpre4) as Hpre5.
      destruct (Stabilize_spec _ Hpre5) as (Hpost6 & _).
      destruct (Stabilize_QS (Join.clear_restale j4)) as (_ & Hs6).
      { right. intros x Hx. change (range_has (Join.linked j4) x) in Hx. rewrite A2 in Hx.
        change (x ∉ Join.cstale j4). unfold j4. rewrite phaseC_fold.
        apply phase_fold_clean; [apply condC_takes|exact St3|exact Hg3'| |exact Hx].
        intros z _ Hz. apply Hs3. exact Hz. }
      { exact Hs4. }
      apply (post_final (Join.clear_restale j4)).
      + apply post_clear_restale. exact Hpost6.
      + change (consistent (Join.outer j4)). rewrite A11, Hout3, Ho2. exact Houter.
      + change (Join.ingraph j4 = true). congruence.
      + change (Join.cdefs j4 = cdefs0). congruence.
      + exact Hs6.
    - (* nothing was linked: no linked node was stale, the join has nothing more to see *)
      destruct Hq3 as [Hr|Hq3]; [congruence|].
      destruct (phase_fold_quiet condC (Join.cdefs j3) j3 condC_only St3 Hg3' Hq3) as (Hp4 & Hv4).
      rewrite <- phaseC_fold in Hp4, Hv4. fold j4 in Hp4, Hv4.
      apply (post_final j2).
      + unfold post. split; [exact St4|]. rewrite A2, A1, A11, A8, A10, Hp4, A6, A12, A4.
        repeat (split; [assumption|]).
        rewrite Hv3. unfold F_join. apply map_eq. intros k. rewrite !lookup_fmap.
        destruct (Join.outer j2 !! k) as [x|] eqn:Eo; simpl; [|reflexivity].
        unfold val_of. rewrite Hv4; [reflexivity|]. exists k. rewrite Hl3. exact Eo.
      + rewrite Ho2. exact Houter.
      + exact Hg2.
      + exact Hc2.
      + exact Hs4.
  Qed.

  Definition event_ok (e : Join.ev) : Prop :=
    match e with
    | Join.SetOuter m => consistent m
    | Join.SetInner x _ => x ∉ map fst cdefs0      (* only vars are written directly *)
    | _ => True
    end.

  Lemma jinv_step j e :
    jinv j -> event_ok e -> (fixed = true \/ e <> Join.Unobserve) -> jinv (Join.step fixed j e).
  Proof.
    intros Hinv Hok Hun. pose proof Hinv as [St Hlinked Hdom Houter Hpending Hfresh Hout Hcdefs Hsinv].
    destruct e as [m|x v|i v| | |early]; simpl.
    - constructor; simpl.
      + constructor; simpl; apply St.
      + exact Hlinked.
      + exact Hdom.
      + exact Hok.
      + exact Hpending.
      + exact Hfresh.
      + exact Hout.
      + exact Hcdefs.
      + exact Hsinv.
    - constructor; simpl.
      + constructor; simpl; apply St.
      + exact Hlinked.
      + exact Hdom.
      + exact Houter.
      + exact Hpending.
      + intros Hg. destruct (Hfresh Hg) as [Hl|Hr]; [left; exact Hl|right].
        intros k x' Hk. rewrite Hg. simpl.
        destruct (decide (x' = x)) as [->|Hne].
        * right. left. rewrite bool_decide_true by (apply (st_edges j St Hg); exists k; exact Hk). set_solver.
        * destruct (Hr k x' Hk) as [Hv|[Hd|Hc]].
          -- left. rewrite Hv. unfold val_of. rewrite lookup_insert_ne by congruence. reflexivity.
          -- right. left. destruct (bool_decide (x ∈ Join.edges j)); set_solver.
          -- right. right. exact Hc.
      + exact Hout.
      + exact Hcdefs.
      + exact Hsinv.
    - constructor; simpl.
      + constructor; simpl; apply St.
      + exact Hlinked.
      + exact Hdom.
      + exact Houter.
      + exact Hpending.
      + intros Hg. destruct (Hfresh Hg) as [Hl|Hr]; [left; exact Hl|right].
        intros k x Hk. destruct (Hr k x Hk) as [Hv|[Hd|Hc]]; [left; exact Hv|right; left; exact Hd|].
        right. right. set_solver.
      + exact Hout.
      + exact Hcdefs.
      + intros x. simpl. rewrite elem_of_union, elem_of_list_to_set. intros [Hx|Hx]; [apply Hsinv; exact Hx|].
        apply elem_of_list_fmap in Hx as (p & -> & Hp). apply elem_of_list_filter in Hp as [_ Hp].
        apply elem_of_list_fmap. eauto.
    - destruct (Join.ingraph j) eqn:Hg; [|exact Hinv].
      constructor; simpl.
      + constructor; simpl; try apply St. discriminate.
      + exact Hlinked.
      + exact Hdom.
      + exact Houter.
      + exact Hpending.
      + discriminate.
      + intros _. left. destruct Hun as [Hun|Hun]; [auto|congruence].
      + exact Hcdefs.
      + exact Hsinv.
    - destruct (Join.ingraph j) eqn:Hg; [exact Hinv|].
      constructor; simpl.
      + constructor; simpl; try apply St. intros _ x. rewrite elem_of_list_to_set. apply (st_parents j St).
      + exact Hlinked.
      + exact Hdom.
      + exact Houter.
      + exact Hpending.
      + intros _. destruct (Hout eq_refl) as [Hl|Hempty]; [left; exact Hl|right].
        intros k x Hk. rewrite Hempty, lookup_empty in Hk. discriminate.
      + discriminate.
      + exact Hcdefs.
      + intros x. simpl. rewrite elem_of_union, elem_of_list_to_set. intros [Hx|Hx]; [apply Hsinv; exact Hx|].
        apply elem_of_list_filter in Hx as [Hx _]. apply is_lazy_known. exact Hx.
    - destruct (Join.ingraph j) eqn:Hg.
      + apply join_pass_spec; assumption.
      + (* the join is not in the graph: only nodes observed elsewhere recompute *)
        unfold Join.pass. rewrite Hg. rewrite phaseC_fold.
        pose proof (phase_fold_frame condC (Join.cdefs j) j)
          as (A1 & A2 & A3 & A4 & A5 & A6 & A7 & A8 & A9 & A10 & A11 & A12 & A13 & A14).
        set (j' := fold_left (pstep condC) (Join.cdefs j) j) in *.
        constructor.
        * eapply structure_phase_frame; [apply phase_fold_frame|exact St].
        * congruence.
        * intros k. rewrite A4, A2. apply Hdom.
        * rewrite A11. exact Houter.
        * rewrite A14 by exact Hg. exact Hpending.
        * intros Hg'. congruence.
        * intros _. rewrite A6, A2. apply Hout. reflexivity.
        * congruence.
        * intros x Hx. rewrite A12. apply Hsinv. apply A13. exact Hx.
  Qed.

  Lemma jinv_init vals0 bvals0 : jinv (Join.init vals0 bvals0 cdefs0).
  Proof.
    constructor; simpl.
    - constructor; simpl.
      + intros x k. rewrite !lookup_empty. split; discriminate.
      + constructor.
      + intros x. split; [intros H; inversion H|intros [k Hk]; rewrite lookup_empty in Hk; discriminate].
      + discriminate.
      + intros k x Hk. rewrite lookup_empty in Hk. discriminate.
    - reflexivity.
    - intros k. rewrite !lookup_empty. tauto.
    - intros k x Hk. rewrite lookup_empty in Hk. discriminate.
    - reflexivity.
    - discriminate.
    - intros _. right. reflexivity.
    - reflexivity.
    - intros x. simpl. rewrite elem_of_list_to_set. auto.
  Qed.

  Lemma jinv_run (evs : list Join.ev) j :
    jinv j ->
    (forall e, e ∈ evs -> event_ok e) ->
    (fixed = true \/ Join.Unobserve ∉ evs) ->
    jinv (fold_left (Join.step fixed) evs j).
  Proof.
    revert j. induction evs as [|e evs IH]; intros j Hinv Hok Hun; simpl; [exact Hinv|].
    apply IH.
    - apply jinv_step; [exact Hinv| |].
      + apply Hok. left.
      + destruct Hun as [Hf|Hun]; [left; exact Hf|right]. intros ->. apply Hun. left.
    - intros e' He'. apply Hok. right. exact He'.
    - destruct Hun as [Hf|Hun]; [left; exact Hf|right]. intros Hin. apply Hun. right. exact Hin.
  Qed.

  (** Join equals "read every inner incremental" after every pass in which it is observed,
      for every history of outer-map changes, writes to inner vars and to the base vars of
      computed inner nodes, (un)observations and passes, and for every order in which the
      engine schedules the computed nodes the join does not depend on yet ([early]) --
      provided each inner node keeps to one key ([consistent], witnessed by [keyOf]) and
      either the node is never unobserved or the variant with the relink repair is used. *)
  Theorem join_correct (vals0 bvals0 : zmap) (evs : list Join.ev) (early : list Z) :
    (forall e, e ∈ evs -> event_ok e) ->
    (fixed = true \/ Join.Unobserve ∉ evs) ->
    let j := fold_left (Join.step fixed) (evs ++ [Join.Pass early]) (Join.init vals0 bvals0 cdefs0) in
    Join.ingraph j = true -> Join.value j = F_join (Join.vals j) (Join.outer j).
  Proof.
    intros Hok Hun j. unfold j. rewrite fold_left_app. simpl.
    set (j0 := fold_left (Join.step fixed) evs (Join.init vals0 bvals0 cdefs0)).
    assert (Hinv : jinv j0) by (apply jinv_run; [apply jinv_init|exact Hok|exact Hun]).
    destruct (Join.ingraph j0) eqn:Hg.
    - intros _. apply join_pass_spec; assumption.
    - unfold Join.pass. rewrite Hg. rewrite phaseC_fold.
      pose proof (phase_fold_frame condC (Join.cdefs j0) j0) as (_ & _ & _ & _ & _ & _ & _ & A8 & _).
      intros Hg'. congruence.
  Qed.
End join.

Lemma event_ok_spelled_out (keyOf : Z -> Z) (cdefs0 : list (Z * Join.cdef)) (e : Join.ev) :
  event_ok keyOf cdefs0 e <->
  match e with
  | Join.SetOuter m => forall k x, m !! k = Some x -> keyOf x = k
  | Join.SetInner x _ => x ∉ map fst cdefs0
  | _ => True
  end.
Proof. destruct e; reflexivity. Qed.

(* histories without computed nodes: only the outer maps have to be checked *)
Lemma events_ok_vars keyOf (evs : list Join.ev) :
  (forall m, Join.SetOuter m ∈ evs -> consistent keyOf m) -> forall e, e ∈ evs -> event_ok keyOf [] e.
Proof.
  intros H e He. destruct e; simpl; auto.
  intros Hx. inversion Hx.
Qed.

(** ** the code before the relink repair ([fixed = false]) does not satisfy the unrestricted
    statement, and neither variant does once an inner node sits under two keys or moves *)
Definition join_holds (fixed : bool) (vals0 : zmap) (evs : list Join.ev) : Prop :=
  let j := fold_left (Join.step fixed) (evs ++ [Join.Pass []]) (Join.init vals0 ∅ []) in
  Join.ingraph j = true -> Join.value j = F_join (Join.vals j) (Join.outer j).

Definition injective_map (m : zmap) : Prop := forall k k' x, m !! k = Some x -> m !! k' = Some x -> k = k'.

(* witness 1: unobserve the join, write an inner var, observe again *)
Definition relink_vals0 : zmap := {[0 := 1]}.
Definition relink_history : list Join.ev :=
  [Join.Observe; Join.SetOuter {[0 := 0]}; Join.Pass []; Join.Unobserve; Join.SetInner 0 5; Join.Observe].

Lemma relink_history_consistent :
  forall m, Join.SetOuter m ∈ relink_history -> consistent (fun _ => 0) m.
Proof.
  intros m Hm. unfold relink_history in Hm.
  repeat (apply elem_of_cons in Hm as [Hm|Hm]; [try discriminate|]); [|inversion Hm].
  inversion Hm; subst. intros k x Hk. apply lookup_singleton_Some in Hk as [-> _]. reflexivity.
Qed.

Theorem join_refuted_relink :
  exists vals0 evs keyOf,
    (forall m, Join.SetOuter m ∈ evs -> consistent keyOf m) /\ ~ join_holds false vals0 evs.
Proof.
  exists relink_vals0, relink_history, (fun _ => 0). split; [exact relink_history_consistent|].
  unfold join_holds. intros H.
  assert (Hg : Join.ingraph (fold_left (Join.step false) (relink_history ++ [Join.Pass []]) (Join.init relink_vals0 ∅ [])) = true)
    by (vm_compute; reflexivity).
  specialize (H Hg). clear Hg. apply (f_equal (fun m : zmap => m !! 0)) in H. vm_compute in H. discriminate H.
Qed.

(* the value the code leaves behind, and the one it should hold *)
Example join_relink_stale_value :
  let j := fold_left (Join.step false) (relink_history ++ [Join.Pass []]) (Join.init relink_vals0 ∅ []) in
  Join.value j !! 0 = Some 1 /\ F_join (Join.vals j) (Join.outer j) !! 0 = Some 5.
Proof. vm_compute. auto. Qed.

(* the repaired variant is right on the same history (an instance of join_correct) *)
Example join_relink_fixed : join_holds true relink_vals0 relink_history.
Proof.
  unfold join_holds. intros Hg.
  exact (join_correct true (fun _ => 0) [] relink_vals0 ∅ relink_history []
           (events_ok_vars _ _ relink_history_consistent) (or_introl eq_refl) Hg).
Qed.

(* witness 2: one inner node under two keys of the same outer map; no unobserve involved,
   and the repair for witness 1 does not help *)
Definition shared_history : list Join.ev :=
  [Join.Observe; Join.SetOuter {[0 := 0; 1 := 0]}; Join.Pass []; Join.SetInner 0 5].

Theorem join_refuted_shared_inner :
  exists vals0 evs, Join.Unobserve ∉ evs /\ forall fixed, ~ join_holds fixed vals0 evs.
Proof.
  exists relink_vals0, shared_history. split.
  - unfold shared_history. intros Hm.
    repeat (apply elem_of_cons in Hm as [Hm|Hm]; [try discriminate|]). inversion Hm.
  - intros fixed H. unfold join_holds in H.
    assert (Hg : Join.ingraph (fold_left (Join.step fixed) (shared_history ++ [Join.Pass []]) (Join.init relink_vals0 ∅ [])) = true)
      by (destruct fixed; vm_compute; reflexivity).
    specialize (H Hg). clear Hg. apply (f_equal (fun m : zmap => m !! 0)) in H. destruct fixed; vm_compute in H; discriminate H.
Qed.

(* witness 3: every outer map injective, no unobserve; an inner node moves from key 2 to
   the smaller key 0 between two passes *)
Definition moved_vals0 : zmap := {[7 := 8]}.
Definition moved_history : list Join.ev :=
  [Join.Observe; Join.SetOuter {[2 := 7]}; Join.Pass []; Join.SetOuter {[0 := 7]}; Join.Pass []; Join.SetInner 7 3].

Theorem join_refuted_moved_inner :
  exists vals0 evs,
    Join.Unobserve ∉ evs /\ (forall m, Join.SetOuter m ∈ evs -> injective_map m) /\
    forall fixed, ~ join_holds fixed vals0 evs.
Proof.
  exists moved_vals0, moved_history. split; [|split].
  - unfold moved_history. intros Hm.
    repeat (apply elem_of_cons in Hm as [Hm|Hm]; [try discriminate|]). inversion Hm.
  - intros m Hm. unfold moved_history in Hm.
    repeat (apply elem_of_cons in Hm as [Hm|Hm]; [try discriminate|]); [| |inversion Hm];
      inversion Hm; subst; intros k k' x Hk Hk';
      apply lookup_singleton_Some in Hk as [<- _]; apply lookup_singleton_Some in Hk' as [<- _]; reflexivity.
  - intros fixed H. unfold join_holds in H.
    assert (Hg : Join.ingraph (fold_left (Join.step fixed) (moved_history ++ [Join.Pass []]) (Join.init moved_vals0 ∅ [])) = true)
      by (destruct fixed; vm_compute; reflexivity).
    specialize (H Hg). clear Hg. apply (f_equal (fun m : zmap => m !! 0)) in H. destruct fixed; vm_compute in H; discriminate H.
Qed.

(** * MapValues with an arbitrary [equal]: the documented promise

    "fn is called for a key when it is added or its value changes, and not at all for keys
    that stayed put; pass nil to recompute a key only when it is added, never when rebound."
    So the output is [fn] applied to the value each key had when it was last REPORTED. *)
Definition seen_step (eq : eqfn) (g last cur : zmap) : zmap :=
  map_imap (fun k v' => match last !! k with
                        | Some v => if veqb eq v v' then g !! k else Some v'
                        | None => Some v'
                        end) cur.

Definition seen_fold (eq : eqfn) (ms : list zmap) : zmap * zmap :=
  fold_left (fun gl cur => (seen_step eq gl.1 gl.2 cur, cur)) ms (∅, ∅).

Theorem map_values_seen (eq : eqfn) (f : Z -> Z -> Z) (ms : list zmap) :
  MapValues.value (fold_left (MapValues.Stabilize eq f) ms MapValues.init)
  = F_map_values f (seen_fold eq ms).1.
Proof.
  unfold seen_fold.
  assert (H : forall s g,
    MapValues.value s = F_map_values f g -> (forall k, g !! k = None <-> MapValues.last s !! k = None) ->
    MapValues.value (fold_left (MapValues.Stabilize eq f) ms s)
    = F_map_values f (fold_left (fun gl cur => (seen_step eq gl.1 gl.2 cur, cur)) ms (g, MapValues.last s)).1).
  { induction ms as [|m ms IH]; intros s g Hv Hd; simpl; [exact Hv|].
    apply (IH (MapValues.Stabilize eq f s m) (seen_step eq g (MapValues.last s) m)).
    - apply map_eq. intros k.
      rewrite mv_stabilize_value, fold_diff_lookup, Hv, !F_map_values_lookup.
      unfold seen_step. rewrite map_lookup_imap. unfold diff_at, classify.
      destruct (MapValues.last s !! k) as [v|] eqn:El, (m !! k) as [v'|] eqn:Em; simpl; try reflexivity.
      + destruct (veqb eq v v'); reflexivity.
      + rewrite (proj2 (Hd k) El). reflexivity.
    - intros k. simpl. unfold seen_step. rewrite map_lookup_imap.
      destruct (m !! k) as [v'|] eqn:Em; simpl; [|tauto].
      destruct (MapValues.last s !! k) as [v|] eqn:El; [|split; discriminate].
      destruct (veqb eq v v'); [|split; discriminate].
      split; [|discriminate]. intros Hg. apply Hd in Hg. congruence. }
  apply (H MapValues.init ∅).
  - apply map_eq. intros k. rewrite F_map_values_lookup. simpl. rewrite !lookup_empty. reflexivity.
  - intros k. simpl. rewrite !lookup_empty. tauto.
Qed.

(** * Non-vacuity: the hypotheses are satisfiable, the conclusions are about real work *)
Example respects_exact_any : respects (Some Z.eqb) (fun k v => 2 * k + v).
Proof. intros k a b H. apply Z.eqb_eq in H. subst. reflexivity. Qed.

Example respects_coarse : respects (Some (fun a b => (a ÷ 2) =? (b ÷ 2))) (fun k v => k + 3 * (v ÷ 2)).
Proof. intros k a b H. simpl in H. apply Z.eqb_eq in H. rewrite H. reflexivity. Qed.

Example respects_nil : respects None (fun k _ => 2 * k + 1).
Proof. intros k a b _. reflexivity. Qed.

Example map_values_example :
  let ms : list zmap := [{[1 := 10; 2 := 20]}; {[2 := 21; 3 := 30]}; ∅; {[5 := 1; 1 := 2; 9 := 3]}] in
  entries (MapValues.value (fold_left (MapValues.Stabilize (Some Z.eqb) (fun k v => 2 * k + v)) ms MapValues.init))
  = [(1, 4); (5, 11); (9, 21)].
Proof. vm_compute. reflexivity. Qed.

(* with equal = nil a rebind is ignored: the promise is about first-seen values *)
Example map_values_nil_keeps_first_seen :
  let ms : list zmap := [{[1 := 10]}; {[1 := 11]}] in
  entries (MapValues.value (fold_left (MapValues.Stabilize None (fun k v => v)) ms MapValues.init)) = [(1, 10)]
  /\ entries (seen_fold None ms).1 = [(1, 10)].
Proof. vm_compute. auto. Qed.

Example merge_respects_example :
  merge_respects (Some Z.eqb) (Some Z.eqb)
    (fun k e => if me_has_left e && me_has_right e then Some (me_left e + me_right e) else None).
Proof.
  split; intros; simpl in H; apply Z.eqb_eq in H; subst; reflexivity.
Qed.

Example unordered_fold_contract_example :
  let add := fun (acc k v : Z) => acc + k * v in
  let remove := fun (acc k v : Z) => acc - k * v in
  (forall a k1 v1 k2 v2, add (add a k1 v1) k2 v2 = add (add a k2 v2) k1 v1) /\
  (forall a k v, remove (add a k v) k v = a).
Proof. simpl. split; intros; lia. Qed.

Lemma consistent_empty keyOf : consistent keyOf ∅.
Proof. intros k x Hk. rewrite lookup_empty in Hk. discriminate. Qed.

Lemma consistent_insert keyOf k x (m : zmap) :
  keyOf x = k -> consistent keyOf m -> consistent keyOf (<[k := x]> m).
Proof.
  intros Hx Hm k' x' Hk. destruct (decide (k' = k)) as [->|Hne].
  - rewrite lookup_insert in Hk. congruence.
  - rewrite lookup_insert_ne in Hk by congruence. apply Hm. exact Hk.
Qed.

Example join_hypotheses_example :
  let evs := [Join.Observe; Join.SetOuter {[0 := 0; 1 := 1]}; Join.Pass []; Join.SetInner 1 7; Join.Pass [];
              Join.SetOuter {[0 := 4; 1 := 1]}; Join.SetInner 4 9] in
  let keyOf := fun x => Z.rem x 4 in
  (forall m, Join.SetOuter m ∈ evs -> consistent keyOf m) /\ Join.Unobserve ∉ evs /\
  let j := fold_left (Join.step false) (evs ++ [Join.Pass []]) (Join.init {[0 := 1; 1 := 2; 4 := 5]} ∅ []) in
  Join.ingraph j = true /\ entries (Join.value j) = [(0, 9); (1, 7)].
Proof.
  split; [|split].
  - intros m Hm. repeat (apply elem_of_cons in Hm as [Hm|Hm]; [try discriminate|]); [| |inversion Hm];
      inversion Hm; subst;
      repeat (apply consistent_insert; [reflexivity|]); apply consistent_empty.
  - intros Hm. repeat (apply elem_of_cons in Hm as [Hm|Hm]; [try discriminate|]). inversion Hm.
  - vm_compute. auto.
Qed.

(** ** computed inner nodes: the second run of the join in one pass is what makes it right *)
Definition computed_cdefs : list (Z * Join.cdef) := [(8, Join.CDef false 1 0 10); (12, Join.CDef true 3 0 50)].
(* node 8 (observed elsewhere) is computed by the first pass at 1*1+10 = 11; then, in ONE pass,
   base0 becomes 5 and key 0 is bound to node 8 *)
Definition computed_history : list Join.ev :=
  [Join.Observe; Join.Pass []; Join.SetBase 0 5; Join.SetOuter {[0 := 8]}].

Example join_second_run_needed :
  let j0 := fold_left (Join.step true) computed_history (Join.init ∅ {[0 := 1]} computed_cdefs) in
  let j1 := Join.first_run true [] j0 in              (* the engine takes node 8 after the join *)
  Join.value j1 !! 0 = Some 11 /\                      (* the join linked 8 and read its old value *)
  Join.vals j1 !! 8 = Some 15 /\                       (* 8 has recomputed since, and told the join *)
  Join.pending j1 = [0] /\ Join.restale j1 = true /\   (* which link had marked stale *)
  Join.value (Join.pass true [] j0) !! 0 = Some 15 /\  (* so it runs again and picks 15 up *)
  Join.value (Join.pass true [8] j0) !! 0 = Some 15.   (* the other schedule: 8 before the join *)
Proof. vm_compute. repeat split; reflexivity. Qed.

(* the hypotheses of join_correct hold for a history with computed nodes (one observed elsewhere,
   one lazy), keys repointed between a var and a computed node, base writes in the linking pass *)
Example join_computed_hypotheses :
  let keyOf := fun x => Z.rem x 4 in
  let evs := computed_history ++ [Join.Pass []; Join.SetOuter {[0 := 12; 1 := 1]}; Join.SetBase 0 2;
                                  Join.SetInner 1 9; Join.Pass [12]; Join.SetOuter {[0 := 4; 1 := 1]}] in
  (forall e, e ∈ evs -> event_ok keyOf computed_cdefs e) /\ Join.Unobserve ∉ evs /\
  let j := fold_left (Join.step true) (evs ++ [Join.Pass []]) (Join.init {[1 := 2; 4 := 5]} {[0 := 1]} computed_cdefs) in
  Join.ingraph j = true /\ entries (Join.value j) = [(0, 5); (1, 9)].
Proof.
  split; [|split].
  - intros e He. unfold computed_history in He. simpl in He.
    repeat (apply elem_of_cons in He as [->|He]; [simpl; auto|]); try (inversion He; fail);
      try (repeat (apply consistent_insert; [reflexivity|]); apply consistent_empty).
    intros Hx. unfold computed_cdefs in Hx. simpl in Hx.
    repeat (apply elem_of_cons in Hx as [Hx|Hx]; [discriminate|]). inversion Hx.
  - intros Hm. unfold computed_history in Hm. simpl in Hm.
    repeat (apply elem_of_cons in Hm as [Hm|Hm]; [try discriminate|]). inversion Hm.
  - vm_compute. auto.
Qed.
