(** Proofs for C17: every mapi operator of Mapi.v equals its plain definition of
    MapiSpec.v on the current input, for every history of inputs. *)
From incr Require Import Base MapiSpec Mapi.

(** * Generic list / fold facts *)

Lemma fold_left_ext' {A B} (f g : A -> B -> A) (l : list B) (a : A) :
  (forall a b, f a b = g a b) -> fold_left f l a = fold_left g l a.
Proof.
  intros Hfg. revert a. induction l as [|b l IH]; intros a; simpl; [reflexivity|].
  rewrite Hfg. apply IH.
Qed.

Lemma last_cons_indep {A} (x : A) (l : list A) (d d' : A) : List.last (x :: l) d = List.last (x :: l) d'.
Proof. revert x. induction l as [|y l IH]; intros x; [reflexivity|]. simpl in *. apply IH. Qed.

(** A history is a list of inputs; the invariant is re-established by every recompute. *)
Lemma history_inv {S I} (stab : S -> I -> S) (P : S -> Prop) (cur : S -> I) (init : S) (ms : list I) :
  P init ->
  (forall s x, P s -> P (stab s x)) ->
  (forall s x, cur (stab s x) = x) ->
  P (fold_left stab ms init) /\ cur (fold_left stab ms init) = List.last ms (cur init).
Proof.
  intros Hinit Hstep Hcur. revert init Hinit.
  induction ms as [|m ms IH]; intros init Hinit; simpl; [auto|].
  destruct (IH (stab init m) (Hstep _ _ Hinit)) as [HP Hc]. split; [exact HP|].
  rewrite Hc, Hcur. destruct ms as [|m' ms]; [reflexivity|].
  change (List.last (m :: m' :: ms) (cur init)) with (List.last (m' :: ms) (cur init)).
  apply last_cons_indep.
Qed.

(** * Sorted keys, entries *)

Lemma elem_of_sorted_keys (s : gset Z) k : k ∈ sorted_keys s <-> k ∈ s.
Proof. unfold sorted_keys. rewrite merge_sort_Permutation. apply elem_of_elements. Qed.

Lemma NoDup_sorted_keys (s : gset Z) : NoDup (sorted_keys s).
Proof. unfold sorted_keys. rewrite merge_sort_Permutation. apply NoDup_elements. Qed.

Lemma Sorted_sorted_keys (s : gset Z) : Sorted Z.le (sorted_keys s).
Proof. unfold sorted_keys. apply Sorted_merge_sort. apply _. Qed.

Lemma elem_of_keys_of (m : zmap) k : k ∈ keys_of m <-> is_Some (m !! k).
Proof. unfold keys_of. rewrite elem_of_sorted_keys. apply elem_of_dom. Qed.

Lemma elem_of_entries (m : zmap) k v : (k, v) ∈ entries m <-> m !! k = Some v.
Proof.
  unfold entries. rewrite elem_of_list_omap. split.
  - intros (k' & _ & Hk). destruct (m !! k') eqn:E; inversion Hk; subst. exact E.
  - intros Hk. exists k. split; [apply elem_of_keys_of; eauto|]. rewrite Hk. reflexivity.
Qed.

Lemma entries_fst (m : zmap) : map fst (entries m) = keys_of m.
Proof.
  unfold entries.
  assert (H : forall ks, (forall k, k ∈ ks -> is_Some (m !! k)) ->
    map fst (omap (fun k => match m !! k with Some v => Some (k, v) | None => None end) ks) = ks).
  { induction ks as [|k ks IH]; intros Hks; simpl; [reflexivity|].
    destruct (Hks k) as [v Hv]; [left|]. rewrite Hv. simpl. f_equal.
    apply IH. intros k' Hk'. apply Hks. right. exact Hk'. }
  apply H. intros k. apply elem_of_keys_of.
Qed.

Lemma NoDup_entries_fst (m : zmap) : NoDup (map fst (entries m)).
Proof. rewrite entries_fst. apply NoDup_sorted_keys. Qed.

Lemma list_to_map_entries (m : zmap) : list_to_map (entries m) = m.
Proof.
  apply map_eq. intros k. destruct (m !! k) as [v|] eqn:E.
  - apply elem_of_list_to_map; [apply NoDup_entries_fst|]. apply elem_of_entries. exact E.
  - apply not_elem_of_list_to_map. rewrite entries_fst. rewrite elem_of_keys_of, E.
    intros [? ?]; discriminate.
Qed.

(** * The spec diff, pointwise *)

Lemma classify_key eq k o n c : classify eq k o n = Some c -> ckey c = k.
Proof.
  unfold classify. destruct o, n; try destruct (veqb eq _ _); intros H; inversion H; reflexivity.
Qed.

Definition diff_at (eq : eqfn) (m m' : zmap) (k : Z) : option change :=
  classify eq k (m !! k) (m' !! k).

Lemma diff_at_outside eq (m m' : zmap) k : k ∉ dom m ∪ dom m' -> diff_at eq m m' k = None.
Proof.
  intros Hk. unfold diff_at.
  rewrite (proj1 (not_elem_of_dom m k)), (proj1 (not_elem_of_dom m' k)); [reflexivity| |]; set_solver.
Qed.

Lemma elem_of_merge_diff eq m m' c : c ∈ merge_diff eq m m' <-> diff_at eq m m' (ckey c) = Some c.
Proof.
  unfold merge_diff. rewrite elem_of_list_omap. split.
  - intros (k & _ & Hk). rewrite (classify_key _ _ _ _ _ Hk). exact Hk.
  - intros Hc. exists (ckey c). split; [|exact Hc].
    apply elem_of_sorted_keys. destruct (decide (ckey c ∈ dom m ∪ dom m')) as [|Hn]; [assumption|].
    rewrite (diff_at_outside _ _ _ _ Hn) in Hc. discriminate.
Qed.

(** Folding per-key edits over a list of distinct keys. *)
Lemma fold_omap_lookup {V} (g : Z -> option change) (h : change -> option V -> option V)
    (ks : list Z) (out : gmap Z V) (k : Z) :
  (forall k c, g k = Some c -> ckey c = k) -> NoDup ks ->
  fold_left (fun o c => partial_alter (h c) (ckey c) o) (omap g ks) out !! k =
  if decide (k ∈ ks) then match g k with Some c => h c (out !! k) | None => out !! k end
  else out !! k.
Proof.
  intros Hg. revert out. induction ks as [|k0 ks IH]; intros out Hnd; simpl.
  { destruct (decide (k ∈ [])) as [H|]; [inversion H|reflexivity]. }
  inversion Hnd as [|? ? Hk0 Hnd']; subst.
  destruct (g k0) as [c|] eqn:Eg; simpl.
  - rewrite IH by assumption. pose proof (Hg _ _ Eg) as Hc. rewrite Hc.
    destruct (decide (k = k0)) as [->|Hne].
    + destruct (decide (k0 ∈ ks)); [contradiction|].
      destruct (decide (k0 ∈ k0 :: ks)) as [_|Hn]; [|exfalso; apply Hn; left].
      rewrite Eg. apply lookup_partial_alter.
    + rewrite lookup_partial_alter_ne by congruence.
      destruct (decide (k ∈ ks)) as [Hin|Hnin].
      * destruct (decide (k ∈ k0 :: ks)) as [_|Hn]; [reflexivity|exfalso; apply Hn; right; exact Hin].
      * destruct (decide (k ∈ k0 :: ks)) as [Hin'|_]; [|reflexivity].
        inversion Hin'; subst; [congruence|contradiction].
  - rewrite IH by assumption.
    destruct (decide (k = k0)) as [->|Hne].
    + destruct (decide (k0 ∈ ks)); [contradiction|].
      destruct (decide (k0 ∈ k0 :: ks)) as [_|Hn]; [|exfalso; apply Hn; left].
      rewrite Eg. reflexivity.
    + destruct (decide (k ∈ ks)) as [Hin|Hnin].
      * destruct (decide (k ∈ k0 :: ks)) as [_|Hn]; [reflexivity|exfalso; apply Hn; right; exact Hin].
      * destruct (decide (k ∈ k0 :: ks)) as [Hin'|_]; [|reflexivity].
        inversion Hin'; subst; [congruence|contradiction].
Qed.

(** The workhorse: a loop of per-key edits over the diff, read back at one key. *)
Lemma fold_diff_lookup {V} (h : change -> option V -> option V) eq (m m' : zmap) (out : gmap Z V) k :
  fold_left (fun o c => partial_alter (h c) (ckey c) o) (merge_diff eq m m') out !! k =
  match diff_at eq m m' k with Some c => h c (out !! k) | None => out !! k end.
Proof.
  unfold merge_diff.
  rewrite (fold_omap_lookup (fun k => classify eq k (m !! k) (m' !! k)) h).
  - destruct (decide (k ∈ sorted_keys (dom m ∪ dom m'))) as [Hin|Hnin]; [reflexivity|].
    rewrite elem_of_sorted_keys in Hnin. rewrite (diff_at_outside _ _ _ _ Hnin). reflexivity.
  - intros k0 c. apply classify_key.
  - apply NoDup_sorted_keys.
Qed.

(** * MapValues *)
Section map_values.
  Context (eq : eqfn) (f : Z -> Z -> Z).

  Definition mv_h (c : change) (_ : option Z) : option Z :=
    match c with
    | Removed _ _ => None
    | Added k v | Updated k _ v => Some (f k v)
    end.

  Lemma mv_stabilize_value s cur :
    MapValues.value (MapValues.Stabilize eq f s cur) =
    fold_left (fun o c => partial_alter (mv_h c) (ckey c) o)
              (merge_diff eq (MapValues.last s) cur) (MapValues.value s).
  Proof.
    unfold MapValues.Stabilize; simpl. apply fold_left_ext'. intros o [k v|k v|k v v']; reflexivity.
  Qed.

  Lemma F_map_values_lookup (m : zmap) k : F_map_values f m !! k = f k <$> m !! k.
  Proof. unfold F_map_values. rewrite map_lookup_imap. destruct (m !! k); reflexivity. Qed.

  Lemma mv_step s cur :
    respects eq f ->
    MapValues.value s = F_map_values f (MapValues.last s) ->
    MapValues.value (MapValues.Stabilize eq f s cur) = F_map_values f cur.
  Proof.
    intros Hr Hinv. apply map_eq. intros k.
    rewrite mv_stabilize_value, fold_diff_lookup, Hinv, !F_map_values_lookup.
    unfold diff_at, classify.
    destruct (MapValues.last s !! k) as [v|] eqn:El, (cur !! k) as [v'|] eqn:Ec; simpl; try reflexivity.
    destruct (veqb eq v v') eqn:Ev; simpl; [|reflexivity].
    f_equal. apply Hr. exact Ev.
  Qed.

  Theorem map_values_correct (ms : list zmap) :
    respects eq f ->
    MapValues.value (fold_left (MapValues.Stabilize eq f) ms MapValues.init) = F_map_values f (List.last ms ∅).
  Proof.
    intros Hr.
    destruct (history_inv (MapValues.Stabilize eq f)
                (fun s => MapValues.value s = F_map_values f (MapValues.last s))
                MapValues.last MapValues.init ms) as [HP Hc].
    - apply map_eq. intros k. rewrite F_map_values_lookup. simpl. rewrite !lookup_empty. reflexivity.
    - intros s x Hs. simpl. apply (mv_step s x Hr Hs).
    - reflexivity.
    - rewrite HP, Hc. reflexivity.
  Qed.
End map_values.

(** * FilterMapValues *)
Section filter_map_values.
  Context (eq : eqfn) (fn : Z -> Z -> option Z).

  Definition fmv_h (c : change) (_ : option Z) : option Z :=
    match c with
    | Removed _ _ => None
    | Added k v | Updated k _ v => fn k v
    end.

  Lemma fmv_stabilize_value s cur :
    FilterMapValues.value (FilterMapValues.Stabilize eq fn s cur) =
    fold_left (fun o c => partial_alter (fmv_h c) (ckey c) o)
              (merge_diff eq (FilterMapValues.last s) cur) (FilterMapValues.value s).
  Proof.
    unfold FilterMapValues.Stabilize; simpl. apply fold_left_ext'.
    intros o [k v|k v|k v v']; cbv [fmv_h ckey]; try reflexivity; destruct (fn k _); reflexivity.
  Qed.

  Lemma F_filter_map_values_lookup (m : zmap) k : F_filter_map_values fn m !! k = m !! k ≫= fn k.
  Proof. unfold F_filter_map_values. apply map_lookup_imap. Qed.

  Lemma fmv_step s cur :
    respects eq fn ->
    FilterMapValues.value s = F_filter_map_values fn (FilterMapValues.last s) ->
    FilterMapValues.value (FilterMapValues.Stabilize eq fn s cur) = F_filter_map_values fn cur.
  Proof.
    intros Hr Hinv. apply map_eq. intros k.
    rewrite fmv_stabilize_value, fold_diff_lookup, Hinv, !F_filter_map_values_lookup.
    unfold diff_at, classify.
    destruct (FilterMapValues.last s !! k) as [v|] eqn:El, (cur !! k) as [v'|] eqn:Ec; simpl; try reflexivity.
    destruct (veqb eq v v') eqn:Ev; simpl; [|reflexivity].
    apply Hr. exact Ev.
  Qed.

  Theorem filter_map_values_correct (ms : list zmap) :
    respects eq fn ->
    FilterMapValues.value (fold_left (FilterMapValues.Stabilize eq fn) ms FilterMapValues.init)
    = F_filter_map_values fn (List.last ms ∅).
  Proof.
    intros Hr.
    destruct (history_inv (FilterMapValues.Stabilize eq fn)
                (fun s => FilterMapValues.value s = F_filter_map_values fn (FilterMapValues.last s))
                FilterMapValues.last FilterMapValues.init ms) as [HP Hc].
    - apply map_eq. intros k. rewrite F_filter_map_values_lookup. simpl. rewrite !lookup_empty. reflexivity.
    - intros s x Hs. apply (fmv_step s x Hr Hs).
    - reflexivity.
    - rewrite HP, Hc. reflexivity.
  Qed.
End filter_map_values.

(** * Keys *)
Lemma keys_stabilize s m : Keys.Stabilize s m = F_keys m.
Proof. unfold Keys.Stabilize, F_keys. apply entries_fst. Qed.

Theorem keys_correct (ms : list zmap) :
  fold_left Keys.Stabilize ms Keys.init = F_keys (List.last ms ∅).
Proof.
  assert (H : forall init, fold_left Keys.Stabilize ms init = match ms with [] => init | _ => F_keys (List.last ms ∅) end).
  { induction ms as [|m ms IH]; intros init; [reflexivity|]. simpl fold_left. rewrite IH.
    destruct ms as [|m' ms]; [apply keys_stabilize|].
    change (List.last (m :: m' :: ms) ∅) with (List.last (m' :: ms) (∅ : zmap)). reflexivity. }
  rewrite H. destruct ms; [|reflexivity].
  unfold F_keys, keys_of, sorted_keys. simpl. rewrite dom_empty_L, elements_empty. reflexivity.
Qed.

(** What [F_keys] is: the keys of the map, strictly increasing. *)
Lemma F_keys_spec (m : zmap) :
  (forall k, k ∈ F_keys m <-> is_Some (m !! k)) /\ Sorted Z.le (F_keys m) /\ NoDup (F_keys m).
Proof.
  split; [|split].
  - intros k. apply elem_of_keys_of.
  - apply Sorted_sorted_keys.
  - apply NoDup_sorted_keys.
Qed.
