(** C02 / C03 / C11 for a FAULTED ParallelStabilize pass on graphs with binds: the run events of a
    parallel pass in which the function (or cutoff function) of one node returns an error or
    panics.  The runs that happened before the pass stopped -- those before the fault and those of
    the rest of the faulting node's height block -- are described by the state the pass returns,
    for every node that is not queued again then; at most two runs per period of necessity, two
    only in a period that began in the pass. *)
From stdpp Require Import sorting.
From incr Require Import Base Heap HeapSpec HeapProofs EngineDefs Engine EngineRun EngineWf Spec EngineLemmas EngineLocal
     EngineInv EngineInvProofs PassInv PassProofs PassPlanProofs PassBind PassBindProofs PassBindSwap PassBindSwapProofs
     PassBindSwapStep PassBindOps PassBindFault PassBindWrites PassBindTotal PassBindMixed PassBindFaultGen
     ParBind ParBindStep ParBindHistory ParBindWrites ParBindLog PassPlanProofs2 PassBindSwapLog PassBindSwapHandlers
     ParBindHandlers ParBindFault PassBindMultiFault PassBindPlanLog.
From incr Require Import SpecProofs.

Local Arguments valueOf : simpl never.

(** * 1. The log invariant across the faulting recompute *)
(* the reference state with the stamp of [x] replaced: a panic resets the stamp of the node *)
Definition setR (s0 : state) (x : nid) (r : Z) : state :=
  s0 <| nodes := <[x := nd s0 x <| recomputedAt := r |>]> (nodes s0) |>.

Lemma nd_setR_eq s0 x r : nd (setR s0 x r) x = nd s0 x <| recomputedAt := r |>.
Proof. unfold nd at 1, setR. cbn. rewrite lookup_insert. reflexivity. Qed.
Lemma nd_setR_ne s0 x r y : y <> x -> nd (setR s0 x r) y = nd s0 y.
Proof. intros H. unfold nd, setR. cbn. rewrite lookup_insert_ne by congruence. reflexivity. Qed.

Definition sim0 (x : nid) (s0 s0' : state) : Prop :=
  forall n, value (nd s0' n) = value (nd s0 n) /\ changedAt (nd s0' n) = changedAt (nd s0 n) /\
            (n <> x -> recomputedAt (nd s0' n) = recomputedAt (nd s0 n)).

Lemma sim0_refl x s0 : sim0 x s0 s0.
Proof. intros n. auto. Qed.
Lemma sim0_setR x s0 r : sim0 x s0 (setR s0 x r).
Proof.
  intros n. destruct (decide (n = x)) as [->|Hn].
  - rewrite nd_setR_eq. split; [reflexivity|]. split; [reflexivity|]. intros H. contradiction.
  - rewrite (nd_setR_ne s0 x r n Hn). auto.
Qed.

Local Open Scope nat_scope.
Lemma cnt_quiet_le new n evs : Forall quiet new -> cnt n (new ++ evs) <= cnt n evs.
Proof. intros F. rewrite (cnt_quiet new n evs F). destruct (bool_decide _); lia. Qed.
Lemma cnt_quiet_pos new n evs : Forall quiet new -> 1 <= cnt n (new ++ evs) ->
  EvNec n ∉ new /\ cnt n (new ++ evs) = cnt n evs.
Proof.
  intros F H. rewrite (cnt_quiet new n evs F) in *. destruct (decide (EvNec n ∈ new)) as [Hin|Hn].
  - rewrite bool_decide_eq_true_2 in H by exact Hin. lia.
  - rewrite bool_decide_eq_false_2 by exact Hn. auto.
Qed.
Local Close Scope nat_scope.

Lemma LGP_fault s0 st x R st' r new evs :
  (forall y, y <> x -> nd st' y = nd st y) -> nd st' x = nd st x <| recomputedAt := r |> -> r <> stabNum st ->
  (forall y, has st' y <-> has st y) -> stabNum st' = stabNum st ->
  HeapSpec.inv (heap st) -> HeapSpec.inv (heap st') ->
  (forall y, y ∈ Heap.ids (heap st') <-> y = x \/ y ∈ Heap.ids (heap st)) ->
  inGraph (nd st x) = true -> isDone st x = false -> x ∉ R ->
  Forall quiet new -> LGP s0 st (x :: R) evs -> LGP (setR s0 x r) st' R (new ++ evs).
Proof.
  intros Hne Hx Hr Hhas Hk I I' Hids Hgx Hdx HxR FQ [A B C D E F G H IA J K].
  assert (Hf : forall (T : Type) (g : node -> T) n, (forall z a, g (z <| recomputedAt := a |>) = g z) -> g (nd st' n) = g (nd st n)).
  { intros T g n Hgg. destruct (decide (n = x)) as [->|Hn]; [rewrite Hx; apply Hgg|rewrite (Hne n Hn); reflexivity]. }
  assert (Hq : forall n, inHeap st' n = bool_decide (n = x) || inHeap st n).
  { intros n. apply eq_true_iff_eq. rewrite orb_true_iff, bool_decide_eq_true, (inHeap_iff0 st' n I'), (inHeap_iff0 st n I). apply Hids. }
  assert (HW : forall n, inP st' R n = inP st (x :: R) n).
  { intros n. unfold inP. rewrite Hq, (Hf _ inGraph) by reflexivity. destruct (decide (n = x)) as [->|Hn].
    - rewrite bool_decide_eq_true_2 by reflexivity. rewrite (bool_decide_eq_true_2 (x ∈ x :: R)) by left.
      rewrite Hgx. cbn. rewrite orb_true_r. reflexivity.
    - rewrite (bool_decide_eq_false_2 (n = x)) by exact Hn. cbn [orb]. f_equal. f_equal.
      apply bool_decide_ext. rewrite elem_of_cons. tauto. }
  assert (HWx : inP st (x :: R) x = true).
  { unfold inP. rewrite (bool_decide_eq_true_2 (x ∈ x :: R)) by left. rewrite Hgx. apply orb_true_r. }
  assert (Hv : forall p, valueOf st' p = valueOf st p).
  { intros p. apply PassProofs.valueOf_ext. intros n. rewrite (Hf _ nkind), (Hf _ decl), (Hf _ value) by reflexivity. auto. }
  assert (Hdn : forall n, n <> x -> isDone st' n = isDone st n).
  { intros n Hn. unfold isDone. rewrite (Hne n Hn), Hk. reflexivity. }
  assert (Hok : forall e n, ev_node e = Some n -> n <> x -> ev_okP st' e = ev_okP st e).
  { intros e n He Hn. destruct e; try reflexivity; injection He as ->; unfold ev_okP; rewrite (Hdn n Hn), (Hne n Hn);
      [rewrite (map_ext _ _ Hv)|]; reflexivity. }
  assert (Hcx : cnt x evs = 0%nat).
  { destruct (cnt x evs) eqn:Ec; [reflexivity|exfalso]. rewrite (C x Hgx) in Hdx; [discriminate|lia]. }
  assert (Hin : forall e n, e ∈ new ++ evs -> ev_node e = Some n -> e ∈ evs).
  { intros e n He Hn. apply elem_of_app in He as [He|He]; [|exact He]. exfalso.
    pose proof (proj1 (List.Forall_forall _ _) FQ e (proj1 (elem_of_list_In _ _) He)) as Q. unfold quiet in Q. congruence. }
  constructor.
  - intros e n He Hn. rewrite Hhas, (Hf _ nkind) by reflexivity. apply (A e n (Hin e n He Hn) Hn).
  - intros pre e post n E1 E2 E3 E4 Hg Hw.
    destruct (split_quiet_l new evs pre e post E1 FQ ltac:(congruence)) as (pre2 & -> & E5).
    rewrite (Hf _ inGraph) in Hg by reflexivity. rewrite HW in Hw.
    assert (Hn : n <> x) by (intros ->; rewrite HWx in Hw; discriminate).
    rewrite (Hok e n E2 Hn). apply (B pre2 e post n E5 E2); [| |exact Hg|exact Hw].
    + intros X. apply E3, elem_of_app. auto.
    + apply Forall_app in E4. apply E4.
  - intros n Hg Hc. rewrite (Hf _ inGraph) in Hg by reflexivity.
    destruct (cnt_quiet_pos new n evs FQ Hc) as [_ Ec]. rewrite Ec in Hc.
    assert (Hn : n <> x) by (intros ->; rewrite Hcx in Hc; lia).
    rewrite (Hdn n Hn). apply (C n Hg Hc).
  - intros n Hg Hc. rewrite (Hf _ inGraph) in Hg by reflexivity. rewrite HW. apply (D n Hg).
    pose proof (cnt_quiet_le new n evs FQ). lia.
  - intros n Hg Hc Hn. rewrite (Hf _ inGraph) in Hg by reflexivity.
    destruct (cnt_quiet_pos new n evs FQ Hc) as [_ Ec]. rewrite Ec in Hc.
    assert (Hnx : n <> x) by (intros ->; contradiction).
    rewrite Hq, (bool_decide_eq_false_2 _ Hnx). cbn [orb]. apply (E n Hg Hc). right. exact Hn.
  - intros n Hg Hn Hqn. rewrite (Hf _ inGraph) in Hg by reflexivity.
    assert (Hnx : n <> x) by (intros ->; contradiction).
    rewrite Hq, (bool_decide_eq_false_2 _ Hnx) in Hqn. cbn [orb] in Hqn.
    apply elem_of_app. right. apply (F n Hg ltac:(right; exact Hn) Hqn).
  - intros n Hg Hc Hw. rewrite (Hf _ inGraph) in Hg by reflexivity. rewrite HW in Hw.
    destruct (cnt_quiet_pos new n evs FQ Hc) as [_ Ec]. rewrite Ec in Hc.
    apply elem_of_app. right. apply (G n Hg Hc Hw).
  - intros n. pose proof (cnt_quiet_le new n evs FQ). pose proof (H n). lia.
  - apply (allcnt_quiet new evs FQ H IA).
  - intros n Hg Hnec Hd. rewrite (Hf _ inGraph) in Hg by reflexivity.
    assert (Hnec' : EvNec n ∉ evs) by (intros X; apply Hnec, elem_of_app; auto).
    destruct (decide (n = x)) as [->|Hn].
    + destruct (J x Hg Hnec' Hdx) as (J1 & J2 & J3).
      rewrite nd_setR_eq, Hx. cbn. auto.
    + rewrite (Hdn n Hn) in Hd. rewrite (nd_setR_ne s0 x r n Hn), (Hne n Hn). apply (J n Hg Hnec' Hd).
  - intros n Hg Hnec Hc. rewrite (Hf _ inGraph) in Hg by reflexivity.
    assert (Hnec' : EvNec n ∉ evs) by (intros X; apply Hnec, elem_of_app; auto).
    rewrite (Hf _ changedAt), Hk in Hc by reflexivity. rewrite (Hf _ value) by reflexivity.
    rewrite (K n Hg Hnec' Hc). destruct (sim0_setR x s0 r n) as (-> & _). reflexivity.
Qed.

(** * 2. What the faulting recompute does to nodes, heap and log (instances below) *)
Definition faultShape (x : nid) (w : which) (k : faultkind) : Prop := forall fuel st R st' e',
  PInv st -> LInvP st (x :: R) -> inGraph (nd st x) = true -> tkw w (nkind (nd st x)) = true ->
  isDone st x = false -> recomputeNodeParallel fuel (fplan x w k) st x = Ok (st', e') ->
  exists r new, r <> stabNum st /\ nd st' x = nd st x <| recomputedAt := r |> /\ HeapSpec.inv (heap st') /\
    (forall y, y ∈ Heap.ids (heap st') <-> y = x \/ y ∈ Heap.ids (heap st)) /\
    log st' = new ++ log st /\ Forall quiet new.

Section ParFaultLog.
  Context (x : nid) (w : which) (k : faultkind).
  Let pf := fplan x w k.
  Let ferr := faultErr x k.
  Hypothesis HFS : faultStep x w k.
  Hypothesis Hferr : rejected (Some ferr) = false.
  Hypothesis HSH : faultShape x w k.

  (* after the fault: the rest of the block *)
  Lemma blockBL fuel s0 base l : forall st al st2 e2 al2 e0,
    Tplain st -> PInv st -> LInvP st l -> AW st al -> x ∉ l -> inHeap st x = true ->
    (forall m, m ∈ l -> has st m /\ isLhs (nkind (nd st m)) = false) ->
    LGPx s0 base st l ->
    rfold (blockStep fuel pf) l (st, Some e0, al) = Ok (st2, e2, al2) -> LGPx s0 base st2 [].
  Proof.
    induction l as [|m l IH]; intros st al st2 e2 al2 e0 TP P L HA Hxl Hqx Hnl G H; simpl in H.
    { injection H as <- <- <-. exact G. }
    apply rbind_ok in H as ([[st1 e1] al1] & H1 & H). unfold blockStep in H1.
    assert (Hxl' : x ∉ l) by (intros Hin; apply Hxl; right; exact Hin).
    assert (Hmx : m <> x) by (intros ->; apply Hxl; left).
    destruct (Z.eqb_spec (height (nd st m)) unset) as [Hu|Hu].
    { injection H1 as <- <- <-. pose proof (PInv_unset st m P Hu) as Hgm.
      apply (IH st al st2 e2 al2 e0 TP P (LInvP_skip st m l Hgm L) HA Hxl' Hqx); [| |exact H].
      - intros m' Hm'. apply Hnl. right. exact Hm'.
      - destruct G as (evs & El & G). exists evs. split; [exact El|apply (LGP_skip s0 st m l evs Hgm G)]. }
    apply rbind_ok in H1 as ([st' e'] & Hr & [= <- <- <-]).
    pose proof (PInv_hreg st m P Hu) as Hg. destruct (Hnl m ltac:(left)) as [_ El].
    destruct (nodeB x w k fuel st m l st' e' TP P L Hg El Hmx Hxl' Hqx Hr) as (-> & TP' & P' & L' & Hk' & C' & Hd & K' & Hqx').
    assert (HA' : AW st' (if isAlways (nkind (nd st' m)) then al ++ [m] else al)).
    { intros y A B C. destruct (Hd y B C A) as [(X1 & X2 & X3)| ->].
      - pose proof (HA y X3 X1 X2). destruct (isAlways (nkind (nd st' m))); [apply elem_of_app; left|]; assumption.
      - rewrite A. apply elem_of_app. right. left. }
    assert (Hkm : forall b, nkind (nd st m) = KBindLhs b -> b = m) by (intros b K; rewrite K in El; discriminate).
    pose proof Hr as Hr0. unfold pf in Hr0. rewrite (rnp_fplan_other fuel x w k st m Hkm (or_introl Hmx)) in Hr0.
    destruct G as (evs & Elg & G).
    destruct (nodeLP fuel s0 st m l st' evs TP P L Hg Hr0 G) as (new & El1 & G1).
    apply (IH st' _ st2 e2 al2 e0 TP' P' L' HA' Hxl' Hqx'); [| |exact H].
    - intros m' Hm'. destruct (Hnl m' ltac:(right; exact Hm')) as [Hh Hl]. destruct (K' m' Hh) as [Hh' Ek]. rewrite Ek. auto.
    - exists (new ++ evs). split; [rewrite El1, Elg, app_assoc; reflexivity|exact G1].
  Qed.

  Lemma blockAL fuel s0 base l : forall st al st2 e2 al2,
    Tplain st -> PInv st -> LInvP st l -> AW st al -> okx x w st -> ndx x w st -> lhsFirst st l -> (forall m, m ∈ l -> has st m) ->
    LGPx s0 base st l ->
    rfold (blockStep fuel pf) l (st, None, al) = Ok (st2, e2, al2) -> ~ rejected_err e2 ->
    exists s0', sim0 x s0 s0' /\ LGPx s0' base st2 [].
  Proof.
    induction l as [|m l IH]; intros st al st2 e2 al2 TP P L HA Hx Hnd HF Hh G H Hnr; simpl in H.
    { injection H as <- <- <-. exists s0. split; [apply sim0_refl|exact G]. }
    apply rbind_ok in H as ([[st1 e1] al1] & H1 & H). unfold blockStep in H1.
    assert (Hh' : forall m', m' ∈ l -> has st m') by (intros m' Hm'; apply Hh; right; exact Hm').
    destruct (Z.eqb_spec (height (nd st m)) unset) as [Hu|Hu].
    { injection H1 as <- <- <-. pose proof (PInv_unset st m P Hu) as Hgm.
      apply (IH st al st2 e2 al2 TP P (LInvP_skip st m l Hgm L) HA Hx Hnd (lhsFirst_tail st m l HF) Hh'); [|exact H|exact Hnr].
      destruct G as (evs & El & G). exists evs. split; [exact El|apply (LGP_skip s0 st m l evs Hgm G)]. }
    apply rbind_ok in H1 as ([st' e'] & Hr & [= <- <- <-]).
    pose proof (PInv_hreg st m P Hu) as Hg.
    assert (Hkm : forall b, nkind (nd st m) = KBindLhs b -> b = m).
    { intros b K. pose proof (p_kinds _ P m (has_inGraph _ _ Hg)) as Hkk. rewrite K in Hkk. symmetry. apply Hkk. }
    destruct G as (evs & Elg & G).
    destruct (decide (m = x /\ tkw w (nkind (nd st m)) = true)) as [[Emx Ht]|Hno].
    - (* the faulting recompute *)
      subst m.
      destruct (HFS fuel st l st' e' P L Hg Ht (Hnd Ht Hg) Hr) as (-> & L' & Hqx & Eb & Ek & Ehas & Ene & Ekx & Egx & Edx).
      destruct (HSH fuel st l st' _ P L Hg Ht (Hnd Ht Hg) Hr) as (r & new & Hr' & Ex & I' & Hids & Eln & FQ).
      destruct (recomputeNodeParallel_spec PT PT_struct bind_spec_holds fuel pf st x st' _ Logic.I P eq_refl Hg Hr)
        as [[Hrj|(P' & _)] _].
      { exfalso. pose proof Hferr as Hf. unfold ferr in Hf. destruct Hrj as [E|E]; injection E as E; unfold ferr in E;
          rewrite E in Hf; discriminate Hf. }
      assert (Hna : isAlways (nkind (nd st' x)) = false) by (rewrite Ekx; apply (tkw_notAlways w), Ht).
      rewrite Hna in H.
      assert (HxR : x ∉ l) by (pose proof (lp_nodup _ _ L) as Hn; apply stdpp.list.NoDup_cons in Hn as [Hn _]; exact Hn).
      assert (HA' : AW st' al).
      { intros y A B C. assert (Hyx : y <> x) by (intros ->; rewrite Hna in A; discriminate).
        unfold isDone in B. rewrite (Ene y Hyx), Ek in *. apply (HA y A B C). }
      pose proof (LGP_fault s0 st x l st' r new evs Ene Ex Hr' Ehas Ek (proj1 (PInv_heap st P)) I' Hids Hg (Hnd Ht Hg) HxR FQ G) as G'.
      exists (setR s0 x r). split; [apply sim0_setR|].
      apply (blockBL fuel (setR s0 x r) base l st' al st2 e2 al2 ferr (Tplain_binds st st' Eb TP) P' L' HA' HxR Hqx); [| |exact H].
      + intros m' Hm'. assert (Hm'x : m' <> x) by (intros ->; exact (HxR Hm')). rewrite (Ene m' Hm'x), Ehas.
        split; [apply Hh'; exact Hm'|]. apply (HF [] x l eq_refl (tkw_nonlhs w _ Ht) m' Hm').
      + exists (new ++ evs). split; [rewrite Eln, Elg, app_assoc; reflexivity|exact G'].
    - (* any other recompute: the plan-free one *)
      assert (Hoth : m <> x \/ (tkw w (nkind (nd st m)) = false /\ (w = WFn -> isLhs (nkind (nd st m)) = false))).
      { destruct (decide (m = x)) as [->|Hne]; [right|left; exact Hne].
        split; [destruct (tkw w (nkind (nd st x))); [exfalso; apply Hno; auto|reflexivity]|]. intros Hw. apply (Hx Hw). }
      unfold pf in Hr. rewrite (rnp_fplan_other fuel x w k st m Hkm Hoth) in Hr.
      pose proof (E_rnp _ _ _ _ _ Hr) as Ge. destruct e' as [r|].
      { exfalso. apply Hnr. rewrite (block_errG fuel pf l _ _ _ _ _ _ H). destruct Ge as [-> | ->]; [left|right]; reflexivity. }
      destruct (nodeP bind_stepP fuel st m l st' TP P L Hg Hr) as (TP' & P' & L' & Hk' & C' & Hd).
      pose proof (kstable_rnp fuel [] st m st' None P Hr) as K'.
      assert (HA' : AW st' (if isAlways (nkind (nd st' m)) then al ++ [m] else al)).
      { intros y A B C. destruct (Hd y B C A) as [(X1 & X2 & X3)| ->].
        - pose proof (HA y X3 X1 X2). destruct (isAlways (nkind (nd st' m))); [apply elem_of_app; left|]; assumption.
        - rewrite A. apply elem_of_app. right. left. }
      assert (HF' : lhsFirst st' l).
      { intros l1 m1 l2 E Hl m2 Hm2.
        assert (H1 : has st m1) by (apply Hh'; rewrite E; apply elem_of_app; right; left).
        assert (H2 : has st m2) by (apply Hh'; rewrite E; apply elem_of_app; right; right; exact Hm2).
        destruct (K' m1 H1) as [_ E1]. destruct (K' m2 H2) as [_ E2]. rewrite E1 in Hl. rewrite E2.
        apply (lhsFirst_tail st m l HF l1 m1 l2 E Hl m2 Hm2). }
      assert (Hnd' : ndx x w st').
      { apply (ndx_step x w fuel st m l st' TP P L Hg Hr); [|apply has_inGraph, Hg|exact Hnd].
        intros ->. destruct (tkw w (nkind (nd st x))); [exfalso; apply Hno; auto|reflexivity]. }
      destruct (nodeLP fuel s0 st m l st' evs TP P L Hg Hr G) as (new & El1 & G1).
      apply (IH st' _ st2 e2 al2 TP' P' L' HA' (okx_kstable x w st st' K' Hx) Hnd' HF'); [| |exact H|exact Hnr].
      + intros m' Hm'. apply (K' m' (Hh' m' Hm')).
      + exists (new ++ evs). split; [rewrite El1, Elg, app_assoc; reflexivity|exact G1].
  Qed.

  Lemma sim0_trans a b c : sim0 x a b -> sim0 x b c -> sim0 x a c.
  Proof.
    intros H1 H2 n. destruct (H1 n) as (A1 & A2 & A3). destruct (H2 n) as (B1 & B2 & B3).
    split; [congruence|]. split; [congruence|]. intros Hn. rewrite (B3 Hn). apply (A3 Hn).
  Qed.

  Lemma loopPFL fuel s0 base : forall s al s' e al',
    Tplain s -> PInv s -> LInvP s [] -> AW s al -> okx x w s -> ndx x w s -> LGPx s0 base s [] ->
    parLoop fuel pf s al = Ok (s', e, al') -> ~ rejected_err e ->
    exists s0', sim0 x s0 s0' /\ LGPx s0' base s' [].
  Proof.
    revert s0. induction fuel as [|fuel IH]; intros s0 s al s' e al' TP P L HA Hx Hnd G H Hnr; [discriminate|].
    rewrite parLoop_S in H. destruct (PInv_heap s P) as [I Hq].
    destruct (Z.leb_spec (Heap.cnt (heap s)) 0) as [Hc|Hc].
    { injection H as <- <- <-. exists s0. split; [apply sim0_refl|exact G]. }
    destruct (Heap.takeMinBlock (heap s)) as [block w0] eqn:Etb. cbv zeta in H.
    set (sb := s <| heap := w0 |>) in *.
    set (isL := fun n : nid => match nkind (nd sb n) with KBindLhs _ => true | _ => false end) in *.
    set (order := filter (fun n => isL n = true) block ++ filter (fun n => isL n = false) block) in *.
    apply rbind_ok in H as ([[s2 e2] al2] & H2 & H).
    destruct (heap_takeMinBlock_spec (heap s) block w0 I Etb) as (_ & Pm & _).
    assert (Hndb : NoDup block).
    { pose proof (inv_nodup _ I) as Hn. rewrite Pm in Hn. apply NoDup_app in Hn as (Hn & _). exact Hn. }
    assert (Hord : forall y, y ∈ order <-> y ∈ block).
    { intros y. unfold order. rewrite elem_of_app, !elem_of_list_filter. destruct (isL y); intuition congruence. }
    assert (Hndo : NoDup order).
    { unfold order. apply NoDup_app. split; [apply stdpp.list.NoDup_filter, Hndb|]. split; [|apply stdpp.list.NoDup_filter, Hndb].
      intros y [A _]%elem_of_list_filter [B _]%elem_of_list_filter. congruence. }
    destruct (block_start s block w0 order P L Etb Hndo Hord) as [Pb Lb]. fold sb in Pb, Lb.
    pose proof (Tplain_binds s sb eq_refl TP) as TPb.
    assert (HF : lhsFirst sb order).
    { intros l1 m l2 E Hm m2 Hm2.
      apply (lhsFirst_app (fun n => isLhs (nkind (nd sb n)))
               (filter (fun n => isL n = true) block) (filter (fun n => isL n = false) block) l1 m l2); try assumption.
      - intros a [Ha _]%elem_of_list_filter. exact Ha.
      - intros b [Hb _]%elem_of_list_filter. exact Hb. }
    assert (Hh : forall m, m ∈ order -> has sb m).
    { intros m Hm. apply Hord in Hm. apply has_inGraph. apply Hq. rewrite Pm. apply elem_of_app. left. exact Hm. }
    assert (Gb : LGPx s0 base sb order).
    { destruct G as (evs & El & G). exists evs. split; [exact El|]. apply (LGP_block_start s0 s block w0 order evs P Etb Hord G). }
    assert (Hnr2 : ~ rejected_err e2).
    { destruct e2 as [r|]; [injection H as _ <- _; exact Hnr|intros [?|?]; discriminate]. }
    destruct (blockAL fuel s0 base order sb al s2 e2 al2 TPb Pb Lb (AW_heap s w0 al HA) Hx Hnd HF Hh Gb H2 Hnr2) as (s0a & Sa & G2).
    destruct (blockA x w k HFS Hferr fuel order sb al s2 e2 al2 TPb Pb Lb (AW_heap s w0 al HA) Hx Hnd HF Hh H2)
      as [Rj|(TP2 & P2 & L2 & HA2 & Hk2 & C2 & Hx2 & He2)]; [contradiction|].
    destruct e2 as [r|].
    - injection H as <- <- <-. exists s0a. auto.
    - destruct He2 as [[_ Hnd2]|[? _]]; [|discriminate].
      destruct (IH s0a s2 al2 s' e al' TP2 P2 L2 HA2 Hx2 Hnd2 G2 H Hnr) as (s0b & Sb & G3).
      exists s0b. split; [apply (sim0_trans s0 s0a s0b Sa Sb)|exact G3].
  Qed.
End ParFaultLog.

(** * 3. The pass *)
Record PassLogPF (x : nid) (e : option err) (s s' : state) : Prop := {
  (* C02 / C11: the LAST run of the current period of necessity of a node that is registered and NOT
     QUEUED when the pass returns saw the values its inputs hold then; if the pass returns no error
     (the fault was not reached) this holds for every registered node, the Always nodes included *)
  plq_last : forall evs pre e0 post n, log s' = evs ++ log s -> evs = pre ++ e0 :: post ->
      ev_node e0 = Some n -> EvNec n ∉ pre -> Forall (fun e2 => ev_node e2 <> Some n) pre ->
      inGraph (nd s' n) = true -> (e = None \/ inHeap s' n = false) ->
      recomputedAt (nd s' n) = stabNum s /\
      match e0 with
      | EvInvoked _ args r => args = map (valueOf s') (decl (nd s' n)) /\ r = value (nd s' n)
      | EvCutoff _ old new true => value (nd s' n) = old
      | EvCutoff _ old new false => value (nd s' n) = new
      | _ => True
      end;
  (* C03: at most two runs in one period of necessity, two only in a period that began in this pass *)
  plq_triple : forall evs pre e1 mid1 e2 mid2 e3 post n, log s' = evs ++ log s ->
      evs = pre ++ e1 :: mid1 ++ e2 :: mid2 ++ e3 :: post ->
      ev_node e1 = Some n -> ev_node e2 = Some n -> ev_node e3 = Some n ->
      EvNec n ∈ mid1 \/ EvNec n ∈ mid2;
  plq_pair : forall evs pre e mid e' post n, log s' = evs ++ log s -> evs = pre ++ e :: mid ++ e' :: post ->
      ev_node e = Some n -> ev_node e' = Some n -> EvNec n ∈ mid \/ EvNec n ∈ post;
  (* a node that stayed registered and carries no stamp of the pass keeps value and change stamp
     (and, other than the faulting node, its recompute stamp: a panic resets that one) *)
  plq_keep : forall evs n, log s' = evs ++ log s -> inGraph (nd s' n) = true -> EvNec n ∉ evs ->
      recomputedAt (nd s' n) <> stabNum s ->
      value (nd s' n) = value (nd s n) /\ changedAt (nd s' n) = changedAt (nd s n) /\
      (n <> x -> recomputedAt (nd s' n) = recomputedAt (nd s n));
  plq_changed : forall evs n, log s' = evs ++ log s -> inGraph (nd s' n) = true -> EvNec n ∉ evs ->
      value (nd s' n) <> value (nd s n) -> changedAt (nd s' n) = stabNum s
}.

Section ParFaultLogThm.
  Context (x : nid) (w : which) (k : faultkind).
  Let pf := fplan x w k.
  Let ferr := faultErr x k.
  Hypothesis HFS : faultStep x w k.
  Hypothesis Hferr : rejected (Some ferr) = false.
  Hypothesis HSH : faultShape x w k.

  Theorem parF_log s s' e :
    Inv s -> ValInvB s -> Tplain s -> par_plan_clean s pf = true ->
    parStabilize pf s = Ok (s', e) -> rejected e = false -> PassLogPF x e s s'.
  Proof.
    intros IV V TP Hcl H Hrej. pose proof (Inv_wfb s IV) as Hwf.
    destruct (wfb_transients _ Hwf) as (Hst & Hsd & Hsr & Hh).
    destruct (parStabilize_decompose pf s s' e Hst H) as (sL & always & s2 & EL & ER & EE).
    set (s1 := EngineLocal.passStart s) in *.
    pose proof (LInvP_start s IV V) as L1. change (PassProofs.passStart s) with s1 in L1.
    pose proof (Inv_PInv_start s IV) as P1. change (PInv s1) in P1.
    pose proof (Tplain_binds s s1 eq_refl TP) as TP1.
    assert (Hnd0 : forall y, isDone s1 y = false).
    { intros y. unfold isDone. apply Z.eqb_neq. pose proof (stamps_node_true _ _ (vb_stamps _ V y)).
      change (recomputedAt (nd s y) <> stabNum s). lia. }
    assert (HA1 : AW s1 []) by (intros y _ Hd _; rewrite Hnd0 in Hd; discriminate).
    assert (Hx1 : okx x w s1).
    { intros Hw. subst w. unfold pf, fplan, par_plan_clean in Hcl. cbn in Hcl. rewrite andb_true_r in Hcl.
      change (nodes s1 !! x) with (nodes s !! x). unfold has. change (nd s1 x) with (nd s x). unfold nd.
      destruct (nodes s !! x) as [y|] eqn:Ex; [|discriminate]. split; [eauto|]. cbn.
      destruct (nkind y); try reflexivity. discriminate. }
    assert (Hn1 : ndx x w s1) by (intros _ _; apply Hnd0).
    assert (Hnr : ~ rejected_err e) by (intros [-> | ->]; discriminate Hrej).
    destruct (loopPF x w k HFS Hferr _ s1 [] sL e always TP1 P1 L1 HA1 Hx1 Hn1 EL) as [Rj|(TPL & PL & LL & HAL & HkL & CL & He)];
      [contradiction|].
    assert (G1 : LGPx s1 (log s1) s1 []) by (exists []; split; [reflexivity|apply LGP_start]).
    destruct (loopPFL x w k HFS Hferr HSH _ s1 (log s1) s1 [] sL e always TP1 P1 L1 HA1 Hx1 Hn1 G1 EL Hnr)
      as (s0' & S0 & evsL & ElL & GL).
    destruct (PInv_heap sL PL) as [IL HqLh].
    unfold requeueAlwaysPar in ER. rewrite requeuePar_eq in ER.
    pose proof (requeue_only_heap _ _ _ ER) as OR.
    destruct (requeue_mem always sL s2 IL ER) as (IR & MR & AR).
    assert (Hsd2 : setDuring s2 = []) by (rewrite (oh_setDuring _ _ OR); exact (proj1 (lp_quiet _ _ LL))).
    assert (Hsr2 : setRemoved s2 = []) by (rewrite (oh_setRemoved _ _ OR); exact (proj2 (lp_quiet _ _ LL))).
    destruct (stabilizeEnd_quiet s2 _ s' Hsd2 Hsr2 EE) as (En & Eh & _).
    destruct (stabilizeEnd_log s2 e s' Hsd2 Hsr2 EE) as (hev & Elog & Hhev).
    assert (Hn : nodes s' = nodes sL) by (rewrite En; apply (oh_nodes _ _ OR)).
    pose proof (nodes_eq_nd _ _ Hn) as Hnd.
    assert (HkLs : stabNum sL = stabNum s) by exact HkL.
    assert (Hlog : log s' = (hev ++ [EvPassEnd (classify e)]) ++ evsL ++ [EvPassStart] ++ log s).
    { rewrite Elog, (oh_log _ _ OR), ElL. rewrite <- !app_assoc. reflexivity. }
    assert (HQ : Forall quiet (hev ++ [EvPassEnd (classify e)])).
    { apply Forall_app. split; [|constructor; [reflexivity|constructor]].
      eapply List.Forall_impl; [|exact Hhev]. exact handler_quiet. }
    assert (HQ2 : Forall quiet [EvPassStart]) by (constructor; [reflexivity|constructor]).
    assert (Hevs : forall evs, log s' = evs ++ log s -> evs = (hev ++ [EvPassEnd (classify e)]) ++ evsL ++ [EvPassStart]).
    { intros evs E. apply (app_inv_tail (log s)). rewrite <- E, Hlog, <- !app_assoc. reflexivity. }
    assert (Hvo : forall p, valueOf s' p = valueOf sL p) by (intros p; apply valueOf_nodes, Hn).
    assert (HqL : forall n, (e = None \/ inHeap s' n = false) -> inP sL [] n = false).
    { intros n Hq. rewrite inP_nil. destruct (inHeap sL n) eqn:E; [|reflexivity]. apply (inHeap_iff0 sL n IL) in E.
      destruct Hq as [Hq|Hq].
      { exfalso. destruct He as [[_ Hemp]|[He _]]; [rewrite Hemp in E; inversion E|rewrite Hq in He; discriminate He]. }
      apply MR in E. apply (inHeap_iff0 s2 n IR) in E. unfold inHeap in Hq, E. rewrite Eh in Hq. congruence. }
    assert (Hall : allcnt ((hev ++ [EvPassEnd (classify e)]) ++ evsL ++ [EvPassStart])).
    { assert (Hn2 : forall n, EvNec n ∉ [EvPassStart]).
      { intros n Hin. apply elem_of_list_singleton in Hin. discriminate. }
      apply (allcnt_quiet _ _ HQ).
      - intros n. rewrite (cnt_snoc_quiet n [EvPassStart] HQ2 (Hn2 n)). apply (gp_le _ _ _ _ GL).
      - apply (allcnt_snoc_quiet [EvPassStart] HQ2 Hn2), (gp_all _ _ _ _ GL). }
    destruct GL as [A B C D E Fh Gn Hle Hal J K].
    constructor.
    - intros evs pre e0 post n E1 E2 Hn' Hnec Hfa Hg Hq. rewrite (Hevs evs E1) in E2.
      destruct (split_quiet_l _ _ pre e0 post E2 HQ ltac:(congruence)) as (pre2 & -> & E3).
      destruct (split_quiet_r evsL [EvPassStart] pre2 e0 post E3 HQ2 ltac:(congruence)) as (post2 & -> & E4).
      rewrite Hnd in Hg.
      assert (Hok : ev_okP sL e0 = true).
      { apply (B pre2 e0 post2 n E4 Hn'); [| |exact Hg|apply HqL, Hq].
        - intros Hin. apply Hnec, elem_of_app. auto.
        - apply Forall_app in Hfa. apply Hfa. }
      pose proof (ev_okP_done sL e0 n Hn' Hok) as Hd. apply isDone_iff in Hd. rewrite HkLs in Hd.
      rewrite Hnd. split; [exact Hd|].
      destruct e0; try exact Logic.I; injection Hn' as ->; unfold ev_okP in Hok; rewrite !andb_true_iff in Hok.
      + destruct Hok as [[_ Ha] Hr]. apply bool_decide_eq_true in Ha. apply Z.eqb_eq in Hr.
        split; [|exact Hr]. rewrite Ha. apply map_ext. intros p. symmetry. apply Hvo.
      + destruct Hok as [_ Hv]. destruct verdict; apply Z.eqb_eq in Hv; exact Hv.
    - intros evs pre e1 mid1 e2 mid2 e3 post n E1 E2. rewrite (Hevs evs E1) in E2. apply (allcnt_triple _ _ _ _ _ _ _ _ n Hall E2).
    - intros evs pre e0 mid e' post n E1 E2. rewrite (Hevs evs E1) in E2. apply (allcnt_pair _ _ _ _ _ _ n Hall E2).
    - intros evs n E1 Hg Hnec Hr. rewrite (Hevs evs E1) in Hnec. rewrite Hnd in *.
      assert (Hd : isDone sL n = false).
      { unfold isDone. apply Z.eqb_neq. rewrite HkLs. exact Hr. }
      destruct (S0 n) as (S1 & S2 & S3).
      destruct (J n Hg) as (J1 & J2 & J3); [|exact Hd|].
      { intros Hin. apply Hnec. apply elem_of_app. right. apply elem_of_app. left. exact Hin. }
      split; [rewrite J1; exact S1|]. split; [rewrite J3; exact S2|]. intros Hnx. rewrite J2. apply (S3 Hnx).
    - intros evs n E1 Hg Hnec Hv. rewrite (Hevs evs E1) in Hnec. rewrite Hnd in *.
      destruct (Z.eq_dec (changedAt (nd sL n)) (stabNum s)) as [Ec|Ec]; [exact Ec|exfalso].
      apply Hv. destruct (S0 n) as (S1 & _). change (value (nd s1 n)) with (value (nd s n)) in S1. rewrite <- S1.
      apply (K n Hg); [|rewrite HkLs; exact Ec].
      intros Hin. apply Hnec. apply elem_of_app. right. apply elem_of_app. left. exact Hin.
  Qed.
End ParFaultLogThm.

(** * 4. Instances: an error, a panic *)
Lemma faultShape_err x w : faultShape x w FErr.
Proof.
  intros fuel st R st' e' P L Hg Ht Hd H.
  destruct (rnp_errPlan_fail fuel x w st st' e' P Hg Ht H) as (-> & Ff).
  pose proof (nodes_eq_nd _ _ (ft_nodes _ _ _ Ff)) as Hnd. destruct (ft_log _ _ _ Ff) as (new & El & FQ).
  destruct (ft_fields _ _ _ Ff) as (_ & Fk & _).
  exists (recomputedAt (nd st x)), new. split; [unfold isDone in Hd; apply Z.eqb_neq in Hd; exact Hd|].
  split; [rewrite Hnd; destruct (nd st x); reflexivity|]. split; [apply (ft_hinv _ _ _ Ff)|].
  split; [apply (ft_heap _ _ _ Ff)|]. auto.
Qed.

Lemma faultShape_panic x w : faultShape x w FPanic.
Proof.
  intros fuel st R st' e' P L Hg Ht Hd H. pose proof (has_inGraph _ _ Hg) as Hx. destruct (PInv_heap st P) as [I _].
  pose proof (st_hnonneg _ (PInv_Struct st P) x Hg) as Hh.
  rewrite rnp_unfold2 in H. cbv zeta in H.
  set (s0 := upd st x (set recomputedAt (fun _ => stabNum st))) in *.
  assert (Hk0 : nkind (nd s0 x) = nkind (nd st x)) by (apply (nd_upd_proj nkind); reflexivity).
  set (sE := emit (EvFault x w FPanic) s0).
  assert (HE : parErr sE x (recomputedAt (nd st x)) (EPanic x) = Ok (st', e')).
  { destruct w; simpl in Ht.
    - assert (Hmc : maybeCutoff (fplan x WFn FPanic) s0 x (nd st x) = Ok (s0, None, false)).
      { unfold maybeCutoff. destruct (nkind (nd st x)); try reflexivity; discriminate Ht. }
      rewrite Hmc in H. cbn [rbind] in H.
      assert (Hsn : stabilizeNode fuel (fplan x WFn FPanic) s0 x = Ok (sE, Some (EPanic x))).
      { assert (Hinv : invoke (fplan x WFn FPanic) s0 x WFn = Ok (sE, Some (EPanic x))).
        { unfold invoke. rewrite fplan_actions, Nat.eqb_refl. reflexivity. }
        unfold stabilizeNode. rewrite Hk0. destruct (nkind (nd st x)); try discriminate Ht; rewrite Hinv; reflexivity. }
      rewrite Hsn in H. cbn [rbind] in H. exact H.
    - assert (Hmc : maybeCutoff (fplan x WCut FPanic) s0 x (nd st x) = Ok (sE, Some (EPanic x), false)).
      { assert (Hinv : invoke (fplan x WCut FPanic) s0 x WCut = Ok (sE, Some (EPanic x))).
        { unfold invoke. rewrite fplan_actions, Nat.eqb_refl. reflexivity. }
        unfold maybeCutoff. destruct (nkind (nd st x)); try discriminate Ht. rewrite Hinv. reflexivity. }
      rewrite Hmc in H. cbn [rbind] in H. exact H. }
  clear H. unfold parErr in HE. set (sA := upd sE x (set recomputedAt (fun _ => 0))) in *.
  apply rbind_ok in HE as (s3 & E3 & [= <- <-]).
  assert (HxE : has sE x) by (apply has_emit, has_upd, Hx).
  assert (HndA : forall y, nd sA y = if decide (y = x) then nd st x <| recomputedAt := 0 |> else nd st y).
  { intros y. unfold sA. rewrite nd_upd by exact HxE. destruct (decide (y = x)) as [->|Hy].
    - unfold sE. rewrite nd_emit. unfold s0. rewrite nd_upd_eq by exact Hx. destruct (nd st x); reflexivity.
    - unfold sE. rewrite nd_emit. unfold s0. apply nd_upd_ne, Hy. }
  assert (IA : HeapSpec.inv (heap sA)) by exact I.
  destruct (heapAddIfNotPresent_spec0 sA x s3 IA ltac:(rewrite HndA, decide_True by reflexivity; exact Hh) E3) as (O3 & I3 & M3 & _).
  destruct (errorHandlers_fields s3 x) as (En & Eh & Eb & Ex & Ek & Esd & Esr).
  assert (Hnd' : forall y, nd (errorHandlers s3 x) y = if decide (y = x) then nd st x <| recomputedAt := 0 |> else nd st y).
  { intros y. rewrite (nodes_eq_nd _ _ En y), (oh_nd _ _ O3). apply HndA. }
  destruct (errorHandlers_quiet s3 x) as (LE & ElE & FQE).
  exists 0, (LE ++ [EvFault x w FPanic]).
  split; [pose proof (st_num st (p_stamps st P)); lia|].
  split; [rewrite Hnd', decide_True by reflexivity; reflexivity|].
  split; [rewrite Eh; exact I3|]. split; [intros y; rewrite Eh, M3; reflexivity|].
  split.
  - rewrite ElE, (oh_log _ _ O3). change (log sA) with (EvFault x w FPanic :: log st). rewrite <- app_assoc. reflexivity.
  - apply Forall_app. split; [exact FQE|]. constructor; [reflexivity|constructor].
Qed.

Theorem parF_log_any x w k s s' e :
  Inv s -> ValInvB s -> Tplain s -> par_plan_clean s (fplan x w k) = true ->
  parStabilize (fplan x w k) s = Ok (s', e) -> rejected e = false -> PassLogPF x e s s'.
Proof.
  destruct k.
  - exact (parF_log x w FErr (faultStep_err x w) eq_refl (faultShape_err x w) s s' e).
  - exact (parF_log x w FPanic (faultStep_panic x w) eq_refl (faultShape_panic x w) s s' e).
Qed.

(** * 4b. Var writes and one fault in one plan: the log is that of the pass with the fault alone *)
Theorem parM_log s p x w k s' e :
  Inv s -> ValInvB s -> Tplain s -> plan_ok s p = true -> par_plan_clean s p = true -> fo p = fplan x w k ->
  parStabilize p s = Ok (s', e) -> rejected e = false ->
  exists t', parStabilize (fplan x w k) s = Ok (t', e) /\ PassLogPF x e s t' /\ log s' = log t' /\
    (forall m, vps (nd t' m) (nd s' m)) /\ (forall m, inHeap t' m = true -> inHeap s' m = true).
Proof.
  intros IV V TP Hpok Hcl Hfo H Hrej.
  pose proof (par_plan_clean_fo s p Hcl) as Hclf. rewrite Hfo in Hclf.
  assert (HFS : faultStep x w k) by (destruct k; [apply faultStep_err|apply faultStep_panic]).
  assert (Hfe : rejected (Some (faultErr x k)) = false) by (destruct k; reflexivity).
  destruct (par_mixed_bb s p s' e IV V TP Hpok Hcl H Hrej) as (t' & H0 & K).
  { intros tL al ET. rewrite Hfo in ET.
    pose proof (LInvP_start s IV V) as L1. pose proof (Inv_PInv_start s IV) as P1.
    assert (Hnd0 : forall y, isDone (EngineLocal.passStart s) y = false).
    { intros y. unfold isDone. apply Z.eqb_neq. pose proof (stamps_node_true _ _ (vb_stamps _ V y)).
      change (recomputedAt (nd s y) <> stabNum s). lia. }
    assert (HA1 : AW (EngineLocal.passStart s) []) by (intros y _ Hd _; rewrite Hnd0 in Hd; discriminate).
    assert (Hx1 : okx x w (EngineLocal.passStart s)).
    { intros Hw. subst w. unfold fplan, par_plan_clean in Hclf. cbn in Hclf. rewrite andb_true_r in Hclf.
      change (nodes (EngineLocal.passStart s) !! x) with (nodes s !! x). unfold has.
      change (nd (EngineLocal.passStart s) x) with (nd s x). unfold nd.
      destruct (nodes s !! x) as [y|] eqn:Ex; [|discriminate]. split; [eauto|]. cbn.
      destruct (nkind y); try reflexivity. discriminate. }
    assert (Hn1 : ndx x w (EngineLocal.passStart s)) by (intros _ _; apply Hnd0).
    destruct (loopPF x w k HFS Hfe _ (EngineLocal.passStart s) [] tL e al
                (Tplain_binds s (EngineLocal.passStart s) eq_refl TP) P1 L1 HA1 Hx1 Hn1 ET) as [Rj|(_ & _ & LL & _)].
    - exfalso. destruct Rj as [-> | ->]; discriminate Hrej.
    - exact (lp_quiet _ _ LL). }
  rewrite Hfo in H0.
  destruct (parF_any x w k s t' e IV V TP Hclf H0 Hrej) as (He & _ & Vt & Tt & Ct & _ & Hq).
  destruct (K Vt Tt Ct) as (_ & _ & _ & _ & E & F & G).
  exists t'. split; [exact H0|]. split; [exact (parF_log_any x w k s t' e IV V TP Hclf H0 Hrej)|auto].
Qed.

(** * 5. Non-vacuity: [exPF_ops], then a parallel pass in which the function of node 4 panics: the
    bind 2 ran before (it swapped its right-hand side to the new node 7) and is not queued; node 4
    is queued with its stamp reset; the events of the pass are as listed *)
Lemma exPFL_panic :
  match histP_run (init 64) exPF_ops with
  | Some s =>
    par_plan_clean s (panPlan 4%nat WFn) &&
    match parStabilize (panPlan 4%nat WFn) s with
    | Ok (s1, Some (EPanic 4%nat)) =>
      bool_decide (take 13 (log s1) =
        [EvUpd 7; EvUpd 3; EvUpd 2; EvUpd 0; EvPassEnd XPanic; EvErrH 4; EvFault 4 WFn FPanic; EvInval 6;
         EvUnnec 1; EvUnnec 6; EvNec 7; EvBindFn 2 3 (Some 7%nat); EvPassStart]) &&
      bool_decide (drop 13 (log s1) = log s) &&
      negb (inHeap s1 2%nat) && (recomputedAt (nd s1 2%nat) =? stabNum s) &&
      inHeap s1 4%nat && (recomputedAt (nd s1 4%nat) =? 0)
    | _ => false
    end
  | None => false
  end = true.
Proof. vm_compute. reflexivity. Qed.
