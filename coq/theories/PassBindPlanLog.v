(** C02 / C03 for serial passes WITH plans on graphs with binds: the events of a pass whose plan has
    var writes and any number of faults.  The runs that happened before the pass stopped saw the
    values their inputs hold when it stops, no node ran twice in one period of necessity, and the
    var writes of the plan do not disturb either: the pass logs exactly what the pass with the
    faults of the plan only logs ([passL_any]). *)
From incr Require Import Base Heap HeapSpec HeapProofs EngineDefs Engine EngineRun EngineWf Spec EngineLemmas EngineLocal
     EngineInv EngineInvProofs PassInv PassProofs PassPlanProofs PassBind PassBindProofs PassBindSwap PassBindSwapProofs
     PassBindSwapStep PassBindOps PassBindSwapLog PassBindFault PassBindWrites PassBindTotal PassBindMixed PassBindFaultGen
     PassBindMultiFault.
From incr Require Import SpecProofs.

Local Arguments valueOf : simpl never.

(** * 1. The log invariant across quiet events, a failed recompute, a panicking recompute *)
Lemma LG_app_quiet s0 s evs new : Forall quiet new -> LG s0 s evs -> LG s0 s (new ++ evs).
Proof.
  intros Hq [A B C D]. constructor.
  - intros pre' e post n E Hn Hnec Hg.
    destruct (split_quiet_l new evs pre' e post E Hq ltac:(congruence)) as (pre & -> & Ee).
    apply (A pre e post n Ee Hn); [|exact Hg]. intros Hin. apply Hnec, elem_of_app. auto.
  - intros pre' e mid e' post n E Hn Hn'.
    destruct (split_quiet_l new evs pre' e _ E Hq ltac:(congruence)) as (pre & -> & Ee).
    apply (B pre e mid e' post n Ee Hn Hn').
  - intros n Hg Hnec Hd. apply (C n Hg); [|exact Hd]. intros Hin. apply Hnec, elem_of_app. auto.
  - intros n Hg Hnec Hc. apply (D n Hg); [|exact Hc]. intros Hin. apply Hnec, elem_of_app. auto.
Qed.

Lemma LG_failed s0 s x s' evs : failedTo s x s' -> LG s0 s evs -> exists new, log s' = new ++ log s /\ LG s0 s' (new ++ evs).
Proof.
  intros F G. destruct (ft_log _ _ _ F) as (new & El & Hq). destruct (ft_fields _ _ _ F) as (_ & Fk & _).
  exists new. split; [exact El|]. apply (LG_ext s0 s s' (new ++ evs) (nodes_eq_nd _ _ (ft_nodes _ _ _ F)) Fk).
  apply LG_app_quiet; assumption.
Qed.

(* the stamp of a node that has not run in the pass is set: nothing in the log speaks of it *)
Lemma LG_stamped s0 s x s' evs :
  (forall y, y <> x -> nd s' y = nd s y) -> nd s' x = nd s x <| recomputedAt := stabNum s |> -> stabNum s' = stabNum s ->
  inGraph (nd s x) = true -> isDone s x = false -> LG s0 s evs -> LG s0 s' evs.
Proof.
  intros Hne Hx Hk Hg Hd [A B C D].
  assert (Hf : forall (T : Type) (g : node -> T) n, (forall y a, g (y <| recomputedAt := a |>) = g y) -> g (nd s' n) = g (nd s n)).
  { intros T g n Hgg. destruct (decide (n = x)) as [->|Hn]; [rewrite Hx; apply Hgg|rewrite (Hne n Hn); reflexivity]. }
  assert (Hv : forall p, valueOf s' p = valueOf s p).
  { intros p. apply valueOf_ext. intros n. repeat split; apply Hf; reflexivity. }
  assert (Hok : forall e n, ev_node e = Some n -> n <> x -> PassInv.ev_ok s' e = PassInv.ev_ok s e).
  { intros e n Hn Hnx. destruct e; try discriminate Hn; injection Hn as ->; unfold PassInv.ev_ok, isDone;
      rewrite (Hne n Hnx), Hk; [|reflexivity]. rewrite (map_ext _ _ Hv). reflexivity. }
  constructor.
  - intros pre e post n E Hn Hnec Hg'. rewrite (Hf _ inGraph) in Hg' by reflexivity.
    pose proof (A pre e post n E Hn Hnec Hg') as Hok0.
    assert (Hnx : n <> x) by (intros ->; rewrite (ev_ok_done s e x Hn Hok0) in Hd; discriminate).
    rewrite (Hok e n Hn Hnx). exact Hok0.
  - exact B.
  - intros n Hg' Hnec Hd'. rewrite (Hf _ inGraph) in Hg' by reflexivity.
    assert (Hnx : n <> x).
    { intros ->. unfold isDone in Hd'. rewrite Hx, Hk in Hd'. cbn in Hd'. rewrite Z.eqb_refl in Hd'. discriminate. }
    unfold isDone in Hd'. rewrite (Hne n Hnx), Hk in *. apply (C n Hg' Hnec Hd').
  - intros n Hg' Hnec Hc'. rewrite (Hf _ inGraph) in Hg' by reflexivity.
    rewrite (Hf _ value), (Hf _ changedAt), Hk in * by reflexivity. apply (D n Hg' Hnec Hc').
Qed.

(* the events of a panicking recompute: the fault event *)
Lemma panic_log_map x s s' e imm fuel :
  has s x -> mapKind (nkind (nd s x)) = true ->
  recomputeNodeSerial fuel (panicPlan x) s x = Ok (s', e, imm) -> log s' = EvFault x WFn FPanic :: log s.
Proof. intros Hx Hmk H. destruct (rns_panicPlan_fail fuel x s s' e imm Hx Hmk H) as (_ & _ & ->). reflexivity. Qed.

Lemma panic_log_lhs b s s' e imm fuel :
  has s b -> nkind (nd s b) = KBindLhs b -> is_Some (binds s !! b) -> b_memo (bd s b) = false ->
  recomputeNodeSerial fuel (panicPlan b) s b = Ok (s', e, imm) -> log s' = EvFault b WFn FPanic :: log s.
Proof.
  intros Hx Hk [r Hr] Hmemo H. rewrite recomputeNodeSerial_unfold in H. cbv zeta in H.
  set (s0 := upd s b (set recomputedAt (fun _ => stabNum s))) in *.
  assert (Hk0 : nkind (nd s0 b) = KBindLhs b) by (unfold s0; rewrite (nd_upd_proj nkind) by reflexivity; exact Hk).
  assert (Hmc : maybeCutoff (panicPlan b) s0 b (nd s b) = Ok (s0, None, false)).
  { unfold maybeCutoff. rewrite Hk. reflexivity. }
  rewrite Hmc in H. simpl in H.
  assert (Hbd0 : bd s0 b = r) by (unfold bd; change (binds s0) with (binds s); rewrite Hr; reflexivity).
  assert (Hbd : bd s b = r) by (unfold bd; rewrite Hr; reflexivity).
  set (s1 := updb s0 b (set b_rhsNodes (fun _ : list nid => []))) in *.
  set (sF := updb (emit (EvFault b WFn FPanic) s1) b (set b_rhsNodes (fun _ => b_rhsNodes r))).
  assert (Hsn : stabilizeNode fuel (panicPlan b) s0 b = Ok (sF, Some (EPanic b))).
  { unfold stabilizeNode. rewrite Hk0. unfold bindLhsStabilize. cbv zeta. rewrite Hbd0.
    rewrite Hbd in Hmemo. rewrite Hmemo. fold s1.
    assert (Hinv : invoke (panicPlan b) s1 b WFn = Ok (emit (EvFault b WFn FPanic) s1, Some (EPanic b))).
    { unfold invoke. rewrite panicPlan_actions, Nat.eqb_refl. reflexivity. }
    rewrite Hinv. reflexivity. }
  rewrite Hsn in H. simpl in H. injection H as <- <- <-. reflexivity.
Qed.

Lemma panic_log_cut fuel x s s' e imm :
  has s x -> cutKind (nkind (nd s x)) = true ->
  recomputeNodeSerial fuel (cutPlan x FPanic) s x = Ok (s', e, imm) -> log s' = EvFault x WCut FPanic :: log s.
Proof.
  intros Hx Hck H. rewrite recomputeNodeSerial_unfold in H. cbv zeta in H.
  set (s0 := upd s x (set recomputedAt (fun _ => stabNum s))) in *.
  assert (Hinv : invoke (cutPlan x FPanic) s0 x WCut = Ok (emit (EvFault x WCut FPanic) s0, Some (EPanic x))).
  { unfold invoke. rewrite cutPlan_actions, Nat.eqb_refl. reflexivity. }
  assert (Hmc : maybeCutoff (cutPlan x FPanic) s0 x (nd s x) = Ok (emit (EvFault x WCut FPanic) s0, Some (EPanic x), false)).
  { unfold maybeCutoff. destruct (nkind (nd s x)); try discriminate Hck. rewrite Hinv. reflexivity. }
  rewrite Hmc in H. cbn [rbind] in H. unfold failTail in H. injection H as <- <- <-. reflexivity.
Qed.

(** * 2. One recompute under a plan of faults, with the log invariant *)
Lemma rnsML fuel q s0 s n s1 e1 imm evs :
  nowrites q -> Tplain s -> PInv s -> LInvC s (Some n) -> inGraph (nd s n) = true ->
  recomputeNodeSerial fuel q s n = Ok (s1, e1, imm) -> (e1 = None \/ fireK q (nkind (nd s n)) n <> None) ->
  LG s0 s evs -> exists new, log s1 = new ++ log s /\ LG s0 s1 (new ++ evs).
Proof.
  intros Hq TP P L Hg H He G. pose proof (has_inGraph _ _ Hg) as Hn.
  assert (Hb : forall b, nkind (nd s n) = KBindLhs b -> b = n).
  { intros b K. pose proof (p_kinds _ P n Hn) as Hkk. rewrite K in Hkk. symmetry. apply Hkk. }
  pose proof (rnsM fuel q s n s1 e1 imm Hq TP P L Hg H) as R.
  rewrite (rns_fire fuel q s n Hq Hb) in H.
  destruct (fireK q (nkind (nd s n)) n) as [[w f]|] eqn:Ef; cbn [onePlan] in H.
  - destruct f.
    + destruct R as (_ & _ & F & _). exact (LG_failed s0 s n s1 evs F G).
    + destruct R as (_ & _ & K).
      assert (Hmd : isDone s n = false).
      { assert (HW : inW s (Some n) n = true) by (unfold inW; rewrite (bool_decide_eq_true_2 _ eq_refl); apply orb_true_r).
        apply (lc_B _ _ L n n HW), rtc_refl. }
      assert (El : log s1 = [EvFault n w FPanic] ++ log s).
      { destruct (fireK_kind q _ n w FPanic Ef) as [(-> & Hf & _)|(-> & Hc & _)].
        - unfold fnKind in Hf. destruct (mapKind (nkind (nd s n))) eqn:Emk.
          + exact (panic_log_map n s s1 e1 imm fuel Hn Emk H).
          + simpl in Hf. destruct (nkind (nd s n)) eqn:K0; try discriminate Hf.
            pose proof (p_kinds _ P n Hn) as Hkk. rewrite K0 in Hkk. destruct Hkk as [-> [r Hr]].
            apply (panic_log_lhs b s s1 e1 imm fuel Hn K0); [eauto| |exact H].
            unfold bd. rewrite Hr. apply (bw_memo _ _ _ (p_binds _ P b r Hr)).
        - exact (panic_log_cut fuel n s s1 e1 imm Hn Hc H). }
      exists [EvFault n w FPanic]. split; [exact El|].
      destruct (pk_fields _ _ _ K) as (_ & Kk & _).
      apply (LG_stamped s0 s n s1 _ (pk_other _ _ _ K) (pk_self _ _ _ K) Kk Hg Hmd).
      apply LG_app_quiet; [repeat constructor|exact G].
  - destruct He as [-> |He]; [|congruence].
    exact (rnsL fuel s0 s n s1 imm evs TP P L Hg R G).
Qed.

(** * 3. The chain and the loop, with the log invariant *)
Definition panicEnd (s0 : state) (base : list event) (s : state) (x : nid) (always : list nid) (s' : state) : Prop :=
  exists sG, beforePanicN s x always sG s' /\ LGx s0 base sG /\ exists w0, log s' = EvFault x w0 FPanic :: log sG.

Lemma rnsM_panic_log fuel q s n s1 e1 imm w :
  nowrites q -> PInv s -> inGraph (nd s n) = true -> fireK q (nkind (nd s n)) n = Some (w, FPanic) ->
  recomputeNodeSerial fuel q s n = Ok (s1, e1, imm) -> log s1 = EvFault n w FPanic :: log s.
Proof.
  intros Hq P Hg Ef H. pose proof (has_inGraph _ _ Hg) as Hn.
  assert (Hb : forall b, nkind (nd s n) = KBindLhs b -> b = n).
  { intros b K. pose proof (p_kinds _ P n Hn) as Hkk. rewrite K in Hkk. symmetry. apply Hkk. }
  rewrite (rns_fire fuel q s n Hq Hb), Ef in H. cbn [onePlan] in H.
  destruct (fireK_kind q _ n w FPanic Ef) as [(-> & Hf & _)|(-> & Hc & _)].
  - unfold fnKind in Hf. destruct (mapKind (nkind (nd s n))) eqn:Emk.
    + exact (panic_log_map n s s1 e1 imm fuel Hn Emk H).
    + simpl in Hf. destruct (nkind (nd s n)) eqn:K0; try discriminate Hf.
      pose proof (p_kinds _ P n Hn) as Hkk. rewrite K0 in Hkk. destruct Hkk as [-> [r Hr]].
      apply (panic_log_lhs b s s1 e1 imm fuel Hn K0); [eauto| |exact H].
      unfold bd. rewrite Hr. apply (bw_memo _ _ _ (p_binds _ P b r Hr)).
  - exact (panic_log_cut fuel n s s1 e1 imm Hn Hc H).
Qed.

Lemma chainMX q (Hq : nowrites q) s0 base fuel : forall s n s' e at_ always,
  Tplain s -> PInv s -> LInvC s (Some n) -> inGraph (nd s n) = true ->
  AW s always -> (isAlways (nkind (nd s n)) = true -> n ∈ always) -> LGx s0 base s ->
  recomputeChain fuel q s n = Ok (s', e, at_) ->
  rejErr e \/
  (e = None /\ goodEnd s s' always /\ LGx s0 base s') \/
  (exists x, e = Some (EUser x) /\ inPlan q x FErr /\ goodEnd s s' always /\ inHeap s' x = true /\ LGx s0 base s') \/
  (exists x, e = Some (EPanic x) /\ inPlan q x FPanic /\ at_ = x /\ panicEnd s0 base s x always s').
Proof.
  induction fuel as [|fuel IH]; intros s n s' e at_ always TP P L Hg HA Hn G H; [discriminate|].
  cbn [recomputeChain] in H.
  destruct (recomputeNodeSerial fuel q s n) as [[[s1 e1] imm]| |] eqn:E1; simpl in H; try discriminate.
  pose proof (rnsM fuel q s n s1 e1 imm Hq TP P L Hg E1) as R.
  destruct G as (evs & El & G).
  destruct (fireK q (nkind (nd s n)) n) as [[w f]|] eqn:Ef.
  - destruct (rnsML fuel q s0 s n s1 e1 imm evs Hq TP P L Hg E1 ltac:(right; rewrite Ef; discriminate) G) as (new & Enew & G1).
    assert (G1x : LGx s0 base s1) by (exists (new ++ evs); split; [rewrite Enew, El, app_assoc; reflexivity|exact G1]).
    destruct f.
    + destruct R as (-> & -> & F & TP1 & P1 & L1 & Hqn). injection H as <- <- <-. right. right. left. exists n.
      destruct (ft_fields _ _ _ F) as (_ & Fk & _).
      split; [reflexivity|]. split; [exact (fireK_inPlan q _ n w FErr Ef)|]. split; [|split; [exact Hqn|exact G1x]].
      split; [exact TP1|]. split; [exact P1|]. split; [exact L1|]. split; [exact Fk|].
      split; [apply CF_binds, (ft_binds _ _ _ F)|exact (AW_nodes s s1 always (ft_nodes _ _ _ F) Fk HA)].
    + pose proof (rnsM_panic_log fuel q s n s1 e1 imm w Hq P Hg Ef E1) as Elog.
      destruct R as (-> & -> & K). injection H as <- <- <-. right. right. right. exists n.
      split; [reflexivity|]. split; [exact (fireK_inPlan q _ n w FPanic Ef)|]. split; [reflexivity|]. exists s.
      split; [|split; [exists evs; auto|exists w; exact Elog]].
      split; [exact TP|]. split; [exact P|]. split; [exact L|]. split; [exact Hg|].
      split; [exact (fireK_notAlways q _ n w FPanic Ef)|]. split; [reflexivity|].
      split; [apply CF_binds; reflexivity|]. split; [exact HA|exact K].
  - pose proof (E_rns _ _ _ _ _ _ R) as Ge.
    destruct e1 as [r|].
    { left. exists r. split; [|exact Ge]. destruct imm; injection H as _ <- _; reflexivity. }
    destruct (rnsML fuel q s0 s n s1 None imm evs Hq TP P L Hg E1 ltac:(left; reflexivity) G) as (new & Enew & G1).
    assert (G1x : LGx s0 base s1) by (exists (new ++ evs); split; [rewrite Enew, El, app_assoc; reflexivity|exact G1]).
    clear E1. rename R into E1.
    destruct (rnsT fuel s n s1 imm TP P L Hg E1) as (TP1 & P1 & L1 & Hk1 & Himm & C1).
    destruct (rnsT2 fuel s n s1 imm TP P L Hg E1) as (Hd & Hna).
    assert (HA1 : AW s1 always).
    { intros y A B C. destruct (Hd y B C A) as [(X1 & X2 & X3)|[-> X]]; [apply (HA y X3 X1 X2)|apply Hn, X]. }
    destruct imm as [c|].
    + destruct (IH s1 c s' e at_ always TP1 P1 L1 (Himm c eq_refl) HA1)
        as [Rj|[(-> & Gd & GL)|[(x & -> & Hip & Gd & Hqx & GL)|(x & -> & Hip & -> & sG & Gd & GL & Hlog)]]];
        [intros Hc; rewrite (Hna c eq_refl) in Hc; discriminate|exact G1x|exact H|left; exact Rj| | |].
      * right. left. split; [reflexivity|]. split; [|exact GL]. destruct Gd as (A1 & A2 & A3 & A4 & A5 & A6).
        split; [exact A1|]. split; [exact A2|]. split; [exact A3|]. split; [congruence|]. split; [eapply CF_trans; eauto|exact A6].
      * right. right. left. exists x. split; [reflexivity|]. split; [exact Hip|]. split; [|split; [exact Hqx|exact GL]].
        destruct Gd as (A1 & A2 & A3 & A4 & A5 & A6).
        split; [exact A1|]. split; [exact A2|]. split; [exact A3|]. split; [congruence|]. split; [eapply CF_trans; eauto|exact A6].
      * right. right. right. exists x. split; [reflexivity|]. split; [exact Hip|]. split; [reflexivity|]. exists sG.
        split; [|split; [exact GL|exact Hlog]].
        destruct Gd as (B1 & B2 & B3 & B4 & B5 & B6 & B7 & B8 & B9).
        split; [exact B1|]. split; [exact B2|]. split; [exact B3|]. split; [exact B4|]. split; [exact B5|].
        split; [congruence|]. split; [eapply CF_trans; eauto|]. split; [exact B8|exact B9].
    + injection H as <- <- <-. right. left. split; [reflexivity|]. split; [|exact G1x].
      split; [exact TP1|]. split; [exact P1|]. split; [exact L1|]. split; [exact Hk1|]. split; [exact C1|exact HA1].
Qed.

Lemma loopMX q (Hq : nowrites q) s0 base fuel : forall s always s' e at_ always',
  Tplain s -> PInv s -> LInvC s None -> AW s always -> LGx s0 base s ->
  passLoop fuel q s always = Ok (s', e, at_, always') ->
  rejErr e \/
  (e = None /\ goodEnd s s' always' /\ Heap.ids (heap s') = [] /\ LGx s0 base s') \/
  (exists x, e = Some (EUser x) /\ inPlan q x FErr /\ goodEnd s s' always' /\ inHeap s' x = true /\ LGx s0 base s') \/
  (exists x, e = Some (EPanic x) /\ inPlan q x FPanic /\ at_ = x /\ panicEnd s0 base s x always' s').
Proof.
  induction fuel as [|fuel IH]; intros s always s' e at_ always' TP P L HA G H; [discriminate|].
  cbn [passLoop] in H. destruct (PInv_heap s P) as [I _].
  destruct (Z.leb_spec (Heap.cnt (heap s)) 0) as [Hc|Hc].
  { injection H as <- <- _ <-. right. left. split; [reflexivity|]. split; [|split; [apply cnt_zero_ids; assumption|exact G]].
    split; [exact TP|]. split; [exact P|]. split; [exact L|]. split; [reflexivity|]. split; [apply CF_binds; reflexivity|exact HA]. }
  destruct (Heap.removeMin (heap s)) as [[n w]|] eqn:Erm; [|discriminate].
  set (s2 := s <| heap := w |>) in *.
  set (always2 := if isAlways (nkind (nd s2 n)) then always ++ [n] else always) in *.
  destruct (recomputeChain fuel q s2 n) as [[[s3 e3] at3]| |] eqn:E3; simpl in H; try discriminate.
  destruct (pop_LInvC s n w P L Erm) as (L2 & P2 & Hgn). fold s2 in L2, P2.
  pose proof (Tplain_binds s s2 eq_refl TP) as TP2.
  assert (HA2 : AW s2 always2).
  { intros y A B C. unfold always2. destruct (isAlways (nkind (nd s2 n))); [apply elem_of_app; left|]; apply (HA y A B C). }
  assert (Hn2 : isAlways (nkind (nd s2 n)) = true -> n ∈ always2).
  { intros E. unfold always2. rewrite E. apply elem_of_app. right. left. }
  assert (C02 : CF s s2) by (apply CF_binds; reflexivity).
  assert (G2 : LGx s0 base s2).
  { destruct G as (evs & El & G). exists evs. split; [exact El|]. apply (LG_ext s0 s s2 evs); auto. }
  assert (Lift : forall t al, goodEnd s2 t al -> goodEnd s t al).
  { intros t al (A1 & A2 & A3 & A4 & A5 & A6). split; [exact A1|]. split; [exact A2|]. split; [exact A3|].
    split; [exact A4|]. split; [apply (CF_trans s s2 t C02 A5)|exact A6]. }
  assert (LiftP : forall t x al, panicEnd s0 base s2 x al t -> panicEnd s0 base s x al t).
  { intros t x al (sG & (B1 & B2 & B3 & B4 & B5 & B6 & B7 & B8 & B9) & GL & Hlog). exists sG. split; [|auto].
    split; [exact B1|]. split; [exact B2|]. split; [exact B3|]. split; [exact B4|]. split; [exact B5|].
    split; [exact B6|]. split; [apply (CF_trans s s2 sG C02 B7)|]. split; [exact B8|exact B9]. }
  destruct (chainMX q Hq s0 base fuel s2 n s3 e3 at3 always2 TP2 P2 L2 Hgn HA2 Hn2 G2 E3)
    as [Rj|[(-> & Gd & GL)|[(x & -> & Hip & Gd & Hqx & GL)|(x & -> & Hip & -> & PE)]]].
  - left. destruct Rj as (r & -> & Hr). injection H as _ <- _ _. exists r. auto.
  - destruct Gd as (TP3 & P3 & L3 & Hk3 & C3 & HA3).
    destruct (IH s3 always2 s' e at_ always' TP3 P3 L3 HA3 GL H)
      as [Rj|[(-> & Gd' & Hemp & GL')|[(x & -> & Hip & Gd' & Hqx & GL')|(x & -> & Hip & -> & sG & Gd' & GL' & Hlog)]]].
    + left. exact Rj.
    + right. left. split; [reflexivity|]. split; [|split; [exact Hemp|exact GL']]. destruct Gd' as (A1 & A2 & A3 & A4 & A5 & A6).
      split; [exact A1|]. split; [exact A2|]. split; [exact A3|]. split; [rewrite A4, Hk3; reflexivity|].
      split; [apply (CF_trans s s3 s'); [apply (CF_trans s s2 s3 C02 C3)|exact A5]|exact A6].
    + right. right. left. exists x. split; [reflexivity|]. split; [exact Hip|]. split; [|split; [exact Hqx|exact GL']].
      destruct Gd' as (A1 & A2 & A3 & A4 & A5 & A6).
      split; [exact A1|]. split; [exact A2|]. split; [exact A3|]. split; [rewrite A4, Hk3; reflexivity|].
      split; [apply (CF_trans s s3 s'); [apply (CF_trans s s2 s3 C02 C3)|exact A5]|exact A6].
    + right. right. right. exists x. split; [reflexivity|]. split; [exact Hip|]. split; [reflexivity|]. exists sG.
      split; [|split; [exact GL'|exact Hlog]].
      destruct Gd' as (B1 & B2 & B3 & B4 & B5 & B6 & B7 & B8 & B9).
      split; [exact B1|]. split; [exact B2|]. split; [exact B3|]. split; [exact B4|]. split; [exact B5|].
      split; [rewrite B6, Hk3; reflexivity|]. split; [apply (CF_trans s s3 sG); [apply (CF_trans s s2 s3 C02 C3)|exact B7]|].
      split; [exact B8|exact B9].
  - injection H as <- <- _ <-. right. right. left. exists x. split; [reflexivity|]. split; [exact Hip|].
    split; [apply Lift, Gd|]. split; [exact Hqx|exact GL].
  - injection H as <- <- <- <-. right. right. right. exists x. split; [reflexivity|]. split; [exact Hip|]. split; [reflexivity|].
    apply LiftP, PE.
Qed.

(** * 4. The pass *)
Record PassLogF (s s' : state) : Prop := {
  (* C02 / C11: the events of the current period of necessity of a node that is registered when the
     pass returns describe the state the pass returns *)
  plf_events : forall evs pre e post n, log s' = evs ++ log s -> evs = pre ++ e :: post ->
      ev_node e = Some n -> EvNec n ∉ pre -> inGraph (nd s' n) = true ->
      recomputedAt (nd s' n) = stabNum s /\
      match e with
      | EvInvoked _ args r => args = map (valueOf s') (decl (nd s' n)) /\ r = value (nd s' n)
      | EvCutoff _ old new true => changedAt (nd s' n) < stabNum s /\ value (nd s' n) = old
      | EvCutoff _ old new false => value (nd s' n) = new
      | _ => True
      end;
  (* C03: no node runs twice in one period of necessity *)
  plf_once : forall evs pre e mid e' post n, log s' = evs ++ log s -> evs = pre ++ e :: mid ++ e' :: post ->
      ev_node e = Some n -> ev_node e' = Some n -> EvNec n ∈ mid;
  (* a node that stayed registered and did not (successfully) run keeps its value and change stamp *)
  plf_keep : forall evs n, log s' = evs ++ log s -> inGraph (nd s' n) = true -> EvNec n ∉ evs ->
      recomputedAt (nd s' n) <> stabNum s ->
      value (nd s' n) = value (nd s n) /\ changedAt (nd s' n) = changedAt (nd s n);
  plf_changed : forall evs n, log s' = evs ++ log s -> inGraph (nd s' n) = true -> EvNec n ∉ evs ->
      value (nd s' n) <> value (nd s n) -> changedAt (nd s' n) = stabNum s
}.

Lemma plf_general s s' sX evsX Q1 (exc : nid -> Prop) :
  log s' = Q1 ++ evsX ++ [EvPassStart] ++ log s -> Forall quiet Q1 ->
  LG (PassProofs.passStart s) sX evsX -> stabNum sX = stabNum s ->
  (forall n, exc n \/ ~ exc n) ->
  (forall n, ~ exc n -> nd s' n = nd sX n) ->
  (forall n, exc n -> nd s' n = nd sX n <| recomputedAt := 0 |> /\ isDone sX n = false) ->
  PassLogF s s'.
Proof.
  intros Hlog HQ [A B C D] Hk Hdec Hne Hex.
  assert (HQ2 : Forall quiet [EvPassStart]) by (constructor; [reflexivity|constructor]).
  assert (Hevs : forall evs, log s' = evs ++ log s -> evs = Q1 ++ evsX ++ [EvPassStart]).
  { intros evs E. apply (app_inv_tail (log s)). rewrite <- E, Hlog, <- !app_assoc. reflexivity. }
  assert (Hf : forall (T : Type) (g : node -> T) n, (forall y a, g (y <| recomputedAt := a |>) = g y) -> g (nd s' n) = g (nd sX n)).
  { intros T g n Hgg. destruct (Hdec n) as [He|He]; [rewrite (proj1 (Hex n He)); apply Hgg|rewrite (Hne n He); reflexivity]. }
  assert (Hvo : forall p, valueOf s' p = valueOf sX p).
  { intros p. apply valueOf_ext. intros n. repeat split; apply Hf; reflexivity. }
  assert (Hnd1 : forall n, nd (PassProofs.passStart s) n = nd s n) by reflexivity.
  constructor.
  - intros evs pre e post n E1 E2 Hn' Hnec Hg. rewrite (Hevs evs E1) in E2.
    destruct (split_quiet_l _ _ pre e post E2 HQ ltac:(congruence)) as (pre2 & -> & E3).
    destruct (split_quiet_r evsX [EvPassStart] pre2 e post E3 HQ2 ltac:(congruence)) as (post2 & -> & E4).
    rewrite (Hf _ inGraph) in Hg by reflexivity.
    assert (Hok : PassInv.ev_ok sX e = true).
    { apply (A pre2 e post2 n E4 Hn'); [|exact Hg]. intros Hin. apply Hnec, elem_of_app. auto. }
    pose proof (ev_ok_done sX e n Hn' Hok) as Hd.
    assert (Hnx : ~ exc n) by (intros He; rewrite (proj2 (Hex n He)) in Hd; discriminate).
    apply isDone_iff in Hd. rewrite Hk in Hd. rewrite (Hne n Hnx). split; [exact Hd|].
    destruct e; try exact Logic.I; injection Hn' as ->; unfold PassInv.ev_ok in Hok; rewrite !andb_true_iff in Hok.
    + destruct Hok as [[_ Ha] Hr]. apply bool_decide_eq_true in Ha. apply Z.eqb_eq in Hr.
      split; [|exact Hr]. rewrite Ha. apply map_ext. intros p. symmetry. apply Hvo.
    + destruct Hok as [_ Hv]. destruct verdict.
      * apply andb_true_iff in Hv as [Hc Hv]. apply Z.ltb_lt in Hc. apply Z.eqb_eq in Hv. rewrite Hk in Hc. auto.
      * apply Z.eqb_eq in Hv. exact Hv.
  - intros evs pre e mid e' post n E1 E2 Hn1 Hn2. rewrite (Hevs evs E1) in E2.
    destruct (split_quiet_l _ _ pre e _ E2 HQ ltac:(congruence)) as (pre2 & -> & E3).
    assert (E3' : evsX ++ [EvPassStart] = (pre2 ++ e :: mid) ++ e' :: post) by (rewrite <- app_assoc; exact E3).
    destruct (split_quiet_r evsX [EvPassStart] _ e' post E3' HQ2 ltac:(congruence)) as (post2 & -> & E4).
    rewrite <- app_assoc in E4. apply (B pre2 e mid e' post2 n E4 Hn1 Hn2).
  - intros evs n E1 Hg Hnec Hr. rewrite (Hevs evs E1) in Hnec.
    rewrite (Hf _ inGraph) in Hg by reflexivity. rewrite (Hf _ value), (Hf _ changedAt) by reflexivity.
    assert (Hd : isDone sX n = false).
    { destruct (Hdec n) as [He|He]; [apply (Hex n He)|]. unfold isDone. apply Z.eqb_neq. rewrite Hk, <- (Hne n He). exact Hr. }
    destruct (C n Hg) as (C1 & _ & C3); [|exact Hd|rewrite !Hnd1 in *; auto].
    intros Hin. apply Hnec. apply elem_of_app. right. apply elem_of_app. left. exact Hin.
  - intros evs n E1 Hg Hnec Hv. rewrite (Hevs evs E1) in Hnec.
    rewrite (Hf _ inGraph) in Hg by reflexivity. rewrite (Hf _ value) in Hv by reflexivity. rewrite (Hf _ changedAt) by reflexivity.
    destruct (Z.eq_dec (changedAt (nd sX n)) (stabNum s)) as [Ec|Ec]; [exact Ec|exfalso].
    apply Hv. rewrite <- (Hnd1 n). apply (D n Hg); [|rewrite Hk; exact Ec].
    intros Hin. apply Hnec. apply elem_of_app. right. apply elem_of_app. left. exact Hin.
Qed.

Lemma errorHandlers_quiet s n : exists L, log (errorHandlers s n) = L ++ log s /\ Forall quiet L.
Proof.
  unfold errorHandlers. destruct (nkind (nd s n)); try (exists [EvErrH n]; split; [reflexivity|repeat constructor]).
  eexists [_; _]. split; [reflexivity|repeat constructor].
Qed.

Lemma stabilizeEnd_log s3 e s' :
  setDuring s3 = [] -> setRemoved s3 = [] -> stabilizeEnd s3 e = Ok s' ->
  exists hev, log s' = hev ++ EvPassEnd (classify e) :: log s3 /\ Forall isHandlerEv hev.
Proof.
  intros Hsd Hsr H. rewrite (stabilizeEnd_quiet_okE s3 e Hsd Hsr) in H. injection H as <-.
  unfold endUe. cbv zeta.
  destruct (runUpdateHandlers_shape (emit (EvPassEnd (classify e)) s3)) as (hev & -> & Hhev). exists hev. auto.
Qed.

Theorem passLF s q s' e :
  nowrites q -> Inv s -> ValInvB s -> Tplain s -> plan_ok s q = true ->
  stabilize q false s = Ok (s', e) -> rejected e = false -> PassLogF s s'.
Proof.
  intros Hq IV V TP Hpok H Hrej. pose proof (Inv_wfb s IV) as Hwf.
  destruct (wfb_transients _ Hwf) as (Hst & Hsd & Hsr & Hh).
  destruct (stabilize_decompose _ _ _ _ _ Hst H) as (sL & at_ & always & s2 & s3 & EL & ER & EP & EE).
  unfold passResult in EL. cbv zeta in EL. simpl in EL.
  destruct (pass_start_factsB s IV V TP) as (TP1 & P1 & L1 & HA1).
  set (s1 := EngineLocal.passStart s) in *.
  assert (G1 : LGx s1 (log s1) s1) by (exists []; split; [reflexivity|apply LG_start]).
  pose proof (requeue_only_heap _ _ _ ER) as OR.
  destruct (loopMX q Hq s1 (log s1) _ s1 [] sL e at_ always TP1 P1 L1 HA1 G1 EL)
    as [(r & -> & [-> | ->])|[(-> & Gd & Hemp & GL)|[(x & -> & Hip & Gd & HqL & GL)|(x & -> & Hip & -> & sG & Gd & GL & (w0 & Hlog))]]];
    [discriminate Hrej|discriminate Hrej| | |].
  - (* no fault reached *)
    destruct Gd as (_ & _ & LL & HkL & _). destruct GL as (evsL & ElL & GL). apply recoverPanic_None in EP as ->.
    destruct (stabilizeEnd_log s2 None s' ltac:(rewrite (oh_setDuring _ _ OR); exact (proj1 (lc_quiet _ _ LL)))
                ltac:(rewrite (oh_setRemoved _ _ OR); exact (proj2 (lc_quiet _ _ LL))) EE) as (hev & Elog & Hhev).
    destruct (stabilizeEnd_quiet s2 _ s' ltac:(rewrite (oh_setDuring _ _ OR); exact (proj1 (lc_quiet _ _ LL)))
                ltac:(rewrite (oh_setRemoved _ _ OR); exact (proj2 (lc_quiet _ _ LL))) EE) as (En & _).
    apply (plf_general s s' sL evsL (hev ++ [EvPassEnd (classify None)]) (fun _ => False)).
    + rewrite Elog, (oh_log _ _ OR), ElL. rewrite <- !app_assoc. reflexivity.
    + apply Forall_app. split; [eapply List.Forall_impl; [|exact Hhev]; exact handler_quiet|repeat constructor].
    + exact GL.
    + exact HkL.
    + intros n. right. tauto.
    + intros n _. rewrite (nodes_eq_nd _ _ En n). apply (oh_nd _ _ OR).
    + intros n [].
  - (* an error *)
    destruct Gd as (_ & _ & LL & HkL & _). destruct GL as (evsL & ElL & GL). injection EP as <-.
    destruct (stabilizeEnd_log s2 _ s' ltac:(rewrite (oh_setDuring _ _ OR); exact (proj1 (lc_quiet _ _ LL)))
                ltac:(rewrite (oh_setRemoved _ _ OR); exact (proj2 (lc_quiet _ _ LL))) EE) as (hev & Elog & Hhev).
    destruct (stabilizeEnd_quiet s2 _ s' ltac:(rewrite (oh_setDuring _ _ OR); exact (proj1 (lc_quiet _ _ LL)))
                ltac:(rewrite (oh_setRemoved _ _ OR); exact (proj2 (lc_quiet _ _ LL))) EE) as (En & _).
    apply (plf_general s s' sL evsL (hev ++ [EvPassEnd (classify (Some (EUser x)))]) (fun _ => False)).
    + rewrite Elog, (oh_log _ _ OR), ElL. rewrite <- !app_assoc. reflexivity.
    + apply Forall_app. split; [eapply List.Forall_impl; [|exact Hhev]; exact handler_quiet|repeat constructor].
    + exact GL.
    + exact HkL.
    + intros n. right. tauto.
    + intros n _. rewrite (nodes_eq_nd _ _ En n). apply (oh_nd _ _ OR).
    + intros n [].
  - (* a panic *)
    destruct Gd as (TG & PG & LG & HgG & HnaG & HkG & CG & HAG & KG). destruct GL as (evsG & ElG & GG).
    destruct (pk_fields _ _ _ KG) as (_ & Kk & Ksd & Ksr).
    assert (Hmd : isDone sG x = false).
    { assert (HW : inW sG (Some x) x = true) by (unfold inW; rewrite (bool_decide_eq_true_2 _ eq_refl); apply orb_true_r).
      apply (lc_B _ _ LG x x HW), rtc_refl. }
    unfold recoverPanic in EP. set (s2' := upd s2 x (set recomputedAt (fun _ => 0))) in *.
    apply rbind_ok in EP as (s3' & E3 & [= <-]).
    assert (O3 : only_heap s2' s3').
    { unfold heapAddIfNotPresent in E3. destruct (inHeap s2' x); [injection E3 as <-; apply only_heap_refl|].
      apply heapAdd_inv in E3 as (w1 & _ & ->). apply only_heap_set. }
    destruct (errorHandlers_fields s3' x) as (EHn & _ & _ & _ & _ & EHsd & EHsr).
    destruct (errorHandlers_quiet s3' x) as (Lerr & ElE & HqE).
    assert (Hq3 : setDuring (errorHandlers s3' x) = [] /\ setRemoved (errorHandlers s3' x) = []).
    { rewrite EHsd, EHsr, (oh_setDuring _ _ O3), (oh_setRemoved _ _ O3). unfold s2'. cbn.
      rewrite (oh_setDuring _ _ OR), (oh_setRemoved _ _ OR), Ksd, Ksr. exact (lc_quiet _ _ LG). }
    destruct (stabilizeEnd_log _ _ s' (proj1 Hq3) (proj2 Hq3) EE) as (hev & Elog & Hhev).
    destruct (stabilizeEnd_quiet _ _ s' (proj1 Hq3) (proj2 Hq3) EE) as (En & _).
    assert (Hx2 : has s2 x) by (apply (oh_has _ _ OR), (pk_has _ _ _ KG), has_inGraph, HgG).
    assert (Hnd' : forall n, nd s' n = if decide (n = x) then nd sG x <| recomputedAt := 0 |> else nd sG n).
    { intros n. rewrite (nodes_eq_nd _ _ En n), (nodes_eq_nd _ _ EHn n), (oh_nd _ _ O3). unfold s2'.
      rewrite nd_upd by exact Hx2. destruct (decide (n = x)) as [->|Hn].
      - rewrite (oh_nd _ _ OR), (pk_self _ _ _ KG). destruct (nd sG x); reflexivity.
      - rewrite (oh_nd _ _ OR). apply (pk_other _ _ _ KG n Hn). }
    apply (plf_general s s' sG evsG ((hev ++ [EvPassEnd (classify (Some (EPanic x)))]) ++ Lerr ++ [EvFault x w0 FPanic]) (fun n => n = x)).
    + rewrite Elog, ElE, (oh_log _ _ O3). change (log s2') with (log s2). rewrite (oh_log _ _ OR), Hlog, ElG.
      rewrite <- !app_assoc. reflexivity.
    + apply Forall_app. split; [apply Forall_app; split; [eapply List.Forall_impl; [|exact Hhev]; exact handler_quiet|repeat constructor]|].
      apply Forall_app. split; [exact HqE|repeat constructor].
    + exact GG.
    + exact HkG.
    + intros n. destruct (decide (n = x)); auto.
    + intros n Hn. rewrite Hnd', decide_False by exact Hn. reflexivity.
    + intros n ->. rewrite Hnd', decide_True by reflexivity. auto.
Qed.

(** * 5. Any plan: the writes do not disturb the log *)
Theorem pass_mixed_bb_log s p s' e :
  Inv s -> ValInvB s -> Tplain s -> plan_ok s p = true ->
  stabilize p false s = Ok (s', e) -> rejected e = false ->
  (forall tL at_ al, passLoop (passFuel (EngineLocal.passStart s)) (fo p) (EngineLocal.passStart s) [] = Ok (tL, e, at_, al) ->
     setDuring tL = [] /\ setRemoved tL = []) ->
  exists t', stabilize (fo p) false s = Ok (t', e) /\
    (ValInvB t' -> Tplain t' -> CF s t' ->
     Inv s' /\ ValInvB s' /\ Tplain s' /\ CF s s' /\ (forall m, inHeap t' m = true -> inHeap s' m = true) /\
     (forall m, vps (nd t' m) (nd s' m)) /\ log s' = log t').
Proof.
  intros IV V TP Hpok H Hrej Hquiet. pose proof (Inv_wfb s IV) as Hwf.
  destruct (wfb_transients _ Hwf) as (Hst & Hsd & Hsr & Hh).
  assert (IV' : Inv s').
  { apply (Inv_step_stabilize s (Stabilize p) s' e IV); try reflexivity; [exact Hpok|exact H| |];
      intros ->; discriminate Hrej. }
  destruct (stabilize_decompose p false s s' e Hst H) as (sLp & at_ & al & s2p & s3p & ELp & ERp & EPp & EEp).
  pose proof ELp as ELp'. unfold passResult in ELp'. cbv zeta in ELp'. simpl in ELp'.
  set (s1 := EngineLocal.passStart s) in *.
  assert (Hst1 : status s1 = 1) by reflexivity.
  destruct (loops_agree _ p s1 [] sLp e at_ al Hst1 ELp') as (tL & ET & EclL).
  destruct (Hquiet tL at_ al ET) as [HsdL HsrL].
  (* the requeue *)
  pose proof (requeueAlways_cl al tL) as RQ. rewrite EclL, requeueAlways_cl in RQ.
  change (PassProofs.requeueAlways al sLp) with (EngineLocal.requeueAlways al sLp) in RQ. rewrite ERp in RQ.
  destruct (requeueAlways al tL) as [t2| |] eqn:ERt; try discriminate RQ.
  cbn [rmap rbind] in RQ. apply Ok_cl_inv in RQ. rename RQ into Ecl2.
  pose proof (requeue_only_heap _ _ _ ERt) as ORt. pose proof (requeue_only_heap _ _ _ ERp) as ORp.
  (* the recovery *)
  assert (RP : recoverPanic (cl t2) e at_ = Ok (cl s3p)) by (rewrite <- Ecl2, recoverPanic_cl, EPp; reflexivity).
  rewrite recoverPanic_cl in RP.
  destruct (recoverPanic t2 e at_) as [t3| |] eqn:EPt; try discriminate RP.
  cbn [rmap rbind] in RP. apply Ok_cl_inv in RP. rename RP into Ecl3.
  destruct (recoverPanic_fields _ _ _ _ EPt) as (Rsd & Rsr & _).
  destruct (recoverPanic_fields _ _ _ _ EPp) as (Psd & Psr & Pvar).
  assert (Hsd3 : setDuring t3 = []) by (rewrite Rsd, (oh_setDuring _ _ ORt); exact HsdL).
  assert (Hsr3 : setRemoved t3 = []) by (rewrite Rsr, (oh_setRemoved _ _ ORt); exact HsrL).
  set (t' := (endUe e t3) <| setDuring := [] |> <| setRemoved := [] |> <| status := 0 |>).
  pose proof (stabilizeEnd_quiet_okE t3 e Hsd3 Hsr3) as EEt. fold t' in EEt.
  assert (H0 : stabilize (fo p) false s = Ok (t', e)).
  { rewrite stabilize_unfold, Hst. change (negb (0 =? 0)) with false. cbv iota zeta.
    change (emit EvPassStart (s <| status := 1 |>)) with s1. simpl andb. cbv iota. rewrite ET. cbn [rbind].
    change (EngineLocal.requeueAlways al tL) with (PassProofs.requeueAlways al tL). rewrite ERt. cbn [rbind].
    rewrite EPt. cbn [rbind]. rewrite EEt. reflexivity. }
  exists t'. split; [exact H0|]. intros Vt Tt Ct.
  assert (IVt : Inv t').
  { apply (Inv_step_stabilize s (Stabilize (fo p)) t' e IV); try reflexivity; [apply plan_ok_fo, Hpok|exact H0| |];
      intros ->; discriminate Hrej. }
  (* the write run's epilogue *)
  destruct (stabilizeEnd_unfoldE _ _ _ EEp) as (u1 & Ed & Es').
  assert (EclU : cl t' = cl ((endUe e s3p) <| status := 0 |>)).
  { change (cl t') with ((cl (endUe e t3)) <| status := 0 |>). rewrite cl_endUe, Ecl3, <- cl_endUe. reflexivity. }
  pose proof (Inv_Struct t' IVt) as HSt. pose proof (Inv_BFB t' IVt (vb_shape _ Vt)) as HBt.
  assert (HSu : Struct (endUe e s3p)) by exact (Struct_status _ _ (tr_Struct t' _ EclU HSt)).
  assert (HBu : BFB (endUe e s3p)) by exact (BFB_status _ _ (tr_BFB t' _ EclU HBt)).
  assert (Vu : ValInvB (endUe e s3p)).
  { pose proof (tr_ValInvB t' _ EclU HBt Vt) as Vx. revert Vx. apply ValInvB_fields; reflexivity. }
  destruct (endUe_facts e s3p) as (Un & Uh & Ub & Ux & Uk & Usd & Usr).
  assert (HvL : Forall (fun v => isVar sLp v = true) (setRemoved sLp ++ setDuring sLp)).
  { apply (passResult_deferred_are_vars p false s sLp e at_ al); [|exact Hpok| |exact ELp].
    - intros n Hn. apply (io_lt _ (inv_ids _ IV)). exact Hn.
    - rewrite Hsd, Hsr. constructor. }
  set (W := setRemoved (endUe e s3p) ++ setDuring (endUe e s3p)) in *.
  assert (HvU : Forall (fun v => isVar (endUe e s3p) v = true) W).
  { unfold W. rewrite Usr, Usd, Psr, Psd, (oh_setRemoved _ _ ORp), (oh_setDuring _ _ ORp).
    eapply List.Forall_impl; [|exact HvL]. intros w Hw.
    assert (Hw2 : isVar s2p w = true) by (unfold isVar in *; rewrite (oh_nodes _ _ ORp); exact Hw).
    pose proof (Pvar w Hw2) as Hw3. unfold isVar in *. rewrite Un. exact Hw3. }
  destruct (dsteps_postB W _ u1 HSu HBu Vu HvU Ed) as (A1 & A2 & A3 & (F1 & F2 & F3) & A5 & A6 & A7 & A8 & A9).
  destruct (dsteps_inv _ _ _ HvU Ed) as (((mm & ww & Eu1) & _ & Hisv & _) & _).
  assert (Hndcl : forall m, clN (nd (endUe e s3p) m) = clN (nd t' m)).
  { intros m. rewrite <- !nd_cl. rewrite EclU. reflexivity. }
  assert (Hb' : binds s' = binds t').
  { rewrite Es'. change (binds u1 = binds t'). rewrite F1. change (binds (endUe e s3p) = binds (cl t')). rewrite EclU. reflexivity. }
  split; [exact IV'|]. split.
  { rewrite Es'. apply (ValInvB_fields u1); try reflexivity. exact A3. }
  split; [apply (Tplain_binds t' s' Hb' Tt)|].
  split; [apply (CF_trans s t' s'); [exact Ct|apply CF_binds, Hb']|].
  split.
  { intros m Hm. rewrite Es'. change (inHeap u1 m = true). apply A7.
    change (inHeap (cl t') m = true) in Hm. rewrite EclU in Hm. exact Hm. }
  split.
  { intros m. rewrite Es'. change (vps (nd t' m) (nd u1 m)). eapply vps_trans; [|apply A5].
    apply clN_eq_vps. symmetry. apply Hndcl. }
  rewrite Es'. change (log u1 = log t'). rewrite Eu1. change (log (endUe e s3p) = log (cl t')). rewrite EclU. reflexivity.
Qed.


Theorem passL_any s p s' e :
  Inv s -> ValInvB s -> Tplain s -> plan_ok s p = true ->
  stabilize p false s = Ok (s', e) -> rejected e = false ->
  exists t', stabilize (fo p) false s = Ok (t', e) /\ PassLogF s t' /\ log s' = log t' /\
             (forall m, vps (nd t' m) (nd s' m)).
Proof.
  intros IV V TP Hpok H Hrej.
  destruct (pass_start_factsB s IV V TP) as (TP1 & P1 & L1 & HA1).
  destruct (pass_mixed_bb_log s p s' e IV V TP Hpok H Hrej) as (t' & H0 & K).
  { intros tL at_ al ET.
    destruct (loopM (fo p) (nowrites_fo p) _ _ [] tL e at_ al TP1 P1 L1 HA1 ET)
      as [(r & -> & [-> | ->])|[(_ & G & _)|[(x & _ & _ & G & _)|(x & _ & _ & _ & sG & G)]]];
      [discriminate Hrej|discriminate Hrej| | |].
    - destruct G as (_ & _ & LL & _). exact (lc_quiet _ _ LL).
    - destruct G as (_ & _ & LL & _). exact (lc_quiet _ _ LL).
    - destruct G as (_ & _ & LG & _ & _ & _ & _ & _ & KG). destruct (pk_fields _ _ _ KG) as (_ & _ & -> & ->).
      exact (lc_quiet _ _ LG). }
  destruct (passMF s (fo p) t' e (nowrites_fo p) IV V TP (plan_ok_fo s p Hpok) H0 Hrej) as (_ & Vt & Tt & Ct & _).
  destruct (K Vt Tt Ct) as (_ & _ & _ & _ & _ & Hv & Hl).
  exists t'. split; [exact H0|]. split; [exact (passLF s (fo p) t' e (nowrites_fo p) IV V TP (plan_ok_fo s p Hpok) H0 Hrej)|auto].
Qed.

(** C03 and C02 read off the final state of the pass itself *)
Theorem passL_any_once s p s' e :
  Inv s -> ValInvB s -> Tplain s -> plan_ok s p = true ->
  stabilize p false s = Ok (s', e) -> rejected e = false ->
  forall evs pre e1 mid e2 post n, log s' = evs ++ log s -> evs = pre ++ e1 :: mid ++ e2 :: post ->
    ev_node e1 = Some n -> ev_node e2 = Some n -> EvNec n ∈ mid.
Proof.
  intros IV V TP Hpok H Hrej evs pre e1 mid e2 post n El.
  destruct (passL_any s p s' e IV V TP Hpok H Hrej) as (t' & _ & PL & Hl & _). rewrite Hl in El.
  exact (plf_once _ _ PL evs pre e1 mid e2 post n El).
Qed.

Theorem passL_any_args s p s' e :
  Inv s -> ValInvB s -> Tplain s -> plan_ok s p = true ->
  stabilize p false s = Ok (s', e) -> rejected e = false ->
  exists t', stabilize (fo p) false s = Ok (t', e) /\ (forall m, vps (nd t' m) (nd s' m)) /\
  forall evs pre n args r post, log s' = evs ++ log s -> evs = pre ++ EvInvoked n args r :: post ->
    EvNec n ∉ pre -> inGraph (nd s' n) = true ->
    args = map (valueOf t') (decl (nd s' n)) /\ recomputedAt (nd s' n) = stabNum s /\ r = value (nd t' n).
Proof.
  intros IV V TP Hpok H Hrej.
  destruct (passL_any s p s' e IV V TP Hpok H Hrej) as (t' & H0 & PL & Hl & Hv).
  exists t'. split; [exact H0|]. split; [exact Hv|]. intros evs pre n args r post El E2 Hnec Hg. rewrite Hl in El.
  destruct (vps_fields _ _ (Hv n)) as (Ek & Ed & _ & _ & _ & Er & _ & _ & _ & _ & _ & _ & Eg).
  rewrite Eg in Hg. destruct (plf_events _ _ PL evs pre _ post n El E2 eq_refl Hnec Hg) as (A & B & C).
  split; [rewrite Ed; exact B|]. split; [rewrite Er; exact A|exact C].
Qed.

(** * 6. Non-vacuity *)
Definition exPL_plan : plan := [(5%nat, WFn, AFail FErr); (2%nat, WCut, ASet 1 9)].

(** the pass with [exPL_plan] after the first eight operations of [exNF_ops]: the cutoff node 2 runs
    (its function writes var 1), the bind 3 runs and swaps its right-hand side, node 5 fails; the pass
    with the fault only logs the same events and differs in the value of var 1 alone *)
Lemma exPL_results :
  match histN_run (init 64) (take 8 exNF_ops) with
  | Some s =>
    plan_ok s exPL_plan &&
    match stabilize exPL_plan false s, stabilize (fo exPL_plan) false s with
    | Ok (s1, Some (EUser 5%nat)), Ok (t1, Some (EUser 5%nat)) =>
      bool_decide (log s1 = log t1) &&
      bool_decide (take 10 (log s1) =
         [EvUpd 8; EvUpd 4; EvUpd 3; EvUpd 2; EvUpd 0; EvPassEnd XUser; EvErrH 5; EvFault 5 WFn FErr;
          EvInval 7; EvUnnec 1]) &&
      bool_decide (EvBindFn 3 3 (Some 8%nat) ∈ log s1) && bool_decide (EvCutoff 2 2 3 false ∈ log s1) &&
      (value (nd s1 1%nat) =? 9) && (value (nd t1 1%nat) =? 3) && (value (nd s1 2%nat) =? 3) &&
      (recomputedAt (nd s1 3%nat) =? stabNum s)
    | _, _ => false
    end
  | None => false
  end = true.
Proof. vm_compute. reflexivity. Qed.
