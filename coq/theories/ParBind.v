(** ParallelStabilize on graphs WITH binds.

    Part 1: one parallel recompute ([recomputeNodeParallel]) is the serial one
    ([recomputeNodeSerial]) followed by queueing the dependent the serial recompute holds back
    for immediate recompute.
    Part 2: a parallel pass in which no bind swaps (no lhs-change node is reachable from the
    queue) re-establishes consistency: the height blocks of [parLoop], processed node by node,
    keep the serial loop invariant [LInvC] on the state "with the rest of the block put back
    into the queue". *)
From stdpp Require Import sorting.
From incr Require Import Base Heap HeapSpec HeapProofs EngineDefs Engine EngineRun EngineWf Spec EngineLemmas EngineLocal
     EngineInv EngineInvProofs PassInv PassProofs PassPlanProofs PassBind PassBindProofs PassBindSwap PassBindSwapProofs
     PassBindSwapStep PassBindOps PassBindFault.

Local Arguments valueOf : simpl never.

(** * 1. parallel recompute = serial recompute + queue the held dependent *)
Definition parTail (s : state) (n : nid) : res (state * option err) :=
  let s := upd s n (set changedAt (fun _ => stabNum s)) in
  let s := insert_handler n s in
  s <-! rfold (fun s c => if shouldRecomputeChild s c then heapAdd s c else Ok s) (children (nd s n)) s;
  let s := foldl (fun s o => insert_handler o s) s (observers (nd s n)) in
  Ok (s, None).

Lemma rnp_unfold fuel p s n :
  recomputeNodeParallel fuel p s n =
  let x := nd s n in
  let prev := recomputedAt x in
  let s0 := upd s n (set recomputedAt (fun _ => stabNum s)) in
  let panicked (s : state) (m : nid) : res (state * option err) :=
      let s := upd s n (set recomputedAt (fun _ => 0)) in
      s <-! heapAddIfNotPresent s n; Ok (errorHandlers s n, Some (EPanic m)) in
  '(s1, e, cut) <-! maybeCutoff p s0 n x;
  match e with
  | Some (EPanic m) => panicked s1 m
  | Some e => s <-! recomputeFailed s1 n prev; Ok (errorHandlers s n, Some e)
  | None =>
    if cut then Ok (s1, None) else
    '(s2, e) <-! stabilizeNode fuel p s1 n;
    match e with
    | Some (EPanic m) => panicked s2 m
    | Some e => s <-! recomputeFailed s2 n prev; Ok (errorHandlers s n, Some e)
    | None => parTail s2 n
    end
  end.
Proof.
  unfold recomputeNodeParallel, maybeCutoff, parTail. cbv zeta.
  destruct (match nkind (nd s n) with KCutoff _ => _ | _ => _ end) as [[[s1 [e|]] cut]| |]; cbn [rbind]; reflexivity.
Qed.

Lemma src_heapAdd s h s1 c : heapAdd s h = Ok s1 -> c <> h -> shouldRecomputeChild s1 c = shouldRecomputeChild s c.
Proof.
  intros H Hne. rewrite !src_eq, (heapAdd_inHeap_eq _ _ _ c H), (bool_decide_eq_false_2 _ Hne). simpl.
  apply heapAdd_inv in H as (w & _ & ->). reflexivity.
Qed.

(* the children loops: the parallel state is the serial state with the held child queued *)
Definition heldRel (sS : state) (held : option nid) (sP : state) : Prop :=
  match held with None => sP = sS | Some h => heapAdd sS h = Ok sP end.

Lemma loops_rel l : forall sS held sP sP',
  heldRel sS held sP ->
  rfold (fun s c => if shouldRecomputeChild s c then heapAdd s c else Ok s) l sP = Ok sP' ->
  exists sS' held',
    rfold (fun '(s, held) c =>
             if bool_decide (held = Some c) then Ok (s, held)
             else if negb (shouldRecomputeChild s c) then Ok (s, held)
             else
               s <-! (match held with Some h => heapAdd s h | None => Ok s end);
               Ok (s, Some c)) l (sS, held) = Ok (sS', held') /\ heldRel sS' held' sP'.
Proof.
  induction l as [|c l IH]; intros sS held sP sP' R H.
  - injection H as <-. exists sS, held. auto.
  - rewrite rfold_cons in H. rewrite rfold_cons.
    destruct (bool_decide_reflect (held = Some c)) as [Eh|Hne].
    + (* the held child again: already queued on the parallel side *)
      subst held. cbn [heldRel] in R.
      assert (Hsrc : shouldRecomputeChild sP c = false).
      { rewrite src_eq, (heapAdd_inHeap_eq _ _ _ c R), (bool_decide_eq_true_2 (c = c)) by reflexivity. reflexivity. }
      rewrite Hsrc in H. cbn [rbind] in H |- *. apply (IH sS (Some c) sP sP' R H).
    + assert (Hsrc : shouldRecomputeChild sP c = shouldRecomputeChild sS c).
      { destruct held as [h|]; cbn [heldRel] in R; [|subst sP; reflexivity].
        apply (src_heapAdd sS h sP c R). congruence. }
      rewrite Hsrc in H. destruct (shouldRecomputeChild sS c) eqn:Es; cbn [negb rbind] in H |- *.
      * destruct (heapAdd sP c) as [sP1| |] eqn:Ea; cbn [rbind] in H; try discriminate.
        assert (E1 : (match held with Some h => heapAdd sS h | None => Ok sS end) = Ok sP).
        { destruct held as [h|]; cbn [heldRel] in R; [exact R|subst sP; reflexivity]. }
        rewrite E1. cbn [rbind]. apply (IH sP (Some c) sP1 sP' Ea H).
      * apply (IH sS held sP sP' R H).
Qed.

Lemma insert_handlers_heap l : forall s w,
  foldl (fun s o => insert_handler o s) (s <| heap := w |>) l = (foldl (fun s o => insert_handler o s) s l) <| heap := w |>.
Proof. induction l as [|o l IH]; intros s w; [reflexivity|]. simpl. rewrite <- IH. reflexivity. Qed.

Lemma heapAdd_handlers s h s1 l :
  heapAdd s h = Ok s1 ->
  heapAdd (foldl (fun s o => insert_handler o s) s l) h = Ok (foldl (fun s o => insert_handler o s) s1 l).
Proof.
  intros H. apply heapAdd_inv in H as (w & Ha & ->). unfold heapAdd.
  assert (E : forall t, heap (foldl (fun s o => insert_handler o s) t l) = heap t /\
                        nd (foldl (fun s o => insert_handler o s) t l) h = nd t h).
  { clear. induction l as [|o l IH]; intros t; [auto|]. simpl. destruct (IH (insert_handler o t)) as [-> ->]. auto. }
  destruct (E s) as [-> ->]. rewrite Ha. cbn [rbind]. rewrite insert_handlers_heap. reflexivity.
Qed.

Lemma tails_rel s n s' :
  parTail s n = Ok (s', None) ->
  exists s1 imm, successTail s n = Ok (s1, None, imm) /\
    match imm with None => s' = s1 | Some c => heapAdd s1 c = Ok s' end.
Proof.
  unfold parTail, successTail. cbv zeta. intros H.
  set (sA := insert_handler n (upd s n (set changedAt (fun _ => stabNum s)))) in *.
  apply rbind_ok in H as (sP' & Hl & H). injection H as <-.
  destruct (loops_rel (children (nd sA n)) sA None sA sP' eq_refl Hl) as (sS' & held' & HS & R).
  unfold childrenLoop. rewrite HS. cbn [rbind].
  assert (Hobs : observers (nd sP' n) = observers (nd sS' n)).
  { destruct held' as [h|]; cbn [heldRel] in R; [|subst sP'; reflexivity].
    apply heapAdd_inv in R as (w & _ & ->). reflexivity. }
  destruct held' as [h|]; cbn [heldRel] in R.
  - destruct (canRecomputeImmediately sS' n h).
    + cbn [rbind]. eexists _, (Some h). split; [reflexivity|]. rewrite Hobs. apply heapAdd_handlers, R.
    + rewrite R. cbn [rbind]. eexists _, None. split; [reflexivity|]. reflexivity.
  - subst sP'. cbn [rbind]. eexists _, None. split; reflexivity.
Qed.

Lemma rnp_rns fuel s n s' :
  recomputeNodeParallel fuel [] s n = Ok (s', None) ->
  exists s1 imm, recomputeNodeSerial fuel [] s n = Ok (s1, None, imm) /\
    match imm with None => s' = s1 | Some c => heapAdd s1 c = Ok s' end.
Proof.
  rewrite rnp_unfold, recomputeNodeSerial_unfold. cbv zeta. intros H.
  apply rbind_ok in H as ([[s1 e1] cut] & H1 & H). rewrite H1. cbn [rbind].
  destruct e1 as [e0|].
  { exfalso. destruct e0; apply rbind_ok in H as (? & _ & ?); discriminate. }
  destruct cut; [injection H as <-; exists s1, None; auto|].
  apply rbind_ok in H as ([s2 e2] & H2 & H). rewrite H2. cbn [rbind].
  destruct e2 as [e0|].
  { exfalso. destruct e0; apply rbind_ok in H as (? & _ & ?); discriminate. }
  apply tails_rel, H.
Qed.

(** the serial post-condition of a step, after the held dependent is queued *)
Lemma stepPostB_par s m s1 imm s' :
  HeapSpec.inv (heap s) -> stepPostB s m s1 imm ->
  match imm with None => s' = s1 | Some c => heapAdd s1 c = Ok s' end ->
  stepPostB s m s' None.
Proof.
  intros I P Hadd. destruct imm as [c|]; [|subst s'; exact P].
  destruct (sq_case _ _ _ _ P) as [C|R]; [pose proof (cp_imm _ _ _ _ C); discriminate|].
  destruct (rq_imm _ _ _ _ R c eq_refl) as [Hcn _].
  pose proof (sq_hinv _ _ _ _ P) as I1.
  assert (Hq1 : inHeap s1 c = false).
  { destruct (inHeap s1 c) eqn:E; [|reflexivity]. apply (inHeap_iff0 s1 c I1) in E. contradiction. }
  pose proof (heapAdd_ok_nonneg _ _ _ Hadd) as Hh.
  destruct (heapAdd_spec0 s1 c s' I1 Hq1 Hh Hadd) as (OH & I' & Pm & Hin).
  pose proof (stepPostB_sframe _ _ _ _ P) as F.
  apply heapAdd_inv in Hadd as (w & Ew & ->).
  constructor.
  - intros n Hn. apply (sq_other _ _ _ _ P n Hn).
  - apply (sq_self _ _ _ _ P).
  - intros n. apply (sq_has _ _ _ _ P n).
  - apply (sq_fields _ _ _ _ P).
  - exact I'.
  - intros Hc. apply (cursor_add (heap s1) c _ w I1 (sq_cur _ _ _ _ P Hc) Ew).
  - right. constructor.
    + apply (rq_changed _ _ _ _ R).
    + apply (rq_val _ _ _ _ R).
    + apply (rq_ret _ _ _ _ R).
    + apply (rq_log _ _ _ _ R).
    + discriminate.
    + intros x Hx. cbn in Pm. rewrite Pm. right. apply (rq_mono _ _ _ _ R x Hx).
    + intros x. cbn in Pm. rewrite Pm, elem_of_cons.
      pose proof (rq_mem _ _ _ _ R x) as Hm. change (owedC (s1 <| heap := w |>) x) with (owedC s1 x).
      split.
      * intros [[->|Hx]|Hx]; [apply Hm; right; reflexivity|apply Hm; left; exact Hx|discriminate].
      * intros Hx. apply Hm in Hx as [Hx|[= ->]]; left; [right; exact Hx|left; reflexivity].
    + intros x Hx. cbn in Hin. rewrite Hin. destruct (decide (x = c)) as [->|Hne]; [|apply (rq_old _ _ _ _ R x Hx)].
      exfalso. apply Hcn. apply (rq_mono _ _ _ _ R c Hx).
    + intros x Hx Hnx. cbn in Hin, Pm, Hx. rewrite Hin. destruct (decide (x = c)) as [->|Hne].
      * apply (sf_height _ _ F).
      * apply (rq_new _ _ _ _ R x); [|exact Hnx]. rewrite Pm in Hx. apply elem_of_cons in Hx as [?|?]; [contradiction|assumption].
Qed.

(** * 2. The loop invariant of the parallel pass.
    [R]: the nodes of the height block being processed that have not run yet.  A node of the block
    that a bind of the same block tore down and another one registered again is queued again, and
    still runs with the block: a queued node may have run already (it will run again). *)
Definition inP (s : state) (R : list nid) (n : nid) : bool :=
  inHeap s n || (bool_decide (n ∈ R) && inGraph (nd s n)).

Definition volqP (s : state) (R : list nid) (p : nid) : bool :=
  match nkind (nd s p) with
  | KVar _ => inP s R p
  | KAlways => inP s R p || (recomputedAt (nd s p) <? stabNum s)
  | _ => false
  end.

Definition guardedP (s : state) (R : list nid) (n : nid) : bool :=
  forallb (fun p => (changedAt (nd s p) <=? recomputedAt (nd s n)) && negb (volqP s R p))
          (parents (nd s n)).

Record LInvP (s : state) (R : list nid) : Prop := {
  lp_shape : Shape s;
  lp_stamps : forall n, stamps_node s false n = true;
  lp_nodup : NoDup R;
  (* a node below an owed node that has run in this pass is owed (again) *)
  lp_B : forall w n, inP s R w = true -> reach s w n -> isDone s n = true -> inP s R n = true;
  (* a pending node of the block that is not queued is below no other owed node *)
  lp_M : forall m w, m ∈ R -> inGraph (nd s m) = true -> inHeap s m = false ->
                     inP s R w = true -> reach s w m -> w = m;
  lp_owed : forall n, inGraph (nd s n) = true -> isDone s n = false -> isStale s n = true ->
                      inP s R n = true;
  lp_clean : forall n, inGraph (nd s n) = true -> inP s R n = false ->
                       guardedP s R n = true -> clean_ok s n = true;
  lp_unreg : forall n, inGraph (nd s n) = false -> valid (nd s n) = true ->
                       recomputedAt (nd s n) = 0 /\ changedAt (nd s n) = 0;
  lp_quiet : setDuring s = [] /\ setRemoved s = []
}.

Lemma inP_nil s n : inP s [] n = inHeap s n.
Proof. unfold inP. rewrite (bool_decide_eq_false_2 (n ∈ [])) by (apply not_elem_of_nil). apply orb_false_r. Qed.

Lemma LInvP_of_LInvC s : LInvC s None -> LInvP s [].
Proof.
  intros L.
  assert (HW : forall n, inP s [] n = inW s None n).
  { intros n. rewrite inP_nil. unfold inW. rewrite orb_false_r. reflexivity. }
  constructor.
  - exact (lc_shape _ _ L).
  - exact (lc_stamps _ _ L).
  - constructor.
  - intros w n Hw Hr Hd. rewrite HW in Hw. rewrite (lc_B _ _ L w n Hw Hr) in Hd. discriminate.
  - intros m w Hm. inversion Hm.
  - intros n Hg Hd Hs. rewrite HW. apply (lc_owed _ _ L n Hg Hd Hs).
  - intros n Hg Hw Hgd. rewrite HW in Hw. apply (lc_clean _ _ L n Hg Hw).
    unfold guardedP in Hgd. unfold guarded. apply forallb_intro. intros p Hp.
    pose proof (forallb_elem _ _ _ Hgd Hp) as H. cbv beta in H. apply andb_true_iff in H as [H1 H2].
    rewrite H1. simpl. apply negb_true_iff in H2. apply negb_true_iff. unfold volqP in H2. unfold volq.
    destruct (nkind (nd s p)); try reflexivity.
    + rewrite <- HW. exact H2.
    + apply orb_false_iff in H2 as [_ H2]. exact H2.
  - exact (lc_unreg _ _ L).
  - exact (lc_quiet _ _ L).
Qed.

Lemma LInvC_of_LInvP s : HeapSpec.inv (heap s) -> Heap.ids (heap s) = [] -> LInvP s [] -> LInvC s None.
Proof.
  intros I Hemp L.
  assert (Hq : forall n, inHeap s n = false).
  { intros n. destruct (inHeap s n) eqn:E; [|reflexivity]. apply (inHeap_iff0 s n I) in E. rewrite Hemp in E. inversion E. }
  assert (HW : forall n, inW s None n = false) by (intros n; unfold inW; rewrite Hq; reflexivity).
  assert (HP : forall n, inP s [] n = false) by (intros n; rewrite inP_nil; apply Hq).
  constructor.
  - exact (lp_shape _ _ L).
  - exact (lp_stamps _ _ L).
  - intros w n Hw. rewrite HW in Hw. discriminate.
  - discriminate.
  - intros n Hg Hd Hs. pose proof (lp_owed _ _ L n Hg Hd Hs) as H. rewrite HP in H. discriminate.
  - intros n Hg _ Hgd. apply (lp_clean _ _ L n Hg (HP n)).
    unfold guarded in Hgd. unfold guardedP. apply forallb_intro. intros p Hp.
    pose proof (forallb_elem _ _ _ Hgd Hp) as H. cbv beta in H. apply andb_true_iff in H as [H1 H2].
    rewrite H1. simpl. apply negb_true_iff in H2. apply negb_true_iff. unfold volq in H2. unfold volqP.
    destruct (nkind (nd s p)); try reflexivity.
    + apply HP.
    + rewrite HP. exact H2.
  - exact (lp_unreg _ _ L).
  - exact (lp_quiet _ _ L).
Qed.

Lemma LInvP_start s : Inv s -> ValInvB s -> LInvP (passStart s) [].
Proof. intros IV V. exact (LInvP_of_LInvC _ (LInvC_start s IV V)). Qed.

(* the invariant depends on [R] through [inP] only *)
Lemma LInvP_ext s R R' :
  NoDup R' -> (forall x, inP s R' x = inP s R x) -> (forall m, m ∈ R' -> m ∈ R) -> LInvP s R -> LInvP s R'.
Proof.
  intros Hnd HW Hsub L.
  assert (Hgd : forall n, guardedP s R' n = guardedP s R n).
  { intros n. unfold guardedP, volqP. apply forallb_ext. intros p _. rewrite HW. reflexivity. }
  constructor.
  - exact (lp_shape _ _ L).
  - exact (lp_stamps _ _ L).
  - exact Hnd.
  - intros w n Hw Hr Hd. rewrite HW in *. apply (lp_B _ _ L w n Hw Hr Hd).
  - intros m w Hm Hg Hq Hw Hr. rewrite HW in Hw. apply (lp_M _ _ L m w (Hsub m Hm) Hg Hq Hw Hr).
  - intros n Hg Hd Hs. rewrite HW. apply (lp_owed _ _ L n Hg Hd Hs).
  - intros n Hg Hw Hg'. rewrite HW in Hw. rewrite Hgd in Hg'. apply (lp_clean _ _ L n Hg Hw Hg').
  - exact (lp_unreg _ _ L).
  - exact (lp_quiet _ _ L).
Qed.

(* a node of the block that was torn down is skipped *)
Lemma LInvP_skip s m R : inGraph (nd s m) = false -> LInvP s (m :: R) -> LInvP s R.
Proof.
  intros Hg L. pose proof (lp_nodup _ _ L) as Hnd. apply stdpp.list.NoDup_cons in Hnd as [Hnin Hnd].
  apply (LInvP_ext s (m :: R) R Hnd); [|intros x Hx; right; exact Hx|exact L].
  intros x. unfold inP. f_equal. destruct (decide (x = m)) as [->|Hne].
  - rewrite Hg, !andb_false_r. reflexivity.
  - f_equal. apply bool_decide_ext. rewrite elem_of_cons. tauto.
Qed.

(** * 3. One node of a block that is not a lhs-change node *)
Section StepP.
  Context (s : state) (m : nid) (R : list nid) (s' : state).
  Context (HS : Struct s) (HBF : BFB s)
          (Hh : HeapSpec.inv (heap s) /\
                forall q, q ∈ Heap.ids (heap s) ->
                  inGraph (nd s q) = true /\ Heap.hinOf (heap s) q = height (nd s q))
          (L : LInvP s (m :: R)) (Hmreg : inGraph (nd s m) = true)
          (Hnl : isLhs (nkind (nd s m)) = false)
          (P : stepPostB s m s' None).

  Let k := stabNum s.
  Let I : HeapSpec.inv (heap s) := proj1 Hh.
  Let I' : HeapSpec.inv (heap s') := sq_hinv _ _ _ _ P.
  Let F : sframe s s' := stepPostB_sframe _ _ _ _ P.

  Local Lemma Pk' : stabNum s' = k.
  Proof. apply (sf_stabNum _ _ F). Qed.

  Local Lemma PmW : inP s (m :: R) m = true.
  Proof. unfold inP. rewrite Hmreg, (bool_decide_eq_true_2 (m ∈ m :: R)) by left. apply orb_true_r. Qed.

  Local Lemma PmR : m ∉ R.
  Proof. pose proof (lp_nodup _ _ L) as H. apply stdpp.list.NoDup_cons in H as [H _]. exact H. Qed.

  Local Lemma Pst n : 0 <= changedAt (nd s n) <= k /\ 0 <= recomputedAt (nd s n) <= k /\
                      (changedAt (nd s n) = k -> recomputedAt (nd s n) = k).
  Proof. apply stamps_node_false, (lp_stamps _ _ L). Qed.

  Local Lemma Prec_m : recomputedAt (nd s' m) = k.
  Proof. rewrite (sq_self _ _ _ _ P). reflexivity. Qed.

  Local Lemma Pnd_ne n : n <> m -> nd s' n = nd s n.
  Proof. apply (sq_other _ _ _ _ P). Qed.

  Local Lemma Pdone'_iff n : isDone s' n = true <-> isDone s n = true \/ n = m.
  Proof.
    rewrite !isDone_iff, Pk'. destruct (decide (n = m)) as [->|Hn].
    - rewrite Prec_m. tauto.
    - rewrite (Pnd_ne n Hn). fold k. tauto.
  Qed.

  Local Lemma Pdone'_false n : isDone s' n = false <-> isDone s n = false /\ n <> m.
  Proof. rewrite <- !not_true_iff_false, Pdone'_iff. destruct (decide (n = m)); tauto. Qed.

  Local Lemma Pmono x : x ∈ Heap.ids (heap s) -> x ∈ Heap.ids (heap s').
  Proof.
    intros Hx. destruct (sq_case _ _ _ _ P) as [C|Rn].
    - rewrite (cp_heap _ _ _ _ C). exact Hx.
    - apply (rq_mono _ _ _ _ Rn), Hx.
  Qed.

  Local Lemma Pmono_b x : inHeap s x = true -> inHeap s' x = true.
  Proof. intros Hx. apply (inHeap_iff0 s' x I'), Pmono, (inHeap_iff0 s x I), Hx. Qed.

  Local Lemma Pnewmem x : x ∈ Heap.ids (heap s') ->
    x ∈ Heap.ids (heap s) \/ (runPostB s m s' None /\ x ∈ children (nd s m) /\ owedC s' x = true).
  Proof.
    intros Hx. destruct (sq_case _ _ _ _ P) as [C|Rn].
    - rewrite (cp_heap _ _ _ _ C) in Hx. auto.
    - apply (or_introl (B := None = Some x)) in Hx. apply (rq_mem _ _ _ _ Rn) in Hx as [?|[? ?]]; auto.
  Qed.

  Local Lemma Phin x : x ∈ Heap.ids (heap s') -> Heap.hinOf (heap s') x = height (nd s x).
  Proof.
    intros Hx. destruct (sq_case _ _ _ _ P) as [C|Rn].
    - rewrite (cp_heap _ _ _ _ C) in *. apply Hh, Hx.
    - destruct (decide (x ∈ Heap.ids (heap s))) as [Ho|Hn].
      + rewrite (rq_old _ _ _ _ Rn) by exact Ho. apply Hh, Ho.
      + apply (rq_new _ _ _ _ Rn); assumption.
  Qed.

  Local Lemma inP'_cases x : inP s' R x = true ->
    inP s (m :: R) x = true \/ (runPostB s m s' None /\ x ∈ children (nd s m) /\ owedC s' x = true).
  Proof.
    intros Hx. unfold inP in Hx. apply orb_true_iff in Hx as [Hx|Hx].
    - apply (inHeap_iff0 s' x I') in Hx. destruct (Pnewmem x Hx) as [Ho|Hc]; [left|right; exact Hc].
      unfold inP. apply (inHeap_iff0 s x I) in Ho. rewrite Ho. reflexivity.
    - left. apply andb_true_iff in Hx as [H1 H2]. apply bool_decide_eq_true in H1. rewrite (sf_inGraph _ _ F) in H2.
      unfold inP. rewrite H2, (bool_decide_eq_true_2 (x ∈ m :: R)) by (right; exact H1). apply orb_true_r.
  Qed.

  Local Lemma inP_keep x : inP s (m :: R) x = true -> x <> m -> inP s' R x = true.
  Proof.
    intros Hx Hn. unfold inP in *. apply orb_true_iff in Hx as [Hx|Hx].
    - rewrite (Pmono_b x Hx). reflexivity.
    - apply andb_true_iff in Hx as [H1 H2]. apply bool_decide_eq_true in H1. apply elem_of_cons in H1 as [?|H1]; [contradiction|].
      rewrite (sf_inGraph _ _ F), H2, (bool_decide_eq_true_2 _ H1). apply orb_true_r.
  Qed.

  Local Lemma inP_keep_false x : inP s' R x = false -> x <> m -> inP s (m :: R) x = false.
  Proof. intros H Hn. destruct (inP s (m :: R) x) eqn:E; [|reflexivity]. rewrite (inP_keep x E Hn) in H. discriminate. Qed.

  Local Lemma Pchild_of_m x : x ∈ children (nd s m) -> x <> m /\ reach s m x /\ inGraph (nd s x) = true.
  Proof.
    intros Hx. split; [|split].
    - intros ->. pose proof (edge_height s HS m m Hx). lia.
    - apply rtc_once. exact Hx.
    - apply (child_reg s HS m x Hx).
  Qed.

  (* values *)
  Local Lemma Pkd n : nkind (nd s' n) = nkind (nd s n) /\ decl (nd s' n) = decl (nd s n).
  Proof. split; [apply (sf_nkind _ _ F)|apply (sf_decl _ _ F)]. Qed.

  Local Lemma Pvalue_ne n : n <> m -> value (nd s' n) = value (nd s n).
  Proof. intros Hn. rewrite (Pnd_ne n Hn). reflexivity. Qed.

  Local Lemma Pval p : inGraph (nd s p) = true -> p <> m ->
    ~ (nkind (nd s p) = KAlways /\ reach s m p) -> valueOf s' p = valueOf s p.
  Proof. intros. apply (valueOf_changed s s' m p HS Pkd Pvalue_ne); assumption. Qed.

  Local Lemma Pval_cut p : cutPost s m s' None -> valueOf s' p = valueOf s p.
  Proof.
    intros C. apply valueOf_ext. intros n. destruct (Pkd n) as [-> ->]. split; [reflexivity|]. split; [reflexivity|].
    destruct (decide (n = m)) as [->|Hn]; [apply C|apply Pvalue_ne, Hn].
  Qed.

  Local Lemma Pval_decl_m p : p ∈ decl (nd s m) -> valueOf s' p = valueOf s p.
  Proof.
    intros Hp. assert (Hpar : p ∈ parents (nd s m)) by (apply (st_par _ HS); [exact Hmreg|exact Hp]).
    pose proof (parent_edge s HS _ _ Hpar) as He.
    apply Pval.
    - apply (edge_reg s HS _ _ He).
    - intros ->. pose proof (edge_height s HS _ _ He). lia.
    - intros [_ Hr]. exact (parent_not_reach s HS _ _ Hpar Hr).
  Qed.

  Local Lemma Pbd b : bd s' b = bd s b.
  Proof. apply bd_binds, (sf_binds _ _ F). Qed.

  Local Lemma SP_bf : BFB s'.
  Proof.
    constructor.
    - intros n Hn. rewrite (sf_next _ _ F). apply (bb_lt _ HBF). apply (sf_has _ _ F). exact Hn.
    - intros n x E. rewrite <- (nd_lookup _ _ _ E).
      pose proof (bb_shape_nd s HBF n) as Hb. unfold shape_node in *. rewrite !andb_true_iff in *.
      destruct Hb as [[H5 H6] H7]. split; [split|].
      + unfold arity_ok in *. rewrite (sf_nkind _ _ F), (sf_decl _ _ F). exact H5.
      + destruct (decide (n = m)) as [->|Hne]; [|rewrite (Pnd_ne n Hne); exact H6].
        unfold cutalways_zero in *. rewrite (sf_nkind _ _ F).
        destruct (nkind (nd s m)) eqn:K; try reflexivity. destruct c; try reflexivity.
        destruct (sq_case _ _ _ _ P) as [C|Rn].
        * rewrite (cp_value _ _ _ _ C). exact H6.
        * pose proof (rq_val _ _ _ _ Rn) as Hv. unfold consistent_valB in Hv. rewrite K in Hv.
          pose proof (bb_arity s HBF m) as Har. unfold arity_ok in Har. rewrite K in Har.
          apply bool_decide_eq_true in Har. destruct (decl (nd s m)) as [|a [|]]; try discriminate Har.
          exact Hv.
      + unfold always_lt in *. rewrite (sf_nkind _ _ F), (sf_decl _ _ F). exact H7.
    - intros n. rewrite (sf_inGraph _ _ F), (sf_valid _ _ F). apply (bb_valid _ HBF).
    - intros b. rewrite Pbd. apply (bb_memo _ HBF).
    - intros n b K. rewrite (sf_nkind _ _ F) in K. rewrite (sf_nkind _ _ F), (sf_decl _ _ F), Pbd.
      apply (bb_main _ HBF n b K).
    - intros n b K. rewrite (sf_nkind _ _ F) in K. rewrite (sf_decl _ _ F), Pbd. apply (bb_lhs _ HBF n b K).
  Qed.

  Local Lemma SP_stamps n : stamps_node s' false n = true.
  Proof.
    pose proof (Pst n) as Hn. unfold stamps_node. rewrite Pk'. fold k.
    destruct (decide (n = m)) as [->|Hne].
    - rewrite Prec_m. pose proof (Pst m) as Hm. destruct (sq_case _ _ _ _ P) as [C|Rn].
      + rewrite (cp_changed _ _ _ _ C). rewrite !andb_true_iff, !Z.leb_le. lia.
      + rewrite (rq_changed _ _ _ _ Rn). fold k. rewrite !andb_true_iff, !Z.leb_le. lia.
    - rewrite (Pnd_ne n Hne). rewrite !andb_true_iff, !Z.leb_le. lia.
  Qed.

  Local Lemma SP_B w n : inP s' R w = true -> reach s' w n -> isDone s' n = true -> inP s' R n = true.
  Proof.
    intros Hw Hr Hd. apply (sf_reach _ _ F) in Hr. apply Pdone'_iff in Hd.
    destruct (decide (n = m)) as [->|Hne].
    - (* the node that just ran: only below itself, unless it is queued *)
      destruct (inHeap s m) eqn:Eq; [unfold inP; rewrite (Pmono_b m Eq); reflexivity|].
      exfalso. destruct (inP'_cases w Hw) as [Ho|(_ & Hc & _)].
      + pose proof (lp_M _ _ L m w ltac:(left) Hmreg Eq Ho Hr) as ->.
        unfold inP in Hw. rewrite (bool_decide_eq_false_2 _ PmR), andb_false_l, orb_false_r in Hw.
        apply (inHeap_iff0 s' m I') in Hw. destruct (Pnewmem m Hw) as [Hq|(_ & Hc & _)].
        * apply (inHeap_iff0 s m I) in Hq. congruence.
        * destruct (Pchild_of_m m Hc) as [Hx _]. congruence.
      + pose proof (edge_height s HS _ _ Hc). destruct (reach_height s HS _ _ Hr); [subst; lia|lia].
    - destruct Hd as [Hd|?]; [|contradiction]. apply inP_keep; [|exact Hne].
      destruct (inP'_cases w Hw) as [Ho|(_ & Hc & _)].
      + apply (lp_B _ _ L w n Ho Hr Hd).
      + apply (lp_B _ _ L m n PmW); [|exact Hd]. eapply rtc_l; [exact Hc|exact Hr].
  Qed.

  Local Lemma SP_M x w : x ∈ R -> inGraph (nd s' x) = true -> inHeap s' x = false ->
    inP s' R w = true -> reach s' w x -> w = x.
  Proof.
    intros Hx Hg Hq Hw Hr. apply (sf_reach _ _ F) in Hr. rewrite (sf_inGraph _ _ F) in Hg.
    assert (Hq0 : inHeap s x = false).
    { destruct (inHeap s x) eqn:E; [|reflexivity]. rewrite (Pmono_b x E) in Hq. discriminate. }
    assert (Hxm : x <> m) by (intros ->; exact (PmR Hx)).
    destruct (inP'_cases w Hw) as [Ho|(_ & Hc & _)].
    - apply (lp_M _ _ L x w ltac:(right; exact Hx) Hg Hq0 Ho Hr).
    - exfalso. apply Hxm. symmetry. apply (lp_M _ _ L x m ltac:(right; exact Hx) Hg Hq0 PmW).
      eapply rtc_l; [exact Hc|exact Hr].
  Qed.

  Local Lemma PowedC_child x : x ∈ children (nd s m) -> isDone s' x = false ->
    isStale s' x = true -> owedC s' x = true.
  Proof.
    intros Hc Hd Hs. destruct (Pchild_of_m x Hc) as (_ & _ & Hg).
    unfold owedC. rewrite (sf_isNecessary _ _ F), <- (st_nec _ HS), Hg, (sf_valid _ _ F), (bb_valid _ HBF x Hg). simpl.
    destruct (negb (hasStaler (nkind (nd s' x))) && (recomputedAt (nd s' x) <? stabNum s')); [reflexivity|exact Hs].
  Qed.

  Local Lemma SP_owed n : inGraph (nd s' n) = true -> isDone s' n = false -> isStale s' n = true ->
    inP s' R n = true.
  Proof.
    intros Hg Hd Hs. rewrite (sf_inGraph _ _ F) in Hg. pose proof Hd as Hd'. apply Pdone'_false in Hd as [Hd Hne].
    assert (Hold : isStale s n = true -> inP s' R n = true).
    { intros Hs0. apply inP_keep; [|exact Hne]. apply (lp_owed _ _ L); assumption. }
    assert (Hsame : (forall p, p ∈ parents (nd s n) -> changedAt (nd s' p) = changedAt (nd s p)) ->
                    inP s' R n = true).
    { intros Hp. apply Hold. rewrite <- (isStale_same s s' n (Pnd_ne n Hne) Pk' Hp). exact Hs. }
    destruct (sq_case _ _ _ _ P) as [C|Rn].
    - apply Hsame. intros p _. destruct (decide (p = m)) as [->|Hp]; [apply C|rewrite (Pnd_ne p Hp); reflexivity].
    - destruct (decide (m ∈ parents (nd s n))) as [Hin|Hnin].
      + assert (Hc : n ∈ children (nd s m)) by (apply (st_edge _ HS); exact Hin).
        unfold inP. apply orb_true_iff. left. apply (inHeap_iff0 s' n I').
        assert (Hmem : n ∈ Heap.ids (heap s') \/ None = Some n).
        { apply (rq_mem _ _ _ _ Rn). right. split; [exact Hc|]. apply PowedC_child; assumption. }
        destruct Hmem as [?|?]; [assumption|discriminate].
      + apply Hsame. intros p Hp. assert (p <> m) by congruence. rewrite (Pnd_ne p); auto.
  Qed.

  Local Lemma SP_clean n : inGraph (nd s' n) = true -> inP s' R n = false ->
    guardedP s' R n = true -> clean_ok s' n = true.
  Proof.
    intros Hg HnW Hgd. rewrite (sf_inGraph _ _ F) in Hg.
    destruct (decide (n = m)) as [->|Hne].
    - (* the node that just ran *)
      rewrite clean_ok_notlhs by (rewrite (sf_nkind _ _ F); exact Hnl).
      rewrite (consistent_valB_ext s s' m _ HBF (sf_binds _ _ F) (proj1 (Pkd m)) (proj2 (Pkd m)) Pval_decl_m).
      destruct (sq_case _ _ _ _ P) as [C|Rn]; [|apply Rn].
      rewrite (cp_value _ _ _ _ C). destruct (cp_kind _ _ _ _ C) as (c0 & K & Hcut & _).
      pose proof (bb_arity s HBF m) as Har. unfold arity_ok in Har. rewrite K in Har.
      apply bool_decide_eq_true in Har.
      pose proof (bb_cutalways s HBF m) as Hz. unfold cutalways_zero in Hz. rewrite K in Hz.
      unfold consistent_valB. rewrite K. destruct (decl (nd s m)) as [|a [|]]; try discriminate Har.
      cbn [hd] in Hcut. destruct c0; simpl in Hcut; try reflexivity; try assumption; discriminate.
    - (* another node *)
      pose proof (inP_keep_false n HnW Hne) as HnW0.
      assert (Hgd_p : forall p, p ∈ parents (nd s n) ->
                 changedAt (nd s' p) <= recomputedAt (nd s n) /\ volqP s' R p = false).
      { intros p Hp. unfold guardedP in Hgd. rewrite (sf_parents _ _ F) in Hgd.
        pose proof (forallb_elem _ _ _ Hgd Hp) as H. cbv beta in H.
        apply andb_true_iff in H as [H1 H2]. apply Z.leb_le in H1. apply negb_true_iff in H2.
        rewrite (Pnd_ne n Hne) in H1. auto. }
      (* (1) if [m] is an input of [n], [m] was cut off: otherwise [n] has run and is owed again *)
      assert (Hcutm : m ∈ parents (nd s n) -> cutPost s m s' None).
      { intros Hin. destruct (sq_case _ _ _ _ P) as [C|Rn]; [exact C|exfalso].
        destruct (Hgd_p m Hin) as [H1 _]. rewrite (rq_changed _ _ _ _ Rn) in H1. fold k in H1.
        assert (Hdn : isDone s n = true) by (apply isDone_iff; pose proof (Pst n); fold k; lia).
        assert (Hr : reach s m n) by (apply rtc_once, (st_edge _ HS); exact Hin).
        rewrite (lp_B _ _ L m n PmW Hr Hdn) in HnW0. discriminate. }
      assert (Hm_kind : m ∈ parents (nd s n) -> exists c0, nkind (nd s m) = KCutoff c0).
      { intros Hin. destruct (cp_kind _ _ _ _ (Hcutm Hin)) as (c0 & K & _). eauto. }
      (* (2) [n] was guarded before the step *)
      assert (Hgd0 : guardedP s (m :: R) n = true).
      { unfold guardedP. apply forallb_intro. intros p Hp. destruct (Hgd_p p Hp) as [H1 H2].
        apply andb_true_iff. split.
        - apply Z.leb_le. destruct (decide (p = m)) as [->|Hpm].
          + rewrite <- (cp_changed _ _ _ _ (Hcutm Hp)). exact H1.
          + rewrite <- (Pnd_ne p Hpm). exact H1.
        - apply negb_true_iff. unfold volqP in *. rewrite (sf_nkind _ _ F) in H2.
          destruct (nkind (nd s p)) eqn:Kp; try reflexivity.
          + assert (Hpm : p <> m) by (intros ->; destruct (Hm_kind Hp) as [c0 K]; congruence).
            apply (inP_keep_false p H2 Hpm).
          + assert (Hpm : p <> m) by (intros ->; destruct (Hm_kind Hp) as [c0 K]; congruence).
            apply orb_false_iff in H2 as [H2 H3]. rewrite (inP_keep_false p H2 Hpm).
            rewrite (Pnd_ne p Hpm), Pk' in H3. exact H3. }
      pose proof (lp_clean _ _ L n Hg HnW0 Hgd0) as Hc.
      rewrite (clean_ok_ext s s' n HBF (sf_binds _ _ F) (sf_next _ _ F)); [exact Hc| | | | |].
      { intros x. split; [apply (sf_nkind _ _ F)|]. split; [apply (sf_decl _ _ F)|apply (sf_scope _ _ F)]. }
      { apply (sf_inGraph _ _ F). }
      { intros x Kr. destruct (decide (x = m)) as [->|Hxm]; [|apply Pvalue_ne, Hxm].
        destruct (sq_case _ _ _ _ P) as [C|Rn]; [apply C|apply (rq_ret _ _ _ _ Rn Kr)]. }
      { rewrite (Pnd_ne n Hne). reflexivity. }
      intros p Hp. destruct (sq_case _ _ _ _ P) as [C|Rn]; [apply Pval_cut, C|].
      assert (Hpar : p ∈ parents (nd s n)) by (apply (st_par _ HS); assumption).
      assert (Hpm : p <> m).
      { intros ->. destruct (Hgd_p m Hpar) as [H1 _]. rewrite (rq_changed _ _ _ _ Rn) in H1. fold k in H1.
        assert (Hdn : isDone s n = true) by (apply isDone_iff; pose proof (Pst n); fold k; lia).
        assert (Hr : reach s m n) by (apply rtc_once, (st_edge _ HS); exact Hpar).
        rewrite (lp_B _ _ L m n PmW Hr Hdn) in HnW0. discriminate. }
      apply Pval.
      + apply (edge_reg s HS p n). apply (parent_edge s HS). exact Hpar.
      + exact Hpm.
      + intros [Ka Hr]. destruct (Hgd_p p Hpar) as [_ H2]. unfold volqP in H2.
        rewrite (sf_nkind _ _ F), Ka in H2. apply orb_false_iff in H2 as [H2 H3]. apply Z.ltb_ge in H3.
        assert (Hdp : isDone s' p = true).
        { apply isDone_iff. pose proof (stamps_node_false _ _ (SP_stamps p)). lia. }
        apply Pdone'_iff in Hdp as [Hdp|?]; [|contradiction].
        rewrite (inP_keep p (lp_B _ _ L m p PmW Hr Hdp) Hpm) in H2. discriminate.
  Qed.

  Local Lemma SP_unreg n : inGraph (nd s' n) = false -> valid (nd s' n) = true ->
    recomputedAt (nd s' n) = 0 /\ changedAt (nd s' n) = 0.
  Proof.
    rewrite (sf_inGraph _ _ F), (sf_valid _ _ F). intros Hg Hv.
    assert (Hne : n <> m) by (intros ->; rewrite Hmreg in Hg; discriminate).
    rewrite (Pnd_ne n Hne). apply (lp_unreg _ _ L n Hg Hv).
  Qed.

  (* the owed set across the step *)
  Lemma step_frameP :
    (forall x, inP s (m :: R) x = true -> x <> m -> inP s' R x = true) /\
    (forall x, inP s' R x = true ->
       inP s (m :: R) x = true \/ (runPostB s m s' None /\ x ∈ children (nd s m) /\ owedC s' x = true)) /\
    (inP s' R m = true -> inHeap s m = true) /\
    (forall x, inHeap s' x = true -> inHeap s x = true \/ x ∈ children (nd s m)).
  Proof.
    split; [exact inP_keep|]. split; [exact inP'_cases|]. split.
    - intros Hm. unfold inP in Hm. rewrite (bool_decide_eq_false_2 _ PmR), andb_false_l, orb_false_r in Hm.
      apply (inHeap_iff0 s' m I') in Hm. destruct (Pnewmem m Hm) as [Hq|(_ & Hc & _)].
      + apply (inHeap_iff0 s m I), Hq.
      + destruct (Pchild_of_m m Hc) as [Hx _]. congruence.
    - intros x Hx. apply (inHeap_iff0 s' x I') in Hx. destruct (Pnewmem x Hx) as [Hq|(_ & Hc & _)]; [left|right; exact Hc].
      apply (inHeap_iff0 s x I), Hq.
  Qed.

  Lemma step_LInvP : LInvP s' R.
  Proof.
    constructor.
    - exact (bb_shape _ SP_bf).
    - exact SP_stamps.
    - pose proof (lp_nodup _ _ L) as H. apply stdpp.list.NoDup_cons in H as [_ H]. exact H.
    - exact SP_B.
    - exact SP_M.
    - exact SP_owed.
    - exact SP_clean.
    - exact SP_unreg.
    - rewrite (sf_setDuring _ _ F), (sf_setRemoved _ _ F). apply (lp_quiet _ _ L).
  Qed.
End StepP.

(** * 4. The blocks and the loop *)
(** the one missing step: the parallel recompute of a lhs-change node (proved in ParBindStep.v) *)
Definition bind_value_specP : Prop := forall fuel s b R s',
  Tplain s -> PInv s -> LInvP s (b :: R) -> inGraph (nd s b) = true -> nkind (nd s b) = KBindLhs b ->
  recomputeNodeParallel fuel [] s b = Ok (s', None) -> PInv s' ->
  LInvP s' R /\ Tplain s' /\ CF s s' /\
  (forall y, isDone s' y = true -> inGraph (nd s' y) = true -> isAlways (nkind (nd s' y)) = true ->
             isDone s y = true /\ inGraph (nd s y) = true /\ isAlways (nkind (nd s y)) = true).

Lemma PInv_unset s n : PInv s -> height (nd s n) = unset -> inGraph (nd s n) = false.
Proof.
  intros P Hu. destruct (inGraph (nd s n)) eqn:E; [exfalso|reflexivity].
  pose proof (st_hnonneg _ (PInv_Struct s P) n E). unfold unset in Hu. lia.
Qed.

Lemma PInv_hreg s n : PInv s -> height (nd s n) <> unset -> inGraph (nd s n) = true.
Proof. intros P Hu. apply (Inv_hreg s (t_zero _ _ _ (p_t s P)) (t_height _ _ _ (p_t s P)) n Hu). Qed.

Section ParLoop.
  Hypothesis HBV : bind_value_specP.

  Lemma nodeP fuel st m R st' :
    Tplain st -> PInv st -> LInvP st (m :: R) -> inGraph (nd st m) = true ->
    recomputeNodeParallel fuel [] st m = Ok (st', None) ->
    Tplain st' /\ PInv st' /\ LInvP st' R /\ stabNum st' = stabNum st /\ CF st st' /\
    (forall y, isDone st' y = true -> inGraph (nd st' y) = true -> isAlways (nkind (nd st' y)) = true ->
       (isDone st y = true /\ inGraph (nd st y) = true /\ isAlways (nkind (nd st y)) = true) \/ y = m).
  Proof.
    intros TP P L Hg H.
    destruct (recomputeNodeParallel_spec PT PT_struct bind_spec_holds fuel [] st m st' None Logic.I P eq_refl Hg H)
      as [[[Hr|Hr]|(P' & _ & Hk & _)] _]; try discriminate.
    destruct (isLhs (nkind (nd st m))) eqn:El.
    - destruct (nkind (nd st m)) eqn:K; try discriminate El.
      pose proof (p_kinds _ P m (has_inGraph _ _ Hg)) as Hkk. rewrite K in Hkk. destruct Hkk as [-> _].
      destruct (HBV fuel st b R st' TP P L Hg K H P') as (L' & TP' & C' & Hd).
      split; [exact TP'|]. split; [exact P'|]. split; [exact L'|]. split; [exact Hk|]. split; [exact C'|].
      intros y A B C. left. apply (Hd y A B C).
    - destruct (rnp_rns fuel st m st' H) as (s1 & imm & Hs & Hadd).
      pose proof (PInv_BFB st P (lp_shape _ _ L)) as HB.
      destruct (rns_stepB fuel st m s1 None imm HB (has_inGraph _ _ Hg) (proj1 (PInv_heap st P)) El Hs) as [_ PP1].
      pose proof (stepPostB_par st m s1 imm st' (proj1 (PInv_heap st P)) PP1 Hadd) as PP.
      pose proof (stepPostB_sframe _ _ _ _ PP) as F.
      pose proof (sf_binds _ _ F) as Eb.
      split; [apply (Tplain_binds st st' Eb TP)|]. split; [exact P'|].
      split; [exact (step_LInvP st m R st' (PInv_Struct st P) HB (PInv_heap st P) L Hg El PP)|].
      split; [exact Hk|]. split; [apply CF_binds, Eb|].
      intros y A B C. apply (Pdone'_iff st m st' PP) in A as [A| ->]; [left|right; reflexivity].
      rewrite <- (sf_inGraph _ _ F), <- (sf_nkind _ _ F). auto.
  Qed.

  Lemma block_err fuel l : forall st x al st2 e2 al2,
    rfold (blockStep fuel []) l (st, Some x, al) = Ok (st2, e2, al2) -> e2 = Some x.
  Proof.
    induction l as [|m l IH]; intros st x al st2 e2 al2 H; simpl in H; [injection H as _ <- _; reflexivity|].
    apply rbind_ok in H as ([[st1 e1] al1] & H1 & H). unfold blockStep in H1.
    destruct (height (nd st m) =? unset); [injection H1 as <- <- <-; apply (IH _ _ _ _ _ _ H)|].
    apply rbind_ok in H1 as ([st' e'] & _ & [= <- <- <-]). apply (IH _ _ _ _ _ _ H).
  Qed.

  Lemma blockP fuel l : forall st al st2 al2,
    Tplain st -> PInv st -> LInvP st l -> AW st al ->
    rfold (blockStep fuel []) l (st, None, al) = Ok (st2, None, al2) ->
    Tplain st2 /\ PInv st2 /\ LInvP st2 [] /\ AW st2 al2 /\ stabNum st2 = stabNum st /\ CF st st2.
  Proof.
    induction l as [|m l IH]; intros st al st2 al2 TP P L HA H; simpl in H.
    { injection H as <- <-. split; [exact TP|]. split; [exact P|]. split; [exact L|]. split; [exact HA|].
      split; [reflexivity|apply CF_binds; reflexivity]. }
    apply rbind_ok in H as ([[st1 e1] al1] & H1 & H). unfold blockStep in H1.
    destruct (Z.eqb_spec (height (nd st m)) unset) as [Hu|Hu].
    { injection H1 as <- <- <-. apply (IH st al st2 al2 TP P); [|exact HA|exact H].
      apply (LInvP_skip st m l (PInv_unset st m P Hu) L). }
    apply rbind_ok in H1 as ([st' e'] & Hr & [= <- <- <-]).
    destruct e' as [x|]; [pose proof (block_err fuel l _ _ _ _ _ _ H); discriminate|].
    pose proof (PInv_hreg st m P Hu) as Hg.
    destruct (nodeP fuel st m l st' TP P L Hg Hr) as (TP' & P' & L' & Hk' & C' & Hd).
    assert (HA' : AW st' (if isAlways (nkind (nd st' m)) then al ++ [m] else al)).
    { intros y A B C. destruct (Hd y B C A) as [(X1 & X2 & X3)| ->].
      - pose proof (HA y X3 X1 X2). destruct (isAlways (nkind (nd st' m))); [apply elem_of_app; left|]; assumption.
      - rewrite A. apply elem_of_app. right. left. }
    destruct (IH st' _ st2 al2 TP' P' L' HA' H) as (TP2 & P2 & L2 & HA2 & Hk2 & C2).
    split; [exact TP2|]. split; [exact P2|]. split; [exact L2|]. split; [exact HA2|].
    split; [congruence|apply (CF_trans st st' st2 C' C2)].
  Qed.

  (* the start of a block *)
  Lemma block_start s block w order :
    PInv s -> LInvP s [] -> Heap.takeMinBlock (heap s) = (block, w) ->
    NoDup order -> (forall x, x ∈ order <-> x ∈ block) ->
    PInv (s <| heap := w |>) /\ LInvP (s <| heap := w |>) order.
  Proof.
    intros P L Etb Hnd Hord. set (sb := s <| heap := w |>).
    destruct (t_heap _ _ _ (p_t s P)) as [Hi Hqd].
    destruct (takeMinBlock_spec (heap s) block w Hi Etb) as (Hi' & Pm & Hin).
    destruct (PInv_heap s P) as [I Hq].
    destruct (heap_takeMinBlock_spec (heap s) block w I Etb) as (Iw & _ & Hmin & _ & _ & _).
    pose proof (PInv_Struct s P) as HS.
    assert (S1 : soft s sb).
    { apply soft_only_heap; [apply only_heap_set|]. intros _ _. split; [exact Hi'|].
      intros m Hm. assert (Hm' : m ∈ Heap.ids (heap s)) by (rewrite Pm; apply elem_of_app; right; exact Hm).
      destruct (Hqd m Hm') as [A B]. split; [exact A|]. cbn. rewrite Hin.
      pose proof (inv_nodup _ (hinv_inv _ Hi)) as Hnd'. rewrite Pm in Hnd'.
      apply NoDup_app in Hnd' as (_ & Hdis & _).
      rewrite bool_decide_false by (intros Hx; apply (Hdis m Hx Hm)). exact B. }
    split; [apply (PInv_of_soft s sb P S1)|].
    assert (Iw' : HeapSpec.inv (heap sb)) by exact Iw.
    assert (HW : forall x, inP sb order x = inP s [] x).
    { intros x. rewrite inP_nil. apply eq_true_iff_eq. unfold inP. rewrite orb_true_iff, andb_true_iff, bool_decide_eq_true.
      rewrite (inHeap_iff0 sb x Iw'), (inHeap_iff0 s x I), Pm, elem_of_app, Hord. change (heap sb) with w.
      change (nd sb x) with (nd s x). split; [intros [?|[? _]]; auto|intros [Hx|?]; auto].
      right. split; [exact Hx|]. apply Hq. rewrite Pm. apply elem_of_app. left. exact Hx. }
    assert (Hr : forall a b, reach sb a b <-> reach s a b) by (apply sf_reach, sframe_set_heap).
    assert (Hgd : forall n, guardedP sb order n = guardedP s [] n).
    { intros n. unfold guardedP, volqP. apply forallb_ext. intros p _. rewrite HW. reflexivity. }
    constructor.
    - exact (lp_shape _ _ L).
    - exact (lp_stamps _ _ L).
    - exact Hnd.
    - intros x n Hx Hxn Hd. rewrite HW in *. apply (lp_B _ _ L x n Hx); [apply Hr, Hxn|exact Hd].
    - intros m x Hm Hg _ Hx Hxm. apply Hr in Hxm. rewrite HW, inP_nil in Hx.
      apply (inHeap_iff0 s x I) in Hx. apply Hord in Hm.
      assert (Hmin' : m ∈ Heap.ids (heap s)) by (rewrite Pm; apply elem_of_app; left; exact Hm).
      pose proof (Hmin m x Hm Hx) as Hle. rewrite (proj2 (Hq m Hmin')), (proj2 (Hq x Hx)) in Hle.
      destruct (reach_height s HS _ _ Hxm) as [->|Hlt]; [reflexivity|lia].
    - intros n Hg Hd Hs. rewrite HW. apply (lp_owed _ _ L n Hg Hd Hs).
    - intros n Hg Hw Hg'. rewrite HW in Hw. rewrite Hgd in Hg'.
      rewrite (clean_ok_nodes s sb n eq_refl eq_refl eq_refl). apply (lp_clean _ _ L n Hg Hw Hg').
    - exact (lp_unreg _ _ L).
    - exact (lp_quiet _ _ L).
  Qed.

  Lemma AW_heap s w al : AW s al -> AW (s <| heap := w |>) al.
  Proof. intros H y. apply H. Qed.

  Lemma loopP fuel : forall s al s' al',
    Tplain s -> PInv s -> LInvP s [] -> AW s al ->
    parLoop fuel [] s al = Ok (s', None, al') ->
    Tplain s' /\ PInv s' /\ LInvP s' [] /\ AW s' al' /\ Heap.ids (heap s') = [] /\ stabNum s' = stabNum s /\ CF s s'.
  Proof.
    induction fuel as [|fuel IH]; intros s al s' al' TP P L HA H; [discriminate|].
    rewrite parLoop_S in H. destruct (PInv_heap s P) as [I Hq].
    destruct (Z.leb_spec (Heap.cnt (heap s)) 0) as [Hc|Hc].
    { injection H as <- <-. split; [exact TP|]. split; [exact P|]. split; [exact L|]. split; [exact HA|].
      split; [apply cnt_zero_ids; assumption|]. split; [reflexivity|apply CF_binds; reflexivity]. }
    destruct (Heap.takeMinBlock (heap s)) as [block w] eqn:Etb. cbv zeta in H.
    set (sb := s <| heap := w |>) in *.
    set (isL := fun n : nid => match nkind (nd sb n) with KBindLhs _ => true | _ => false end) in *.
    set (order := filter (fun n => isL n = true) block ++ filter (fun n => isL n = false) block) in *.
    apply rbind_ok in H as ([[s2 e2] al2] & H2 & H).
    destruct e2 as [x|]; [discriminate|].
    destruct (heap_takeMinBlock_spec (heap s) block w I Etb) as (_ & Pm & _).
    assert (Hndb : NoDup block).
    { pose proof (inv_nodup _ I) as Hn. rewrite Pm in Hn. apply NoDup_app in Hn as (Hn & _). exact Hn. }
    assert (Hord : forall x, x ∈ order <-> x ∈ block).
    { intros x. unfold order. rewrite elem_of_app, !elem_of_list_filter. destruct (isL x); intuition congruence. }
    assert (Hndo : NoDup order).
    { unfold order. apply NoDup_app. split; [apply stdpp.list.NoDup_filter, Hndb|]. split; [|apply stdpp.list.NoDup_filter, Hndb].
      intros x [A _]%elem_of_list_filter [B _]%elem_of_list_filter. congruence. }
    destruct (block_start s block w order P L Etb Hndo Hord) as [Pb Lb]. fold sb in Pb, Lb.
    destruct (blockP fuel order sb al s2 al2 (Tplain_binds s sb eq_refl TP) Pb Lb (AW_heap s w al HA) H2)
      as (TP2 & P2 & L2 & HA2 & Hk2 & C2).
    destruct (IH s2 al2 s' al' TP2 P2 L2 HA2 H) as (TP' & P' & L' & HA' & Hemp & Hk' & C').
    split; [exact TP'|]. split; [exact P'|]. split; [exact L'|]. split; [exact HA'|]. split; [exact Hemp|].
    split; [rewrite Hk', Hk2; reflexivity|]. apply (CF_trans s s2 s'); [|exact C'].
    apply (CF_trans s sb s2); [apply CF_binds; reflexivity|exact C2].
  Qed.
End ParLoop.

(** * 5. The whole parallel pass *)
Lemma requeuePar_eq always : forall s,
  rfold (fun s n => if (height (nd s n) =? unset) || inHeap s n then Ok s else heapAdd s n) always s =
  PassProofs.requeueAlways always s.
Proof.
  unfold PassProofs.requeueAlways. induction always as [|a l IH]; intros s; [reflexivity|].
  rewrite !rfold_cons. unfold heapAddIfNotPresent.
  destruct (height (nd s a) =? unset); simpl; [apply IH|].
  destruct (inHeap s a); simpl; [apply IH|].
  destruct (heapAdd s a); simpl; [apply IH|reflexivity|reflexivity].
Qed.

Lemma parStabilize_nil_inv s s' :
  status s = 0 -> setDuring s = [] -> setRemoved s = [] ->
  parStabilize [] s = Ok (s', None) ->
  let s1 := emit EvPassStart (s <| status := 1 |>) in
  exists sL always sR hev,
    parLoop (passFuel s1) [] s1 [] = Ok (sL, None, always) /\
    PassProofs.requeueAlways always sL = Ok sR /\
    (setDuring sL = [] -> setRemoved sL = [] ->
     s' = sR <| status := 0 |> <| handlers := [] |> <| setDuring := [] |> <| setRemoved := [] |>
             <| stabNum := stabNum sR + 1 |> <| log := hev ++ EvPassEnd XOk :: log sR |>) /\
    Forall isHandlerEv hev.
Proof.
  intros Hst Hsd Hsr H s1. unfold parStabilize in H. rewrite Hst in H. simpl in H. fold s1 in H.
  destruct (parLoop (passFuel s1) [] s1 []) as [[[sL e] always]| |] eqn:EL; simpl in H; try discriminate.
  rewrite requeuePar_eq in H.
  destruct (PassProofs.requeueAlways always sL) as [sR| |] eqn:ER; simpl in H; try discriminate.
  destruct e as [e|].
  { exfalso. destruct (stabilizeEnd sR (Some e)) as [s4| |]; simpl in H; discriminate. }
  unfold stabilizeEnd in H.
  destruct (runUpdateHandlers_shape (emit (EvPassEnd (classify None)) sR)) as (hev & Eh & Hhev).
  rewrite Eh in H. clear Eh.
  exists sL, always, sR, hev. split; [reflexivity|]. split; [exact ER|]. split; [|exact Hhev].
  intros HsdL HsrL.
  pose proof (requeue_only_heap _ _ _ ER) as OR.
  assert (HsdR : setDuring sR = [] /\ setRemoved sR = []).
  { rewrite (oh_setDuring _ _ OR), (oh_setRemoved _ _ OR). auto. }
  destruct HsdR as [HsdR HsrR].
  unfold applyDeferredSets in H. cbn in H. rewrite HsdR, HsrR in H. simpl in H.
  injection H as <-. unfold emit. cbn. destruct sR; reflexivity.
Qed.

Lemma parB_Inv s s' : Inv s -> parStabilize [] s = Ok (s', None) -> Inv s' /\ wfb s' = true.
Proof.
  intros IV H. assert (I' : Inv s').
  { apply (Inv_step_parstabilize s (ParStabilize []) s' None IV); try reflexivity; try discriminate. exact H. }
  split; [exact I'|exact (Inv_wfb s' I')].
Qed.

From incr Require Import SpecProofs.

Section ParPass.
  Hypothesis HBV : bind_value_specP.

  (** the parallel pass on a graph with binds (binds may swap): consistency and the quiescent
      invariant afterwards *)
  Theorem parS_all s s' :
    Inv s -> ValInvB s -> Tplain s -> parStabilize [] s = Ok (s', None) ->
    consistent s' = true /\ Inv s' /\ wfb s' = true /\ Shape s' /\ ValInvB s' /\ Tplain s' /\ CF s s'.
  Proof.
    intros IV V TP H. pose proof (Inv_wfb s IV) as Hwf.
    destruct (wfb_transients _ Hwf) as (Hst & Hsd & Hsr & Hh).
    destruct (parStabilize_nil_inv s s' Hst Hsd Hsr H) as (sL & always & sR & hev & EL & ER & Es & Hhev).
    fold (passStart s) in EL. set (s1 := passStart s) in *.
    pose proof (LInvP_of_LInvC s1 (LInvC_start s IV V)) as L1.
    pose proof (Inv_PInv_start s IV) as P1. fold (passStart s) in P1. fold s1 in P1.
    pose proof (Tplain_binds s s1 eq_refl TP) as TP1.
    assert (HA1 : AW s1 []).
    { intros y _ Hd _. exfalso. pose proof (stamps_node_true _ _ (vb_stamps _ V y)). unfold isDone in Hd. apply Z.eqb_eq in Hd.
      change (recomputedAt (nd s y) = stabNum s) in Hd. lia. }
    destruct (loopP HBV _ s1 [] sL always TP1 P1 L1 HA1 EL) as (TPL & PL & LPL & HAL & Hemp & HkL & CL).
    destruct (PInv_heap sL PL) as [IL HqL].
    pose proof (LInvC_of_LInvP sL IL Hemp LPL) as LL.
    specialize (Es (proj1 (lc_quiet _ _ LL)) (proj2 (lc_quiet _ _ LL))).
    pose proof (requeue_only_heap _ _ _ ER) as OR.
    destruct (requeue_mem always sL sR IL ER) as (IR & MR & AR).
    assert (Hn : nodes s' = nodes sL) by (rewrite Es; cbn; apply (oh_nodes _ _ OR)).
    assert (Hb : binds s' = binds sL) by (rewrite Es; cbn; apply (oh_binds _ _ OR)).
    assert (Hx : next s' = next sL) by (rewrite Es; cbn; apply (oh_next _ _ OR)).
    assert (Hk' : stabNum s' = stabNum s + 1).
    { rewrite Es. cbn. rewrite (oh_stabNum _ _ OR), HkL. reflexivity. }
    assert (Hheap : heap s' = heap sR) by (rewrite Es; reflexivity).
    pose proof (nodes_eq_nd _ _ Hn) as Hnd.
    pose proof (PInv_Struct sL PL) as HSL. pose proof (PInv_BFB sL PL (lc_shape _ _ LL)) as HBL.
    assert (HkLs : stabNum sL = stabNum s) by exact HkL.
    split; [exact (endC_consistent sL PL LL Hemp s' Hn Hb Hx)|].
    destruct (parB_Inv s s' IV H) as [I' Hwf']. split; [exact I'|]. split; [exact Hwf'|].
    assert (HSh : Shape s') by (intros n y E; rewrite Hn in E; exact (lc_shape _ _ LL n y E)).
    split; [exact HSh|]. split.
    2:{ split; [apply (Tplain_binds sL s' Hb); exact TPL|].
        apply (CF_trans s sL s'); [|apply CF_binds, Hb]. apply (CF_trans s s1 sL); [apply CF_binds; reflexivity|exact CL]. }
    constructor.
    - exact HSh.
    - intros n. unfold stamps_node. rewrite Hnd, Hk'. pose proof (stamps_node_false _ _ (lc_stamps _ _ LL n)) as Hs.
      rewrite HkLs in Hs. rewrite !andb_true_iff, !Z.leb_le, !Z.ltb_lt. lia.
    - intros n Hg Hv. rewrite Hnd in *. apply (lc_unreg _ _ LL n Hg Hv).
    - intros n Hg Hs. rewrite Hnd in Hg. rewrite (isStale_nodes sL s' n Hn) in Hs.
      destruct (endC_stale_always sL PL LL Hemp n Hg Hs) as [Ka Hd].
      apply (inHeap_iff0 s' n); [rewrite Hheap; exact IR|]. rewrite Hheap. apply AR.
      + apply (HAL n); [rewrite Ka; reflexivity|exact Hd|exact Hg].
      + pose proof (st_hnonneg _ HSL n Hg). unfold unset. lia.
    - intros n Hg _ _. rewrite Hnd in *.
      rewrite (consistent_valB_nodes sL s' n _ Hn Hb).
      pose proof (endC_clean sL PL LL Hemp n Hg) as Hc. unfold clean_ok in Hc. apply andb_true_iff in Hc as [Hc _]. exact Hc.
    - intros b Hg K _ _. rewrite Hnd in *. rewrite (matchesOK_nodes sL s' b Hn Hb Hx).
      destruct (bb_main _ HBL _ _ K) as (_ & KL & Hd).
      assert (E1 : edge sL b (S b)) by (apply (decl_parent sL HSL _ _ Hg); rewrite Hd; left).
      destruct (edge_reg sL HSL _ _ E1) as [HgL _].
      pose proof (endC_clean sL PL LL Hemp b HgL) as HcL. unfold clean_ok in HcL. apply andb_true_iff in HcL as [_ HcL].
      rewrite KL, Hg, K in HcL. rewrite !bool_decide_eq_true_2 in HcL by reflexivity. exact HcL.
  Qed.

  Theorem parS_observers_agree s s' :
    Inv s -> ValInvB s -> Tplain s -> parStabilize [] s = Ok (s', None) -> templates_ok s' = true ->
    consistent s' = true /\ observers_agree s' = true /\ Inv s' /\ wfb s' = true.
  Proof.
    intros IV V TP H Ht. destruct (parS_all s s' IV V TP H) as (Hc & I' & Hwf' & HSh & _).
    split; [exact Hc|]. split; [|auto].
    exact (C01_observers_agree_proof s' Hwf' (Inv_closed s' I' HSh) Ht Hc).
  Qed.
End ParPass.
