(** Crash-freedom of ParallelStabilize: what holds and what does not (additive to EngineInvMProofs.v; the memo variant of EngineInvParNc.v).

    FULL STATEMENT — from [Inv s], a well-formed plan and [par_plan_clean], [parStabilize p s] never
    faults — is FALSE ([nc_parStabilize_refuted], from the witness [par_crash_refuted]): the nodes of a
    height block keep running after one bind of the block was rejected for the height limit, and
    the next bind's height adjustment dereferences the nil its heap scan returns.  The witness
    uses the empty plan, so no condition on the plan repairs it.

    What holds: ParallelStabilize never faults as long as no lhs-change node is registered
    ([nc_step_parstabilize_nolhs]: binds may exist, e.g. unobserved ones; any plan, injected
    faults included), hence over bind-free histories every clean operation, under either
    stabilizer, is fault-free ([nc_step_bindfree], [run_no_crash_bindfree]). *)
From incr Require Import Base Heap HeapSpec HeapProofs EngineDefs Engine EngineWf EngineLemmas EngineInvM EngineInvMProofs.

(* no lhs-change node is registered *)
Definition nolhs (s : state) : Prop :=
  forall n b, inGraph (nd s n) = true -> nkind (nd s n) <> KBindLhs b.

Lemma nolhs_struct s s' : same_struct s s' -> nolhs s -> nolhs s'.
Proof.
  intros SS H n b Hg. destruct (ss_node _ _ SS n) as (Ek&_&_&_&_&_&_&_&_&_&Eg).
  rewrite Ek. apply H. rewrite <- Eg. exact Hg.
Qed.

Lemma bind_spec_nolhs : bind_spec nolhs.
Proof. intros fuel p s b s' e Hq P Hp Hk Hg _. exfalso. exact (Hq b b Hg Hk). Qed.

Lemma bindfree_nolhs s : Inv s -> binds s = ∅ -> nolhs s.
Proof.
  intros HI Hb n b Hg Ek.
  pose proof (inv_kinds s HI n (has_inGraph s n Hg)) as K. rewrite Ek in K. destruct K as [_ [r Hr]].
  rewrite Hb, lookup_empty in Hr. discriminate.
Qed.

Theorem nc_parStabilize_nolhs p s : Inv s -> nolhs s -> plan_ok s p = true -> nocrash (parStabilize p s).
Proof.
  intros HI Hq Hp.
  exact (nc_parStabilize nolhs nolhs_struct bind_spec_nolhs (fun st n b Hq' _ Hg => Hq' n b Hg) p s HI Hq Hp).
Qed.

Theorem nc_step_parstabilize_nolhs s o :
  Inv s -> nolhs s -> op_ok s o = true -> is_parstabilize o = true -> nocrash (step s o).
Proof.
  intros HI Hq Hok Hg. destruct o; try discriminate. simpl in Hok |- *. apply nc_parStabilize_nolhs; assumption.
Qed.

(* every clean operation, under either stabilizer, from a bind-free state *)
Theorem nc_step_bindfree s o :
  Inv s -> binds s = ∅ -> op_ok s o = true -> op_clean s o = true -> nocrash (step s o).
Proof.
  intros HI Hb Hok Hcl. destruct (is_parstabilize o) eqn:Ep.
  - apply (nc_step_parstabilize_nolhs s o HI (bindfree_nolhs s HI Hb) Hok Ep).
  - apply (nc_step s o HI Hok Hcl Ep).
Qed.

Theorem run_no_crash_bindfree mh os s o :
  (0 < mh)%nat -> forallb op_nobind os = true -> run_clean (init mh) os = Some s ->
  op_ok s o = true -> op_clean s o = true -> forall c, step s o <> Crash c.
Proof.
  intros Hmh Hn H Hok Hcl. destruct (Inv_run_clean_bindfree mh os s Hmh Hn H) as [HI Hb].
  apply (nc_step_bindfree s o HI Hb Hok Hcl).
Qed.

(* ... and with binds in the state, as long as none of them is registered when the pass starts *)
Theorem run_no_crash_par_nolhs mh os s o :
  (0 < mh)%nat -> run_clean (init mh) os = Some s -> nolhs s ->
  op_ok s o = true -> is_parstabilize o = true -> forall c, step s o <> Crash c.
Proof. intros Hmh H Hq Hok Hg. apply (nc_step_parstabilize_nolhs s o (Inv_run_clean mh os s Hmh H) Hq Hok Hg). Qed.

(* the full statement is false *)
Theorem nc_parStabilize_refuted :
  ~ (forall s p, Inv s -> plan_ok s p = true -> par_plan_clean s p = true -> nocrash (parStabilize p s)).
Proof.
  intros H. destruct par_crash_refuted as (os & s & Hr & Hok & Hcl & Hc).
  apply (H s [] (Inv_run_clean_from (init 8) os s (Inv_init 8 ltac:(lia)) Hr) Hok Hcl NilDeref). exact Hc.
Qed.

Theorem run_no_crash_par_refuted :
  ~ (forall mh os s o, (0 < mh)%nat -> run_clean (init mh) os = Some s ->
       op_ok s o = true -> op_clean s o = true -> forall c, step s o <> Crash c).
Proof.
  intros H. destruct par_crash_refuted as (os & s & Hr & Hok & Hcl & Hc).
  apply (H 8%nat os s (ParStabilize []) ltac:(lia) Hr Hok Hcl NilDeref Hc).
Qed.
