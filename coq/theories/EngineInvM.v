(** The inductive invariant of [Engine.step] (C05 / C06 / C10), as Prop-level clauses, and the
    history predicate [run_clean] under which it is proved — VARIANT WITH MEMOIZED BINDS
    (incrutil.BindMemoized; proofs: EngineInvMProofs.v, statements: Properties/C05_memo.v and
    Properties/C09_memo.v).  EngineInv.v / EngineInvProofs.v remain the reference development
    for histories without memoized binds (the pass-correctness files build on them); this
    variant repeats all of it — invariance, crash-freedom, the C08 history theorems — with
    memoized binds admitted.

    [Inv s] describes a QUIESCENT state (between two operations of a history).  It implies
    every clause of [EngineWf.wfb] ([EngineInvProofs.Inv_wfb]) and adds what makes it
    inductive: identifiers below [next] with records, well-formed bind records, the scoping
    discipline of bind-created nodes (which makes "registered => valid" and the acyclicity
    of declarations invariant), stamps bounded by [stabNum], the heap invariant, and the
    lifecycle ghost facts about the accumulated event log.

    What [run_clean] demands beyond [op_ok] ([op_clean]), and why (witnesses in
    Properties/C05.v):
    - (this file is the variant of EngineInv.v that ADMITS memoized binds: [NewBindMemo],
      [PurgeMemo], [ClearMemo] are clean) the templates of a memoized bind contain no nested
      bind ([texp_nobind]).  A memoized bind builds its right-hand sides in the scope it lives
      in itself — here: at top level —, so the built nodes carry no scope; the acyclicity
      clause [sc_acyclic] therefore orders declarations with a GHOST owner (existentially
      quantified inside the invariant, not part of the state): a top-level node built by the
      function of the memoized bind [b] counts as a node of the scope of [b];
    - operations and bind templates mention TOP-LEVEL nodes only (nodes created by a bind
      function are not handed out): observing a node of a discarded generation breaks
      clause Q4 of [wfb] without any error being reported;
    - [AddInput n a] only with [a] created before [n]: a cyclic declaration made while [n]
      is unobserved is not detected by the engine, and observing it later inverts heights
      with result class XOk;
    - [ParStabilize p] only with a plan [p] that injects no fault into a bind function
      ([par_plan_clean]): ParallelStabilize runs every node of a height block and keeps the
      FIRST error, so a user error of one bind masks the height-limit rejection of another
      bind of the same block, and the pass ends ill-formed with result class XUser. *)
From incr Require Import Base Heap HeapSpec HeapProofs EngineDefs Engine EngineWf EngineLemmas.

(** * Clauses *)

(** ** Identifiers and records *)
Record ids_ok (s : state) : Prop := {
  io_lt : forall n, has s n -> (n < next s)%nat;
  io_decl : forall n p, p ∈ decl (nd s n) -> has s p
}.

Fixpoint texp_wf (s : state) (T : nid) (root : bool) (e : texp) : Prop :=
  match e with
  | TOuter t => has s t /\ scope (nd s t) = None /\ (t < T)%nat /\
                match nkind (nd s t) with KBindLhs _ => False | _ => True end
  | TMap _ e | TCut _ e => texp_wf s T false e
  | TMap2 _ e1 e2 => texp_wf s T false e1 /\ texp_wf s T false e2
  | TBind cs e => (fix go (l : list texp) : Prop :=
                     match l with [] => True | c :: l => texp_wf s T true c /\ go l end) cs
                  /\ texp_wf s T false e
  | TNil => root = true
  | _ => True
  end.

(* memoized binds: templates without nested binds *)
Fixpoint texp_nobind (e : texp) : bool :=
  match e with
  | TMap _ e | TCut _ e => texp_nobind e
  | TMap2 _ e1 e2 => texp_nobind e1 && texp_nobind e2
  | TBind _ _ => false
  | _ => true
  end.

(** the scope chain of a node: its top-level ancestor and its nesting depth *)
Inductive chain (s : state) : nid -> nid -> nat -> Prop :=
| chain_top n : scope (nd s n) = None -> chain s n n 0
| chain_in n b t d : scope (nd s n) = Some b -> chain s b t d -> chain s n t (S d).

Record bind_wf (s : state) (b : nat) (r : bindrec) : Prop := {
  bw_lhsChange : b_lhsChange r = b;
  bw_main : b_main r = S b;
  (* a memoized bind lives at top level, builds at top level (its scope list stays empty) and its
     cached roots are top-level user nodes *)
  bw_memo : b_memo r = true -> b_rhsNodes r = [] /\ scope (nd s b) = None /\
              Forall (fun e => texp_nobind e = true) (b_cases r);
  bw_cache : forall x q, (x, Some q) ∈ b_cache r ->
               has s q /\ scope (nd s q) = None /\ forall k, nkind (nd s q) <> KBindLhs k;
  bw_has_lhs : has s b;
  bw_has_main : has s (S b);
  bw_kind_lhs : nkind (nd s b) = KBindLhs b;
  bw_kind_main : nkind (nd s (S b)) = KBindMain b;
  bw_decl_lhs : decl (nd s b) = [b_lhs r];
  bw_decl_main : decl (nd s (S b)) = b :: option_list (b_rhs r);
  bw_scope : scope (nd s (S b)) = scope (nd s b);
  bw_rhsNodes : forall n, n ∈ b_rhsNodes r -> has s n /\ scope (nd s n) = Some b;
  bw_nodup : NoDup (b_rhsNodes r);
  bw_nil : b_rhs r = None -> b_rhsNodes r = [];
  bw_cases : forall t d, chain s b t d -> Forall (texp_wf s t true) (b_cases r)
}.

Definition binds_wf (s : state) : Prop := forall b r, binds s !! b = Some r -> bind_wf s b r.

Definition kinds_ok (s : state) : Prop :=
  forall n, has s n ->
    match nkind (nd s n) with
    | KBindLhs b => n = b /\ is_Some (binds s !! b)
    | KBindMain b => n = S b /\ is_Some (binds s !! b)
    | _ => True
    end.

Definition scopes_ok (s : state) : Prop :=
  forall n b, scope (nd s n) = Some b -> is_Some (binds s !! b) /\ (S b < n)%nat.

(** ** The scoping discipline of bind-created nodes *)
Definition inGen (s : state) (b : nat) (n : nid) : Prop := n ∈ b_rhsNodes (bd s b).

(* declarations strictly decrease a lexicographic key: (top-level ancestor, -depth, id) *)
Definition key_lt (kq kn : nid * nat * nid) : Prop :=
  let '(tq, dq, q) := kq in
  let '(tn, dn, n) := kn in
  (tq < tn)%nat \/ (tq = tn /\ ((dn < dq)%nat \/ (dq = dn /\ (q < n)%nat))).

Definition mu_lt (s : state) (q n : nid) : Prop :=
  forall tq dq tn dn, chain s q tq dq -> chain s n tn dn -> key_lt (tq, dq, q) (tn, dn, n).

(** the same order with a ghost owner: a top-level node built by the function of the memoized
    bind [b] counts as a node of the scope of [b] *)
Definition vsc (own : nid -> option nat) (s : state) (n : nid) : option nat :=
  match scope (nd s n) with Some b => Some b | None => own n end.

Inductive gchain (own : nid -> option nat) (s : state) : nid -> nid -> nat -> Prop :=
| gchain_top n : vsc own s n = None -> gchain own s n n 0
| gchain_in n b t d : vsc own s n = Some b -> gchain own s b t d -> gchain own s n t (S d).

Definition gmu_lt (own : nid -> option nat) (s : state) (q n : nid) : Prop :=
  forall tq dq tn dn, gchain own s q tq dq -> gchain own s n tn dn -> key_lt (tq, dq, q) (tn, dn, n).

Definition own_ok (own : nid -> option nat) (s : state) : Prop :=
  forall n b, own n = Some b ->
    has s n /\ scope (nd s n) = None /\ (S b < n)%nat /\ scope (nd s b) = None /\ own b = None /\
    match nkind (nd s n) with KMapN _ | KBindLhs _ | KBindMain _ => False | _ => True end.

Record scoping_ok (s : state) : Prop := {
  (* whom a node may declare as an input *)
  sc_decl : forall n q, q ∈ decl (nd s n) ->
    scope (nd s q) = None \/ scope (nd s q) = scope (nd s n) \/
    (exists b, nkind (nd s n) = KBindMain b /\ scope (nd s q) = Some b /\ b_rhs (bd s b) = Some q);
  (* nodes of the current generation declare nodes of the current generation *)
  sc_gen : forall n q b, q ∈ decl (nd s n) -> scope (nd s n) = Some b -> scope (nd s q) = Some b ->
    inGen s b n -> inGen s b q;
  (* the right-hand side of a bind: a top-level node or one of the current generation *)
  sc_rhs : forall b q, b_rhs (bd s b) = Some q ->
    scope (nd s q) = None \/ (scope (nd s q) = Some b /\ inGen s b q);
  (* declarations are acyclic *)
  sc_acyclic : exists own, own_ok own s /\
    (forall n q, q ∈ decl (nd s n) -> gmu_lt own s q n) /\
    (* a cached root may become the right-hand side of its bind again *)
    (forall b r x q, binds s !! b = Some r -> (x, Some q) ∈ b_cache r -> gmu_lt own s q (S b));
  (* a lhs-change node is declared by its main node only *)
  sc_lhs : forall n q b0, q ∈ decl (nd s n) -> nkind (nd s q) = KBindLhs b0 -> n = S q;
  (* the right-hand side of a bind is not a lhs-change node *)
  sc_rhs_nl : forall b q b0, b_rhs (bd s b) = Some q -> nkind (nd s q) <> KBindLhs b0;
  (* the two nodes of a nested bind belong to the same generation *)
  sc_pair : forall b b1, inGen s b b1 -> nkind (nd s b1) = KBindLhs b1 -> inGen s b (S b1)
}.

Record valid_ok (s : state) : Prop := {
  vo_top : forall n, scope (nd s n) = None -> valid (nd s n) = true;
  (* discarded generations are invalid and unregistered, for good *)
  vo_dead : forall n b, has s n -> scope (nd s n) = Some b -> ~ inGen s b n ->
    valid (nd s n) = false /\ inGraph (nd s n) = false;
  vo_gen : forall n b, inGen s b n -> valid (nd s n) = valid (nd s b);
  vo_reg : forall n, inGraph (nd s n) = true -> valid (nd s n) = true
}.

(** ** The dependency graph *)
(** every edge is recorded on both endpoints with the same multiplicity *)
Definition edges_ok (s : state) : Prop :=
  forall c p, count_occ_n p (parents (nd s c)) = count_occ_n c (children (nd s p)).

(** a node that is not registered has no edges, no observers and no height *)
Definition zero_ok (s : state) : Prop :=
  forall n, inGraph (nd s n) = false ->
    parents (nd s n) = [] /\ children (nd s n) = [] /\ observers (nd s n) = [] /\
    height (nd s n) = unset.

(** registered exactly when necessary *)
Definition nec_ok (s : state) : Prop := forall n, inGraph (nd s n) = isNecessary (nd s n).

(** the linked inputs of a registered node are its declared inputs, in order *)
Definition par_ok (s : state) : Prop :=
  forall n, inGraph (nd s n) = true -> parents (nd s n) = decl (nd s n).

(** heights: in range, strictly above every linked input and above the scope's lhs-change *)
Definition height_ok (s : state) : Prop :=
  forall n, inGraph (nd s n) = true ->
    0 <= height (nd s n) < maxHeight s /\
    (forall p, p ∈ parents (nd s n) -> height (nd s p) < height (nd s n)) /\
    scopeHeight s (scope (nd s n)) < height (nd s n).

(** ** The recompute heap ([hinv]: EngineLemmas; opaque for clients, use the [heap*_spec] lemmas) *)

Definition heap_ok (s : state) : Prop :=
  hinv (heap s) /\
  forall n, n ∈ Heap.ids (heap s) ->
    inGraph (nd s n) = true /\ Heap.hinOf (heap s) n = height (nd s n).

(** ** Registry and counts *)
Record count_ok (s : state) : Prop := {
  co_nodup : NoDup (reg s);
  co_reg : forall n, n ∈ reg s <-> inGraph (nd s n) = true;
  co_num : numNodes s = Z.of_nat (length (reg s)) + Z.of_nat (size (obs s))
}.

(** ** Observers *)
Record obs_ok (s : state) : Prop := {
  ob_iff : forall n o, o ∈ observers (nd s n) <-> obs s !! o = Some n;
  ob_nodup : forall n, NoDup (observers (nd s n));
  ob_ids : forall o n, obs s !! o = Some n ->
    (o < next s)%nat /\ ~ has s o /\ scope (nd s n) = None;
  (* lhs-change nodes are not observed *)
  ob_user : forall o n, obs s !! o = Some n -> binds s !! n = None
}.

(** ** Transient structures are empty between operations *)
Record quiet (s : state) : Prop := {
  q_anum : a_num (adj s) = 0;
  q_invq : invq s = [];
  q_status : status s = 0;
  q_setDuring : setDuring s = [];
  q_setRemoved : setRemoved s = [];
  q_handlers : handlers s = [];
  q_force : forall n, forceNec (nd s n) = false;
  q_hadj : forall n, hAdj (nd s n) = unset;
  q_by : Forall (fun q => q = []) (a_byHeight (adj s))
}.

Record shape_ok (s : state) : Prop := {
  sh_mh : 0 < maxHeight s;
  sh_len : length (a_byHeight (adj s)) = Z.to_nat (maxHeight s)
}.

(** ** Stamps *)
Record stamps_ok (s : state) : Prop := {
  st_num : 1 <= stabNum s;
  st_le : forall n, 0 <= recomputedAt (nd s n) <= stabNum s /\
                    0 <= changedAt (nd s n) <= stabNum s /\
                    0 <= setAt (nd s n) <= stabNum s
}.

(** ** Lifecycle ghost facts (C10) about the accumulated log (most recent event first) *)
Fixpoint lastNU (l : list event) (n : nid) : option bool :=
  match l with
  | [] => None
  | EvNec m :: l' => if decide (m = n) then Some true else lastNU l' n
  | EvUnnec m :: l' => if decide (m = n) then Some false else lastNU l' n
  | _ :: l' => lastNU l' n
  end.

(* [e] may be logged after the events [l] *)
Definition ev_ok (e : event) (l : list event) : Prop :=
  match e with
  | EvNec n => lastNU l n <> Some true
  | EvUnnec n => lastNU l n = Some true
  | EvInvoked n _ _ | EvCutoff n _ _ _ | EvBindFn n _ _ => lastNU l n = Some true /\ EvInval n ∉ l
  | EvInval n => EvInval n ∉ l
  | _ => True
  end.

Fixpoint log_ok (l : list event) : Prop :=
  match l with [] => True | e :: l' => ev_ok e l' /\ log_ok l' end.

Record life_ok (s : state) : Prop := {
  lf_log : log_ok (log s);
  lf_reg : forall n, inGraph (nd s n) = true <-> lastNU (log s) n = Some true;
  lf_inval : forall n, valid (nd s n) = false <-> EvInval n ∈ log s
}.

(** * The invariant *)
Record Inv (s : state) : Prop := {
  inv_ids : ids_ok s;
  inv_binds : binds_wf s;
  inv_kinds : kinds_ok s;
  inv_scopes : scopes_ok s;
  inv_scoping : scoping_ok s;
  inv_valid : valid_ok s;
  inv_edges : edges_ok s;
  inv_zero : zero_ok s;
  inv_nec : nec_ok s;
  inv_par : par_ok s;
  inv_height : height_ok s;
  inv_heap : heap_ok s;
  inv_count : count_ok s;
  inv_obs : obs_ok s;
  inv_quiet : quiet s;
  inv_shape : shape_ok s;
  inv_stamps : stamps_ok s;
  inv_life : life_ok s
}.

(** * Clean histories *)
Definition isTop (s : state) (n : nid) : bool :=
  match nodes s !! n with Some x => bool_decide (scope x = None) | None => false end.

Fixpoint texp_top (s : state) (e : texp) : bool :=
  match e with
  | TOuter n => isTop s n
  | TMap _ e | TCut _ e => texp_top s e
  | TMap2 _ e1 e2 => texp_top s e1 && texp_top s e2
  | TBind cases e => forallb (texp_top s) cases && texp_top s e
  | _ => true
  end.

(** the plans admitted under ParallelStabilize: an injected failure of a node's function names
    an existing node that is not a bind's lhs-change node (failing cutoff predicates are free) *)
Definition par_plan_clean (s : state) (p : plan) : bool :=
  forallb (fun '(n, w, a) =>
             match a, w with
             | AFail _, WFn =>
               match nodes s !! n with
               | Some x => match nkind x with KBindLhs _ => false | _ => true end
               | None => false
               end
             | _, _ => true
             end) p.

(** the extra demands on an operation (see the header) *)
Definition op_clean (s : state) (o : op) : bool :=
  match o with
  | NewVar _ _ | NewReturn _ => true
  | NewMap _ a | NewCutoff _ a | NewAlways a => isTop s a
  | NewMap2 _ a b => isTop s a && isTop s b
  | NewMapN _ ins => forallb (isTop s) ins
  | NewBind cases a => isTop s a && forallb (texp_top s) cases
  | NewBindMemo cases a => isTop s a && forallb (texp_top s) cases && forallb texp_nobind cases
  | PurgeMemo _ _ | ClearMemo _ => true
  | Observe n => isTop s n
  | Unobserve _ => true
  | SetVar _ _ | UpdateVar _ _ => true
  | AddInput n a => isTop s n && isTop s a && (a <? n)%nat
  | RemoveInput n a => isTop s n
  | Stabilize _ | StabilizeCancelled => true
  | ParStabilize p => par_plan_clean s p
  end.

Definition rejected (e : option err) : bool :=
  match e with Some ECycle | Some EHeightLimit => true | _ => false end.

(** every operation well-formed and clean, none crashed or ran out of fuel, none rejected for
    a cycle or the height limit *)
Fixpoint run_clean (s : state) (os : list op) : option state :=
  match os with
  | [] => Some s
  | o :: os =>
    if op_ok s o && op_clean s o then
      match step s o with
      | Ok (s', e) => if rejected e then None else run_clean s' os
      | _ => None
      end
    else None
  end.

(** * Reachability from the observers along declared inputs (C06) *)
Inductive reachable (s : state) : nid -> Prop :=
| reach_obs o n : obs s !! o = Some n -> reachable s n
| reach_decl n p : reachable s n -> p ∈ decl (nd s n) -> reachable s p.

(** * Lifecycle statements (C10), on the chronological log [rev (log s)] *)
(** the necessity events of [n] alternate; [expectNec]: the next one must be [EvNec n] *)
Fixpoint alternates (n : nid) (expectNec : bool) (l : list event) : Prop :=
  match l with
  | [] => True
  | EvNec m :: l' => if decide (m = n) then expectNec = true /\ alternates n false l' else alternates n expectNec l'
  | EvUnnec m :: l' => if decide (m = n) then expectNec = false /\ alternates n true l' else alternates n expectNec l'
  | _ :: l' => alternates n expectNec l'
  end.

(** the node whose function (or cutoff predicate, or bind function) an event reports as run *)
Definition ev_runs (e : event) : option nid :=
  match e with
  | EvInvoked n _ _ | EvCutoff n _ _ _ | EvBindFn n _ _ => Some n
  | _ => None
  end.

(** [run_clean] without the extra demands [op_clean]: only [op_ok], no crash, no rejection *)
Fixpoint run_unrejected (s : state) (os : list op) : option state :=
  match os with
  | [] => Some s
  | o :: os =>
    if op_ok s o then
      match step s o with
      | Ok (s', e) => if rejected e then None else run_unrejected s' os
      | _ => None
      end
    else None
  end.

(** * Example histories with a memoized bind (non-vacuity; Properties/C05_memo.v) *)
Definition isBindFn (e : event) : bool := match e with EvBindFn _ _ _ => true | _ => false end.
Definition bindfn_count (s : state) : nat := length (filter (fun e => isBindFn e = true) (log s)).

(* var 0, var 1, memoized bind (lhs-change 2, main 3) on var 0, observed; the bind function runs
   for the values 1 and 2, then the value 1 is served from the cache *)
Definition h_memo_hit : list op :=
  [NewVar 1 false; NewVar 10 false;
   NewBindMemo [TMap (Aff 1 1) TX; TMap2 (Lin2 1 1 0) (TOuter 1%nat) TX] 0%nat;
   Observe 3%nat;
   Stabilize []; SetVar 0%nat 2; Stabilize []; SetVar 0%nat 1; Stabilize []].

(* ... then the entry of the value 1 is purged, the cache cleared, and the function runs again *)
Definition h_memo : list op :=
  h_memo_hit ++
  [PurgeMemo 3%nat 1; SetVar 0%nat 3; Stabilize [];
   ClearMemo 3%nat; SetVar 0%nat 2; ParStabilize []; Unobserve 4%nat].

(** * A template instantiates to the same subgraph whatever scope it is built in *)
(* two states that differ only in the scope fields of nodes and the scope lists of bind records *)
Record same_upto_scope (s1 s2 : state) : Prop := {
  su_next : next s1 = next s2;
  su_has : forall m, has s1 m <-> has s2 m;
  su_nd : forall m, nd s2 m = nd s1 m <| scope := scope (nd s2 m) |>;
  su_bd : forall b, bd s2 b = bd s1 b <| b_rhsNodes := b_rhsNodes (bd s2 b) |>;
  su_rest : reg s1 = reg s2 /\ obs s1 = obs s2 /\ heap s1 = heap s2 /\ adj s1 = adj s2 /\ invq s1 = invq s2 /\
            stabNum s1 = stabNum s2 /\ status s1 = status s2 /\ numNodes s1 = numNodes s2 /\
            setDuring s1 = setDuring s2 /\ setRemoved s1 = setRemoved s2 /\ handlers s1 = handlers s2 /\
            maxHeight s1 = maxHeight s2 /\ log s1 = log s2
}.


(** * Why [op_clean] still excludes observers on bind-scope nodes (Properties/C05_memo.v) *)
(* node 5 is built by the bind's function in the first pass and observed while it is live; the
   second pass swaps the right-hand side *)
Definition h_inner : list op :=
  [NewVar 1 false; NewBind [TMap (Aff 1 1) TX] 0%nat; Observe 2%nat; Stabilize [];
   Observe 5%nat; SetVar 0%nat 2; Stabilize []].
