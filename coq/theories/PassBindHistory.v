(** C02 / C03 / C11 along whole histories of programs with binds (swapping binds, nested templates,
    failing and panicking node functions in earlier passes): the statements of PassBindSwapLog.v for
    every plan-free pass of a history from the empty graph. *)
From incr Require Import Base Heap HeapSpec EngineDefs Engine EngineRun EngineWf Spec EngineLemmas EngineLocal
     EngineInv EngineInvProofs PassInv PassProofs PassPlanProofs PassBind PassBindProofs PassBindSwap PassBindSwapProofs
     PassBindSwapStep PassBindOps PassBindSwapLog PassBindFault.

Theorem histF_pass_log mh os1 os2 sf :
  (0 < mh)%nat -> histF_run (init mh) (os1 ++ Stabilize [] :: os2) = Some sf ->
  exists s1 s2, histF_run (init mh) os1 = Some s1 /\ stabilize [] false s1 = Ok (s2, None) /\
    Inv s1 /\ ValInvB s1 /\ Tplain s1 /\ PassLog s1 s2.
Proof.
  intros Hmh H. destruct (histF_split os1 (init mh) _ os2 sf H) as (s1 & H1 & H2).
  assert (TP0 : Tplain (init mh)) by (intros b r Hr; inversion Hr).
  destruct (histF_inv os1 (init mh) s1 (Inv_init mh Hmh) (ValInvB_init mh) TP0 eq_refl H1) as (I1 & V1 & T1 & Ht1).
  simpl in H2. destruct (stabilize [] false s1) as [[s2 [e|]]| |] eqn:Es; try discriminate.
  exists s1, s2. split; [exact H1|]. split; [exact Es|]. split; [exact I1|]. split; [exact V1|]. split; [exact T1|].
  exact (passS_log s1 s2 I1 V1 T1 Es).
Qed.

(* C02 *)
Theorem histF_args_final mh os1 os2 sf :
  (0 < mh)%nat -> histF_run (init mh) (os1 ++ Stabilize [] :: os2) = Some sf ->
  exists s1 s2, histF_run (init mh) os1 = Some s1 /\ stabilize [] false s1 = Ok (s2, None) /\
    forall evs pre n args r post, log s2 = evs ++ log s1 -> evs = pre ++ EvInvoked n args r :: post ->
      EvNec n ∉ pre -> inGraph (nd s2 n) = true ->
      args = map (valueOf s2) (decl (nd s2 n)) /\ r = value (nd s2 n) /\ recomputedAt (nd s2 n) = stabNum s1.
Proof.
  intros Hmh H. destruct (histF_pass_log mh os1 os2 sf Hmh H) as (s1 & s2 & H1 & Hs & I1 & V1 & T1 & _).
  exists s1, s2. split; [exact H1|]. split; [exact Hs|]. exact (passS_args_final s1 s2 I1 V1 T1 Hs).
Qed.

(* C03: once per period of necessity; owed nodes run; untouched nodes keep value and stamps *)
Theorem histF_once mh os1 os2 sf :
  (0 < mh)%nat -> histF_run (init mh) (os1 ++ Stabilize [] :: os2) = Some sf ->
  exists s1 s2, histF_run (init mh) os1 = Some s1 /\ stabilize [] false s1 = Ok (s2, None) /\
    (forall evs pre e mid e' post n, log s2 = evs ++ log s1 -> evs = pre ++ e :: mid ++ e' :: post ->
       ev_node e = Some n -> ev_node e' = Some n -> EvNec n ∈ mid) /\
    (forall n p, inGraph (nd s2 n) = true -> p ∈ parents (nd s2 n) -> changedAt (nd s2 p) = stabNum s1 ->
       recomputedAt (nd s2 n) = stabNum s1) /\
    (forall n, inGraph (nd s2 n) = true -> isStale s2 n = true -> nkind (nd s2 n) = KAlways) /\
    (forall evs n, log s2 = evs ++ log s1 -> inGraph (nd s2 n) = true -> EvNec n ∉ evs ->
       recomputedAt (nd s2 n) <> stabNum s1 ->
       value (nd s2 n) = value (nd s1 n) /\ recomputedAt (nd s2 n) = recomputedAt (nd s1 n) /\
       changedAt (nd s2 n) = changedAt (nd s1 n)).
Proof.
  intros Hmh H. destruct (histF_pass_log mh os1 os2 sf Hmh H) as (s1 & s2 & H1 & Hs & I1 & V1 & T1 & PL).
  exists s1, s2. split; [exact H1|]. split; [exact Hs|].
  split; [exact (pl_once _ _ PL)|]. split; [exact (pl_owed _ _ PL)|]. split; [exact (pl_stale _ _ PL)|exact (pl_keep _ _ PL)].
Qed.
