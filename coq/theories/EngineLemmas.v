(** Projection and frame lemmas for the primitives of the engine model ([Engine.v]):
    one fact per (function, field).  Nothing here depends on an invariant; side conditions
    are of the form [has s n] (the id has a node record) or [HeapSpec.inv (heap s)].

    Conventions
    - [has s n]            : [n] has a node record ([upd] on an id without one is the identity);
    - [F_nd_fn]            : field [F] of [nd (fn …) m]      (e.g. [height_nd_link]);
    - [G_fn]               : state field [G] of [fn …]         (e.g. [heap_link]);
    - [fn_inv]             : inversion of [fn … = Ok …] for the [res]/[M]-valued functions;
    - rewrite database [eng]: all unconditional frame facts ([autorewrite with eng]).  *)
From incr Require Import Base Heap HeapSpec HeapProofs EngineDefs Engine EngineWf.

(** * Generic: results, folds *)
Lemma ebind_inv (m : M) (k : state -> M) s' e :
  ebind m k = Ok (s', e) ->
  exists s1 e1, m = Ok (s1, e1) /\
    ((e1 = None /\ k s1 = Ok (s', e)) \/ (e1 <> None /\ s' = s1 /\ e = e1)).
Proof.
  unfold ebind. destruct m as [[s1 e1]| |]; simpl; try discriminate.
  intros H. exists s1, e1. split; [reflexivity|]. destruct e1.
  - right. injection H as <- <-. split; [discriminate|auto].
  - left. auto.
Qed.

Lemma ebind_ok (m : M) (k : state -> M) s1 : m = Ok (s1, None) -> ebind m k = k s1.
Proof. intros ->. reflexivity. Qed.

Lemma lift_inv (m : res state) s' e : lift m = Ok (s', e) -> m = Ok s' /\ e = None.
Proof. unfold lift. destruct m; simpl; try discriminate. unfold ok. intros [= <- <-]. auto. Qed.

Lemma ok_inv s s' e : ok s = Ok (s', e) -> s' = s /\ e = None.
Proof. unfold ok. intros [= <- <-]. auto. Qed.

Lemma fail_inv s x s' e : fail s x = Ok (s', e) -> s' = s /\ e = Some x.
Proof. unfold fail. intros [= <- <-]. auto. Qed.

(** loop invariants indexed by the remaining list *)
Lemma rfold_inv {A S} (I : list A -> S -> Prop) (f : S -> A -> res S) l s s' :
  I l s ->
  (forall a l' s s1, I (a :: l') s -> f s a = Ok s1 -> I l' s1) ->
  rfold f l s = Ok s' -> I [] s'.
Proof.
  intros HI Hstep. revert s HI. induction l as [|a l IH]; intros s HI H; simpl in H.
  - injection H as <-. exact HI.
  - destruct (f s a) as [s1| |] eqn:E; simpl in H; try discriminate.
    eapply IH; [|exact H]. eapply Hstep; eauto.
Qed.

Lemma rfold_pres {A S} (P : S -> Prop) (f : S -> A -> res S) l s s' :
  P s -> (forall a s s1, a ∈ l -> P s -> f s a = Ok s1 -> P s1) ->
  rfold f l s = Ok s' -> P s'.
Proof.
  intros HP Hstep. revert s HP. induction l as [|a l IH]; intros s HP H; simpl in H.
  - injection H as <-. exact HP.
  - destruct (f s a) as [s1| |] eqn:E; simpl in H; try discriminate.
    eapply IH; [| |exact H].
    + intros; eapply Hstep; eauto. right; auto.
    + eapply Hstep; eauto. left.
Qed.

Lemma efold_inv {A} (I : list A -> state -> Prop) (Q : state -> err -> Prop)
      (f : state -> A -> M) l s s' e :
  I l s ->
  (forall a l' s s1 e1, I (a :: l') s -> f s a = Ok (s1, e1) ->
     match e1 with None => I l' s1 | Some x => Q s1 x end) ->
  efold f l s = Ok (s', e) ->
  match e with None => I [] s' | Some x => Q s' x end.
Proof.
  intros HI Hstep. revert s HI. induction l as [|a l IH]; intros s HI H; simpl in H.
  - apply ok_inv in H as [-> ->]. exact HI.
  - apply ebind_inv in H as (s1 & e1 & E & [[-> H]|(Hne & -> & ->)]).
    + eapply IH; [|exact H]. exact (Hstep a l s s1 None HI E).
    + destruct e1 as [x|]; [|congruence]. exact (Hstep a l s s1 (Some x) HI E).
Qed.

Lemma efold_pres {A} (P : state -> Prop) (f : state -> A -> M) l s s' e :
  P s -> (forall a s s1 e1, a ∈ l -> P s -> f s a = Ok (s1, e1) -> P s1) ->
  efold f l s = Ok (s', e) -> P s'.
Proof.
  intros HP Hstep. revert s HP. induction l as [|a l IH]; intros s HP H; simpl in H.
  - apply ok_inv in H as [-> ->]. exact HP.
  - apply ebind_inv in H as (s1 & e1 & E & [[-> H]|(Hne & -> & ->)]).
    + eapply IH; [| |exact H].
      * intros; eapply Hstep; eauto. right; auto.
      * eapply Hstep; eauto. left.
    + eapply Hstep; eauto. left.
Qed.

(** * Lists: [rm], [count_occ_n], [dedup_first], [insert_sorted] *)
Lemma elem_of_rm (x n : nid) l : x ∈ rm n l <-> x ∈ l /\ x <> n.
Proof. unfold rm. rewrite elem_of_list_filter. tauto. Qed.

Lemma rm_nil n : rm n [] = [].
Proof. reflexivity. Qed.

Lemma rm_cons n x l : rm n (x :: l) = if decide (x = n) then rm n l else x :: rm n l.
Proof.
  unfold rm. rewrite filter_cons. destruct (decide (x = n)) as [->|Hne].
  - rewrite decide_False by (intros H; apply H; reflexivity). reflexivity.
  - rewrite decide_True by exact Hne. reflexivity.
Qed.

Lemma rm_app n l1 l2 : rm n (l1 ++ l2) = rm n l1 ++ rm n l2.
Proof. unfold rm. apply stdpp.list.filter_app. Qed.

Lemma rm_notin n l : n ∉ l -> rm n l = l.
Proof.
  induction l as [|x l IH]; intros Hn; [reflexivity|].
  rewrite rm_cons. rewrite not_elem_of_cons in Hn. destruct Hn as [Hne Hn].
  rewrite decide_False by congruence. rewrite IH by exact Hn. reflexivity.
Qed.

Lemma rm_not_elem n l : n ∉ rm n l.
Proof. rewrite elem_of_rm. tauto. Qed.

Lemma rm_idem n l : rm n (rm n l) = rm n l.
Proof. apply rm_notin, rm_not_elem. Qed.

Lemma rm_eq_nil n l : rm n l = [] <-> forall x, x ∈ l -> x = n.
Proof.
  split.
  - intros E x Hx. destruct (decide (x = n)) as [|Hne]; [assumption|].
    assert (x ∈ rm n l) as H by (apply elem_of_rm; auto). rewrite E in H. inversion H.
  - intros H. destruct (rm n l) as [|y l'] eqn:E; [reflexivity|].
    assert (y ∈ rm n l) as Hy by (rewrite E; left).
    apply elem_of_rm in Hy as [Hy Hne]. specialize (H y Hy). congruence.
Qed.

Lemma NoDup_rm n l : NoDup l -> NoDup (rm n l).
Proof. unfold rm. apply stdpp.list.NoDup_filter. Qed.

Lemma rm_length_le n l : (length (rm n l) <= length l)%nat.
Proof. unfold rm. apply stdpp.list.filter_length. Qed.

Lemma rm_length_NoDup n l : NoDup l -> n ∈ l -> length l = S (length (rm n l)).
Proof.
  induction l as [|x l IH]; intros Hnd Hin; [inversion Hin|].
  apply stdpp.list.NoDup_cons in Hnd as [Hx Hnd]. rewrite rm_cons.
  destruct (decide (x = n)) as [->|Hne].
  - rewrite rm_notin by exact Hx. reflexivity.
  - apply elem_of_cons in Hin as [->|Hin]; [congruence|].
    simpl. rewrite (IH Hnd Hin). reflexivity.
Qed.

Lemma rm_Permutation n l1 l2 : l1 ≡ₚ l2 -> rm n l1 ≡ₚ rm n l2.
Proof. intros H. unfold rm. rewrite H. reflexivity. Qed.

Lemma count_nil x : count_occ_n x [] = 0%nat.
Proof. reflexivity. Qed.

Lemma count_cons x y l :
  count_occ_n x (y :: l) = ((if decide (y = x) then 1 else 0) + count_occ_n x l)%nat.
Proof.
  unfold count_occ_n. rewrite filter_cons. destruct (decide (y = x)); reflexivity.
Qed.

Lemma count_app x l1 l2 : count_occ_n x (l1 ++ l2) = (count_occ_n x l1 + count_occ_n x l2)%nat.
Proof. unfold count_occ_n. rewrite stdpp.list.filter_app, app_length. reflexivity. Qed.

Lemma count_singleton x y : count_occ_n x [y] = if decide (y = x) then 1%nat else 0%nat.
Proof. rewrite count_cons. destruct (decide (y = x)); reflexivity. Qed.

Lemma count_zero_iff x l : count_occ_n x l = 0%nat <-> x ∉ l.
Proof.
  induction l as [|y l IH]; [rewrite count_nil; split; [intros _ H; inversion H|reflexivity]|].
  rewrite count_cons, not_elem_of_cons. destruct (decide (y = x)) as [->|Hne].
  - split; [discriminate|]. intros [H _]. congruence.
  - simpl. rewrite IH. split; [intros H; split; [congruence|exact H]|tauto].
Qed.

Lemma count_pos_iff x l : (0 < count_occ_n x l)%nat <-> x ∈ l.
Proof.
  destruct (decide (x ∈ l)) as [Hin|Hnin].
  - split; [auto|]. intros _. destruct (count_occ_n x l) eqn:E; [|lia].
    apply count_zero_iff in E. contradiction.
  - split; [|contradiction]. apply count_zero_iff in Hnin. lia.
Qed.

Lemma count_rm x n l : count_occ_n x (rm n l) = if decide (x = n) then 0%nat else count_occ_n x l.
Proof.
  destruct (decide (x = n)) as [->|Hne].
  - apply count_zero_iff, rm_not_elem.
  - induction l as [|y l IH]; [reflexivity|]. rewrite rm_cons.
    destruct (decide (y = n)) as [->|Hyn].
    + rewrite count_cons, decide_False by congruence. exact IH.
    + rewrite !count_cons, IH. reflexivity.
Qed.

Lemma count_Permutation x l1 l2 : l1 ≡ₚ l2 -> count_occ_n x l1 = count_occ_n x l2.
Proof. intros H. unfold count_occ_n. rewrite H. reflexivity. Qed.

Lemma elem_of_dedup_first seen l x : x ∈ dedup_first seen l <-> x ∈ l /\ x ∉ seen.
Proof.
  revert seen. induction l as [|y l IH]; intros seen; simpl.
  - split; [intros H; inversion H|intros [H _]; inversion H].
  - destruct (bool_decide_reflect (y ∈ seen)) as [Hy|Hy].
    + rewrite IH, elem_of_cons. split; [tauto|]. intros [[->|H] Hn]; [contradiction|auto].
    + rewrite elem_of_cons, IH. rewrite not_elem_of_cons. rewrite elem_of_cons. split.
      * intros [->|[H [Hne Hn]]]; auto.
      * intros [[->|H] Hn]; [auto|]. destruct (decide (x = y)) as [->|Hne]; auto.
Qed.

Lemma NoDup_dedup_first seen l : NoDup (dedup_first seen l).
Proof.
  revert seen. induction l as [|y l IH]; intros seen; simpl; [constructor|].
  destruct (bool_decide (y ∈ seen)); [apply IH|].
  apply stdpp.list.NoDup_cons. split; [|apply IH].
  rewrite elem_of_dedup_first, not_elem_of_cons. tauto.
Qed.

Lemma elem_of_dedup_first_nil l x : x ∈ dedup_first [] l <-> x ∈ l.
Proof. rewrite elem_of_dedup_first. split; [tauto|]. intros H; split; [exact H|]. intros H'; inversion H'. Qed.

Lemma elem_of_insert_sorted x n l : x ∈ insert_sorted n l <-> x = n \/ x ∈ l.
Proof.
  induction l as [|y l IH]; simpl.
  - rewrite elem_of_list_singleton. split; [auto|]. intros [?|H]; [assumption|inversion H].
  - destruct (n <? y)%nat eqn:E1; [rewrite elem_of_cons; tauto|].
    destruct (Nat.eqb_spec n y) as [->|Hne].
    + rewrite elem_of_cons. tauto.
    + rewrite !elem_of_cons, IH. tauto.
Qed.

(** * Node records: [nd], [has], [upd] *)
Definition has (s : state) (n : nid) : Prop := is_Some (nodes s !! n).

Global Instance has_dec s n : Decision (has s n).
Proof. unfold has. apply _. Defined.

Lemma nd_lookup s n x : nodes s !! n = Some x -> nd s n = x.
Proof. unfold nd. intros ->. reflexivity. Qed.

Lemma nd_missing s n : nodes s !! n = None -> nd s n = dummy.
Proof. unfold nd. intros ->. reflexivity. Qed.

Lemma not_has_nd s n : ~ has s n -> nd s n = dummy.
Proof. intros H. apply nd_missing. apply eq_None_not_Some. exact H. Qed.

Lemma has_lookup s n : has s n -> nodes s !! n = Some (nd s n).
Proof. intros [x E]. rewrite (nd_lookup _ _ _ E). exact E. Qed.

(* a field that differs from the dummy's witnesses a record *)
Lemma has_of_field {A} (g : node -> A) s n : g (nd s n) <> g dummy -> has s n.
Proof.
  intros H. destruct (nodes s !! n) as [x|] eqn:E; [exists x; exact E|].
  rewrite (nd_missing _ _ E) in H. congruence.
Qed.

Lemma has_inGraph s n : inGraph (nd s n) = true -> has s n.
Proof. intros H. apply (has_of_field inGraph). rewrite H. discriminate. Qed.

Lemma has_parents s n p : p ∈ parents (nd s n) -> has s n.
Proof. intros H. apply (has_of_field parents). intros E. rewrite E in H. inversion H. Qed.

Lemma has_children s n p : p ∈ children (nd s n) -> has s n.
Proof. intros H. apply (has_of_field children). intros E. rewrite E in H. inversion H. Qed.

Lemma has_observers s n o : o ∈ observers (nd s n) -> has s n.
Proof. intros H. apply (has_of_field observers). intros E. rewrite E in H. inversion H. Qed.

Lemma has_decl s n p : p ∈ decl (nd s n) -> has s n.
Proof. intros H. apply (has_of_field decl). intros E. rewrite E in H. inversion H. Qed.

Lemma nodes_upd_lookup s n f m :
  nodes (upd s n f) !! m = if decide (m = n) then f <$> nodes s !! n else nodes s !! m.
Proof.
  unfold upd. cbn. destruct (decide (m = n)) as [->|Hne].
  - apply lookup_alter.
  - apply lookup_alter_ne. congruence.
Qed.

Lemma has_upd s n f m : has (upd s n f) m <-> has s m.
Proof.
  unfold has. rewrite nodes_upd_lookup. destruct (decide (m = n)) as [->|]; [|reflexivity].
  rewrite fmap_is_Some. reflexivity.
Qed.

Lemma nd_upd_ne s n f m : m <> n -> nd (upd s n f) m = nd s m.
Proof. intros H. unfold nd. rewrite nodes_upd_lookup, decide_False by exact H. reflexivity. Qed.

Lemma nd_upd_eq s n f : has s n -> nd (upd s n f) n = f (nd s n).
Proof.
  intros [x E]. unfold nd. rewrite nodes_upd_lookup, decide_True by reflexivity.
  rewrite E. reflexivity.
Qed.

Lemma nd_upd s n f m : has s n ->
  nd (upd s n f) m = if decide (m = n) then f (nd s n) else nd s m.
Proof.
  intros H. destruct (decide (m = n)) as [->|Hne]; [apply nd_upd_eq, H|apply nd_upd_ne, Hne].
Qed.

Lemma upd_missing s n f : ~ has s n -> upd s n f = s.
Proof.
  intros H. unfold upd. assert (alter f n (nodes s) = nodes s) as ->.
  { apply map_eq. intros m. destruct (decide (m = n)) as [->|Hne].
    - rewrite lookup_alter. apply eq_None_not_Some in H. rewrite H. reflexivity.
    - apply lookup_alter_ne. congruence. }
  destruct s; reflexivity.
Qed.

(* a projection that the update function does not change *)
Lemma nd_upd_proj {A} (g : node -> A) s n f m :
  (forall x, g (f x) = g x) -> g (nd (upd s n f) m) = g (nd s m).
Proof.
  intros Hg. destruct (decide (has s n)) as [Hn|Hn]; [|rewrite upd_missing by exact Hn; reflexivity].
  rewrite nd_upd by exact Hn. destruct (decide (m = n)) as [->|]; [apply Hg|reflexivity].
Qed.

Lemma proj_alter {A} (g : node -> A) (f : node -> node) n (mp : gmap nid node) m :
  (forall x, g (f x) = g x) ->
  g (default dummy (alter f n mp !! m)) = g (default dummy (mp !! m)).
Proof.
  intros Hg. destruct (decide (m = n)) as [->|Hne].
  - rewrite lookup_alter. destruct (mp !! n); simpl; [apply Hg|reflexivity].
  - rewrite lookup_alter_ne by congruence. reflexivity.
Qed.

Lemma is_Some_alter (f : node -> node) n (mp : gmap nid node) m :
  is_Some (alter f n mp !! m) <-> is_Some (mp !! m).
Proof.
  destruct (decide (m = n)) as [->|Hne].
  - rewrite lookup_alter, fmap_is_Some. reflexivity.
  - rewrite lookup_alter_ne by congruence. reflexivity.
Qed.

(* record-level view of a state-field update *)
Lemma nd_set_irrel s s' m : nodes s' = nodes s -> nd s' m = nd s m.
Proof. unfold nd. intros ->. reflexivity. Qed.

Lemma has_set_irrel s s' m : nodes s' = nodes s -> (has s' m <-> has s m).
Proof. unfold has. intros ->. reflexivity. Qed.

Ltac frame_state fn :=
  intros; unfold fn; repeat case_match; reflexivity.
Ltac frame_node fn :=
  intros; unfold fn; repeat case_match; try reflexivity; unfold nd, upd; cbn;
  repeat (rewrite proj_alter by (intros; reflexivity)); reflexivity.
Ltac frame_has fn :=
  intros; unfold fn; repeat case_match; try reflexivity; unfold has, upd; cbn;
  rewrite ?is_Some_alter; reflexivity.

(** *** Frame facts, one per (function, field): fields a primitive does not touch *)
Lemma binds_upd s n f : binds (upd s n f) = binds s. Proof. reflexivity. Qed.
Lemma next_upd s n f : next (upd s n f) = next s. Proof. reflexivity. Qed.
Lemma reg_upd s n f : reg (upd s n f) = reg s. Proof. reflexivity. Qed.
Lemma obs_upd s n f : obs (upd s n f) = obs s. Proof. reflexivity. Qed.
Lemma heap_upd s n f : heap (upd s n f) = heap s. Proof. reflexivity. Qed.
Lemma adj_upd s n f : adj (upd s n f) = adj s. Proof. reflexivity. Qed.
Lemma invq_upd s n f : invq (upd s n f) = invq s. Proof. reflexivity. Qed.
Lemma stabNum_upd s n f : stabNum (upd s n f) = stabNum s. Proof. reflexivity. Qed.
Lemma status_upd s n f : status (upd s n f) = status s. Proof. reflexivity. Qed.
Lemma numNodes_upd s n f : numNodes (upd s n f) = numNodes s. Proof. reflexivity. Qed.
Lemma setDuring_upd s n f : setDuring (upd s n f) = setDuring s. Proof. reflexivity. Qed.
Lemma setRemoved_upd s n f : setRemoved (upd s n f) = setRemoved s. Proof. reflexivity. Qed.
Lemma handlers_upd s n f : handlers (upd s n f) = handlers s. Proof. reflexivity. Qed.
Lemma maxHeight_upd s n f : maxHeight (upd s n f) = maxHeight s. Proof. reflexivity. Qed.
Lemma log_upd s n f : log (upd s n f) = log s. Proof. reflexivity. Qed.
Lemma nodes_emit (e : event) (s : state) : nodes (emit e s) = nodes s. Proof. frame_state emit. Qed.
Lemma binds_emit (e : event) (s : state) : binds (emit e s) = binds s. Proof. frame_state emit. Qed.
Lemma next_emit (e : event) (s : state) : next (emit e s) = next s. Proof. frame_state emit. Qed.
Lemma reg_emit (e : event) (s : state) : reg (emit e s) = reg s. Proof. frame_state emit. Qed.
Lemma obs_emit (e : event) (s : state) : obs (emit e s) = obs s. Proof. frame_state emit. Qed.
Lemma heap_emit (e : event) (s : state) : heap (emit e s) = heap s. Proof. frame_state emit. Qed.
Lemma adj_emit (e : event) (s : state) : adj (emit e s) = adj s. Proof. frame_state emit. Qed.
Lemma invq_emit (e : event) (s : state) : invq (emit e s) = invq s. Proof. frame_state emit. Qed.
Lemma stabNum_emit (e : event) (s : state) : stabNum (emit e s) = stabNum s. Proof. frame_state emit. Qed.
Lemma status_emit (e : event) (s : state) : status (emit e s) = status s. Proof. frame_state emit. Qed.
Lemma numNodes_emit (e : event) (s : state) : numNodes (emit e s) = numNodes s. Proof. frame_state emit. Qed.
Lemma setDuring_emit (e : event) (s : state) : setDuring (emit e s) = setDuring s. Proof. frame_state emit. Qed.
Lemma setRemoved_emit (e : event) (s : state) : setRemoved (emit e s) = setRemoved s. Proof. frame_state emit. Qed.
Lemma handlers_emit (e : event) (s : state) : handlers (emit e s) = handlers s. Proof. frame_state emit. Qed.
Lemma maxHeight_emit (e : event) (s : state) : maxHeight (emit e s) = maxHeight s. Proof. frame_state emit. Qed.
Lemma nd_emit (e : event) (s : state) m : nd (emit e s) m = nd s m. Proof. frame_state emit. Qed.
Lemma has_emit (e : event) (s : state) m : has (emit e s) m <-> has s m. Proof. frame_state emit. Qed.
Lemma nodes_updb (s : state) (b : nat) (f : bindrec -> bindrec) : nodes (updb s b f) = nodes s. Proof. frame_state updb. Qed.
Lemma next_updb (s : state) (b : nat) (f : bindrec -> bindrec) : next (updb s b f) = next s. Proof. frame_state updb. Qed.
Lemma reg_updb (s : state) (b : nat) (f : bindrec -> bindrec) : reg (updb s b f) = reg s. Proof. frame_state updb. Qed.
Lemma obs_updb (s : state) (b : nat) (f : bindrec -> bindrec) : obs (updb s b f) = obs s. Proof. frame_state updb. Qed.
Lemma heap_updb (s : state) (b : nat) (f : bindrec -> bindrec) : heap (updb s b f) = heap s. Proof. frame_state updb. Qed.
Lemma adj_updb (s : state) (b : nat) (f : bindrec -> bindrec) : adj (updb s b f) = adj s. Proof. frame_state updb. Qed.
Lemma invq_updb (s : state) (b : nat) (f : bindrec -> bindrec) : invq (updb s b f) = invq s. Proof. frame_state updb. Qed.
Lemma stabNum_updb (s : state) (b : nat) (f : bindrec -> bindrec) : stabNum (updb s b f) = stabNum s. Proof. frame_state updb. Qed.
Lemma status_updb (s : state) (b : nat) (f : bindrec -> bindrec) : status (updb s b f) = status s. Proof. frame_state updb. Qed.
Lemma numNodes_updb (s : state) (b : nat) (f : bindrec -> bindrec) : numNodes (updb s b f) = numNodes s. Proof. frame_state updb. Qed.
Lemma setDuring_updb (s : state) (b : nat) (f : bindrec -> bindrec) : setDuring (updb s b f) = setDuring s. Proof. frame_state updb. Qed.
Lemma setRemoved_updb (s : state) (b : nat) (f : bindrec -> bindrec) : setRemoved (updb s b f) = setRemoved s. Proof. frame_state updb. Qed.
Lemma handlers_updb (s : state) (b : nat) (f : bindrec -> bindrec) : handlers (updb s b f) = handlers s. Proof. frame_state updb. Qed.
Lemma maxHeight_updb (s : state) (b : nat) (f : bindrec -> bindrec) : maxHeight (updb s b f) = maxHeight s. Proof. frame_state updb. Qed.
Lemma log_updb (s : state) (b : nat) (f : bindrec -> bindrec) : log (updb s b f) = log s. Proof. frame_state updb. Qed.
Lemma nd_updb (s : state) (b : nat) (f : bindrec -> bindrec) m : nd (updb s b f) m = nd s m. Proof. frame_state updb. Qed.
Lemma has_updb (s : state) (b : nat) (f : bindrec -> bindrec) m : has (updb s b f) m <-> has s m. Proof. frame_state updb. Qed.
Lemma binds_link (s : state) (c p : nid) : binds (link s c p) = binds s. Proof. frame_state link. Qed.
Lemma next_link (s : state) (c p : nid) : next (link s c p) = next s. Proof. frame_state link. Qed.
Lemma reg_link (s : state) (c p : nid) : reg (link s c p) = reg s. Proof. frame_state link. Qed.
Lemma obs_link (s : state) (c p : nid) : obs (link s c p) = obs s. Proof. frame_state link. Qed.
Lemma heap_link (s : state) (c p : nid) : heap (link s c p) = heap s. Proof. frame_state link. Qed.
Lemma adj_link (s : state) (c p : nid) : adj (link s c p) = adj s. Proof. frame_state link. Qed.
Lemma invq_link (s : state) (c p : nid) : invq (link s c p) = invq s. Proof. frame_state link. Qed.
Lemma stabNum_link (s : state) (c p : nid) : stabNum (link s c p) = stabNum s. Proof. frame_state link. Qed.
Lemma status_link (s : state) (c p : nid) : status (link s c p) = status s. Proof. frame_state link. Qed.
Lemma numNodes_link (s : state) (c p : nid) : numNodes (link s c p) = numNodes s. Proof. frame_state link. Qed.
Lemma setDuring_link (s : state) (c p : nid) : setDuring (link s c p) = setDuring s. Proof. frame_state link. Qed.
Lemma setRemoved_link (s : state) (c p : nid) : setRemoved (link s c p) = setRemoved s. Proof. frame_state link. Qed.
Lemma handlers_link (s : state) (c p : nid) : handlers (link s c p) = handlers s. Proof. frame_state link. Qed.
Lemma maxHeight_link (s : state) (c p : nid) : maxHeight (link s c p) = maxHeight s. Proof. frame_state link. Qed.
Lemma log_link (s : state) (c p : nid) : log (link s c p) = log s. Proof. frame_state link. Qed.
Lemma nkind_nd_link (s : state) (c p : nid) m : nkind (nd (link s c p) m) = nkind (nd s m). Proof. frame_node link. Qed.
Lemma decl_nd_link (s : state) (c p : nid) m : decl (nd (link s c p) m) = decl (nd s m). Proof. frame_node link. Qed.
Lemma scope_nd_link (s : state) (c p : nid) m : scope (nd (link s c p) m) = scope (nd s m). Proof. frame_node link. Qed.
Lemma height_nd_link (s : state) (c p : nid) m : height (nd (link s c p) m) = height (nd s m). Proof. frame_node link. Qed.
Lemma hAdj_nd_link (s : state) (c p : nid) m : hAdj (nd (link s c p) m) = hAdj (nd s m). Proof. frame_node link. Qed.
Lemma recomputedAt_nd_link (s : state) (c p : nid) m : recomputedAt (nd (link s c p) m) = recomputedAt (nd s m). Proof. frame_node link. Qed.
Lemma changedAt_nd_link (s : state) (c p : nid) m : changedAt (nd (link s c p) m) = changedAt (nd s m). Proof. frame_node link. Qed.
Lemma setAt_nd_link (s : state) (c p : nid) m : setAt (nd (link s c p) m) = setAt (nd s m). Proof. frame_node link. Qed.
Lemma observers_nd_link (s : state) (c p : nid) m : observers (nd (link s c p) m) = observers (nd s m). Proof. frame_node link. Qed.
Lemma valid_nd_link (s : state) (c p : nid) m : valid (nd (link s c p) m) = valid (nd s m). Proof. frame_node link. Qed.
Lemma forceNec_nd_link (s : state) (c p : nid) m : forceNec (nd (link s c p) m) = forceNec (nd s m). Proof. frame_node link. Qed.
Lemma inGraph_nd_link (s : state) (c p : nid) m : inGraph (nd (link s c p) m) = inGraph (nd s m). Proof. frame_node link. Qed.
Lemma value_nd_link (s : state) (c p : nid) m : value (nd (link s c p) m) = value (nd s m). Proof. frame_node link. Qed.
Lemma pending_nd_link (s : state) (c p : nid) m : pending (nd (link s c p) m) = pending (nd s m). Proof. frame_node link. Qed.
Lemma has_link (s : state) (c p : nid) m : has (link s c p) m <-> has s m. Proof. frame_has link. Qed.
Lemma binds_unlink (s : state) (c p : nid) : binds (unlink s c p) = binds s. Proof. frame_state unlink. Qed.
Lemma next_unlink (s : state) (c p : nid) : next (unlink s c p) = next s. Proof. frame_state unlink. Qed.
Lemma reg_unlink (s : state) (c p : nid) : reg (unlink s c p) = reg s. Proof. frame_state unlink. Qed.
Lemma obs_unlink (s : state) (c p : nid) : obs (unlink s c p) = obs s. Proof. frame_state unlink. Qed.
Lemma heap_unlink (s : state) (c p : nid) : heap (unlink s c p) = heap s. Proof. frame_state unlink. Qed.
Lemma adj_unlink (s : state) (c p : nid) : adj (unlink s c p) = adj s. Proof. frame_state unlink. Qed.
Lemma invq_unlink (s : state) (c p : nid) : invq (unlink s c p) = invq s. Proof. frame_state unlink. Qed.
Lemma stabNum_unlink (s : state) (c p : nid) : stabNum (unlink s c p) = stabNum s. Proof. frame_state unlink. Qed.
Lemma status_unlink (s : state) (c p : nid) : status (unlink s c p) = status s. Proof. frame_state unlink. Qed.
Lemma numNodes_unlink (s : state) (c p : nid) : numNodes (unlink s c p) = numNodes s. Proof. frame_state unlink. Qed.
Lemma setDuring_unlink (s : state) (c p : nid) : setDuring (unlink s c p) = setDuring s. Proof. frame_state unlink. Qed.
Lemma setRemoved_unlink (s : state) (c p : nid) : setRemoved (unlink s c p) = setRemoved s. Proof. frame_state unlink. Qed.
Lemma handlers_unlink (s : state) (c p : nid) : handlers (unlink s c p) = handlers s. Proof. frame_state unlink. Qed.
Lemma maxHeight_unlink (s : state) (c p : nid) : maxHeight (unlink s c p) = maxHeight s. Proof. frame_state unlink. Qed.
Lemma log_unlink (s : state) (c p : nid) : log (unlink s c p) = log s. Proof. frame_state unlink. Qed.
Lemma nkind_nd_unlink (s : state) (c p : nid) m : nkind (nd (unlink s c p) m) = nkind (nd s m). Proof. frame_node unlink. Qed.
Lemma decl_nd_unlink (s : state) (c p : nid) m : decl (nd (unlink s c p) m) = decl (nd s m). Proof. frame_node unlink. Qed.
Lemma scope_nd_unlink (s : state) (c p : nid) m : scope (nd (unlink s c p) m) = scope (nd s m). Proof. frame_node unlink. Qed.
Lemma height_nd_unlink (s : state) (c p : nid) m : height (nd (unlink s c p) m) = height (nd s m). Proof. frame_node unlink. Qed.
Lemma hAdj_nd_unlink (s : state) (c p : nid) m : hAdj (nd (unlink s c p) m) = hAdj (nd s m). Proof. frame_node unlink. Qed.
Lemma recomputedAt_nd_unlink (s : state) (c p : nid) m : recomputedAt (nd (unlink s c p) m) = recomputedAt (nd s m). Proof. frame_node unlink. Qed.
Lemma changedAt_nd_unlink (s : state) (c p : nid) m : changedAt (nd (unlink s c p) m) = changedAt (nd s m). Proof. frame_node unlink. Qed.
Lemma setAt_nd_unlink (s : state) (c p : nid) m : setAt (nd (unlink s c p) m) = setAt (nd s m). Proof. frame_node unlink. Qed.
Lemma observers_nd_unlink (s : state) (c p : nid) m : observers (nd (unlink s c p) m) = observers (nd s m). Proof. frame_node unlink. Qed.
Lemma valid_nd_unlink (s : state) (c p : nid) m : valid (nd (unlink s c p) m) = valid (nd s m). Proof. frame_node unlink. Qed.
Lemma forceNec_nd_unlink (s : state) (c p : nid) m : forceNec (nd (unlink s c p) m) = forceNec (nd s m). Proof. frame_node unlink. Qed.
Lemma inGraph_nd_unlink (s : state) (c p : nid) m : inGraph (nd (unlink s c p) m) = inGraph (nd s m). Proof. frame_node unlink. Qed.
Lemma value_nd_unlink (s : state) (c p : nid) m : value (nd (unlink s c p) m) = value (nd s m). Proof. frame_node unlink. Qed.
Lemma pending_nd_unlink (s : state) (c p : nid) m : pending (nd (unlink s c p) m) = pending (nd s m). Proof. frame_node unlink. Qed.
Lemma has_unlink (s : state) (c p : nid) m : has (unlink s c p) m <-> has s m. Proof. frame_has unlink. Qed.
Lemma binds_addNode (s : state) (n : nid) : binds (addNode s n) = binds s. Proof. frame_state addNode. Qed.
Lemma next_addNode (s : state) (n : nid) : next (addNode s n) = next s. Proof. frame_state addNode. Qed.
Lemma obs_addNode (s : state) (n : nid) : obs (addNode s n) = obs s. Proof. frame_state addNode. Qed.
Lemma heap_addNode (s : state) (n : nid) : heap (addNode s n) = heap s. Proof. frame_state addNode. Qed.
Lemma adj_addNode (s : state) (n : nid) : adj (addNode s n) = adj s. Proof. frame_state addNode. Qed.
Lemma invq_addNode (s : state) (n : nid) : invq (addNode s n) = invq s. Proof. frame_state addNode. Qed.
Lemma stabNum_addNode (s : state) (n : nid) : stabNum (addNode s n) = stabNum s. Proof. frame_state addNode. Qed.
Lemma status_addNode (s : state) (n : nid) : status (addNode s n) = status s. Proof. frame_state addNode. Qed.
Lemma setDuring_addNode (s : state) (n : nid) : setDuring (addNode s n) = setDuring s. Proof. frame_state addNode. Qed.
Lemma setRemoved_addNode (s : state) (n : nid) : setRemoved (addNode s n) = setRemoved s. Proof. frame_state addNode. Qed.
Lemma handlers_addNode (s : state) (n : nid) : handlers (addNode s n) = handlers s. Proof. frame_state addNode. Qed.
Lemma maxHeight_addNode (s : state) (n : nid) : maxHeight (addNode s n) = maxHeight s. Proof. frame_state addNode. Qed.
Lemma log_addNode (s : state) (n : nid) : log (addNode s n) = log s. Proof. frame_state addNode. Qed.
Lemma nkind_nd_addNode (s : state) (n : nid) m : nkind (nd (addNode s n) m) = nkind (nd s m). Proof. frame_node addNode. Qed.
Lemma decl_nd_addNode (s : state) (n : nid) m : decl (nd (addNode s n) m) = decl (nd s m). Proof. frame_node addNode. Qed.
Lemma scope_nd_addNode (s : state) (n : nid) m : scope (nd (addNode s n) m) = scope (nd s m). Proof. frame_node addNode. Qed.
Lemma height_nd_addNode (s : state) (n : nid) m : height (nd (addNode s n) m) = height (nd s m). Proof. frame_node addNode. Qed.
Lemma hAdj_nd_addNode (s : state) (n : nid) m : hAdj (nd (addNode s n) m) = hAdj (nd s m). Proof. frame_node addNode. Qed.
Lemma recomputedAt_nd_addNode (s : state) (n : nid) m : recomputedAt (nd (addNode s n) m) = recomputedAt (nd s m). Proof. frame_node addNode. Qed.
Lemma changedAt_nd_addNode (s : state) (n : nid) m : changedAt (nd (addNode s n) m) = changedAt (nd s m). Proof. frame_node addNode. Qed.
Lemma setAt_nd_addNode (s : state) (n : nid) m : setAt (nd (addNode s n) m) = setAt (nd s m). Proof. frame_node addNode. Qed.
Lemma parents_nd_addNode (s : state) (n : nid) m : parents (nd (addNode s n) m) = parents (nd s m). Proof. frame_node addNode. Qed.
Lemma children_nd_addNode (s : state) (n : nid) m : children (nd (addNode s n) m) = children (nd s m). Proof. frame_node addNode. Qed.
Lemma observers_nd_addNode (s : state) (n : nid) m : observers (nd (addNode s n) m) = observers (nd s m). Proof. frame_node addNode. Qed.
Lemma valid_nd_addNode (s : state) (n : nid) m : valid (nd (addNode s n) m) = valid (nd s m). Proof. frame_node addNode. Qed.
Lemma forceNec_nd_addNode (s : state) (n : nid) m : forceNec (nd (addNode s n) m) = forceNec (nd s m). Proof. frame_node addNode. Qed.
Lemma value_nd_addNode (s : state) (n : nid) m : value (nd (addNode s n) m) = value (nd s m). Proof. frame_node addNode. Qed.
Lemma pending_nd_addNode (s : state) (n : nid) m : pending (nd (addNode s n) m) = pending (nd s m). Proof. frame_node addNode. Qed.
Lemma has_addNode (s : state) (n : nid) m : has (addNode s n) m <-> has s m. Proof. frame_has addNode. Qed.
Lemma nodes_insert_handler (k : nid) (s : state) : nodes (insert_handler k s) = nodes s. Proof. frame_state insert_handler. Qed.
Lemma binds_insert_handler (k : nid) (s : state) : binds (insert_handler k s) = binds s. Proof. frame_state insert_handler. Qed.
Lemma next_insert_handler (k : nid) (s : state) : next (insert_handler k s) = next s. Proof. frame_state insert_handler. Qed.
Lemma reg_insert_handler (k : nid) (s : state) : reg (insert_handler k s) = reg s. Proof. frame_state insert_handler. Qed.
Lemma obs_insert_handler (k : nid) (s : state) : obs (insert_handler k s) = obs s. Proof. frame_state insert_handler. Qed.
Lemma heap_insert_handler (k : nid) (s : state) : heap (insert_handler k s) = heap s. Proof. frame_state insert_handler. Qed.
Lemma adj_insert_handler (k : nid) (s : state) : adj (insert_handler k s) = adj s. Proof. frame_state insert_handler. Qed.
Lemma invq_insert_handler (k : nid) (s : state) : invq (insert_handler k s) = invq s. Proof. frame_state insert_handler. Qed.
Lemma stabNum_insert_handler (k : nid) (s : state) : stabNum (insert_handler k s) = stabNum s. Proof. frame_state insert_handler. Qed.
Lemma status_insert_handler (k : nid) (s : state) : status (insert_handler k s) = status s. Proof. frame_state insert_handler. Qed.
Lemma numNodes_insert_handler (k : nid) (s : state) : numNodes (insert_handler k s) = numNodes s. Proof. frame_state insert_handler. Qed.
Lemma setDuring_insert_handler (k : nid) (s : state) : setDuring (insert_handler k s) = setDuring s. Proof. frame_state insert_handler. Qed.
Lemma setRemoved_insert_handler (k : nid) (s : state) : setRemoved (insert_handler k s) = setRemoved s. Proof. frame_state insert_handler. Qed.
Lemma maxHeight_insert_handler (k : nid) (s : state) : maxHeight (insert_handler k s) = maxHeight s. Proof. frame_state insert_handler. Qed.
Lemma log_insert_handler (k : nid) (s : state) : log (insert_handler k s) = log s. Proof. frame_state insert_handler. Qed.
Lemma nd_insert_handler (k : nid) (s : state) m : nd (insert_handler k s) m = nd s m. Proof. frame_state insert_handler. Qed.
Lemma has_insert_handler (k : nid) (s : state) m : has (insert_handler k s) m <-> has s m. Proof. frame_state insert_handler. Qed.
Lemma nodes_errorHandlers (s : state) (n : nid) : nodes (errorHandlers s n) = nodes s. Proof. frame_state errorHandlers. Qed.
Lemma binds_errorHandlers (s : state) (n : nid) : binds (errorHandlers s n) = binds s. Proof. frame_state errorHandlers. Qed.
Lemma next_errorHandlers (s : state) (n : nid) : next (errorHandlers s n) = next s. Proof. frame_state errorHandlers. Qed.
Lemma reg_errorHandlers (s : state) (n : nid) : reg (errorHandlers s n) = reg s. Proof. frame_state errorHandlers. Qed.
Lemma obs_errorHandlers (s : state) (n : nid) : obs (errorHandlers s n) = obs s. Proof. frame_state errorHandlers. Qed.
Lemma heap_errorHandlers (s : state) (n : nid) : heap (errorHandlers s n) = heap s. Proof. frame_state errorHandlers. Qed.
Lemma adj_errorHandlers (s : state) (n : nid) : adj (errorHandlers s n) = adj s. Proof. frame_state errorHandlers. Qed.
Lemma invq_errorHandlers (s : state) (n : nid) : invq (errorHandlers s n) = invq s. Proof. frame_state errorHandlers. Qed.
Lemma stabNum_errorHandlers (s : state) (n : nid) : stabNum (errorHandlers s n) = stabNum s. Proof. frame_state errorHandlers. Qed.
Lemma status_errorHandlers (s : state) (n : nid) : status (errorHandlers s n) = status s. Proof. frame_state errorHandlers. Qed.
Lemma numNodes_errorHandlers (s : state) (n : nid) : numNodes (errorHandlers s n) = numNodes s. Proof. frame_state errorHandlers. Qed.
Lemma setDuring_errorHandlers (s : state) (n : nid) : setDuring (errorHandlers s n) = setDuring s. Proof. frame_state errorHandlers. Qed.
Lemma setRemoved_errorHandlers (s : state) (n : nid) : setRemoved (errorHandlers s n) = setRemoved s. Proof. frame_state errorHandlers. Qed.
Lemma handlers_errorHandlers (s : state) (n : nid) : handlers (errorHandlers s n) = handlers s. Proof. frame_state errorHandlers. Qed.
Lemma maxHeight_errorHandlers (s : state) (n : nid) : maxHeight (errorHandlers s n) = maxHeight s. Proof. frame_state errorHandlers. Qed.
Lemma nd_errorHandlers (s : state) (n : nid) m : nd (errorHandlers s n) m = nd s m. Proof. frame_state errorHandlers. Qed.
Lemma has_errorHandlers (s : state) (n : nid) m : has (errorHandlers s n) m <-> has s m. Proof. frame_state errorHandlers. Qed.
Global Hint Rewrite binds_upd next_upd reg_upd obs_upd heap_upd adj_upd invq_upd stabNum_upd status_upd numNodes_upd setDuring_upd setRemoved_upd handlers_upd maxHeight_upd log_upd nodes_emit binds_emit next_emit reg_emit obs_emit heap_emit adj_emit invq_emit stabNum_emit status_emit numNodes_emit setDuring_emit setRemoved_emit handlers_emit maxHeight_emit nd_emit nodes_updb next_updb reg_updb obs_updb heap_updb adj_updb invq_updb stabNum_updb status_updb numNodes_updb setDuring_updb setRemoved_updb handlers_updb maxHeight_updb log_updb nd_updb binds_link next_link reg_link obs_link heap_link adj_link invq_link stabNum_link status_link numNodes_link setDuring_link setRemoved_link handlers_link maxHeight_link log_link nkind_nd_link decl_nd_link scope_nd_link height_nd_link hAdj_nd_link recomputedAt_nd_link changedAt_nd_link setAt_nd_link observers_nd_link valid_nd_link forceNec_nd_link inGraph_nd_link value_nd_link pending_nd_link binds_unlink next_unlink reg_unlink obs_unlink heap_unlink adj_unlink invq_unlink stabNum_unlink status_unlink numNodes_unlink setDuring_unlink setRemoved_unlink handlers_unlink maxHeight_unlink log_unlink nkind_nd_unlink decl_nd_unlink scope_nd_unlink height_nd_unlink hAdj_nd_unlink recomputedAt_nd_unlink changedAt_nd_unlink setAt_nd_unlink observers_nd_unlink valid_nd_unlink forceNec_nd_unlink inGraph_nd_unlink value_nd_unlink pending_nd_unlink binds_addNode next_addNode obs_addNode heap_addNode adj_addNode invq_addNode stabNum_addNode status_addNode setDuring_addNode setRemoved_addNode handlers_addNode maxHeight_addNode log_addNode nkind_nd_addNode decl_nd_addNode scope_nd_addNode height_nd_addNode hAdj_nd_addNode recomputedAt_nd_addNode changedAt_nd_addNode setAt_nd_addNode parents_nd_addNode children_nd_addNode observers_nd_addNode valid_nd_addNode forceNec_nd_addNode value_nd_addNode pending_nd_addNode nodes_insert_handler binds_insert_handler next_insert_handler reg_insert_handler obs_insert_handler heap_insert_handler adj_insert_handler invq_insert_handler stabNum_insert_handler status_insert_handler numNodes_insert_handler setDuring_insert_handler setRemoved_insert_handler maxHeight_insert_handler log_insert_handler nd_insert_handler nodes_errorHandlers binds_errorHandlers next_errorHandlers reg_errorHandlers obs_errorHandlers heap_errorHandlers adj_errorHandlers invq_errorHandlers stabNum_errorHandlers status_errorHandlers numNodes_errorHandlers setDuring_errorHandlers setRemoved_errorHandlers handlers_errorHandlers maxHeight_errorHandlers nd_errorHandlers : eng.

(** *** The fields the pure primitives do change *)
Lemma log_emit e s : log (emit e s) = e :: log s.
Proof. reflexivity. Qed.

Lemma binds_updb_lookup s b f b' :
  binds (updb s b f) !! b' = if decide (b' = b) then f <$> binds s !! b else binds s !! b'.
Proof.
  unfold updb. cbn. destruct (decide (b' = b)) as [->|Hne].
  - apply lookup_alter.
  - apply lookup_alter_ne. congruence.
Qed.

Lemma bd_updb_ne s b f b' : b' <> b -> bd (updb s b f) b' = bd s b'.
Proof. intros H. unfold bd. rewrite binds_updb_lookup, decide_False by exact H. reflexivity. Qed.

Lemma bd_updb_eq s b f : is_Some (binds s !! b) -> bd (updb s b f) b = f (bd s b).
Proof.
  intros [x E]. unfold bd. rewrite binds_updb_lookup, decide_True by reflexivity.
  rewrite E. reflexivity.
Qed.

Lemma bd_upd s n f b : bd (upd s n f) b = bd s b.
Proof. reflexivity. Qed.

Lemma bd_emit e s b : bd (emit e s) b = bd s b.
Proof. reflexivity. Qed.

(** link *)
Lemma nd_link s c p m : has s c -> has s p ->
  nd (link s c p) m =
  (if decide (m = c) then set parents (fun l => l ++ [p]) else id)
    ((if decide (m = p) then set children (fun l => l ++ [c]) else id) (nd s m)).
Proof.
  intros Hc Hp. unfold link. rewrite nd_upd by (apply has_upd; exact Hc).
  destruct (decide (m = c)) as [->|Hne].
  - rewrite nd_upd by exact Hp. destruct (decide (c = p)) as [<-|]; reflexivity.
  - rewrite nd_upd by exact Hp. destruct (decide (m = p)) as [->|]; reflexivity.
Qed.

Lemma parents_nd_link s c p m : has s c ->
  parents (nd (link s c p) m) = if decide (m = c) then parents (nd s m) ++ [p] else parents (nd s m).
Proof.
  intros Hc. unfold link. rewrite nd_upd by (apply has_upd; exact Hc).
  destruct (decide (m = c)) as [->|Hne]; cbn; rewrite nd_upd_proj by reflexivity; reflexivity.
Qed.

Lemma children_nd_link s c p m : has s p ->
  children (nd (link s c p) m) = if decide (m = p) then children (nd s m) ++ [c] else children (nd s m).
Proof.
  intros Hp. unfold link. rewrite nd_upd_proj by reflexivity. rewrite nd_upd by exact Hp.
  destruct (decide (m = p)) as [->|Hne]; reflexivity.
Qed.

(** unlink: has-free, removing from a dummy's empty lists changes nothing *)
Lemma upd_dummy_fix s n f m : f dummy = dummy ->
  nd (upd s n f) m = if decide (m = n) then f (nd s n) else nd s m.
Proof.
  intros Hf. destruct (decide (has s n)) as [Hn|Hn]; [apply nd_upd, Hn|].
  rewrite upd_missing by exact Hn. destruct (decide (m = n)) as [->|]; [|reflexivity].
  rewrite not_has_nd by exact Hn. symmetry; exact Hf.
Qed.

Lemma parents_nd_unlink s c p m :
  parents (nd (unlink s c p) m) = if decide (m = c) then rm p (parents (nd s m)) else parents (nd s m).
Proof.
  unfold unlink. rewrite nd_upd_proj by reflexivity. rewrite upd_dummy_fix by reflexivity.
  destruct (decide (m = c)) as [->|]; reflexivity.
Qed.

Lemma children_nd_unlink s c p m :
  children (nd (unlink s c p) m) = if decide (m = p) then rm c (children (nd s m)) else children (nd s m).
Proof.
  unfold unlink. rewrite upd_dummy_fix by reflexivity.
  destruct (decide (m = p)) as [->|]; cbn; rewrite nd_upd_proj by reflexivity; reflexivity.
Qed.

(** addNode *)
Lemma inGraph_nd_addNode s n m : has s n ->
  inGraph (nd (addNode s n) m) = if decide (m = n) then true else inGraph (nd s m).
Proof.
  intros Hn. unfold addNode. destruct (inGraph (nd s n)) eqn:E.
  - destruct (decide (m = n)) as [->|]; [exact E|reflexivity].
  - change (inGraph (nd (upd s n (set inGraph (fun _ => true))) m) = if decide (m = n) then true else inGraph (nd s m)).
    rewrite nd_upd by exact Hn. destruct (decide (m = n)); reflexivity.
Qed.

Lemma reg_addNode s n : reg (addNode s n) = if inGraph (nd s n) then reg s else reg s ++ [n].
Proof. unfold addNode. destruct (inGraph (nd s n)); reflexivity. Qed.

Lemma numNodes_addNode s n :
  numNodes (addNode s n) = if inGraph (nd s n) then numNodes s else numNodes s + 1.
Proof. unfold addNode. destruct (inGraph (nd s n)); reflexivity. Qed.

Lemma handlers_insert_handler k s : handlers (insert_handler k s) = insert_sorted k (handlers s).
Proof. reflexivity. Qed.

(** isNecessary only reads three fields *)
Lemma isNecessary_ext x y :
  forceNec x = forceNec y -> children x = children y -> observers x = observers y ->
  isNecessary x = isNecessary y.
Proof. unfold isNecessary. intros -> -> ->. reflexivity. Qed.

Lemma isNecessary_false x :
  isNecessary x = false <-> forceNec x = false /\ children x = [] /\ observers x = [].
Proof.
  unfold isNecessary. rewrite !orb_false_iff, !negb_false_iff, !bool_decide_eq_true. tauto.
Qed.

Lemma isNecessary_true x :
  isNecessary x = true <-> forceNec x = true \/ children x <> [] \/ observers x <> [].
Proof.
  unfold isNecessary. rewrite !orb_true_iff, !negb_true_iff, !bool_decide_eq_false. tauto.
Qed.

(** * The heap wrappers (through the proved heap specifications) *)
(** the heap invariant the engine maintains; clients treat it as opaque and go through the
    [heap*_spec] lemmas below *)
(* the minimum cursor is exact: its block is not empty (needed for [Heap.sanity]) *)
Definition heap_tight (w : Heap.t) : Prop :=
  0 < Heap.cnt w -> Heap.bucket w (Z.to_nat (Heap.minH w)) <> [].
Definition hinv (w : Heap.t) : Prop := HeapSpec.inv w /\ heap_tight w.
Lemma hinv_inv w : hinv w -> HeapSpec.inv w.
Proof. intros H; apply H. Qed.
Lemma hinv_tight w : hinv w -> heap_tight w.
Proof. intros H; apply H. Qed.
Lemma hinv_empty k : hinv (Heap.empty k).
Proof. split; [apply heap_inv_empty|]. intros H. cbn in H. lia. Qed.

Lemma in_own_bucket w m : HeapSpec.inv w -> m ∈ Heap.ids w -> m ∈ Heap.bucket w (Z.to_nat (Heap.hinOf w m)).
Proof.
  intros I [x Hx]%elem_ids. rewrite (hinOf_bucket w m x I Hx), Nat2Z.id. exact Hx.
Qed.

Lemma bucket_nonempty_of w m x : HeapSpec.inv w -> m ∈ Heap.ids w -> Heap.hinOf w m = x ->
  Heap.bucket w (Z.to_nat x) <> [].
Proof. intros I Hm <- E. pose proof (in_own_bucket w m I Hm) as H. rewrite E in H. inversion H. Qed.

Lemma heap_add_tight w n h w' :
  HeapSpec.inv w -> heap_tight w -> Heap.mem w n = false -> 0 <= h -> Heap.add w n h = Ok w' -> heap_tight w'.
Proof.
  intros I T Hm Hh H. destruct (heap_add_spec w n h I Hm Hh) as (w2 & E & I' & P & Hin).
  rewrite H in E. injection E as <-.
  assert (Emin : Heap.minH w' = if Heap.cnt w =? 0 then h else Z.min (Heap.minH w) h).
  { unfold Heap.add in H. destruct (h <? 0); [discriminate|].
    destruct (Heap.cnt w =? 0); injection H as <-; reflexivity. }
  intros _. rewrite Emin.
  assert (Hn : n ∈ Heap.ids w') by (rewrite P; left).
  assert (Hnh : Heap.bucket w' (Z.to_nat h) <> []).
  { apply (bucket_nonempty_of w' n h I' Hn). rewrite Hin, decide_True by reflexivity. reflexivity. }
  destruct (Z.eqb_spec (Heap.cnt w) 0) as [E0|E0]; [exact Hnh|].
  destruct (Z.min_spec (Heap.minH w) h) as [[Hlt ->]|[Hge ->]]; [|exact Hnh].
  pose proof (cnt_nonneg w I) as Hc.
  destruct (Heap.bucket w (Z.to_nat (Heap.minH w))) as [|m b] eqn:Eb; [exfalso; apply T; [lia|exact Eb]|].
  assert (Hmb : m ∈ Heap.bucket w (Z.to_nat (Heap.minH w))) by (rewrite Eb; left).
  assert (Hmi : m ∈ Heap.ids w) by (apply elem_ids; eauto).
  destruct (mem_false_inv w n I Hm) as [Hnin _].
  destruct (inv_cursor w I ltac:(lia)) as (C1 & _).
  apply (bucket_nonempty_of w' m (Heap.minH w) I').
  - rewrite P. right. exact Hmi.
  - rewrite Hin, decide_False by (intros ->; contradiction).
    rewrite (hinOf_bucket w m _ I Hmb). lia.
Qed.

Lemma nextMin_nonempty bs c from :
  0 < c -> (exists y, (Z.to_nat (Z.max 0 from) <= y)%nat /\ bk bs y <> []) ->
  bk bs (Z.to_nat (nextMinFrom bs c from)) <> [].
Proof.
  intros Hc (y & Hy1 & Hy2). unfold nextMinFrom. destruct (Z.eqb_spec c 0); [lia|].
  pose proof (scan_drop_spec bs (Z.to_nat (Z.max 0 from))) as S.
  destruct (scan_from _ _) as [x|].
  - destruct S as (_ & S2 & _). rewrite Nat2Z.id. exact S2.
  - exfalso. apply Hy2, S, Hy1.
Qed.

Lemma heap_remove_tight w n w' :
  HeapSpec.inv w -> heap_tight w -> Heap.mem w n = true -> Heap.remove w n = Ok w' -> heap_tight w'.
Proof.
  intros I T Hm H. destruct (heap_remove_spec w n I Hm) as (w2 & E & I' & P & Hin).
  rewrite H in E. injection E as <-.
  destruct (mem_true_inv w n I Hm) as (h & Hh & _ & HhinOf & Hb).
  unfold Heap.remove in H. rewrite HhinOf in H. destruct (Z.ltb_spec h 0); [lia|].
  set (hn := Z.to_nat h) in *.
  destruct (Heap.buckets w !! hn) as [b|] eqn:Eb; [|discriminate].
  destruct (bool_decide (n ∈ b)); [|discriminate].
  set (b' := remove_first n b) in *. set (bs := <[hn := b']> (Heap.buckets w)) in *.
  injection H as <-. intros Hpos. cbn [Heap.cnt] in Hpos. cbn [Heap.minH Heap.bucket Heap.buckets].
  assert (Hlen : (hn < length (Heap.buckets w))%nat) by (eapply lookup_lt_Some; eauto).
  assert (Hbk : forall y, bk bs y = if decide (y = hn) then b' else Heap.bucket w y).
  { intros y. unfold bs. apply (bk_insert _ _ _ _ Hlen). }
  fold (bk bs (Z.to_nat (if (h =? Heap.minH w) && bool_decide (b' = []) then nextMinFrom bs (Heap.cnt w - 1) (h + 1) else Heap.minH w))).
  destruct (inv_cursor w I ltac:(lia)) as (C1 & C2 & _).
  assert (Hnonempty : 0 < Heap.cnt w - 1 -> exists y, bk bs y <> []).
  { intros Hp. pose proof (inv_cnt _ I') as Hcnt. cbn [Heap.cnt Heap.ids Heap.buckets] in Hcnt.
    unfold Heap.ids in Hcnt. cbn [Heap.buckets] in Hcnt.
    destruct (concat bs) as [|m l] eqn:Ecc; [simpl in Hcnt; lia|].
    assert (Hmc : m ∈ concat bs) by (rewrite Ecc; left).
    apply elem_of_concat_bk in Hmc as [y Hy]. exists y. intros E. rewrite E in Hy. inversion Hy. }
  destruct ((h =? Heap.minH w) && bool_decide (b' = [])) eqn:Ec.
  - apply andb_true_iff in Ec as [E1 E2]. apply Z.eqb_eq in E1. apply bool_decide_eq_true in E2.
    change (bk bs (Z.to_nat (nextMinFrom bs (Heap.cnt w - 1) (h + 1))) <> []).
    apply nextMin_nonempty; [exact Hpos|].
    destruct (Hnonempty Hpos) as [y Hy]. exists y. split; [|exact Hy].
    rewrite Hbk in Hy. destruct (decide (y = hn)) as [->|Hyn]; [congruence|].
    specialize (C2 y Hy). unfold hn in *. lia.
  - change (bk bs (Z.to_nat (Heap.minH w)) <> []).
    rewrite Hbk. destruct (decide (Z.to_nat (Heap.minH w) = hn)) as [Eq|Ne].
    + apply andb_false_iff in Ec as [Ec|Ec].
      * apply Z.eqb_neq in Ec. unfold hn in Eq. lia.
      * apply bool_decide_eq_false in Ec. exact Ec.
    + apply T. lia.
Qed.

Lemma heap_removeMin_tight w n w' :
  HeapSpec.inv w -> heap_tight w -> Heap.removeMin w = Some (n, w') -> heap_tight w'.
Proof.
  intros I T H. destruct (heap_removeMin_spec w n w' I H) as (_ & I' & P & Hin).
  unfold Heap.removeMin in H. destruct (Z.leb_spec (Heap.cnt w) 0) as [|Hc]; [discriminate|].
  destruct (inv_cursor w I Hc) as (C1 & C2 & _).
  pose proof (scan_drop_spec (Heap.buckets w) (Z.to_nat (Heap.minH w))) as S.
  destruct (scan_from _ _) as [x|]; [|discriminate]. destruct S as (S1 & S2 & S3).
  destruct (Z.of_nat x <=? Heap.maxH w); [|discriminate].
  destruct (Heap.bucket w x) as [|n0 b'] eqn:Eb; [discriminate|].
  set (bs := <[x := b']> (Heap.buckets w)) in *.
  injection H as -> <-. intros Hpos. cbn [Heap.cnt] in Hpos. cbn [Heap.minH Heap.bucket Heap.buckets].
  destruct (bk_nonempty_lookup _ _ S2) as (b0 & Elk & _).
  assert (Hlen : (x < length (Heap.buckets w))%nat) by (eapply lookup_lt_Some; eauto).
  assert (Hbk : forall y, bk bs y = if decide (y = x) then b' else Heap.bucket w y).
  { intros y. unfold bs. apply (bk_insert _ _ _ _ Hlen). }
  fold (bk bs (Z.to_nat (match b' with [] => nextMinFrom bs (Heap.cnt w - 1) (Z.of_nat x + 1) | _ :: _ => Z.of_nat x end))).
  assert (Hnonempty : 0 < Heap.cnt w - 1 -> exists y, bk bs y <> []).
  { intros Hp. pose proof (inv_cnt _ I') as Hcnt. unfold Heap.ids in Hcnt. cbn [Heap.cnt Heap.buckets] in Hcnt.
    destruct (concat bs) as [|m l] eqn:Ecc; [simpl in Hcnt; lia|].
    assert (Hmc : m ∈ concat bs) by (rewrite Ecc; left).
    apply elem_of_concat_bk in Hmc as [y Hy]. exists y. intros E. rewrite E in Hy. inversion Hy. }
  destruct b' as [|n1 b''].
  - change (bk bs (Z.to_nat (nextMinFrom bs (Heap.cnt w - 1) (Z.of_nat x + 1))) <> []).
    apply nextMin_nonempty; [exact Hpos|].
    destruct (Hnonempty Hpos) as [y Hy]. exists y. split; [|exact Hy].
    rewrite Hbk in Hy. destruct (decide (y = x)) as [->|Hyn]; [congruence|].
    assert (x <= y)%nat; [|lia].
    destruct (decide (x <= y)%nat) as [|Hn]; [assumption|]. exfalso. apply Hy.
    specialize (C2 y Hy). apply S3. lia.
  - change (bk bs (Z.to_nat (Z.of_nat x)) <> []).
    rewrite Nat2Z.id, Hbk, decide_True by reflexivity. discriminate.
Qed.

(** [s'] differs from [s] at most in the heap *)
Definition only_heap (s s' : state) : Prop := s' = s <| heap := heap s' |>.

Lemma only_heap_refl s : only_heap s s.
Proof. unfold only_heap. destruct s; reflexivity. Qed.

Lemma only_heap_trans s1 s2 s3 : only_heap s1 s2 -> only_heap s2 s3 -> only_heap s1 s3.
Proof. unfold only_heap. intros H1 H2. rewrite H2 at 1. rewrite H1 at 1. destruct s1; reflexivity. Qed.

Lemma only_heap_set s w : only_heap s (s <| heap := w |>).
Proof. unfold only_heap. reflexivity. Qed.

Section only_heap.
  Context (s s' : state) (H : only_heap s s').
  Lemma oh_nodes : nodes s' = nodes s. Proof. rewrite H. reflexivity. Qed.
  Lemma oh_binds : binds s' = binds s. Proof. rewrite H. reflexivity. Qed.
  Lemma oh_next : next s' = next s. Proof. rewrite H. reflexivity. Qed.
  Lemma oh_reg : reg s' = reg s. Proof. rewrite H. reflexivity. Qed.
  Lemma oh_obs : obs s' = obs s. Proof. rewrite H. reflexivity. Qed.
  Lemma oh_adj : adj s' = adj s. Proof. rewrite H. reflexivity. Qed.
  Lemma oh_invq : invq s' = invq s. Proof. rewrite H. reflexivity. Qed.
  Lemma oh_stabNum : stabNum s' = stabNum s. Proof. rewrite H. reflexivity. Qed.
  Lemma oh_status : status s' = status s. Proof. rewrite H. reflexivity. Qed.
  Lemma oh_numNodes : numNodes s' = numNodes s. Proof. rewrite H. reflexivity. Qed.
  Lemma oh_setDuring : setDuring s' = setDuring s. Proof. rewrite H. reflexivity. Qed.
  Lemma oh_setRemoved : setRemoved s' = setRemoved s. Proof. rewrite H. reflexivity. Qed.
  Lemma oh_handlers : handlers s' = handlers s. Proof. rewrite H. reflexivity. Qed.
  Lemma oh_maxHeight : maxHeight s' = maxHeight s. Proof. rewrite H. reflexivity. Qed.
  Lemma oh_log : log s' = log s. Proof. rewrite H. reflexivity. Qed.
  Lemma oh_nd m : nd s' m = nd s m. Proof. rewrite H. reflexivity. Qed.
  Lemma oh_bd b : bd s' b = bd s b. Proof. rewrite H. reflexivity. Qed.
  Lemma oh_has m : has s' m <-> has s m. Proof. rewrite H. reflexivity. Qed.
End only_heap.

Lemma inHeap_iff s n : hinv (heap s) -> (inHeap s n = true <-> n ∈ Heap.ids (heap s)).
Proof.
  intros [I _]. unfold inHeap. split.
  - intros Hm. destruct (mem_true_inv _ _ I Hm) as (h & Hh & _ & _ & Hb).
    apply elem_ids. eauto.
  - intros Hin. destruct (Heap.mem (heap s) n) eqn:E; [reflexivity|].
    destruct (mem_false_inv _ _ I E) as [Hn _]. contradiction.
Qed.

Lemma inHeap_false_iff s n : hinv (heap s) -> (inHeap s n = false <-> n ∉ Heap.ids (heap s)).
Proof.
  intros I. rewrite <- (inHeap_iff s n I). destruct (inHeap s n); split; congruence.
Qed.

Lemma hinOf_nonneg w n : hinv w -> n ∈ Heap.ids w -> 0 <= Heap.hinOf w n.
Proof.
  intros [I _] [x Hx]%elem_ids. rewrite (hinOf_bucket w n x I Hx). lia.
Qed.

Lemma hinOf_notin w n : hinv w -> n ∉ Heap.ids w -> Heap.hinOf w n = unset.
Proof.
  intros [I _] Hn. destruct (Heap.mem w n) eqn:E.
  - destruct (mem_true_inv _ _ I E) as (h & Hh & _ & _ & Hb). exfalso. apply Hn, elem_ids. eauto.
  - unfold Heap.mem in E. apply bool_decide_eq_false in E.
    destruct (decide (Heap.hinOf w n = unset)); [assumption|contradiction].
Qed.

Lemma heapAdd_inv s n s' : heapAdd s n = Ok s' ->
  exists w, Heap.add (heap s) n (height (nd s n)) = Ok w /\ s' = s <| heap := w |>.
Proof.
  unfold heapAdd. destruct (Heap.add _ _ _) as [w| |]; simpl; try discriminate.
  intros [= <-]. eauto.
Qed.

Lemma heapRemove_inv s n s' : heapRemove s n = Ok s' ->
  exists w, Heap.remove (heap s) n = Ok w /\ s' = s <| heap := w |>.
Proof.
  unfold heapRemove. destruct (Heap.remove _ _) as [w| |]; simpl; try discriminate.
  intros [= <-]. eauto.
Qed.

Lemma heapFix_inv s n s' : heapFix s n = Ok s' ->
  exists w, Heap.fix_ (heap s) n (height (nd s n)) = Ok w /\ s' = s <| heap := w |>.
Proof.
  unfold heapFix. destruct (Heap.fix_ _ _ _) as [w| |]; simpl; try discriminate.
  intros [= <-]. eauto.
Qed.

(* what a caller learns from a successful heapAdd of a node that is not queued *)
Lemma heapAdd_spec s n s' :
  hinv (heap s) -> inHeap s n = false -> 0 <= height (nd s n) ->
  heapAdd s n = Ok s' ->
  only_heap s s' /\ hinv (heap s') /\ Heap.ids (heap s') ≡ₚ n :: Heap.ids (heap s) /\
  forall m, Heap.hinOf (heap s') m = if decide (m = n) then height (nd s n) else Heap.hinOf (heap s) m.
Proof.
  intros [I T] Hm Hh H. apply heapAdd_inv in H as (w & E & ->).
  destruct (heap_add_spec _ _ _ I Hm Hh) as (w' & E' & I' & P & Hin).
  rewrite E in E'. injection E' as <-. split; [apply only_heap_set|].
  split; [split; [exact I'|apply (heap_add_tight _ _ _ _ I T Hm Hh E)]|auto].
Qed.

Lemma heapAdd_total s n :
  hinv (heap s) -> inHeap s n = false -> 0 <= height (nd s n) -> exists s', heapAdd s n = Ok s'.
Proof.
  intros [I _] Hm Hh. destruct (heap_add_spec _ _ _ I Hm Hh) as (w' & E' & _).
  unfold heapAdd. rewrite E'. simpl. eauto.
Qed.

Lemma heapAdd_negative s n : height (nd s n) < 0 -> heapAdd s n = Crash HeapNegativeHeight.
Proof. intros H. unfold heapAdd. rewrite heap_add_negative by exact H. reflexivity. Qed.

Lemma heapAddIfNotPresent_spec s n s' :
  hinv (heap s) -> 0 <= height (nd s n) ->
  heapAddIfNotPresent s n = Ok s' ->
  only_heap s s' /\ hinv (heap s') /\
  (forall m, m ∈ Heap.ids (heap s') <-> m = n \/ m ∈ Heap.ids (heap s)) /\
  (forall m, Heap.hinOf (heap s') m =
             if decide (m = n) then (if inHeap s n then Heap.hinOf (heap s) n else height (nd s n))
             else Heap.hinOf (heap s) m).
Proof.
  intros I Hh H. unfold heapAddIfNotPresent in H. destruct (inHeap s n) eqn:Hm.
  - injection H as <-. split; [apply only_heap_refl|]. split; [exact I|]. split.
    + intros m. split; [auto|]. intros [->|]; [|assumption]. apply inHeap_iff; assumption.
    + intros m. destruct (decide (m = n)) as [->|]; reflexivity.
  - destruct (heapAdd_spec s n s' I Hm Hh H) as (F & I' & P & Hin).
    split; [exact F|]. split; [exact I'|]. split; [|exact Hin].
    intros m. rewrite P, elem_of_cons. reflexivity.
Qed.

Lemma heapAddIfNotPresent_total s n :
  hinv (heap s) -> 0 <= height (nd s n) -> exists s', heapAddIfNotPresent s n = Ok s'.
Proof.
  intros I Hh. unfold heapAddIfNotPresent. destruct (inHeap s n) eqn:Hm; [eauto|].
  apply heapAdd_total; assumption.
Qed.

Lemma heapRemove_spec s n s' :
  hinv (heap s) -> inHeap s n = true -> heapRemove s n = Ok s' ->
  only_heap s s' /\ hinv (heap s') /\ Heap.ids (heap s) ≡ₚ n :: Heap.ids (heap s') /\
  forall m, Heap.hinOf (heap s') m = if decide (m = n) then unset else Heap.hinOf (heap s) m.
Proof.
  intros [I T] Hm H. apply heapRemove_inv in H as (w & E & ->).
  destruct (heap_remove_spec _ _ I Hm) as (w' & E' & I' & P & Hin).
  rewrite E in E'. injection E' as <-. split; [apply only_heap_set|].
  split; [split; [exact I'|apply (heap_remove_tight _ _ _ I T Hm E)]|auto].
Qed.

Lemma heapRemove_total s n :
  hinv (heap s) -> inHeap s n = true -> exists s', heapRemove s n = Ok s'.
Proof.
  intros [I _] Hm. destruct (heap_remove_spec _ _ I Hm) as (w' & E' & _).
  unfold heapRemove. rewrite E'. simpl. eauto.
Qed.

Lemma heapRemove_ids s n s' m :
  hinv (heap s) -> inHeap s n = true -> heapRemove s n = Ok s' ->
  (m ∈ Heap.ids (heap s') <-> m ∈ Heap.ids (heap s) /\ m <> n).
Proof.
  intros I Hm H. destruct (heapRemove_spec s n s' I Hm H) as (_ & I' & P & _).
  pose proof (inv_nodup _ (hinv_inv _ I)) as Hnd. rewrite P in Hnd. apply NoDup_cons_1_1 in Hnd as Hnin.
  rewrite P, elem_of_cons. split.
  - intros Hin. split; [auto|]. intros ->. contradiction.
  - intros [[->|Hin] Hne]; [congruence|exact Hin].
Qed.

Lemma heapFix_spec s n s' :
  hinv (heap s) -> inHeap s n = true -> 0 <= height (nd s n) -> heapFix s n = Ok s' ->
  only_heap s s' /\ hinv (heap s') /\ Heap.ids (heap s') ≡ₚ Heap.ids (heap s) /\
  forall m, Heap.hinOf (heap s') m = if decide (m = n) then height (nd s n) else Heap.hinOf (heap s) m.
Proof.
  intros [I T] Hm Hh H. apply heapFix_inv in H as (w & E & ->).
  destruct (heap_fix_spec _ _ _ I Hm Hh) as (w' & E' & I' & P & Hin).
  rewrite E in E'. injection E' as <-. split; [apply only_heap_set|].
  split; [split; [exact I'|]|auto].
  unfold Heap.fix_ in E. apply rbind_ok in E as (w1 & E1 & E2).
  destruct (heap_remove_spec _ _ I Hm) as (w1' & E1' & I1 & P1 & H1). rewrite E1 in E1'. injection E1' as <-.
  assert (Hm1 : Heap.mem w1 n = false).
  { unfold Heap.mem. apply bool_decide_eq_false. rewrite H1, decide_True by reflexivity. auto. }
  apply (heap_add_tight w1 n _ w I1 (heap_remove_tight _ _ _ I T Hm E1) Hm1 Hh E2).
Qed.

Lemma heapFix_total s n :
  hinv (heap s) -> inHeap s n = true -> 0 <= height (nd s n) -> exists s', heapFix s n = Ok s'.
Proof.
  intros [I _] Hm Hh. destruct (heap_fix_spec _ _ _ I Hm Hh) as (w' & E' & _).
  unfold heapFix. rewrite E'. simpl. eauto.
Qed.

(* inHeap only reads the heap *)
Lemma inHeap_upd s n f m : inHeap (upd s n f) m = inHeap s m.
Proof. reflexivity. Qed.
Lemma inHeap_emit e s m : inHeap (emit e s) m = inHeap s m.
Proof. reflexivity. Qed.
Lemma inHeap_updb s b f m : inHeap (updb s b f) m = inHeap s m.
Proof. reflexivity. Qed.
Lemma inHeap_link s c p m : inHeap (link s c p) m = inHeap s m.
Proof. reflexivity. Qed.
Lemma inHeap_unlink s c p m : inHeap (unlink s c p) m = inHeap s m.
Proof. reflexivity. Qed.
Lemma inHeap_addNode s n m : inHeap (addNode s n) m = inHeap s m.
Proof. unfold inHeap. rewrite heap_addNode. reflexivity. Qed.
Global Hint Rewrite inHeap_upd inHeap_emit inHeap_updb inHeap_link inHeap_unlink inHeap_addNode : eng.

(** * setHeight *)
Lemma setHeight_inv s n h s' e : setHeight s n h = Ok (s', e) ->
  (h > maxHeight s - 1 /\ s' = s /\ e = Some EHeightLimit) \/
  (h <= maxHeight s - 1 /\ e = None /\
   s' = upd (if h >? a_maxSeen (adj s) then s <| adj := adj s <| a_maxSeen := h |> |> else s) n
            (set height (fun _ => h))).
Proof.
  unfold setHeight. destruct (Z.gtb_spec h (maxHeight s - 1)).
  - intros [-> ->]%fail_inv. left. auto with lia.
  - intros [-> ->]%ok_inv. right. auto with lia.
Qed.

Section setHeight.
  Context (s : state) (n : nid) (h : Z) (s' : state) (H : setHeight s n h = Ok (s', None)).
  Local Ltac sh := apply setHeight_inv in H as [(_ & _ & ?)|(_ & _ & ->)]; [discriminate|];
                   destruct (h >? a_maxSeen (adj s)); reflexivity.
  Lemma setHeight_le : h <= maxHeight s - 1.
  Proof. apply setHeight_inv in H as [(_ & _ & ?)|(? & _)]; [discriminate|assumption]. Qed.
  Lemma binds_setHeight : binds s' = binds s. Proof. sh. Qed.
  Lemma next_setHeight : next s' = next s. Proof. sh. Qed.
  Lemma reg_setHeight : reg s' = reg s. Proof. sh. Qed.
  Lemma obs_setHeight : obs s' = obs s. Proof. sh. Qed.
  Lemma heap_setHeight : heap s' = heap s. Proof. sh. Qed.
  Lemma invq_setHeight : invq s' = invq s. Proof. sh. Qed.
  Lemma stabNum_setHeight : stabNum s' = stabNum s. Proof. sh. Qed.
  Lemma status_setHeight : status s' = status s. Proof. sh. Qed.
  Lemma numNodes_setHeight : numNodes s' = numNodes s. Proof. sh. Qed.
  Lemma setDuring_setHeight : setDuring s' = setDuring s. Proof. sh. Qed.
  Lemma setRemoved_setHeight : setRemoved s' = setRemoved s. Proof. sh. Qed.
  Lemma handlers_setHeight : handlers s' = handlers s. Proof. sh. Qed.
  Lemma maxHeight_setHeight : maxHeight s' = maxHeight s. Proof. sh. Qed.
  Lemma log_setHeight : log s' = log s. Proof. sh. Qed.
  Lemma a_byHeight_setHeight : a_byHeight (adj s') = a_byHeight (adj s). Proof. sh. Qed.
  Lemma a_num_setHeight : a_num (adj s') = a_num (adj s). Proof. sh. Qed.
  Lemma a_lower_setHeight : a_lower (adj s') = a_lower (adj s). Proof. sh. Qed.
  Lemma a_maxSeen_setHeight : a_maxSeen (adj s') = Z.max (a_maxSeen (adj s)) h.
  Proof.
    apply setHeight_inv in H as [(_ & _ & ?)|(_ & _ & ->)]; [discriminate|].
    destruct (Z.gtb_spec h (a_maxSeen (adj s))); cbn; lia.
  Qed.
  Lemma has_setHeight m : has s' m <-> has s m.
  Proof.
    apply setHeight_inv in H as [(_ & _ & ?)|(_ & _ & ->)]; [discriminate|].
    rewrite has_upd. destruct (h >? a_maxSeen (adj s)); reflexivity.
  Qed.
  Lemma nd_setHeight m : has s n ->
    nd s' m = if decide (m = n) then set height (fun _ => h) (nd s n) else nd s m.
  Proof.
    intros Hn. apply setHeight_inv in H as [(_ & _ & ?)|(_ & _ & ->)]; [discriminate|].
    destruct (h >? a_maxSeen (adj s)); rewrite nd_upd by exact Hn; reflexivity.
  Qed.
  Lemma height_nd_setHeight m : has s n ->
    height (nd s' m) = if decide (m = n) then h else height (nd s m).
  Proof. intros Hn. rewrite nd_setHeight by exact Hn. destruct (decide (m = n)); reflexivity. Qed.
  (* every other field *)
  Lemma proj_nd_setHeight {A} (g : node -> A) m :
    (forall x v, g (set height v x) = g x) -> g (nd s' m) = g (nd s m).
  Proof.
    intros Hg. apply setHeight_inv in H as [(_ & _ & ?)|(_ & _ & ->)]; [discriminate|].
    destruct (h >? a_maxSeen (adj s)); rewrite nd_upd_proj by (intros; apply Hg); reflexivity.
  Qed.
  Lemma bd_setHeight b : bd s' b = bd s b.
  Proof. unfold bd. rewrite binds_setHeight. reflexivity. Qed.
  Lemma inHeap_setHeight m : inHeap s' m = inHeap s m.
  Proof. unfold inHeap. rewrite heap_setHeight. reflexivity. Qed.
End setHeight.

Lemma setHeight_err s n h s' x : setHeight s n h = Ok (s', Some x) -> x = EHeightLimit /\ s' = s.
Proof. intros H. apply setHeight_inv in H as [(_ & -> & [= <-])|(_ & ? & _)]; [auto|discriminate]. Qed.

Lemma setHeight_nocrash s n h : exists s' e, setHeight s n h = Ok (s', e).
Proof. unfold setHeight. destruct (h >? maxHeight s - 1); unfold fail, ok; eauto. Qed.

(** * setStale *)
Lemma setStale_inv s n s' : setStale s n = Ok s' ->
  (height (nd s n) = unset /\ s' = s) \/
  (height (nd s n) <> unset /\
   let s1 := upd s n (set setAt (fun _ => stabNum s)) in
   (inHeap s n = true /\ s' = s1) \/ (inHeap s n = false /\ heapAdd s1 n = Ok s')).
Proof.
  unfold setStale. destruct (Z.eqb_spec (height (nd s n)) unset) as [E|E].
  - intros [= <-]. left. auto.
  - rewrite inHeap_upd. destruct (inHeap s n).
    + intros [= <-]. right. split; [exact E|]. left. auto.
    + intros H. right. split; [exact E|]. right. auto.
Qed.

(** * zeroNode / removeNode *)
Definition zero_fields (x : node) : node :=
  x <| setAt := 0 |> <| changedAt := 0 |> <| recomputedAt := 0 |>
    <| parents := [] |> <| children := [] |>
    <| observers := [] |> <| height := unset |> <| hAdj := unset |>.

Lemma zeroNode_inv s n s' : zeroNode s n = Ok s' ->
  exists s1, (if inHeap s n then heapRemove s n else Ok s) = Ok s1 /\
    s' = upd (s1 <| numNodes := numNodes s1 - 1 |>
                 <| handlers := rm n (handlers s1) |>
                 <| setRemoved := if bool_decide (n ∈ setDuring s1) then setRemoved s1 ++ [n] else setRemoved s1 |>
                 <| setDuring := rm n (setDuring s1) |>) n zero_fields.
Proof.
  unfold zeroNode. intros H. apply rbind_ok in H as (s1 & E & H). injection H as <-.
  exists s1. split; [exact E|reflexivity].
Qed.

Lemma removeNode_inv s n s' : removeNode s n = Ok s' ->
  zeroNode (if inGraph (nd s n)
            then (upd s n (set inGraph (fun _ => false))) <| reg := rm n (reg s) |>
            else s) n = Ok s'.
Proof. unfold removeNode. auto. Qed.

(** * newNode / newBindWith *)
Lemma newNode_snd s k d sc v : (newNode s k d sc v).2 = next s.
Proof. reflexivity. Qed.

Section newNode.
  Context (s : state) (k : kind) (d : list nid) (sc : option nat) (v : Z).
  Let s' := (newNode s k d sc v).1.
  Local Ltac nn := unfold s', newNode; cbn; destruct sc; reflexivity.
  Lemma next_newNode : next s' = S (next s). Proof. nn. Qed.
  Lemma nodes_newNode : nodes s' = <[next s := fresh_node k d sc v]> (nodes s). Proof. nn. Qed.
  Lemma binds_newNode : binds s' = match sc with
                                   | None => binds s
                                   | Some b => alter (set b_rhsNodes (fun l => l ++ [next s])) b (binds s)
                                   end. Proof. nn. Qed.
  Lemma reg_newNode : reg s' = reg s. Proof. nn. Qed.
  Lemma obs_newNode : obs s' = obs s. Proof. nn. Qed.
  Lemma heap_newNode : heap s' = heap s. Proof. nn. Qed.
  Lemma adj_newNode : adj s' = adj s. Proof. nn. Qed.
  Lemma invq_newNode : invq s' = invq s. Proof. nn. Qed.
  Lemma stabNum_newNode : stabNum s' = stabNum s. Proof. nn. Qed.
  Lemma status_newNode : status s' = status s. Proof. nn. Qed.
  Lemma numNodes_newNode : numNodes s' = numNodes s. Proof. nn. Qed.
  Lemma setDuring_newNode : setDuring s' = setDuring s. Proof. nn. Qed.
  Lemma setRemoved_newNode : setRemoved s' = setRemoved s. Proof. nn. Qed.
  Lemma handlers_newNode : handlers s' = handlers s. Proof. nn. Qed.
  Lemma maxHeight_newNode : maxHeight s' = maxHeight s. Proof. nn. Qed.
  Lemma log_newNode : log s' = log s. Proof. nn. Qed.
  Lemma nd_newNode m : nd s' m = if decide (m = next s) then fresh_node k d sc v else nd s m.
  Proof.
    unfold nd. rewrite nodes_newNode. destruct (decide (m = next s)) as [->|Hne].
    - rewrite lookup_insert. reflexivity.
    - rewrite lookup_insert_ne by congruence. reflexivity.
  Qed.
  Lemma has_newNode m : has s' m <-> m = next s \/ has s m.
  Proof.
    unfold has. rewrite nodes_newNode. destruct (decide (m = next s)) as [->|Hne].
    - rewrite lookup_insert. split; [auto|]. intros _. eauto.
    - rewrite lookup_insert_ne by congruence. split; [auto|]. intros [?|?]; [contradiction|assumption].
  Qed.
  Lemma inHeap_newNode m : inHeap s' m = inHeap s m.
  Proof. unfold inHeap. rewrite heap_newNode. reflexivity. Qed.
End newNode.

Lemma newBindWith_eq memo s cases a sc :
  newBindWith memo s cases a sc =
  newNode (newNode (s <| binds := <[next s := mkBind a (next s) (S (next s)) None [] cases 0%nat memo []]> (binds s) |>)
                   (KBindLhs (next s)) [a] sc 0).1
          (KBindMain (next s)) [next s] sc 0.
Proof. reflexivity. Qed.

Lemma newBindWith_snd memo s cases a sc : (newBindWith memo s cases a sc).2 = S (next s).
Proof. rewrite newBindWith_eq, newNode_snd, next_newNode. reflexivity. Qed.

(** * Well-formedness tests of operations *)
Lemma isUserNode_true s n : isUserNode s n = true ->
  has s n /\ match nkind (nd s n) with KBindLhs _ => False | _ => True end.
Proof.
  unfold isUserNode, has, nd. destruct (nodes s !! n) as [x|]; [|discriminate].
  simpl. intros H. split; [eauto|]. destruct (nkind x); try exact I. discriminate.
Qed.

Lemma isVar_true s n : isVar s n = true -> has s n /\ exists e, nkind (nd s n) = KVar e.
Proof.
  unfold isVar, has, nd. destruct (nodes s !! n) as [x|]; [|discriminate].
  simpl. intros H. split; [eauto|]. destruct (nkind x); try discriminate. eauto.
Qed.

Lemma isMapN_true s n : isMapN s n = true -> has s n /\ exists f, nkind (nd s n) = KMapN f.
Proof.
  unfold isMapN, has, nd. destruct (nodes s !! n) as [x|]; [|discriminate].
  simpl. intros H. split; [eauto|]. destruct (nkind x); try discriminate. eauto.
Qed.

(** * zeroNode / removeNode, field by field (no side conditions: a dummy is already zero) *)
Lemma upd_const_proj {A} (g : node -> A) s n f m (a : A) :
  (forall x, g (f x) = a) -> g dummy = a ->
  g (nd (upd s n f) m) = if decide (m = n) then a else g (nd s m).
Proof.
  intros Hf Hd. destruct (decide (has s n)) as [Hn|Hn].
  - rewrite nd_upd by exact Hn. destruct (decide (m = n)); [apply Hf|reflexivity].
  - rewrite upd_missing by exact Hn. destruct (decide (m = n)) as [->|]; [|reflexivity].
    rewrite not_has_nd by exact Hn. exact Hd.
Qed.

Section zeroNode.
  Context (s : state) (n : nid) (s' : state) (H : zeroNode s n = Ok s').

  Local Lemma zn_form : exists s1, (if inHeap s n then heapRemove s n else Ok s) = Ok s1 /\ only_heap s s1 /\
    s' = upd (s1 <| numNodes := numNodes s1 - 1 |>
                 <| handlers := rm n (handlers s1) |>
                 <| setRemoved := if bool_decide (n ∈ setDuring s1) then setRemoved s1 ++ [n] else setRemoved s1 |>
                 <| setDuring := rm n (setDuring s1) |>) n zero_fields.
  Proof.
    destruct (zeroNode_inv s n s' H) as (s1 & E & ->). exists s1. split; [exact E|]. split; [|reflexivity].
    destruct (inHeap s n).
    - apply heapRemove_inv in E as (w & _ & ->). apply only_heap_set.
    - injection E as <-. apply only_heap_refl.
  Qed.

  Local Ltac zn := destruct zn_form as (s1 & _ & F & ->); cbn; rewrite ?(oh_nd s s1 F); try (rewrite F; reflexivity).

  Lemma next_zeroNode : next s' = next s. Proof. zn. Qed.
  Lemma binds_zeroNode : binds s' = binds s. Proof. zn. Qed.
  Lemma reg_zeroNode : reg s' = reg s. Proof. zn. Qed.
  Lemma obs_zeroNode : obs s' = obs s. Proof. zn. Qed.
  Lemma adj_zeroNode : adj s' = adj s. Proof. zn. Qed.
  Lemma invq_zeroNode : invq s' = invq s. Proof. zn. Qed.
  Lemma stabNum_zeroNode : stabNum s' = stabNum s. Proof. zn. Qed.
  Lemma status_zeroNode : status s' = status s. Proof. zn. Qed.
  Lemma maxHeight_zeroNode : maxHeight s' = maxHeight s. Proof. zn. Qed.
  Lemma log_zeroNode : log s' = log s. Proof. zn. Qed.
  Lemma numNodes_zeroNode : numNodes s' = numNodes s - 1. Proof. zn. Qed.
  Lemma handlers_zeroNode : handlers s' = rm n (handlers s). Proof. zn. Qed.
  Lemma setDuring_zeroNode : setDuring s' = rm n (setDuring s). Proof. zn. Qed.
  Lemma setRemoved_zeroNode :
    setRemoved s' = if bool_decide (n ∈ setDuring s) then setRemoved s ++ [n] else setRemoved s.
  Proof. zn. Qed.
  Lemma heap_zeroNode :
    if inHeap s n then exists s1, heapRemove s n = Ok s1 /\ heap s' = heap s1 else heap s' = heap s.
  Proof.
    destruct zn_form as (s1 & E & F & ->). cbn. destruct (inHeap s n); [eauto|]. injection E as <-. reflexivity.
  Qed.
  Lemma has_zeroNode m : has s' m <-> has s m.
  Proof. destruct zn_form as (s1 & _ & F & ->). rewrite has_upd. apply (oh_has s s1 F). Qed.

  Local Ltac znp := intros; destruct zn_form as (s1 & _ & F & ->);
                    rewrite nd_upd_proj by reflexivity; rewrite <- (oh_nd s s1 F); reflexivity.
  Lemma nkind_nd_zeroNode m : nkind (nd s' m) = nkind (nd s m). Proof. znp. Qed.
  Lemma decl_nd_zeroNode m : decl (nd s' m) = decl (nd s m). Proof. znp. Qed.
  Lemma scope_nd_zeroNode m : scope (nd s' m) = scope (nd s m). Proof. znp. Qed.
  Lemma forceNec_nd_zeroNode m : forceNec (nd s' m) = forceNec (nd s m). Proof. znp. Qed.
  Lemma inGraph_nd_zeroNode m : inGraph (nd s' m) = inGraph (nd s m). Proof. znp. Qed.
  Lemma value_nd_zeroNode m : value (nd s' m) = value (nd s m). Proof. znp. Qed.
  Lemma pending_nd_zeroNode m : pending (nd s' m) = pending (nd s m). Proof. znp. Qed.

  Local Ltac znc g a := intros; destruct zn_form as (s1 & _ & F & ->);
                    rewrite (upd_const_proj g _ _ _ _ a) by reflexivity; rewrite <- (oh_nd s s1 F); reflexivity.
  Lemma parents_nd_zeroNode m : parents (nd s' m) = if decide (m = n) then [] else parents (nd s m).
  Proof. znc parents ([] : list nat). Qed.
  Lemma children_nd_zeroNode m : children (nd s' m) = if decide (m = n) then [] else children (nd s m).
  Proof. znc children ([] : list nat). Qed.
  Lemma observers_nd_zeroNode m : observers (nd s' m) = if decide (m = n) then [] else observers (nd s m).
  Proof. znc observers ([] : list nat). Qed.
  Lemma height_nd_zeroNode m : height (nd s' m) = if decide (m = n) then unset else height (nd s m).
  Proof. znc height (unset : Z). Qed.
  Lemma hAdj_nd_zeroNode m : hAdj (nd s' m) = if decide (m = n) then unset else hAdj (nd s m).
  Proof. znc hAdj (unset : Z). Qed.
  Lemma valid_nd_zeroNode m : valid (nd s' m) = valid (nd s m). Proof. znp. Qed.
  Lemma setAt_nd_zeroNode m : setAt (nd s' m) = if decide (m = n) then 0 else setAt (nd s m).
  Proof. znc setAt (0 : Z). Qed.
  Lemma changedAt_nd_zeroNode m : changedAt (nd s' m) = if decide (m = n) then 0 else changedAt (nd s m).
  Proof. znc changedAt (0 : Z). Qed.
  Lemma recomputedAt_nd_zeroNode m : recomputedAt (nd s' m) = if decide (m = n) then 0 else recomputedAt (nd s m).
  Proof. znc recomputedAt (0 : Z). Qed.
  Lemma bd_zeroNode b : bd s' b = bd s b.
  Proof. unfold bd. rewrite binds_zeroNode. reflexivity. Qed.
End zeroNode.

Section removeNode.
  Context (s : state) (n : nid) (s' : state) (H : removeNode s n = Ok s').
  Let s0 := if inGraph (nd s n)
            then (upd s n (set inGraph (fun _ => false))) <| reg := rm n (reg s) |> else s.
  Local Lemma rn_zero : zeroNode s0 n = Ok s'.
  Proof. exact H. Qed.

  Local Ltac rn0 := unfold s0; destruct (inGraph (nd s n)); reflexivity.
  Local Ltac rn lem := rewrite (lem s0 n s' rn_zero); rn0.

  Lemma next_removeNode : next s' = next s. Proof. rn next_zeroNode. Qed.
  Lemma binds_removeNode : binds s' = binds s. Proof. rn binds_zeroNode. Qed.
  Lemma obs_removeNode : obs s' = obs s. Proof. rn obs_zeroNode. Qed.
  Lemma adj_removeNode : adj s' = adj s. Proof. rn adj_zeroNode. Qed.
  Lemma invq_removeNode : invq s' = invq s. Proof. rn invq_zeroNode. Qed.
  Lemma stabNum_removeNode : stabNum s' = stabNum s. Proof. rn stabNum_zeroNode. Qed.
  Lemma status_removeNode : status s' = status s. Proof. rn status_zeroNode. Qed.
  Lemma maxHeight_removeNode : maxHeight s' = maxHeight s. Proof. rn maxHeight_zeroNode. Qed.
  Lemma log_removeNode : log s' = log s. Proof. rn log_zeroNode. Qed.
  Lemma numNodes_removeNode : numNodes s' = numNodes s - 1. Proof. rn numNodes_zeroNode. Qed.
  Lemma handlers_removeNode : handlers s' = rm n (handlers s). Proof. rn handlers_zeroNode. Qed.
  Lemma setDuring_removeNode : setDuring s' = rm n (setDuring s). Proof. rn setDuring_zeroNode. Qed.
  Lemma setRemoved_removeNode :
    setRemoved s' = if bool_decide (n ∈ setDuring s) then setRemoved s ++ [n] else setRemoved s.
  Proof. rn setRemoved_zeroNode. Qed.
  Lemma reg_removeNode : reg s' = if inGraph (nd s n) then rm n (reg s) else reg s.
  Proof. rn reg_zeroNode. Qed.
  Lemma heap_removeNode :
    if inHeap s n then exists s1, heapRemove s n = Ok s1 /\ heap s' = heap s1 else heap s' = heap s.
  Proof.
    pose proof (heap_zeroNode s0 n s' rn_zero) as Hz.
    assert (E : inHeap s0 n = inHeap s n) by rn0. rewrite E in Hz.
    destruct (inHeap s n); [|rewrite Hz; rn0].
    destruct Hz as (s1 & Hr & Hw). apply heapRemove_inv in Hr as (w & Hr & ->).
    assert (Hr' : Heap.remove (heap s) n = Ok w) by (rewrite <- Hr; rn0).
    exists (s <| heap := w |>). split; [unfold heapRemove; rewrite Hr'; reflexivity|exact Hw].
  Qed.
  Lemma has_removeNode m : has s' m <-> has s m.
  Proof.
    rewrite (has_zeroNode s0 n s' rn_zero). unfold s0. destruct (inGraph (nd s n)); [|reflexivity].
    apply (has_upd s n).
  Qed.

  Local Ltac rnp lem := intros; rewrite (lem s0 n s' rn_zero); unfold s0; destruct (inGraph (nd s n));
                        [|reflexivity];
                        match goal with |- context [nd (?a <| reg := ?r |>) ?m] => change (nd (a <| reg := r |>) m) with (nd a m) end;
                        rewrite nd_upd_proj by reflexivity; reflexivity.
  Lemma nkind_nd_removeNode m : nkind (nd s' m) = nkind (nd s m). Proof. rnp nkind_nd_zeroNode. Qed.
  Lemma decl_nd_removeNode m : decl (nd s' m) = decl (nd s m). Proof. rnp decl_nd_zeroNode. Qed.
  Lemma scope_nd_removeNode m : scope (nd s' m) = scope (nd s m). Proof. rnp scope_nd_zeroNode. Qed.
  Lemma forceNec_nd_removeNode m : forceNec (nd s' m) = forceNec (nd s m). Proof. rnp forceNec_nd_zeroNode. Qed.
  Lemma value_nd_removeNode m : value (nd s' m) = value (nd s m). Proof. rnp value_nd_zeroNode. Qed.
  Lemma pending_nd_removeNode m : pending (nd s' m) = pending (nd s m). Proof. rnp pending_nd_zeroNode. Qed.
  Lemma parents_nd_removeNode m : parents (nd s' m) = if decide (m = n) then [] else parents (nd s m).
  Proof. rnp parents_nd_zeroNode. Qed.
  Lemma children_nd_removeNode m : children (nd s' m) = if decide (m = n) then [] else children (nd s m).
  Proof. rnp children_nd_zeroNode. Qed.
  Lemma observers_nd_removeNode m : observers (nd s' m) = if decide (m = n) then [] else observers (nd s m).
  Proof. rnp observers_nd_zeroNode. Qed.
  Lemma height_nd_removeNode m : height (nd s' m) = if decide (m = n) then unset else height (nd s m).
  Proof. rnp height_nd_zeroNode. Qed.
  Lemma hAdj_nd_removeNode m : hAdj (nd s' m) = if decide (m = n) then unset else hAdj (nd s m).
  Proof. rnp hAdj_nd_zeroNode. Qed.
  Lemma valid_nd_removeNode m : valid (nd s' m) = valid (nd s m). Proof. rnp valid_nd_zeroNode. Qed.
  Lemma setAt_nd_removeNode m : setAt (nd s' m) = if decide (m = n) then 0 else setAt (nd s m).
  Proof. rnp setAt_nd_zeroNode. Qed.
  Lemma changedAt_nd_removeNode m : changedAt (nd s' m) = if decide (m = n) then 0 else changedAt (nd s m).
  Proof. rnp changedAt_nd_zeroNode. Qed.
  Lemma recomputedAt_nd_removeNode m : recomputedAt (nd s' m) = if decide (m = n) then 0 else recomputedAt (nd s m).
  Proof. rnp recomputedAt_nd_zeroNode. Qed.
  Lemma inGraph_nd_removeNode m : inGraph (nd s' m) = if decide (m = n) then false else inGraph (nd s m).
  Proof.
    rewrite (inGraph_nd_zeroNode s0 n s' rn_zero). unfold s0. destruct (inGraph (nd s n)) eqn:E.
    - change (nd (upd s n (set inGraph (fun _ => false)) <| reg := rm n (reg s) |>) m)
        with (nd (upd s n (set inGraph (fun _ => false))) m).
      apply upd_const_proj; reflexivity.
    - destruct (decide (m = n)) as [->|]; [exact E|reflexivity].
  Qed.
  Lemma bd_removeNode b : bd s' b = bd s b.
  Proof. unfold bd. rewrite binds_removeNode. reflexivity. Qed.
End removeNode.

(** whole-record frame facts *)
Lemma nd_addNode_ne s n m : m <> n -> nd (addNode s n) m = nd s m.
Proof.
  intros H. unfold addNode. destruct (inGraph (nd s n)); [reflexivity|].
  change (nd (upd s n (set inGraph (fun _ => true))) m = nd s m). apply nd_upd_ne, H.
Qed.

Lemma nd_link_ne s c p m : m <> c -> m <> p -> nd (link s c p) m = nd s m.
Proof. intros H1 H2. unfold link. rewrite !nd_upd_ne by assumption. reflexivity. Qed.

Lemma nd_unlink_ne s c p m : m <> c -> m <> p -> nd (unlink s c p) m = nd s m.
Proof. intros H1 H2. unfold unlink. rewrite !nd_upd_ne by assumption. reflexivity. Qed.

Lemma inGraph_nd_addNode_mono s n m : inGraph (nd s m) = true -> inGraph (nd (addNode s n) m) = true.
Proof.
  intros H. destruct (decide (m = n)) as [->|Hne]; [|rewrite nd_addNode_ne by exact Hne; exact H].
  unfold addNode. rewrite H. exact H.
Qed.

Lemma nd_setHeight_ne s n h s' m : setHeight s n h = Ok (s', None) -> m <> n -> nd s' m = nd s m.
Proof.
  intros H Hne. apply setHeight_inv in H as [(_ & _ & ?)|(_ & _ & ->)]; [discriminate|].
  destruct (h >? a_maxSeen (adj s)); rewrite nd_upd_ne by exact Hne; reflexivity.
Qed.

(** * The adjust-heights heap: [adjAdd], [adjRemoveMin] *)
Definition adj_ids (s : state) : list nid := concat (a_byHeight (adj s)).

Lemma adjAdd_inv s n s' : adjAdd s n = Ok s' ->
  (hAdj (nd s n) <> unset /\ s' = s) \/
  (hAdj (nd s n) = unset /\ 0 <= height (nd s n) /\
   exists q, a_byHeight (adj s) !! Z.to_nat (height (nd s n)) = Some q /\
     s' = (upd s n (set hAdj (fun _ => height (nd s n))))
            <| adj := adj s <| a_byHeight := <[Z.to_nat (height (nd s n)) := q ++ [n]]> (a_byHeight (adj s)) |>
                            <| a_maxSeen := Z.max (a_maxSeen (adj s)) (height (nd s n)) |>
                            <| a_num := a_num (adj s) + 1 |> |>).
Proof.
  unfold adjAdd. destruct (Z.eqb_spec (hAdj (nd s n)) unset) as [E|E]; simpl.
  2:{ intros [= <-]. left. auto. }
  destruct (Z.ltb_spec (height (nd s n)) 0); [discriminate|].
  destruct (a_byHeight (adj s) !! Z.to_nat (height (nd s n))) as [q|] eqn:Eq; [|discriminate].
  intros [= <-]. right. split; [exact E|]. split; [assumption|]. exists q. split; reflexivity.
Qed.

Lemma adjScan_spec bs x upto x' n b' :
  adjScan bs x upto = Some (x', n, b') -> exists i, bs !! i = Some (n :: b') /\ x' = (x + i)%nat.
Proof.
  revert x. induction bs as [|b bs IH]; intros x H; simpl in H; [discriminate|].
  destruct (Z.of_nat x >? upto); [discriminate|]. destruct b as [|m b].
  - apply IH in H as (i & Hi & ->). exists (S i). split; [exact Hi|lia].
  - injection H as <- <- <-. exists 0%nat. split; [reflexivity|lia].
Qed.

Lemma adjRemoveMin_inv s r s' : adjRemoveMin s = Ok (r, s') ->
  (r = None /\ s' = s) \/
  (exists n x b', r = Some n /\ a_byHeight (adj s) !! x = Some (n :: b') /\
     s' = (upd s n (set hAdj (fun _ => unset)))
            <| adj := adj s <| a_byHeight := <[x := b']> (a_byHeight (adj s)) |>
                            <| a_lower := Z.of_nat x |> <| a_num := a_num (adj s) - 1 |> |>).
Proof.
  unfold adjRemoveMin. destruct (a_num (adj s) =? 0); [intros [= <- <-]; left; auto|].
  destruct (a_lower (adj s) <? 0); [discriminate|].
  destruct (adjScan _ _ _) as [[[x n] b']|] eqn:E; [|intros [= <- <-]; left; auto].
  intros [= <- <-]. right. apply adjScan_spec in E as (i & Hi & ->).
  rewrite lookup_drop in Hi. exists n, (Z.to_nat (a_lower (adj s)) + i)%nat, b'. auto.
Qed.

Lemma concat_insert_perm (bs : list (list nid)) x b b' :
  bs !! x = Some b -> exists l1 l2, concat bs = l1 ++ b ++ l2 /\ concat (<[x := b']> bs) = l1 ++ b' ++ l2.
Proof.
  intros H. destruct (concat_split bs x b H) as (l1 & l2 & E1 & E2). exists l1, l2. auto.
Qed.

Lemma removeMin_spec w n w' :
  hinv w -> Heap.removeMin w = Some (n, w') ->
  hinv w' /\ Heap.ids w ≡ₚ n :: Heap.ids w' /\
  forall m, Heap.hinOf w' m = if decide (m = n) then unset else Heap.hinOf w m.
Proof.
  intros [I T] H. destruct (heap_removeMin_spec w n w' I H) as (_ & I' & P & Hin).
  split; [split; [exact I'|apply (heap_removeMin_tight w n w' I T H)]|auto].
Qed.

(** the whole minimum block leaves the heap (ParallelStabilize) *)
Lemma heap_takeMinBlock_tight w b w' :
  HeapSpec.inv w -> heap_tight w -> Heap.takeMinBlock w = (b, w') -> heap_tight w'.
Proof.
  intros I T H. destruct (heap_takeMinBlock_spec w b w' I H) as (I' & _).
  unfold Heap.takeMinBlock in H.
  destruct (scan_from _ _) as [x|]; [|injection H as _ <-; exact T].
  set (bs := <[x := []]> (Heap.buckets w)) in *.
  injection H as _ <-. intros Hpos. cbn [Heap.cnt] in Hpos. cbn [Heap.minH Heap.bucket Heap.buckets].
  fold (bk bs (Z.to_nat (nextMinFrom bs (Heap.cnt w - Z.of_nat (length (Heap.bucket w x))) 0))).
  apply nextMin_nonempty; [exact Hpos|].
  pose proof (inv_cnt _ I') as Hcnt. unfold Heap.ids in Hcnt. cbn [Heap.cnt Heap.buckets] in Hcnt.
  destruct (concat bs) as [|m l] eqn:Ecc; [simpl in Hcnt; lia|].
  assert (Hmc : m ∈ concat bs) by (rewrite Ecc; left).
  apply elem_of_concat_bk in Hmc as [y Hy]. exists y. split; [simpl; lia|].
  intros E. assert (E' : bk bs y = []) by exact E. rewrite E' in Hy. inversion Hy.
Qed.

Lemma takeMinBlock_spec w b w' :
  hinv w -> Heap.takeMinBlock w = (b, w') ->
  hinv w' /\ Heap.ids w ≡ₚ b ++ Heap.ids w' /\
  forall m, Heap.hinOf w' m = if bool_decide (m ∈ b) then unset else Heap.hinOf w m.
Proof.
  intros [I T] H. destruct (heap_takeMinBlock_spec w b w' I H) as (I' & P & _ & _ & _ & Hin).
  split; [split; [exact I'|apply (heap_takeMinBlock_tight w b w' I T H)]|auto].
Qed.
