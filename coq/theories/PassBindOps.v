(** The quiescent value invariant [ValInvB] (graphs with binds) is preserved by the operations
    between passes, on states that satisfy [EngineInv.Inv]; together with the pass theorems
    (PassBindProofs / PassBindSwapStep) this gives C01 at every pass of a clean history whose bind
    templates are plain.  Follows PassProofs.v, section P (the bind-free versions). *)
From stdpp Require Import sorting.
From incr Require Import Base Heap HeapSpec HeapProofs EngineDefs Engine EngineRun EngineWf Spec
     EngineLemmas EngineInv EngineInvProofs PassInv PassProofs PassBind PassBindProofs PassBindSwap
     PassBindSwapProofs PassBindSwapStep.

Local Ltac inv H := inversion H; subst; clear H.
Local Arguments valueOf : simpl never.

Lemma consistent_valB_ext2 s s' n v :
  BFB s -> nkind (nd s' n) = nkind (nd s n) -> decl (nd s' n) = decl (nd s n) ->
  (forall p, p ∈ decl (nd s n) -> valueOf s' p = valueOf s p) ->
  (forall b, nkind (nd s n) = KBindMain b -> bd s' b = bd s b) ->
  consistent_valB s' n v = consistent_valB s n v.
Proof.
  intros HB Ek Ed Hv Hbd. unfold consistent_valB. rewrite Ek, Ed.
  destruct (nkind (nd s n)) eqn:K; try reflexivity.
  - destruct (decl (nd s n)) as [|a [|]]; try reflexivity. rewrite Hv by left. reflexivity.
  - destruct (decl (nd s n)) as [|a [|c [|]]]; try reflexivity. rewrite (Hv a), (Hv c) by (repeat constructor). reflexivity.
  - f_equal. f_equal. apply map_ext_in. intros p Hp. apply Hv, elem_of_list_In, Hp.
  - destruct (decl (nd s n)) as [|a [|]]; try reflexivity. rewrite Hv by left. reflexivity.
  - rewrite (Hbd b eq_refl). destruct (b_rhs (bd s b)) as [r|] eqn:Er; [|reflexivity].
    rewrite Hv; [reflexivity|]. apply (bb_rhs_decl s HB n b r K Er).
Qed.

Lemma trivial_consistentB s n v : trivial_kind (nkind (nd s n)) = true -> consistent_valB s n v = true.
Proof. unfold consistent_valB. destruct (nkind (nd s n)); try discriminate; reflexivity. Qed.

Lemma Inv_lhs_main s b : Inv s -> nkind (nd s b) = KBindLhs b -> inGraph (nd s b) = true -> inGraph (nd s (S b)) = true.
Proof.
  intros I K Hg. pose proof (inv_kinds s I b (has_inGraph _ _ Hg)) as Kk. rewrite K in Kk. destruct Kk as [_ Hb].
  apply (lhs_main_reg s b (inv_edges _ I) (inv_zero _ I) (inv_nec _ I) (inv_par _ I) (inv_obs _ I)
           (q_force _ (inv_quiet _ I)) (inv_scoping _ I) Hb K Hg).
Qed.

(** * The generic transfer *)
Lemma ValInvB_transfer s s' :
  Inv s -> ValInvB s -> Tplain s -> Inv s' -> Shape s' ->
  stabNum s' = stabNum s -> (next s <= next s')%nat ->
  (forall m, inGraph (nd s m) = true ->
     nkind (nd s' m) = nkind (nd s m) /\ value (nd s' m) = value (nd s m) /\
     (nkind (nd s m) = KAlways -> decl (nd s' m) = decl (nd s m))) ->
  (forall m, inGraph (nd s' m) = true ->
     recomputedAt (nd s' m) = recomputedAt (nd s m) /\ changedAt (nd s' m) = changedAt (nd s m)) ->
  (forall m, inGraph (nd s' m) = false -> valid (nd s' m) = true ->
     recomputedAt (nd s' m) = 0 /\ changedAt (nd s' m) = 0) ->
  (forall m, inGraph (nd s' m) = false ->
     (recomputedAt (nd s' m) = recomputedAt (nd s m) /\ changedAt (nd s' m) = changedAt (nd s m)) \/
     (recomputedAt (nd s' m) = 0 /\ changedAt (nd s' m) = 0)) ->
  (forall m, inGraph (nd s' m) = true -> isStale s' m = true -> inHeap s' m = true) ->
  (forall m, inGraph (nd s' m) = true -> inHeap s' m = false ->
     trivial_kind (nkind (nd s' m)) = true \/
     (inGraph (nd s m) = true /\ inHeap s m = false /\ decl (nd s' m) = decl (nd s m))) ->
  (forall p, inGraph (nd s' p) = true -> inHeap s p = true -> inHeap s' p = true) ->
  (forall b r, binds s !! b = Some r -> binds s' !! b = Some r) ->
  (forall m b, has s m -> scope (nd s m) = Some b ->
     nkind (nd s' m) = nkind (nd s m) /\ scope (nd s' m) = scope (nd s m) /\ value (nd s' m) = value (nd s m) /\
     (readsDecl (nkind (nd s m)) = true -> decl (nd s' m) = decl (nd s m))) ->
  ValInvB s'.
Proof.
  intros IV V TP IV' HSh' Hk Hnx Fr St V0 St0 R4 R3 R5 Mb Ms.
  pose proof (Inv_Struct s IV) as HS. pose proof (Inv_Struct s' IV') as HS'.
  pose proof (Inv_BFB s IV (vb_shape _ V)) as HB.
  assert (Hbd : forall b, is_Some (binds s !! b) -> bd s' b = bd s b).
  { intros b [r Hr]. unfold bd. rewrite (Mb b r Hr), Hr. reflexivity. }
  (* a clean node of [s'] was clean in [s] *)
  assert (Hclean : forall n, inGraph (nd s' n) = true -> inGraph (nd s n) = true -> inHeap s n = false ->
            decl (nd s' n) = decl (nd s n) -> guarded s' None n = true -> guarded s None n = true).
  { intros n Hg Hg0 Hq0 Hd Hgd.
    assert (Hpar : forall p, p ∈ parents (nd s n) <-> p ∈ parents (nd s' n)).
    { intros p. rewrite (st_par _ HS n p Hg0), (st_par _ HS' n p Hg), Hd. reflexivity. }
    unfold guarded in *. apply forallb_intro. intros p Hp.
    pose proof (forallb_elem _ _ _ Hgd (proj1 (Hpar p) Hp)) as Hb'. cbv beta in Hb'.
    apply andb_true_iff in Hb' as [H1 H2].
    assert (Hgp' : inGraph (nd s' p) = true) by (apply (edge_reg s' HS' p n), (parent_edge s' HS'), Hpar, Hp).
    assert (Hgp : inGraph (nd s p) = true) by (apply (edge_reg s HS p n), (parent_edge s HS), Hp).
    destruct (St p Hgp') as [Ep1 Ep2]. destruct (St n Hg) as [En1 En2].
    rewrite Ep2, En1 in H1. rewrite H1. simpl.
    apply negb_true_iff in H2. apply negb_true_iff. unfold volq in *.
    destruct (Fr p Hgp) as (Ek & _). rewrite Ek in H2. destruct (nkind (nd s p)); try reflexivity.
    - unfold inW in *. rewrite orb_false_r in *. destruct (inHeap s p) eqn:Eh; [|reflexivity].
      rewrite (R5 p Hgp' Eh) in H2. discriminate.
    - rewrite Ep1, Hk in H2. exact H2. }
  assert (HvalOf : forall p, inGraph (nd s p) = true -> valueOf s' p = valueOf s p).
  { intros p Hgp. apply valueOf__reg_ext; [exact HS|exact Fr|exact Hgp]. }
  constructor.
  - exact HSh'.
  - intros n. unfold stamps_node. rewrite Hk. destruct (inGraph (nd s' n)) eqn:Eg.
    + destruct (St n Eg) as [-> ->]. apply (vb_stamps _ V n).
    + pose proof (stamps_node_true _ _ (vb_stamps _ V n)) as Hn. pose proof (stamps_node_true _ _ (vb_stamps _ V 0%nat)) as H0.
      destruct (St0 n Eg) as [[-> ->]|[-> ->]]; rewrite !andb_true_iff, !Z.leb_le, !Z.ltb_lt; lia.
  - exact V0.
  - exact R4.
  - intros n Hg Hq Hgd. destruct (R3 n Hg Hq) as [Ht|(Hg0 & Hq0 & Hd)]; [apply trivial_consistentB, Ht|].
    pose proof (Hclean n Hg Hg0 Hq0 Hd Hgd) as Hgd0.
    pose proof (vb_clean _ V n Hg0 Hq0 Hgd0) as Hc.
    destruct (Fr n Hg0) as (Ek & Ev & _). rewrite Ev.
    rewrite (consistent_valB_ext2 s s' n _ HB Ek Hd); [exact Hc| |].
    + intros p Hp. apply HvalOf. apply (edge_reg s HS p n). apply decl_parent; assumption.
    + intros b K. apply Hbd. pose proof (inv_kinds s IV n (has_inGraph _ _ Hg0)) as Kk. rewrite K in Kk. apply Kk.
  - intros b Hgm Km Hq Hgd.
    assert (HgL' : inGraph (nd s' b) = true).
    { pose proof (Inv_BFB s' IV' HSh') as HB'. destruct (bb_main _ HB' _ _ Km) as (_ & _ & Hd).
      apply (edge_reg s' HS' b (S b)). apply (decl_parent s' HS' _ _ Hgm). rewrite Hd. left. }
    assert (KL' : nkind (nd s' b) = KBindLhs b).
    { pose proof (Inv_BFB s' IV' HSh') as HB'. apply (bb_main _ HB' _ _ Km). }
    destruct (R3 b HgL' Hq) as [Ht|(Hg0 & Hq0 & Hd)]; [rewrite KL' in Ht; discriminate|].
    pose proof (Hclean b HgL' Hg0 Hq0 Hd Hgd) as Hgd0.
    assert (KL : nkind (nd s b) = KBindLhs b) by (destruct (Fr b Hg0) as (E & _); congruence).
    pose proof (Inv_lhs_main s b IV KL Hg0) as Hgm0.
    pose proof (inv_kinds s IV b (has_inGraph _ _ Hg0)) as Kk. rewrite KL in Kk. destruct Kk as [_ [r Hr]].
    pose proof (bw_kind_main _ _ _ (inv_binds _ IV b r Hr)) as Km0.
    pose proof (vb_match _ V b Hgm0 Km0 Hq0 Hgd0) as Hm.
    unfold matchesOK in *. rewrite (Hbd b ltac:(eauto)).
    assert (Hl : inGraph (nd s (b_lhs (bd s b))) = true).
    { apply (edge_reg s HS _ b). apply (decl_parent s HS _ _ Hg0). destruct (bb_lhs _ HB b b KL) as [_ ->]. left. }
    rewrite (HvalOf _ Hl).
    assert (Hp : tplain true (select (b_cases (bd s b)) (valueOf s (b_lhs (bd s b)))) = true).
    { apply select_tplain. unfold bd. rewrite Hr. apply (TP b r Hr). }
    apply (matches_mono (next s + 64)); [lia|].
    apply (matches_old _ s s' b _ _ _ true Hp); [| |exact Hm].
    + intros m Hmm Hsc. destruct (Ms m b Hmm Hsc) as (A1&A2&A3&A4). auto.
    + intros m b1 Hmm Km1. rewrite (Hbd b1); [auto|].
      pose proof (inv_kinds s IV m Hmm) as Kk1. rewrite Km1 in Kk1. apply Kk1.
Qed.

(** * creating a top-level node *)
Lemma ValInvB_newNode s k d v :
  Inv s -> ValInvB s -> Tplain s ->
  let s' := (newNode s k d None v).1 in
  Inv s' -> shape_node (next s) (fresh_node k d None v) = true ->
  ValInvB s'.
Proof.
  intros IV V TP s' IV' Hfresh.
  assert (Hno : ~ has s (next s)) by (intros Hh; pose proof (io_lt _ (inv_ids _ IV) _ Hh); lia).
  assert (Hnd : forall m, nd s' m = if decide (m = next s) then fresh_node k d None v else nd s m)
    by (apply nd_newNode).
  assert (Hdummy : nd s (next s) = dummy) by (apply not_has_nd, Hno).
  assert (Hold : forall m, has s m -> nd s' m = nd s m).
  { intros m Hm. rewrite Hnd. destruct (decide (m = next s)) as [->|]; [contradiction|reflexivity]. }
  assert (Hreg : forall m, inGraph (nd s' m) = true -> inGraph (nd s m) = true /\ nd s' m = nd s m).
  { intros m. rewrite Hnd. destruct (decide (m = next s)) as [->|]; [discriminate|auto]. }
  assert (Hch : forall m, changedAt (nd s' m) = changedAt (nd s m)).
  { intros m. rewrite Hnd. destruct (decide (m = next s)) as [->|]; [rewrite Hdummy|]; reflexivity. }
  assert (HSh' : Shape s').
  { intros m y Hy. unfold s' in Hy. rewrite nodes_newNode in Hy.
    destruct (decide (m = next s)) as [->|Hne].
    - rewrite lookup_insert in Hy. injection Hy as <-. exact Hfresh.
    - rewrite lookup_insert_ne in Hy by congruence. apply (vb_shape _ V m y Hy). }
  apply (ValInvB_transfer s s' IV V TP IV' HSh').
  - apply stabNum_newNode.
  - unfold s'. rewrite next_newNode. lia.
  - intros m Hg. rewrite (Hold m (has_inGraph _ _ Hg)). auto.
  - intros m Hg. destruct (Hreg m Hg) as [_ ->]. auto.
  - intros m Hg Hv. rewrite Hnd in *. destruct (decide (m = next s)); [auto|]. apply (vb_unreg _ V m Hg Hv).
  - intros m _. rewrite Hnd. destruct (decide (m = next s)) as [->|]; [right|left]; auto.
  - intros m Hg Hs. destruct (Hreg m Hg) as [Hg0 Em]. unfold s'. rewrite inHeap_newNode.
    apply (vb_owed _ V m Hg0). rewrite <- Hs. symmetry.
    apply isStale_same; [exact Em|apply stabNum_newNode|]. intros p _. apply Hch.
  - intros m Hg Hq. destruct (Hreg m Hg) as [Hg0 Em]. right. split; [exact Hg0|]. split.
    + unfold s' in Hq. rewrite inHeap_newNode in Hq. exact Hq.
    + rewrite Em. reflexivity.
  - intros p _ Hq. unfold s'. rewrite inHeap_newNode. exact Hq.
  - intros b r Hr. unfold s'. rewrite binds_newNode. exact Hr.
  - intros m b Hm _. rewrite (Hold m Hm). auto.
Qed.

Lemma Tplain_newNode s k d v : Tplain s -> Tplain (newNode s k d None v).1.
Proof. apply Tplain_binds. apply binds_newNode. Qed.

(** * creating a bind (top level) *)
Lemma newBind_state s cases a :
  let s' := (newBind s cases a None).1 in
  (forall m, nd s' m = if decide (m = S (next s)) then fresh_node (KBindMain (next s)) [next s] None 0
                       else if decide (m = next s) then fresh_node (KBindLhs (next s)) [a] None 0 else nd s m) /\
  binds s' = <[next s := mkBind a (next s) (S (next s)) None [] cases 0%nat false []]> (binds s) /\
  next s' = S (S (next s)) /\ heap s' = heap s /\ stabNum s' = stabNum s /\
  nodes s' = <[S (next s) := fresh_node (KBindMain (next s)) [next s] None 0]>
               (<[next s := fresh_node (KBindLhs (next s)) [a] None 0]> (nodes s)).
Proof.
  intros s'. unfold s', newBind. rewrite newBindWith_eq.
  set (s0 := s <| binds := <[next s := mkBind a (next s) (S (next s)) None [] cases 0%nat false []]> (binds s) |>).
  set (s1 := (newNode s0 (KBindLhs (next s)) [a] None 0).1).
  assert (Hn1 : next s1 = S (next s)) by (unfold s1; rewrite next_newNode; reflexivity).
  split; [|split; [|split; [|split; [|split]]]].
  - intros m. rewrite nd_newNode, Hn1. destruct (decide (m = S (next s))); [reflexivity|].
    unfold s1. rewrite nd_newNode. change (next s0) with (next s). destruct (decide (m = next s)); reflexivity.
  - rewrite binds_newNode. unfold s1. rewrite binds_newNode. reflexivity.
  - rewrite next_newNode, Hn1. reflexivity.
  - rewrite heap_newNode. unfold s1. rewrite heap_newNode. reflexivity.
  - rewrite stabNum_newNode. unfold s1. rewrite stabNum_newNode. reflexivity.
  - rewrite nodes_newNode, Hn1. unfold s1. rewrite nodes_newNode. reflexivity.
Qed.

Lemma ValInvB_newBind s cases a :
  Inv s -> ValInvB s -> Tplain s ->
  let s' := (newBind s cases a None).1 in
  Inv s' -> forallb (tplain true) cases = true -> ValInvB s' /\ Tplain s'.
Proof.
  intros IV V TP s' IV' Hcases.
  destruct (newBind_state s cases a) as (Hnd & Hb & Hnx & Hh & Hk & Hnodes). fold s' in Hnd, Hb, Hnx, Hh, Hk, Hnodes.
  assert (Hlt : forall m, has s m -> (m < next s)%nat) by apply (io_lt _ (inv_ids _ IV)).
  assert (Hold : forall m, has s m -> nd s' m = nd s m).
  { intros m Hm. pose proof (Hlt m Hm). rewrite Hnd. rewrite !decide_False by lia. reflexivity. }
  assert (Hd1 : nd s (next s) = dummy) by (apply not_has_nd; intros Hh'; pose proof (Hlt _ Hh'); lia).
  assert (Hd2 : nd s (S (next s)) = dummy) by (apply not_has_nd; intros Hh'; pose proof (Hlt _ Hh'); lia).
  assert (Hreg : forall m, inGraph (nd s' m) = true -> inGraph (nd s m) = true /\ nd s' m = nd s m).
  { intros m. rewrite Hnd. destruct (decide (m = S (next s))); [discriminate|]. destruct (decide (m = next s)); [discriminate|auto]. }
  assert (Hch : forall m, changedAt (nd s' m) = changedAt (nd s m) /\ recomputedAt (nd s' m) = recomputedAt (nd s m)).
  { intros m. rewrite Hnd. destruct (decide (m = S (next s))) as [->|]; [rewrite Hd2; auto|].
    destruct (decide (m = next s)) as [->|]; [rewrite Hd1; auto|auto]. }
  assert (Hq : forall m, inHeap s' m = inHeap s m) by (intros m; unfold inHeap; rewrite Hh; reflexivity).
  assert (Hbs : forall b r, binds s !! b = Some r -> binds s' !! b = Some r).
  { intros b r Hr. rewrite Hb. rewrite lookup_insert_ne; [exact Hr|].
    intros <-. pose proof (Hlt _ (bw_has_lhs _ _ _ (inv_binds _ IV _ _ Hr))). lia. }
  split.
  2:{ intros b r Hr. rewrite Hb in Hr. destruct (decide (b = next s)) as [->|Hne].
      - rewrite lookup_insert in Hr. injection Hr as <-. exact Hcases.
      - rewrite lookup_insert_ne in Hr by congruence. apply (TP b r Hr). }
  assert (HSh' : Shape s').
  { intros m y Hy. rewrite Hnodes in Hy.
    destruct (decide (m = S (next s))) as [->|Hne]; [rewrite lookup_insert in Hy; injection Hy as <-; reflexivity|].
    rewrite lookup_insert_ne in Hy by congruence.
    destruct (decide (m = next s)) as [->|Hne2]; [rewrite lookup_insert in Hy; injection Hy as <-; reflexivity|].
    rewrite lookup_insert_ne in Hy by congruence. apply (vb_shape _ V m y Hy). }
  apply (ValInvB_transfer s s' IV V TP IV' HSh').
  - exact Hk.
  - rewrite Hnx. lia.
  - intros m Hg. rewrite (Hold m (has_inGraph _ _ Hg)). auto.
  - intros m Hg. destruct (Hreg m Hg) as [_ ->]. auto.
  - intros m Hg Hv. rewrite Hnd in *. destruct (decide (m = S (next s))); [auto|]. destruct (decide (m = next s)); [auto|].
    apply (vb_unreg _ V m Hg Hv).
  - intros m _. left. destruct (Hch m). auto.
  - intros m Hg Hs. destruct (Hreg m Hg) as [Hg0 Em]. rewrite Hq.
    apply (vb_owed _ V m Hg0). rewrite <- Hs. symmetry.
    apply isStale_same; [exact Em|exact Hk|]. intros p _. apply Hch.
  - intros m Hg Hq'. destruct (Hreg m Hg) as [Hg0 Em]. right. split; [exact Hg0|]. split.
    + rewrite Hq in Hq'. exact Hq'.
    + rewrite Em. reflexivity.
  - intros p _ Hq'. rewrite Hq. exact Hq'.
  - exact Hbs.
  - intros m b Hm _. rewrite (Hold m Hm). auto.
Qed.

(** * Var.Set / Var.Update between passes *)
Lemma ValInvB_setPost s v s' :
  Inv s -> ValInvB s -> (exists e, nkind (nd s v) = KVar e) -> setPost s v s' -> ValInvB s'.
Proof.
  intros IV V [e Kv] P. pose proof (Inv_Struct s IV) as HS. pose proof (Inv_BFB s IV (vb_shape _ V)) as HB.
  destruct (se_fields _ _ _ P) as (Fb & Fn & _ & _ & _ & _ & Fk & _).
  destruct (se_self _ _ _ P) as [a Eself].
  assert (Hkind : forall m, nkind (nd s' m) = nkind (nd s m)).
  { intros m. destruct (decide (m = v)) as [->|Hm]; [rewrite Eself; reflexivity|rewrite (se_other _ _ _ P m Hm); reflexivity]. }
  assert (Hsame : forall m, m <> v -> nd s' m = nd s m) by apply P.
  assert (Hstamp : forall m, recomputedAt (nd s' m) = recomputedAt (nd s m) /\ changedAt (nd s' m) = changedAt (nd s m)
                             /\ inGraph (nd s' m) = inGraph (nd s m) /\ parents (nd s' m) = parents (nd s m)
                             /\ valid (nd s' m) = valid (nd s m) /\ decl (nd s' m) = decl (nd s m)
                             /\ scope (nd s' m) = scope (nd s m)).
  { intros m. destruct (decide (m = v)) as [->|Hm]; [rewrite Eself; repeat split|rewrite (Hsame m Hm); repeat split]. }
  assert (Hq : forall m, inHeap s m = true -> inHeap s' m = true).
  { intros m Hm. destruct (se_heap _ _ _ P m) as [->|[-> ?]]; assumption. }
  assert (Hstale : forall m, isStale s' m = isStale s m).
  { intros m. destruct (Hstamp m) as (E1 & _ & _ & E4 & E5 & _). apply isStale_fields; try assumption.
    - apply Hkind.
    - rewrite E4. reflexivity.
    - intros p _. apply (Hstamp p). }
  (* a node that is clean after the write was clean before it, and its inputs read the same *)
  assert (Hcl : forall n, inGraph (nd s n) = true -> inHeap s' n = false -> guarded s' None n = true ->
            inHeap s n = false /\ guarded s None n = true /\
            forall p, p ∈ parents (nd s n) -> valueOf s' p = valueOf s p).
  { intros n Hg HnW Hgd. destruct (Hstamp n) as (En1 & _ & Eg & Ep & _ & Ed & _).
    assert (HnW0 : inHeap s n = false).
    { destruct (inHeap s n) eqn:Eq; [|reflexivity]. rewrite (Hq n Eq) in HnW. discriminate. }
    assert (Hgd_p : forall p, p ∈ parents (nd s n) ->
              changedAt (nd s p) <= recomputedAt (nd s n) /\ volq s' None p = false).
    { intros p Hp. unfold guarded in Hgd. rewrite Ep in Hgd.
      pose proof (forallb_elem _ _ _ Hgd Hp) as Hb'. cbv beta in Hb'. apply andb_true_iff in Hb' as [H1 H2].
      apply Z.leb_le in H1. apply negb_true_iff in H2. destruct (Hstamp p) as (_ & Ec & _).
      rewrite Ec, En1 in H1. auto. }
    split; [exact HnW0|]. split.
    - unfold guarded. apply forallb_intro. intros p Hp. destruct (Hgd_p p Hp) as [H1 H2].
      apply andb_true_iff. split; [apply Z.leb_le; exact H1|]. apply negb_true_iff.
      unfold volq in *. rewrite Hkind in H2. destruct (nkind (nd s p)); try reflexivity.
      + unfold inW in *. rewrite orb_false_r in *. destruct (inHeap s p) eqn:Eq; [|reflexivity].
        rewrite (Hq p Eq) in H2. discriminate.
      + destruct (Hstamp p) as (Er & _). rewrite Er, Fk in H2. exact H2.
    - intros p Hpar. destruct (Hgd_p p Hpar) as [_ Hvq].
      destruct (decide (value (nd s' v) = value (nd s v))) as [Ev|Ev].
      { apply valueOf_ext. intros m. split; [apply Hkind|]. split; [apply (Hstamp m)|].
        destruct (decide (m = v)) as [->|Hm]; [exact Ev|rewrite (Hsame m Hm); reflexivity]. }
      apply (valueOf_changed s s' v p HS).
      + intros m. split; [apply Hkind|apply (Hstamp m)].
      + intros m Hm. rewrite (Hsame m Hm). reflexivity.
      + apply (edge_reg s HS p n), (parent_edge s HS), Hpar.
      + intros ->. assert (Hgv : inGraph (nd s v) = true) by (apply (edge_reg s HS v n), (parent_edge s HS), Hpar).
        unfold volq in Hvq. rewrite Hkind, Kv in Hvq. unfold inW in Hvq. rewrite orb_false_r in Hvq.
        rewrite (se_queued _ _ _ P Hgv Ev) in Hvq. discriminate.
      + intros [Ka _]. unfold volq in Hvq. rewrite Hkind, Ka in Hvq. apply Z.ltb_ge in Hvq.
        destruct (Hstamp p) as (Er & _). rewrite Er, Fk in Hvq.
        pose proof (stamps_node_true _ _ (vb_stamps _ V p)). lia. }
  constructor.
  - intros m y Hy. assert (Hm' : has s' m) by (exists y; exact Hy).
    assert (Hm : has s m) by (apply (se_nodes_dom _ _ _ P), Hm').
    rewrite <- (nd_lookup _ _ _ Hy). pose proof (bb_shape_nd s HB m) as Hb'.
    unfold shape_node in *. rewrite !andb_true_iff in *. destruct Hb' as [[H5 H6] H7].
    destruct (Hstamp m) as (_ & _ & _ & _ & _ & E6 & _). split; [split|].
    + unfold arity_ok in *. rewrite Hkind, E6. exact H5.
    + unfold cutalways_zero in *. rewrite Hkind. destruct (decide (m = v)) as [->|Hm2].
      * rewrite Kv. reflexivity.
      * rewrite (Hsame m Hm2). exact H6.
    + unfold always_lt in *. rewrite Hkind, E6. exact H7.
  - intros m. unfold stamps_node. destruct (Hstamp m) as (-> & -> & _). rewrite Fk. apply (vb_stamps _ V m).
  - intros m. destruct (Hstamp m) as (-> & -> & -> & _ & -> & _). apply (vb_unreg _ V m).
  - intros m Hg Hs. destruct (Hstamp m) as (_ & _ & Eg & _). rewrite Eg in Hg. rewrite Hstale in Hs.
    apply Hq. apply (vb_owed _ V m Hg Hs).
  - intros n Hg HnW Hgd. destruct (Hstamp n) as (En1 & _ & Eg & Ep & _ & Ed & _). rewrite Eg in Hg.
    destruct (decide (n = v)) as [->|Hnv].
    { apply trivial_consistentB. rewrite Hkind, Kv. reflexivity. }
    destruct (Hcl n Hg HnW Hgd) as (HnW0 & Hgd0 & Hvals).
    pose proof (vb_clean _ V n Hg HnW0 Hgd0) as Hc. rewrite (Hsame n Hnv).
    rewrite (consistent_valB_ext2 s s' n _ HB (Hkind n) Ed); [exact Hc| |].
    + intros p Hp. apply Hvals. apply (st_par _ HS); assumption.
    + intros b _. unfold bd. rewrite Fb. reflexivity.
  - intros b Hgm Km HqL HgdL.
    destruct (Hstamp (S b)) as (_ & _ & Egm & _). rewrite Egm in Hgm. rewrite Hkind in Km.
    destruct (bb_main _ HB _ _ Km) as (_ & KL & Hd).
    assert (HgL : inGraph (nd s b) = true).
    { apply (edge_reg s HS b (S b)). apply (decl_parent s HS _ _ Hgm). rewrite Hd. left. }
    destruct (Hcl b HgL HqL HgdL) as (HqL0 & HgdL0 & Hvals).
    pose proof (vb_match _ V b Hgm Km HqL0 HgdL0) as Hm.
    rewrite <- Hm. apply matchesOK_ext; try assumption.
    + intros m. destruct (Hstamp m) as (_&_&_&_&_&Ed&Es). auto.
    + intros m Kr. destruct (decide (m = v)) as [->|Hmv]; [congruence|rewrite (Hsame m Hmv); reflexivity].
    + apply Hvals. apply (st_par _ HS b _ HgL). destruct (bb_lhs _ HB b b KL) as [_ ->]. left.
Qed.

Lemma ValInvB_varSet s v x s' :
  Inv s -> ValInvB s -> isVar s v = true -> varSet s v x = Ok s' -> ValInvB s'.
Proof.
  intros IV V Hv H. destruct (isVar_true _ _ Hv) as [Hhas Hk].
  pose proof (Inv_Struct s IV) as HS.
  apply (ValInvB_setPost s v s' IV V Hk).
  apply (varSet_post s v x s' HS (st_hnonneg _ HS) (q_status _ (inv_quiet _ IV)) Hhas H).
Qed.

Lemma ValInvB_varUpdate s v d s' :
  Inv s -> ValInvB s -> isVar s v = true -> varUpdate s v d = Ok s' -> ValInvB s'.
Proof. unfold varUpdate. intros IV V Hv H. eapply ValInvB_varSet; eauto. Qed.

(** * Observe / AddInput: operations that only add nodes / edges to the graph *)
Lemma Shape_static s s' :
  Shape s ->
  (forall m, nkind (nd s' m) = nkind (nd s m) /\ value (nd s' m) = value (nd s m)) ->
  (forall m, decl (nd s' m) = decl (nd s m) \/ exists f, nkind (nd s m) = KMapN f) ->
  (forall m, has s' m <-> has s m) -> Shape s'.
Proof.
  intros HSh G1 G2 Hhas m y Hy. assert (Hm' : has s' m) by (exists y; exact Hy).
  assert (Hm : has s m) by (apply Hhas, Hm'). rewrite <- (nd_lookup _ _ _ Hy).
  pose proof (HSh m _ (has_lookup _ _ Hm)) as Hb. unfold shape_node in *. rewrite !andb_true_iff in *.
  destruct Hb as [[H5 H6] H7]. destruct (G1 m) as (Ek & Eva). split; [split|].
  - unfold arity_ok in *. rewrite Ek. destruct (G2 m) as [->|[f Kf]]; [exact H5|]. rewrite Kf. reflexivity.
  - unfold cutalways_zero in *. rewrite Ek, Eva. exact H6.
  - unfold always_lt in *. rewrite Ek. destruct (G2 m) as [->|[f Kf]]; [exact H7|]. rewrite Kf. reflexivity.
Qed.

Lemma ValInvB_grow s s' :
  Inv s -> ValInvB s -> Tplain s -> Inv s' ->
  (forall m, nkind (nd s' m) = nkind (nd s m) /\ scope (nd s' m) = scope (nd s m) /\
             valid (nd s' m) = valid (nd s m) /\ value (nd s' m) = value (nd s m) /\
             recomputedAt (nd s' m) = recomputedAt (nd s m) /\ changedAt (nd s' m) = changedAt (nd s m)) ->
  (forall m, decl (nd s' m) = decl (nd s m) \/
             ((exists f, nkind (nd s m) = KMapN f) /\ (inGraph (nd s' m) = true -> inHeap s' m = true))) ->
  (forall m, has s' m <-> has s m) -> binds s' = binds s -> stabNum s' = stabNum s ->
  (next s <= next s')%nat ->
  (forall m, inGraph (nd s m) = true -> inGraph (nd s' m) = true) ->
  (forall m, inHeap s m = true -> inHeap s' m = true) ->
  newQueued s s' ->
  ValInvB s'.
Proof.
  intros IV V TP IV' G1 G2 Hhas Hb Hk Hnx G4 G5 G6.
  assert (HSh' : Shape s').
  { apply (Shape_static s s' (vb_shape _ V)); [| |exact Hhas].
    - intros m. destruct (G1 m) as (?&_&_&?&_). auto.
    - intros m. destruct (G2 m) as [?|[? _]]; auto. }
  pose proof (Inv_Struct s IV) as HS. pose proof (Inv_Struct s' IV') as HS'.
  assert (Hpar : forall m, inGraph (nd s m) = true -> inGraph (nd s' m) = true -> decl (nd s' m) = decl (nd s m) ->
                 forall p, p ∈ parents (nd s' m) <-> p ∈ parents (nd s m)).
  { intros m Hg Hg' Hd p. rewrite (st_par _ HS m p Hg), (st_par _ HS' m p Hg'), Hd. reflexivity. }
  assert (Hnew : forall m, inGraph (nd s m) = false -> inGraph (nd s' m) = true ->
                 staleK (nkind (nd s m)) = true -> inHeap s' m = true).
  { intros m H1 H2 H3.
    assert (Hv : valid (nd s m) = true).
    { destruct (G1 m) as (_&_&<-&_). apply (vo_reg _ (inv_valid _ IV') m H2). }
    apply (G6 m H1 H2); [apply (vb_unreg _ V m H1 Hv)|exact Hv|exact H3]. }
  apply (ValInvB_transfer s s' IV V TP IV' HSh' Hk Hnx).
  - intros m Hg. destruct (G1 m) as (Ek & _ & _ & Eva & _). split; [exact Ek|]. split; [exact Eva|].
    intros Ka. destruct (G2 m) as [?|[[f Kf] _]]; [assumption|congruence].
  - intros m _. destruct (G1 m) as (_ & _ & _ & _ & Er & Ec). auto.
  - intros m Hg' Hv'. destruct (G1 m) as (_ & _ & Ev & _ & -> & ->). apply (vb_unreg _ V m); [|congruence].
    destruct (inGraph (nd s m)) eqn:Eg; [|reflexivity]. rewrite (G4 m Eg) in Hg'. discriminate.
  - intros m _. left. destruct (G1 m) as (_ & _ & _ & _ & Er & Ec). auto.
  - intros m Hg' Hs. destruct (G2 m) as [Hd|[_ Hq]]; [|apply Hq, Hg'].
    destruct (inGraph (nd s m)) eqn:Eg.
    + apply G5. apply (vb_owed _ V m Eg). rewrite <- Hs. symmetry.
      destruct (G1 m) as (Ek & _ & Ev & _ & Er & _).
      apply isStale_fields; try assumption; [apply (Hpar m Eg Hg' Hd)|]. intros p _. apply (G1 p).
    + apply (Hnew m Eg Hg'). unfold isStale in Hs. destruct (G1 m) as (Ek & _). rewrite Ek in Hs.
      destruct (nkind (nd s m)); try reflexivity. rewrite andb_false_r in Hs. discriminate.
  - intros m Hg' Hq. destruct (G2 m) as [Hd|[_ Hq']]; [|rewrite (Hq' Hg') in Hq; discriminate].
    destruct (inGraph (nd s m)) eqn:Eg.
    + right. split; [reflexivity|]. split; [|exact Hd].
      destruct (inHeap s m) eqn:Eq; [|reflexivity]. rewrite (G5 m Eq) in Hq. discriminate.
    + left. destruct (G1 m) as (Ek & _). rewrite Ek.
      destruct (staleK (nkind (nd s m))) eqn:Ks; [rewrite (Hnew m Eg Hg' Ks) in Hq; discriminate|].
      destruct (nkind (nd s m)); try discriminate Ks. reflexivity.
  - intros p _ Hq. apply G5, Hq.
  - intros b r Hr. rewrite Hb. exact Hr.
  - intros m b _ _. destruct (G1 m) as (Ek & Es & _ & Eva & _). repeat split; try assumption.
    intros Hrd. destruct (G2 m) as [?|[[f Kf] _]]; [assumption|]. rewrite Kf in Hrd. discriminate.
Qed.

(** * Unobserve / RemoveInput: operations that only remove nodes / edges *)
Lemma ValInvB_shrink s s' :
  Inv s -> ValInvB s -> Tplain s -> Inv s' ->
  (forall m, nkind (nd s' m) = nkind (nd s m) /\ scope (nd s' m) = scope (nd s m) /\
             valid (nd s' m) = valid (nd s m) /\ value (nd s' m) = value (nd s m)) ->
  (forall m, decl (nd s' m) = decl (nd s m) \/
             ((exists f, nkind (nd s m) = KMapN f) /\ (inGraph (nd s' m) = true -> inHeap s' m = true))) ->
  (forall m, has s' m <-> has s m) -> binds s' = binds s -> stabNum s' = stabNum s -> next s' = next s ->
  (forall m,
    (inGraph (nd s' m) = inGraph (nd s m) /\ recomputedAt (nd s' m) = recomputedAt (nd s m) /\
     changedAt (nd s' m) = changedAt (nd s m)) \/
    (inGraph (nd s' m) = false /\ recomputedAt (nd s' m) = 0 /\ changedAt (nd s' m) = 0)) ->
  (forall m, inGraph (nd s' m) = true -> inHeap s m = true -> inHeap s' m = true) ->
  ValInvB s'.
Proof.
  intros IV V TP IV' Z1 Z2 Hhas Hb Hk Hnx Z4 Z5.
  assert (HSh' : Shape s').
  { apply (Shape_static s s' (vb_shape _ V)); [| |exact Hhas].
    - intros m. destruct (Z1 m) as (?&_&_&?). auto.
    - intros m. destruct (Z2 m) as [?|[? _]]; auto. }
  pose proof (Inv_Struct s IV) as HS. pose proof (Inv_Struct s' IV') as HS'.
  assert (Hreg : forall m, inGraph (nd s' m) = true ->
             inGraph (nd s m) = true /\ recomputedAt (nd s' m) = recomputedAt (nd s m) /\
             changedAt (nd s' m) = changedAt (nd s m)).
  { intros m Hg. destruct (Z4 m) as [(E1 & E2 & E3)|(E1 & _)]; [|congruence]. split; [congruence|auto]. }
  apply (ValInvB_transfer s s' IV V TP IV' HSh' Hk ltac:(lia)).
  - intros m _. destruct (Z1 m) as (Ek & _ & _ & Eva). split; [exact Ek|]. split; [exact Eva|].
    intros Ka. destruct (Z2 m) as [?|[[f Kf] _]]; [assumption|congruence].
  - intros m Hg. apply (Hreg m Hg).
  - intros m Hg Hv. destruct (Z4 m) as [(E1 & -> & ->)|(_ & ? & ?)]; [|auto].
    destruct (Z1 m) as (_&_&Ev&_). apply (vb_unreg _ V m); congruence.
  - intros m _. destruct (Z4 m) as [(_ & ? & ?)|(_ & ? & ?)]; auto.
  - intros m Hg Hs. destruct (Z2 m) as [Hd|[_ Hq]]; [|apply Hq, Hg].
    destruct (Hreg m Hg) as (Hg0 & Er & _). apply (Z5 m Hg). apply (vb_owed _ V m Hg0).
    rewrite <- Hs. symmetry. destruct (Z1 m) as (Ek & _ & Ev & _).
    assert (Hpar : forall p, p ∈ parents (nd s' m) <-> p ∈ parents (nd s m)).
    { intros p. rewrite (st_par _ HS m p Hg0), (st_par _ HS' m p Hg), Hd. reflexivity. }
    apply isStale_fields; try assumption. intros p Hp. apply (Hreg p).
    apply (edge_reg s' HS' p m), (parent_edge s' HS'), Hpar, Hp.
  - intros m Hg Hq. destruct (Z2 m) as [Hd|[_ Hq']]; [|rewrite (Hq' Hg) in Hq; discriminate].
    right. destruct (Hreg m Hg) as (Hg0 & _). split; [exact Hg0|]. split; [|exact Hd].
    destruct (inHeap s m) eqn:Eq; [|reflexivity]. rewrite (Z5 m Hg Eq) in Hq. discriminate.
  - intros p Hg Hq. apply (Z5 p Hg Hq).
  - intros b r Hr. rewrite Hb. exact Hr.
  - intros m b _ _. destruct (Z1 m) as (Ek & Es & _ & Eva). repeat split; try assumption.
    intros Hrd. destruct (Z2 m) as [?|[[f Kf] _]]; [assumption|]. rewrite Kf in Hrd. discriminate.
Qed.

Lemma Inv_vclosed s : Inv s -> vclosed s.
Proof.
  intros I. destruct (inv_valid _ I) as [V1 V2 V3 _].
  exact (valid_closed s (inv_binds _ I) (inv_kinds _ I) (inv_scoping _ I) V1 V2 V3).
Qed.

Lemma ValInvB_observe s n s' :
  Inv s -> ValInvB s -> Tplain s -> Inv s' -> valid (nd s n) = true -> observe s n = Ok (s', None) -> ValInvB s'.
Proof.
  intros IV V TP IV' Hvn H.
  assert (Hiq : invq s = []) by apply (EngineInv.q_invq s (inv_quiet s IV)).
  unfold observe in H.
  set (s1 := s <| next := S (next s) |> <| obs := <[next s := n]> (obs s) |> <| numNodes := numNodes s + 1 |>) in *.
  set (s2 := upd s1 n (set observers (fun l => l ++ [next s]))) in *.
  assert (G2 : gfr s1 s2) by (apply gfr_upd; intros x; repeat split).
  assert (I2 : forall m, inGraph (nd s2 m) = inGraph (nd s m)).
  { intros m. unfold s2. rewrite (nd_upd_proj inGraph) by reflexivity. reflexivity. }
  assert (Hvc2 : vclosed s2).
  { apply (vclosed_static s s2); [|apply Inv_vclosed, IV]. intros m. unfold s2.
    rewrite (nd_upd_proj decl), (nd_upd_proj valid) by reflexivity. auto. }
  assert (Hfin : exists s3, gfr s2 s3 /\ newQueued s2 s3 /\ s' = s3).
  { destruct (isNecessary (nd s1 n)).
    - apply ok_inv in H as [-> _]. exists s2. split; [apply gfr_refl|]. split; [apply newQueued_refl|reflexivity].
    - apply ebind_inv in H as (s3 & e3 & E3 & [[-> H]|(Hne & _ & He)]); [|congruence].
      destruct (BN_spec _ _ _ _ _ E3) as [G3 Q3]. apply lift_inv in H as [H _].
      exists s3. split; [exact G3|]. split; [apply Q3; reflexivity|].
      destruct (BN2 _ _ _ _ _ E3 Hvc2) as (Iq3 & _).
      + unfold s2. rewrite (nd_upd_proj valid) by reflexivity. exact Hvn.
      + exact Hiq.
      + apply (propagateInvalidity_nil _ _ _ Iq3 H). }
  destruct Hfin as (s3 & G3 & Q3 & ->).
  pose proof (gfr_trans _ _ _ G2 G3) as G.
  apply (ValInvB_grow s s3 IV V TP IV').
  - intros m. destruct (g_static _ _ G m) as (E1 & E2 & E3 & E4 & E5 & E6 & E7). repeat split; assumption.
  - intros m. left. apply (g_static _ _ G m).
  - intros m. apply (g_has _ _ G m).
  - apply (g_fields _ _ G).
  - apply (g_fields _ _ G).
  - destruct (g_fields _ _ G) as (_ & -> & _). simpl. lia.
  - intros m Hm. apply (g_reg _ _ G m). exact Hm.
  - intros m Hm. apply (g_heap _ _ G m). exact Hm.
  - intros m H1 H2 Hr Hv Hk. apply (Q3 m); try assumption.
    + rewrite I2. exact H1.
    + destruct (g_static _ _ G2 m) as (_ & _ & _ & _ & _ & -> & _). exact Hr.
    + destruct (g_static _ _ G2 m) as (_ & _ & _ & -> & _). exact Hv.
    + destruct (g_static _ _ G2 m) as (-> & _). exact Hk.
Qed.

Lemma ValInvB_addInput s n a s' :
  Inv s -> ValInvB s -> Tplain s -> Inv s' -> isMapN s n = true -> valid (nd s a) = true ->
  addInput s n a = Ok (s', None) -> ValInvB s'.
Proof.
  intros IV V TP IV' Hmn Hva H. destruct (isMapN_true _ _ Hmn) as [Hn [f Kf]].
  pose proof (Inv_Struct s IV) as HS.
  assert (Hiq : invq s = []) by apply (EngineInv.q_invq s (inv_quiet s IV)).
  unfold addInput in H. set (s1 := upd s n (set decl (fun l => l ++ [a]))) in *.
  assert (Hnd1 : forall m, nd s1 m = if decide (m = n) then nd s n <| decl := decl (nd s n) ++ [a] |> else nd s m).
  { intros m. unfold s1. rewrite nd_upd by exact Hn. destruct (decide (m = n)) as [->|]; reflexivity. }
  assert (Hf1 : forall (A : Type) (g : node -> A) m, (forall x d, g (x <| decl := d |>) = g x) -> g (nd s1 m) = g (nd s m)).
  { intros A g m Hg. rewrite Hnd1. destruct (decide (m = n)) as [->|]; [apply Hg|reflexivity]. }
  assert (Hd1 : forall m, m <> n -> decl (nd s1 m) = decl (nd s m)).
  { intros m Hm. rewrite Hnd1, decide_False by exact Hm. reflexivity. }
  assert (Hhas1 : forall m, has s1 m <-> has s m) by (intros m; apply has_upd).
  assert (Hvc1 : vclosed s1).
  { intros m q Hv Hq. rewrite (Hf1 _ valid) in * by reflexivity. destruct (decide (m = n)) as [->|Hm].
    - rewrite Hnd1, decide_True in Hq by reflexivity. cbn in Hq. apply elem_of_app in Hq as [Hq|Hq].
      + apply (Inv_vclosed s IV n q Hv Hq).
      + apply elem_of_list_singleton in Hq as ->. exact Hva.
    - rewrite (Hd1 m Hm) in Hq. apply (Inv_vclosed s IV m q Hv Hq). }
  assert (Hrest : gfr s1 s' /\ newQueued s1 s' /\ (inGraph (nd s' n) = true -> inHeap s' n = true)).
  { destruct (Z.eqb_spec (height (nd s1 n)) unset) as [Eu|Eu].
    - apply ok_inv in H as [-> _]. split; [apply gfr_refl|]. split; [apply newQueued_refl|].
      intros Hg. exfalso. rewrite (Hf1 _ inGraph) in Hg by reflexivity. rewrite (Hf1 _ height) in Eu by reflexivity.
      pose proof (st_hnonneg _ HS n Hg). unfold unset in Eu. lia.
    - apply ebind_inv in H as (s2 & e2 & E2 & [[-> H]|(Hne & _ & He)]); [|congruence].
      destruct (addChild2 (opFuel s1) s1 n a s2 Hvc1) as (G2 & Q2 & _); [| |exact E2|].
      + rewrite (Hf1 _ valid) by reflexivity. exact Hva.
      + exact Hiq.
      + apply lift_inv in H as [H _]. destruct (setStale_spec _ _ _ H) as (G3 & Hq & Hh).
        pose proof (gfr_trans _ _ _ G2 (proj1 G3)) as G.
        split; [exact G|]. split; [eapply newQueued_gfrI_r; eauto|].
        intros Hg. apply Hq. rewrite <- Hh.
        pose proof (st_hnonneg _ (Inv_Struct s' IV') n Hg). unfold unset. lia. }
  destruct Hrest as (G & Q & Hqn).
  apply (ValInvB_grow s s' IV V TP IV').
  - intros m. destruct (g_static _ _ G m) as (E1 & E2 & E3 & E4 & E5 & E6 & E7).
    rewrite E1, E3, E4, E5, E6, E7. repeat split; apply Hf1; reflexivity.
  - intros m. destruct (decide (m = n)) as [->|Hm].
    + right. split; [eauto|exact Hqn].
    + left. destruct (g_static _ _ G m) as (_ & -> & _). apply Hd1, Hm.
  - intros m. rewrite (g_has _ _ G m). apply Hhas1.
  - apply (g_fields _ _ G).
  - apply (g_fields _ _ G).
  - destruct (g_fields _ _ G) as (_ & -> & _). simpl. lia.
  - intros m Hm. apply (g_reg _ _ G m). rewrite (Hf1 _ inGraph) by reflexivity. exact Hm.
  - intros m Hm. apply (g_heap _ _ G m). exact Hm.
  - intros m H1 H2 Hr Hv Hk. apply (Q m); try assumption.
    + rewrite (Hf1 _ inGraph) by reflexivity. exact H1.
    + rewrite (Hf1 _ recomputedAt) by reflexivity. exact Hr.
    + rewrite (Hf1 _ valid) by reflexivity. exact Hv.
    + rewrite (Hf1 _ nkind) by reflexivity. exact Hk.
Qed.

Lemma ValInvB_unobserve s o s' :
  Inv s -> ValInvB s -> Tplain s -> Inv s' -> unobserve s o = Ok s' -> ValInvB s'.
Proof.
  intros IV V TP IV' H. unfold unobserve in H. destruct (obs s !! o) as [n|]; [|injection H as <-; exact V].
  set (s1 := s <| obs := delete o (obs s) |> <| numNodes := numNodes s - 1 |> <| handlers := rm o (handlers s) |>) in *.
  set (s2 := upd s1 n (set observers (rm o))) in *.
  assert (F2 : sfr s1 s2) by (apply sfr_upd; intros x; repeat split).
  pose proof (sfr_trans _ _ _ F2 (sfr_checkIfUnnecessary _ _ _ _ H)) as F.
  apply (ValInvB_shrink s s' IV V TP IV').
  - intros m. destruct (z_static _ _ F m) as (E1 & E2 & E3 & E4 & E5). auto.
  - intros m. left. apply (z_static _ _ F m).
  - intros m. apply (z_has _ _ F m).
  - apply (z_fields _ _ F).
  - apply (z_fields _ _ F).
  - apply (z_fields _ _ F).
  - intros m. apply (z_st _ _ F m).
  - intros m. apply (z_heap _ _ F m).
Qed.

Lemma ValInvB_removeInput s n a s' :
  Inv s -> ValInvB s -> Tplain s -> Inv s' -> isMapN s n = true ->
  removeInput s n a = Ok s' -> ValInvB s'.
Proof.
  intros IV V TP IV' Hmn H. destruct (isMapN_true _ _ Hmn) as [Hn [f Kf]].
  pose proof (Inv_Struct s IV) as HS.
  unfold removeInput in H. destruct (negb _); [injection H as <-; exact V|].
  set (s1 := upd s n (set decl (rm a))) in *.
  set (s2 := upd s1 n (set parents (rm a))) in *.
  set (s3 := upd s2 a (set children (rm n))) in *.
  destruct (setStale s3 n) as [s4| |] eqn:E4; simpl in H; try discriminate.
  destruct (setStale_spec _ _ _ E4) as ([G4 I4] & Hq4 & Hh4).
  pose proof (sfr_checkIfUnnecessary _ _ _ _ H) as F5.
  assert (Hf3 : forall (A : Type) (g : node -> A) m,
            (forall x d, g (x <| decl := d |>) = g x) -> (forall x d, g (x <| parents := d |>) = g x) ->
            (forall x d, g (x <| children := d |>) = g x) -> g (nd s3 m) = g (nd s m)).
  { intros A g m H1 H2 H3. unfold s3, s2, s1.
    rewrite (nd_upd_proj g) by (intros; apply H3). rewrite (nd_upd_proj g) by (intros; apply H2).
    rewrite (nd_upd_proj g) by (intros; apply H1). reflexivity. }
  assert (Hd3 : forall m, m <> n -> decl (nd s3 m) = decl (nd s m)).
  { intros m Hm. unfold s3, s2. rewrite (nd_upd_proj decl), (nd_upd_proj decl) by reflexivity.
    unfold s1. rewrite nd_upd_ne by exact Hm. reflexivity. }
  assert (Hhas3 : forall m, has s3 m <-> has s m).
  { intros m. unfold s3, s2, s1. rewrite !has_upd. reflexivity. }
  apply (ValInvB_shrink s s' IV V TP IV').
  - intros m. destruct (z_static _ _ F5 m) as (E1 & E2 & E3 & E4' & E5).
    destruct (g_static _ _ G4 m) as (K1 & K2 & K3 & K4 & K5 & K6 & K7).
    rewrite E1, E3, E4', E5, K1, K3, K4, K5. repeat split; apply Hf3; reflexivity.
  - intros m. destruct (decide (m = n)) as [->|Hm].
    + right. split; [eauto|]. intros Hg. apply (z_heap _ _ F5 n Hg). apply Hq4.
      assert (Hg3 : inGraph (nd s n) = true).
      { rewrite <- (Hf3 _ inGraph n) by reflexivity. rewrite <- I4. eapply sfr_reg; eauto. }
      rewrite (Hf3 _ height) by reflexivity. pose proof (st_hnonneg _ HS n Hg3). unfold unset. lia.
    + left. destruct (z_static _ _ F5 m) as (_ & -> & _). destruct (g_static _ _ G4 m) as (_ & -> & _).
      apply Hd3, Hm.
  - intros m. rewrite (z_has _ _ F5 m), (g_has _ _ G4 m). apply Hhas3.
  - destruct (z_fields _ _ F5) as (-> & _), (g_fields _ _ G4) as (-> & _). reflexivity.
  - destruct (z_fields _ _ F5) as (_ & _ & ->), (g_fields _ _ G4) as (_ & _ & ->). reflexivity.
  - destruct (z_fields _ _ F5) as (_ & -> & _), (g_fields _ _ G4) as (_ & -> & _). reflexivity.
  - intros m. destruct (g_static _ _ G4 m) as (_ & _ & _ & _ & _ & K6 & K7).
    destruct (z_st _ _ F5 m) as [(E1 & E2 & E3)|Z]; [left|right; exact Z].
    rewrite E1, E2, E3, I4, K6, K7. repeat split; apply Hf3; reflexivity.
  - intros m Hg Hq. apply (z_heap _ _ F5 m Hg). apply (g_heap _ _ G4 m). exact Hq.
Qed.

(** * Histories *)

(** the alphabet: everything of the common alphabet, top-level binds with plain templates, passes
    without a plan *)
Definition histB_op (o : op) : bool :=
  match o with
  | NewVar _ _ | NewReturn _ | NewMap _ _ | NewMap2 _ _ _ | NewMapN _ _ | NewCutoff _ _ | NewAlways _
  | Observe _ | Unobserve _ | SetVar _ _ | UpdateVar _ _ | AddInput _ _ | RemoveInput _ _ => true
  | NewBind cases _ => forallb (tplain true) cases
  | Stabilize p => bool_decide (p = [])
  | StabilizeCancelled => true
  | _ => false
  end.

Lemma isTop_valid s n : Inv s -> isTop s n = true -> valid (nd s n) = true.
Proof.
  intros I H. unfold isTop in H. destruct (nodes s !! n) as [y|] eqn:E; [|discriminate].
  apply bool_decide_eq_true in H. apply (vo_top _ (inv_valid _ I)). rewrite (nd_lookup _ _ _ E). exact H.
Qed.

Lemma isUserNode_lt_next s a : Inv s -> isUserNode s a = true -> (a <? next s)%nat = true.
Proof. intros I H. apply Nat.ltb_lt. apply (io_lt _ (inv_ids _ I)). apply (isUserNode_true _ _ H). Qed.

Theorem stepB_inv s o s' :
  Inv s -> ValInvB s -> Tplain s -> histB_op o = true -> op_ok s o = true -> op_clean s o = true ->
  step s o = Ok (s', None) -> Inv s' /\ ValInvB s' /\ Tplain s'.
Proof.
  intros IV V TP Ho Hok Hcl H.
  assert (IV' : Inv s') by (apply (Inv_step s o s' None IV Hok Hcl H); discriminate).
  split; [exact IV'|].
  assert (Hbk : keeps_binds o = true -> binds s' = binds s) by (intros Hkb; apply (step_binds s o s' None Hkb H)).
  destruct o; try discriminate Ho; cbn [step op_ok op_clean] in H, Hok, Hcl.
  - apply ok_inv in H as [-> _]. split; [apply ValInvB_newNode; try assumption; reflexivity|apply Tplain_newNode, TP].
  - apply ok_inv in H as [-> _]. split; [apply ValInvB_newNode; try assumption; reflexivity|apply Tplain_newNode, TP].
  - apply ok_inv in H as [-> _]. split; [apply ValInvB_newNode; try assumption; reflexivity|apply Tplain_newNode, TP].
  - apply ok_inv in H as [-> _]. split; [apply ValInvB_newNode; try assumption; reflexivity|apply Tplain_newNode, TP].
  - apply ok_inv in H as [-> _]. split; [apply ValInvB_newNode; try assumption; reflexivity|apply Tplain_newNode, TP].
  - apply ok_inv in H as [-> _]. split; [|apply Tplain_newNode, TP]. apply ValInvB_newNode; try assumption.
    unfold shape_node, arity_ok, cutalways_zero, always_lt. simpl. destruct c; reflexivity.
  - apply ok_inv in H as [-> _]. split; [|apply Tplain_newNode, TP]. apply ValInvB_newNode; try assumption.
    unfold shape_node, arity_ok, cutalways_zero, always_lt. simpl. apply (isUserNode_lt_next s a IV Hok).
  - apply ok_inv in H as [-> _]. apply ValInvB_newBind; assumption.
  - split; [|apply (Tplain_binds s s'); [|exact TP]].
    + apply (ValInvB_observe s n s' IV V TP IV' (isTop_valid s n IV Hcl) H).
    + apply Hbk. reflexivity.
  - apply lift_inv in H as [H _]. split; [apply (ValInvB_unobserve s o s' IV V TP IV' H)|].
    apply (Tplain_binds s s'); [|exact TP]. apply Hbk. reflexivity.
  - apply lift_inv in H as [H _]. split; [apply (ValInvB_varSet s v x s' IV V Hok H)|].
    apply (Tplain_binds s s'); [|exact TP]. apply Hbk. reflexivity.
  - apply lift_inv in H as [H _]. split; [apply (ValInvB_varUpdate s v d s' IV V Hok H)|].
    apply (Tplain_binds s s'); [|exact TP]. apply Hbk. reflexivity.
  - apply andb_true_iff in Hok as [Hok _]. apply andb_true_iff in Hcl as [Hcl _]. apply andb_true_iff in Hcl as [_ Hcl].
    split; [apply (ValInvB_addInput s n a s' IV V TP IV' Hok (isTop_valid s a IV Hcl) H)|].
    apply (Tplain_binds s s'); [|exact TP]. apply Hbk. reflexivity.
  - apply andb_true_iff in Hok as [Hok _]. apply lift_inv in H as [H _].
    split; [apply (ValInvB_removeInput s n a s' IV V TP IV' Hok H)|].
    apply (Tplain_binds s s'); [|exact TP]. apply Hbk. reflexivity.
  - apply bool_decide_eq_true in Ho. subst p. destruct (passS_ValInvB s s' IV V TP H) as (A & B & _). auto.
  - apply stabilize_cancelled_ok in H. destruct (passS_ValInvB s s' IV V TP H) as (A & B & _). auto.
Qed.

From incr Require Import SpecProofs.

(** no parity cutoff in a template ([SpecProofs.templates_ok]) is kept along such histories *)
Definition parity_op (o : op) : bool :=
  match o with NewBind cases _ => forallb parity_free cases | _ => true end.

Lemma templates_ok_iff s : templates_ok s = true <-> forall b r, binds s !! b = Some r -> forallb parity_free (b_cases r) = true.
Proof.
  unfold templates_ok. split.
  - intros H b r Hr. apply elem_of_map_to_list in Hr. exact (PassProofs.forallb_elem _ _ _ H Hr).
  - intros H. apply PassProofs.forallb_intro. intros [b r] Hr. apply elem_of_map_to_list in Hr. exact (H b r Hr).
Qed.

Lemma subclosed_parity : subclosed parity_free.
Proof.
  split; [|split; [|split]].
  - intros f e H. exact H.
  - intros f e1 e2 H. simpl in H. apply andb_true_iff in H. exact H.
  - intros c e H. simpl in H. destruct c; try exact H. discriminate.
  - intros cs e H. simpl in H. apply andb_true_iff in H. exact H.
Qed.

Lemma templates_ok_CF s s' : CF s s' -> templates_ok s = true -> templates_ok s' = true.
Proof. rewrite !templates_ok_iff. intros C H. apply (C parity_free subclosed_parity H). Qed.

Theorem stepB_templates s o s' :
  Inv s -> ValInvB s -> Tplain s -> histB_op o = true -> parity_op o = true ->
  step s o = Ok (s', None) -> templates_ok s = true -> templates_ok s' = true.
Proof.
  intros IV V TP Ho Hpo H Ht.
  assert (Hbk : keeps_binds o = true -> templates_ok s' = true).
  { intros Hkb. apply (templates_ok_CF s s'); [|exact Ht]. apply CF_binds. apply (step_binds s o s' None Hkb H). }
  destruct o; try discriminate Ho; try (apply Hbk; reflexivity); cbn [step] in H.
  - apply ok_inv in H as [-> _]. destruct (newBind_state s cases a) as (_ & Hb & _).
    apply templates_ok_iff. intros b r Hr. rewrite Hb in Hr. destruct (decide (b = next s)) as [->|Hne].
    + rewrite lookup_insert in Hr. injection Hr as <-. exact Hpo.
    + rewrite lookup_insert_ne in Hr by congruence. apply (proj1 (templates_ok_iff s) Ht b r Hr).
  - apply bool_decide_eq_true in Ho. subst p. destruct (passS_ValInvB s s' IV V TP H) as (_ & _ & C).
    apply (templates_ok_CF s s' C Ht).
  - apply stabilize_cancelled_ok in H. destruct (passS_ValInvB s s' IV V TP H) as (_ & _ & C).
    apply (templates_ok_CF s s' C Ht).
Qed.

(** a history of the fragment: every operation in the alphabet, well-formed, clean, with plain and
    parity-free templates, returning [Ok (_, None)] *)
Fixpoint histB_run (s : state) (os : list op) : option state :=
  match os with
  | [] => Some s
  | o :: os =>
    if histB_op o && parity_op o && op_ok s o && op_clean s o then
      match step s o with
      | Ok (s', None) => histB_run s' os
      | _ => None
      end
    else None
  end.

Lemma ValInvB_init mh : ValInvB (init mh).
Proof.
  assert (Hnd : forall n, nd (init mh) n = dummy) by (intros n; reflexivity).
  constructor.
  - intros n y E. inversion E.
  - intros n. rewrite stamps_node_true_intro; [reflexivity| |]; rewrite Hnd; simpl; lia.
  - intros n _ _. rewrite Hnd. auto.
  - intros n Hg. rewrite Hnd in Hg. discriminate.
  - intros n Hg. rewrite Hnd in Hg. discriminate.
  - intros b Hg. rewrite Hnd in Hg. discriminate.
Qed.

Lemma histB_inv os : forall s0 s,
  Inv s0 -> ValInvB s0 -> Tplain s0 -> templates_ok s0 = true -> histB_run s0 os = Some s ->
  Inv s /\ ValInvB s /\ Tplain s /\ templates_ok s = true.
Proof.
  induction os as [|o os IH]; intros s0 s IV V TP Ht H; simpl in H; [injection H as <-; auto|].
  destruct (histB_op o && parity_op o && op_ok s0 o && op_clean s0 o) eqn:Eo; [|discriminate].
  rewrite !andb_true_iff in Eo. destruct Eo as [[[Ho Hpo] Hok] Hcl].
  destruct (step s0 o) as [[s1 [e|]]| |] eqn:Es; try discriminate.
  destruct (stepB_inv s0 o s1 IV V TP Ho Hok Hcl Es) as (I1 & V1 & T1).
  apply (IH s1 s I1 V1 T1 (stepB_templates s0 o s1 IV V TP Ho Hpo Es Ht) H).
Qed.

Lemma histB_split os1 : forall s0 o os2 sf,
  histB_run s0 (os1 ++ o :: os2) = Some sf ->
  exists s1 s2, histB_run s0 os1 = Some s1 /\ histB_op o = true /\ step s1 o = Ok (s2, None) /\
                histB_run s2 os2 = Some sf.
Proof.
  induction os1 as [|a os1 IH]; intros s0 o os2 sf H; simpl in H.
  - destruct (histB_op o && parity_op o && op_ok s0 o && op_clean s0 o) eqn:Eo; [|discriminate].
    rewrite !andb_true_iff in Eo. destruct Eo as [[[Ho _] _] _].
    destruct (step s0 o) as [[s2 [e|]]| |] eqn:Es; try discriminate. exists s0, s2. auto.
  - destruct (histB_op a && parity_op a && op_ok s0 a && op_clean s0 a) eqn:Ea; [|discriminate].
    destruct (step s0 a) as [[s1 [e|]]| |] eqn:Es; try discriminate.
    destruct (IH s1 o os2 sf H) as (t1 & t2 & H1 & H2 & H3 & H4). exists t1, t2. split; [|auto].
    simpl. rewrite Ea, Es. exact H1.
Qed.

(** C01 along whole histories with binds (plain templates): after EVERY pass of the history every
    registered node is locally consistent and every observer reads the from-scratch value *)
Theorem C01_history_plain mh os1 o os2 sf :
  (0 < mh)%nat -> histB_run (init mh) (os1 ++ o :: os2) = Some sf -> is_pass o = true ->
  exists s1 s2, histB_run (init mh) os1 = Some s1 /\ step s1 o = Ok (s2, None) /\
    consistent s2 = true /\ observers_agree s2 = true /\ Inv s2 /\ ValInvB s2 /\ wfb s2 = true.
Proof.
  intros Hmh H Hp. destruct (histB_split os1 (init mh) o os2 sf H) as (s1 & s2 & H1 & Ho & Hs & _).
  exists s1, s2. split; [exact H1|]. split; [exact Hs|].
  assert (Ht0 : templates_ok (init mh) = true) by reflexivity.
  assert (TP0 : Tplain (init mh)) by (intros b r Hr; inversion Hr).
  destruct (histB_inv os1 (init mh) s1 (Inv_init mh Hmh) (ValInvB_init mh) TP0 Ht0 H1) as (I1 & V1 & T1 & Ht1).
  assert (Hpass : stabilize [] false s1 = Ok (s2, None)).
  { destruct o; try discriminate Hp; try discriminate Ho; cbn [step] in Hs.
    - apply bool_decide_eq_true in Ho. subst p. exact Hs.
    - apply stabilize_cancelled_ok, Hs. }
  destruct (passS_ValInvB s1 s2 I1 V1 T1 Hpass) as (V2 & _ & C).
  destruct (passS_observers_agree s1 s2 I1 V1 T1 Hpass (templates_ok_CF s1 s2 C Ht1)) as (Hc & Ho' & I2 & Hwf).
  auto 10.
Qed.

(** * An example history: a bind over var 0 that swaps twice *)
Definition exH_ops : list op :=
  [ NewVar 2 false;                                            (* 0 *)
    NewVar 3 false;                                            (* 1 *)
    NewBind [TMap (Aff 1 1) (TOuter 1%nat); TRet 5] 0%nat;     (* bind 2: lhs-change 2, main 3 *)
    NewMap (Aff 2 0) 3%nat;                                    (* 4 *)
    Observe 4%nat;                                             (* observer 5 *)
    Stabilize [];                                              (* first generation: node 6 = Map over var 1 *)
    SetVar 1%nat 4;
    Stabilize [];                                              (* no swap: 6, 3, 4 run *)
    SetVar 0%nat 3;
    Stabilize [];                                              (* swap to the second case: node 7 = Return 5 *)
    SetVar 0%nat 4;
    Stabilize [];                                              (* swap back: node 8 = Map over var 1 *)
    StabilizeCancelled;                                        (* nothing queued: an ordinary empty pass *)
    Unobserve 5%nat;
    Stabilize [] ].

Lemma exH_runs : exists s, histB_run (init 64) exH_ops = Some s.
Proof.
  assert (H : match histB_run (init 64) exH_ops with Some _ => true | None => false end = true)
    by (vm_compute; reflexivity).
  destruct (histB_run (init 64) exH_ops) as [s|]; [eauto|discriminate H].
Qed.

(** * An example with a NESTED bind: the outer bind (over var 0) builds, for input [x], an inner bind
    over [Return x] whose cases map var 1 or return 7 *)
Definition exN_ops : list op :=
  [ NewVar 2 false;                                                              (* 0 *)
    NewVar 3 false;                                                              (* 1 *)
    NewBind [TBind [TMap (Aff 1 1) (TOuter 1%nat); TRet 7] TX; TRet 5] 0%nat;    (* bind 2: lhs-change 2, main 3 *)
    NewMap (Aff 2 0) 3%nat;                                                      (* 4 *)
    Observe 4%nat;
    Stabilize [];                  (* outer function runs (x = 2): inner bind created and run in the same pass *)
    SetVar 1%nat 4;
    Stabilize [];                  (* only the innermost right-hand side changes *)
    SetVar 0%nat 3;
    Stabilize [];                  (* outer swap to [Return 5]: the nested generation is discarded *)
    SetVar 0%nat 4;
    Stabilize [];                  (* outer swap back: a new inner bind *)
    Stabilize [] ].

Lemma exN_runs : exists s, histB_run (init 64) exN_ops = Some s.
Proof.
  assert (H : match histB_run (init 64) exN_ops with Some _ => true | None => false end = true)
    by (vm_compute; reflexivity).
  destruct (histB_run (init 64) exN_ops) as [s|]; [eauto|discriminate H].
Qed.
