(** Everything together: histories from [init] over the whole alphabet covered for graphs with
    binds -- every operation of the bind fragment, both stabilizers, plan-free or with a plan: ANY
    well-formed plan (var writes and any number of faults) under the serial stabilizer, var writes
    and at most ONE fault (the function or the cutoff function of a node, error or panic) under
    the parallel one -- keep [Inv], [ValInvB], [Tplain], [templates_ok] at every boundary, and every
    plan-free pass of either stabilizer ends consistent with the observers reading the
    from-scratch values. *)
From incr Require Import Base Heap HeapSpec HeapProofs EngineDefs Engine EngineRun EngineWf Spec EngineLemmas EngineLocal
     EngineInv EngineInvProofs PassInv PassProofs PassPlanProofs PassBind PassBindProofs PassBindSwap PassBindSwapProofs
     PassBindSwapStep PassBindOps PassBindFault PassBindWrites PassBindTotal PassBindMixed PassBindFaultGen
     ParBind ParBindStep ParBindHistory ParBindWrites ParBindFault PassBindMultiFault.
From incr Require Import SpecProofs.

(** * writes and one fault in one plan, under ParStabilize *)
Theorem parM_any s p x w k s' e :
  Inv s -> ValInvB s -> Tplain s -> plan_ok s p = true -> par_plan_clean s p = true -> fo p = fplan x w k ->
  parStabilize p s = Ok (s', e) -> rejected e = false ->
  (e = None \/ e = Some (faultErr x k)) /\ Inv s' /\ ValInvB s' /\ Tplain s' /\ CF s s' /\
  (e = Some (faultErr x k) -> inHeap s' x = true).
Proof.
  intros IV V TP Hpok Hcl Hfo H Hrej.
  pose proof (par_plan_clean_fo s p Hcl) as Hclf. rewrite Hfo in Hclf.
  assert (HFS : faultStep x w k) by (destruct k; [apply faultStep_err|apply faultStep_panic]).
  assert (Hfe : rejected (Some (faultErr x k)) = false) by (destruct k; reflexivity).
  destruct (par_mixed_bb s p s' e IV V TP Hpok Hcl H Hrej) as (t' & H0 & K).
  { intros tL al ET. rewrite Hfo in ET.
    pose proof (LInvP_start s IV V) as L1. pose proof (Inv_PInv_start s IV) as P1.
    assert (Hnd0 : forall y, isDone (EngineLocal.passStart s) y = false).
    { intros y. unfold isDone. apply Z.eqb_neq. pose proof (stamps_node_true _ _ (vb_stamps _ V y)).
      change (recomputedAt (nd s y) <> stabNum s). lia. }
    assert (HA1 : AW (EngineLocal.passStart s) []) by (intros y _ Hd _; rewrite Hnd0 in Hd; discriminate).
    assert (Hx1 : okx x w (EngineLocal.passStart s)).
    { intros Hw. subst w. unfold fplan, par_plan_clean in Hclf. cbn in Hclf. rewrite andb_true_r in Hclf.
      change (nodes (EngineLocal.passStart s) !! x) with (nodes s !! x). unfold has.
      change (nd (EngineLocal.passStart s) x) with (nd s x). unfold nd.
      destruct (nodes s !! x) as [y|] eqn:Ex; [|discriminate]. split; [eauto|]. cbn.
      destruct (nkind y); try reflexivity. discriminate. }
    assert (Hn1 : ndx x w (EngineLocal.passStart s)) by (intros _ _; apply Hnd0).
    destruct (loopPF x w k HFS Hfe _ (EngineLocal.passStart s) [] tL e al
                (Tplain_binds s (EngineLocal.passStart s) eq_refl TP) P1 L1 HA1 Hx1 Hn1 ET) as [Rj|(_ & _ & LL & _)].
    - exfalso. destruct Rj as [-> | ->]; discriminate Hrej.
    - exact (lp_quiet _ _ LL). }
  rewrite Hfo in H0.
  destruct (parF_any x w k s t' e IV V TP Hclf H0 Hrej) as (He & _ & Vt & Tt & Ct & _ & Hq).
  destruct (K Vt Tt Ct) as (A & B & C & D & E & _).
  split; [exact He|]. split; [exact A|]. split; [exact B|]. split; [exact C|]. split; [exact D|].
  intros Ee. apply E, Hq, Ee.
Qed.

(** * the alphabet *)
(* a serial pass with ANY plan (writes and any number of faults: PassBindMultiFault.v); a parallel pass
   whose plan has writes and at most one fault *)
Definition isPlanPass (o : op) : bool :=
  match o with Stabilize _ => true | ParStabilize p => isOneFaultPlan p | _ => false end.

Fixpoint histE_run (s : state) (os : list op) : option state :=
  match os with
  | [] => Some s
  | o :: os =>
    if histP_op o && parity_op o && op_ok s o && op_clean s o then
      match step s o with
      | Ok (s', None) => histE_run s' os
      | _ => None
      end
    else if isPlanPass o && op_ok s o && op_clean s o then
      match step s o with
      | Ok (s', e) => if rejected e then None else histE_run s' os
      | _ => None
      end
    else None
  end.

Lemma stepE_inv s o s' e :
  Inv s -> ValInvB s -> Tplain s -> templates_ok s = true -> isPlanPass o = true -> op_ok s o = true ->
  op_clean s o = true -> step s o = Ok (s', e) -> rejected e = false ->
  Inv s' /\ ValInvB s' /\ Tplain s' /\ templates_ok s' = true.
Proof.
  intros IV V TP Ht Ho Hok Hcl H Hr. destruct o; try discriminate Ho; simpl in Ho, H, Hok, Hcl.
  - exact (stepN_inv s (Stabilize p) s' e IV V TP Ht eq_refl Hok H Hr).
  - unfold isOneFaultPlan in Ho. destruct (fo p) as [|[[x w] a] l] eqn:Hfo.
    + destruct (parW_pass s p s' e IV V TP (fo_nil_writes_only p Hfo) Hok H Hr) as (_ & t' & _ & _ & A & B & C & D & _).
      split; [exact A|]. split; [exact B|]. split; [exact C|apply (templates_ok_CF s s' D Ht)].
    + destruct a as [k| |]; try discriminate Ho. destruct l; try discriminate Ho.
      destruct (parM_any s p x w k s' e IV V TP Hok Hcl Hfo H Hr) as (_ & A & B & C & D & _).
      split; [exact A|]. split; [exact B|]. split; [exact C|apply (templates_ok_CF s s' D Ht)].
Qed.

Lemma histE_inv os : forall s0 s,
  Inv s0 -> ValInvB s0 -> Tplain s0 -> templates_ok s0 = true -> histE_run s0 os = Some s ->
  Inv s /\ ValInvB s /\ Tplain s /\ templates_ok s = true.
Proof.
  induction os as [|o os IH]; intros s0 s IV V TP Ht H; simpl in H; [injection H as <-; auto|].
  destruct (histP_op o && parity_op o && op_ok s0 o && op_clean s0 o) eqn:Eo.
  - rewrite !andb_true_iff in Eo. destruct Eo as [[[Ho Hpo] Hok] Hcl].
    destruct (step s0 o) as [[s1 [e|]]| |] eqn:Es; try discriminate.
    destruct (stepP_inv s0 o s1 IV V TP Ho Hok Hcl Es) as (I1 & V1 & T1).
    apply (IH s1 s I1 V1 T1 (stepP_templates s0 o s1 IV V TP Ho Hpo Es Ht) H).
  - destruct (isPlanPass o && op_ok s0 o && op_clean s0 o) eqn:Ef; [|discriminate].
    rewrite !andb_true_iff in Ef. destruct Ef as [[Ef Hok] Hcl].
    destruct (step s0 o) as [[s1 e]| |] eqn:Es; try discriminate.
    destruct (rejected e) eqn:Er; [discriminate|].
    destruct (stepE_inv s0 o s1 e IV V TP Ht Ef Hok Hcl Es Er) as (I1 & V1 & T1 & Ht1). apply (IH s1 s I1 V1 T1 Ht1 H).
Qed.

Lemma histE_split os1 : forall s0 o os2 sf,
  histE_run s0 (os1 ++ o :: os2) = Some sf ->
  exists s1, histE_run s0 os1 = Some s1 /\ histE_run s1 (o :: os2) = Some sf.
Proof.
  induction os1 as [|a os1 IH]; intros s0 o os2 sf H; [exists s0; auto|].
  simpl in H |- *.
  destruct (histP_op a && parity_op a && op_ok s0 a && op_clean s0 a).
  - destruct (step s0 a) as [[s1 [e|]]| |]; try discriminate. apply (IH s1 o os2 sf H).
  - destruct (isPlanPass a && op_ok s0 a && op_clean s0 a); [|discriminate].
    destruct (step s0 a) as [[s1 e]| |]; try discriminate. destruct (rejected e); [discriminate|].
    apply (IH s1 o os2 sf H).
Qed.

(* the earlier fragments are included *)
Lemma histP_histE os : forall s0 s, histP_run s0 os = Some s -> histE_run s0 os = Some s.
Proof.
  induction os as [|o os IH]; intros s0 s H; simpl in *; [exact H|].
  destruct (histP_op o && parity_op o && op_ok s0 o && op_clean s0 o); [|discriminate].
  destruct (step s0 o) as [[s1 [e|]]| |]; try discriminate. apply IH, H.
Qed.

Theorem histE_everything mh os1 o os2 sf :
  (0 < mh)%nat -> histE_run (init mh) (os1 ++ o :: os2) = Some sf ->
  o = Stabilize [] \/ o = ParStabilize [] ->
  exists s1 s2, histE_run (init mh) os1 = Some s1 /\ step s1 o = Ok (s2, None) /\
    consistent s2 = true /\ observers_agree s2 = true /\ Inv s2 /\ ValInvB s2 /\ Tplain s2.
Proof.
  intros Hmh H Ho. destruct (histE_split os1 (init mh) _ os2 sf H) as (s1 & H1 & H2).
  assert (TP0 : Tplain (init mh)) by (intros b r Hr; inversion Hr).
  destruct (histE_inv os1 (init mh) s1 (Inv_init mh Hmh) (ValInvB_init mh) TP0 eq_refl H1) as (I1 & V1 & T1 & Ht1).
  destruct Ho as [-> | ->]; simpl in H2.
  - destruct (stabilize [] false s1) as [[s2 [e|]]| |] eqn:Es; try discriminate.
    exists s1, s2. split; [exact H1|]. split; [exact Es|].
    destruct (passS_ValInvB s1 s2 I1 V1 T1 Es) as (V2 & T2 & C2).
    destruct (passS_observers_agree s1 s2 I1 V1 T1 Es (templates_ok_CF s1 s2 C2 Ht1)) as (A & B & C & _).
    auto 10.
  - destruct (parStabilize [] s1) as [[s2 [e|]]| |] eqn:Es; try discriminate.
    exists s1, s2. split; [exact H1|]. split; [exact Es|].
    destruct (parS_consistent s1 s2 I1 V1 T1 Es) as (Hc & I2 & _ & _ & V2 & T2 & C2).
    destruct (parS_agree s1 s2 I1 V1 T1 Es (templates_ok_CF s1 s2 C2 Ht1)) as (_ & B & _ & _).
    auto 10.
Qed.

(** Example: both stabilizers, a writing plan under each, a failing function under the serial one, a
    panicking cutoff function that first writes a var under the parallel one, retries *)
Definition exE_ops : list op :=
  [ NewVar 2 false; NewVar 3 false;
    NewCutoff CEq 0%nat;                                        (* 2 *)
    NewBind [TMap (Aff 1 1) (TOuter 1%nat); TRet 5] 2%nat;      (* lhs-change 3, main 4 *)
    NewMap (Aff 2 0) 4%nat;                                     (* 5 *)
    Observe 5%nat;
    ParStabilize [];
    SetVar 0%nat 3;
    ParStabilize [(5%nat, WFn, AUpdate 1%nat 1)];               (* the bind swaps; node 5 writes var 1 *)
    Stabilize [];
    SetVar 0%nat 4;
    Stabilize [(5%nat, WFn, AFail FErr)];                       (* node 5's function fails *)
    ParStabilize [];                                            (* parallel retry *)
    SetVar 0%nat 5;
    ParStabilize [(2%nat, WCut, ASet 1%nat 9); (2%nat, WCut, AFail FPanic)];   (* the cutoff function writes, then panics *)
    Stabilize [];                                               (* serial retry *)
    StabilizeCancelled;
    SetVar 0%nat 6;
    Stabilize [(5%nat, WFn, AFail FErr); (3%nat, WFn, AFail FPanic); (2%nat, WCut, AFail FErr)];   (* three faults *)
    ParStabilize [] ].

Lemma exE_runs : exists s, histE_run (init 64) exE_ops = Some s.
Proof.
  assert (H : match histE_run (init 64) exE_ops with Some _ => true | None => false end = true)
    by (vm_compute; reflexivity).
  destruct (histE_run (init 64) exE_ops) as [s|]; [eauto|discriminate H].
Qed.

Lemma exE_results :
  match histE_run (init 64) (take 11 exE_ops) with
  | Some s =>
    match stabilize [(5%nat, WFn, AFail FErr)] false s with
    | Ok (s1, Some (EUser 5%nat)) =>
      match histE_run s1 [ParStabilize []; SetVar 0%nat 5] with
      | Some s2 =>
        match parStabilize [(2%nat, WCut, ASet 1%nat 9); (2%nat, WCut, AFail FPanic)] s2 with
        | Ok (s3, Some (EPanic 2%nat)) => inHeap s3 2%nat && (value (nd s3 1%nat) =? 9)
        | _ => false
        end
      | None => false
      end
    | _ => false
    end
  | None => false
  end = true.
Proof. vm_compute. reflexivity. Qed.
