(** Proofs for C15 about the model in Clock.v. *)
From incr Require Import Base Clock.

(** * Pure lemmas about the closed forms *)

(** ** AtIntervals: Go's truncating division is the floor on a non-negative elapsed time *)
Lemma quot_floor a b : 0 <= a -> 0 < b -> Z.quot a b = a / b.
Proof. intros. apply Z.quot_div_nonneg; lia. Qed.

Lemma div_interval a b k : 0 < b -> k * b <= a < (k + 1) * b -> a / b = k.
Proof. intros Hb H. symmetry. apply (Z.div_unique a b k (a - k * b)); lia. Qed.

(** ** StepFunction *)

(* the scan of Stabilize, remembering the step rather than its value *)
Fixpoint scan (ordered : list step_) (now : Z) : option step_ :=
  match ordered with
  | [] => None
  | st :: r => if now <? s_at st then None
               else match scan r now with Some b => Some b | None => Some st end
  end.

Lemma stepValue_scan ordered now : forall v,
  stepValue v ordered now = match scan ordered now with Some st => s_val st | None => v end.
Proof.
  induction ordered as [|st r IH]; intros v; simpl; [reflexivity|].
  destruct (now <? s_at st); [reflexivity|]. rewrite IH. destruct (scan r now); reflexivity.
Qed.

Definition sorted (l : list step_) : Prop :=
  forall i j a b, (i < j)%nat -> l !! i = Some a -> l !! j = Some b -> s_at a <= s_at b.

Lemma sorted_cons_inv y l : sorted (y :: l) -> sorted l /\ forall b, b ∈ l -> s_at y <= s_at b.
Proof.
  intros H. split.
  - intros i j a b Hij Ha Hb. apply (H (S i) (S j) a b); auto; lia.
  - intros b Hb. apply elem_of_list_lookup in Hb as [j Hj]. apply (H O (S j) y b); auto; lia.
Qed.

Lemma sorted_cons y l : sorted l -> (forall b, b ∈ l -> s_at y <= s_at b) -> sorted (y :: l).
Proof.
  intros Hs Hy i j a b Hij Ha Hb. destruct j as [|j]; [lia|]. simpl in Hb.
  destruct i as [|i]; simpl in Ha.
  - injection Ha as <-. apply Hy. eapply elem_of_list_lookup_2; eauto.
  - apply (Hs i j a b); auto; lia.
Qed.

Lemma elem_of_insert x a l : x ∈ insert a l <-> x = a \/ x ∈ l.
Proof.
  induction l as [|y l IH]; simpl.
  - rewrite elem_of_list_singleton. split; [auto|intros [H|H]; [auto|inversion H]].
  - destruct (s_at a <=? s_at y).
    + rewrite elem_of_cons. tauto.
    + rewrite !elem_of_cons, IH. tauto.
Qed.

Lemma sorted_insert a l : sorted l -> sorted (insert a l).
Proof.
  induction l as [|y l IH]; simpl; intros Hs.
  - apply sorted_cons; [exact Hs|]. intros b Hb. inversion Hb.
  - destruct (sorted_cons_inv _ _ Hs) as [Hl Hy].
    destruct (Z.leb_spec (s_at a) (s_at y)) as [Hle|Hgt].
    + apply sorted_cons; [exact Hs|]. intros b Hb. apply elem_of_cons in Hb as [->|Hb]; [exact Hle|].
      specialize (Hy b Hb). lia.
    + apply sorted_cons; [apply IH, Hl|]. intros b Hb. apply elem_of_insert in Hb as [->|Hb]; [lia|auto].
Qed.

Lemma sorted_sort l : sorted (sort_steps l).
Proof.
  induction l as [|a l IH]; simpl.
  - intros i j a b _ H. discriminate.
  - apply sorted_insert, IH.
Qed.

Lemma elem_of_sort x l : x ∈ sort_steps l <-> x ∈ l.
Proof.
  induction l as [|a l IH]; simpl; [reflexivity|].
  rewrite elem_of_insert, elem_of_cons, IH. reflexivity.
Qed.

Lemma scan_elem l now b : scan l now = Some b -> b ∈ l /\ s_at b <= now.
Proof.
  revert b; induction l as [|y l IH]; intros b; simpl; [discriminate|].
  destruct (Z.ltb_spec now (s_at y)); [discriminate|].
  destruct (scan l now) as [c|] eqn:Hc.
  - intros [= <-]. destruct (IH c eq_refl). split; [right|]; auto.
  - intros [= <-]. split; [left|lia].
Qed.

Lemma scan_insert x l now :
  sorted l ->
  scan (insert x l) now =
  if (s_at x <=? now) && match scan l now with None => true | Some b => s_at b <? s_at x end
  then Some x else scan l now.
Proof.
  induction l as [|y l IH]; intros Hs; simpl.
  - destruct (Z.ltb_spec now (s_at x)), (Z.leb_spec (s_at x) now); try lia; reflexivity.
  - destruct (sorted_cons_inv _ _ Hs) as [Hl Hy].
    destruct (Z.leb_spec (s_at x) (s_at y)) as [Hxy|Hxy]; simpl.
    + destruct (Z.ltb_spec now (s_at x)) as [Hnx|Hnx].
      * destruct (Z.leb_spec (s_at x) now); [lia|]. simpl.
        destruct (Z.ltb_spec now (s_at y)); [reflexivity|lia].
      * destruct (Z.leb_spec (s_at x) now); [|lia]. simpl.
        destruct (Z.ltb_spec now (s_at y)) as [Hny|Hny]; [reflexivity|].
        destruct (scan l now) as [b|] eqn:Hb.
        -- destruct (scan_elem _ _ _ Hb) as [Hin _]. specialize (Hy b Hin).
           destruct (Z.ltb_spec (s_at b) (s_at x)); [lia|reflexivity].
        -- destruct (Z.ltb_spec (s_at y) (s_at x)); [lia|reflexivity].
    + rewrite (IH Hl).
      destruct (Z.ltb_spec now (s_at y)) as [Hny|Hny].
      * destruct (Z.leb_spec (s_at x) now); [lia|]. reflexivity.
      * destruct (Z.leb_spec (s_at x) now) as [Hxn|Hxn]; simpl.
        -- destruct (scan l now) as [b|] eqn:Hb.
           ++ destruct (Z.ltb_spec (s_at b) (s_at x)); reflexivity.
           ++ destruct (Z.ltb_spec (s_at y) (s_at x)); [reflexivity|lia].
        -- reflexivity.
Qed.

Lemma scan_sort steps now : scan (sort_steps steps) now = last_step steps now.
Proof.
  induction steps as [|x r IH]; simpl; [reflexivity|].
  rewrite scan_insert by apply sorted_sort. rewrite IH. reflexivity.
Qed.

(** the value Stabilize computes is the closed form *)
Lemma stepValue_closed initial steps now :
  stepValue initial (sort_steps steps) now = step_closed initial steps now.
Proof. rewrite stepValue_scan, scan_sort. reflexivity. Qed.

(** the closed form, declaratively: the chosen step is at or before [now], no step at or
    before [now] is later, and among the steps of the same time it is the last listed *)
Lemma last_step_spec steps now :
  match last_step steps now with
  | Some st => exists i, steps !! i = Some st /\ s_at st <= now /\
               forall j st', steps !! j = Some st' -> s_at st' <= now ->
                 s_at st' < s_at st \/ (s_at st' = s_at st /\ (j <= i)%nat)
  | None => forall st, st ∈ steps -> now < s_at st
  end.
Proof.
  induction steps as [|x r IH]; simpl.
  - intros st H. inversion H.
  - destruct (last_step r now) as [b|] eqn:Hb.
    + destruct IH as (i & Hi & Hle & Hmax).
      destruct (Z.leb_spec (s_at x) now) as [Hx|Hx]; simpl.
      * destruct (Z.ltb_spec (s_at b) (s_at x)) as [Hbx|Hbx].
        -- exists O. split; [reflexivity|]. split; [exact Hx|].
           intros [|j] st' Hj Hst'; simpl in Hj.
           ++ injection Hj as <-. right. split; [reflexivity|lia].
           ++ destruct (Hmax j st' Hj Hst') as [H|[H _]]; left; lia.
        -- exists (S i). split; [exact Hi|]. split; [exact Hle|].
           intros [|j] st' Hj Hst'; simpl in Hj.
           ++ injection Hj as <-. destruct (Z.eq_dec (s_at x) (s_at b)); [right; split; [auto|lia]|left; lia].
           ++ destruct (Hmax j st' Hj Hst') as [H|[H ?]]; [left; exact H|right; split; [exact H|lia]].
      * exists (S i). split; [exact Hi|]. split; [exact Hle|].
        intros [|j] st' Hj Hst'; simpl in Hj.
        ++ injection Hj as <-. lia.
        ++ destruct (Hmax j st' Hj Hst') as [H|[H ?]]; [left; exact H|right; split; [exact H|lia]].
    + destruct (Z.leb_spec (s_at x) now) as [Hx|Hx]; simpl.
      * exists O. split; [reflexivity|]. split; [exact Hx|].
        intros [|j] st' Hj Hst'; simpl in Hj.
        -- injection Hj as <-. right. split; [reflexivity|lia].
        -- specialize (IH st' (elem_of_list_lookup_2 _ _ _ Hj)). lia.
      * intros st Hst. apply elem_of_cons in Hst as [->|Hst]; [exact Hx|auto].
Qed.

Lemma nextBoundary_elem l now e : nextBoundary l now = Some e -> exists st, st ∈ l /\ e = s_at st /\ now < e.
Proof.
  induction l as [|y l IH]; simpl; [discriminate|].
  destruct (Z.ltb_spec now (s_at y)).
  - intros [= <-]. exists y. split; [left|split; [reflexivity|assumption]].
  - intros H'. destruct (IH H') as (st & Hin & He). exists st. split; [right; exact Hin|exact He].
Qed.

(* nothing changes for a step function between [now] and [t] when its next boundary is
   beyond [t] *)
Lemma step_not_due l now t : now <= t ->
  match nextBoundary l now with None => True | Some e => t < e end ->
  forall v, stepValue v l t = stepValue v l now /\ nextBoundary l t = nextBoundary l now.
Proof.
  intros Hnt. induction l as [|y l IH]; simpl; intros Hnb v; [auto|].
  destruct (Z.ltb_spec now (s_at y)) as [Hny|Hny].
  - destruct (Z.ltb_spec t (s_at y)); [auto|lia].
  - destruct (Z.ltb_spec t (s_at y)); [lia|]. apply IH, Hnb.
Qed.

(** * The per-node invariant *)

Definition zeroed (x : tnode) : Prop :=
  recomputedAt (meta_ x) = 0 /\ hrh (meta_ x) = unset /\ height (meta_ x) = unset.

(* the node's value is what its Stabilize would compute at [now] *)
Definition fresh (now : Z) (x : tnode) : Prop :=
  match kind_ x with
  | KVar _ => True
  | KAt when => value (own_ x) = b2z (when <=? now)
  | KIntervals start every => value (own_ x) = (now - start) / every
  | KStep initial steps =>
    value (own_ x) = stepValue initial (sort_steps steps) now /\
    entry (own_ x) = nextBoundary (sort_steps steps) now
  | KSnapshot _ at_ _ => taken (own_ x) = false -> now < at_
  end.

(* what always holds of the node's registration with the clock *)
Definition entry_ok (now : Z) (x : tnode) : Prop :=
  match kind_ x with
  | KVar _ => entry (own_ x) = None
  | KAt when => entry (own_ x) = Some when \/ (entry (own_ x) = None /\ value (own_ x) = 1 /\ when <= now)
  | KIntervals start every =>
    entry (own_ x) = Some (start + (value (own_ x) + 1) * every) /\ 0 <= value (own_ x) /\ start <= now /\ 0 < every
  | KStep _ steps =>
    match entry (own_ x) with None => True | Some e => exists st, st ∈ steps /\ e = s_at st end
  | KSnapshot _ at_ before =>
    entry (own_ x) = (if taken (own_ x) then None else Some at_) /\ (taken (own_ x) = false -> value (own_ x) = before)
  end.

(* [F] is what is known of a node that is in the graph and not queued: normally that it is
   fresh; in the middle of Clock.Advance, that it is fresh unless it is due *)
Record nodeInvG (len : nat) (now numv : Z) (x : tnode) (F : Prop) : Prop := {
  ni_zero : inGraph (meta_ x) = false -> zeroed x;
  ni_height : inGraph (meta_ x) = true -> 0 <= height (meta_ x);
  ni_entry : entry_ok now x;
  ni_fresh : inGraph (meta_ x) = true -> hrh (meta_ x) = unset -> F;
  ni_nec : isNecessary x = inGraph (meta_ x);
  ni_leaf : isVar x = false -> children (meta_ x) = [];
  ni_kids : Forall (fun c => (c < len)%nat) (children (meta_ x));
  ni_chg : changedAt (meta_ x) <= numv;        (* numv = graph.stabilizationNum *)
  ni_num : 1 <= numv
}.
Definition nodeInv (len : nat) (now numv : Z) (x : tnode) : Prop := nodeInvG len now numv x (fresh now x).

Lemma entry_ok_mono now t x : now <= t -> entry_ok now x -> entry_ok t x.
Proof.
  unfold entry_ok. intros Hnt. destruct (kind_ x); auto.
  - intros [H|(H1 & H2 & H3)]; [left; exact H|right; repeat split; auto; lia].
  - intros (H1 & H2 & H3 & H4). repeat split; auto; lia.
Qed.

Definition not_due (t : Z) (x : tnode) : Prop := forall a, entry (own_ x) = Some a -> t < a.

Lemma fresh_not_due now t x :
  now <= t -> entry_ok now x -> fresh now x -> not_due t x -> fresh t x.
Proof.
  unfold entry_ok, fresh, not_due. intros Hnt He Hf Hnd. destruct (kind_ x) as [v0|when|start every|initial steps|input at_ before]; auto.
  - destruct He as [He|(He & Hv & Hw)].
    + specialize (Hnd _ He). rewrite Hf.
      destruct (Z.leb_spec when now), (Z.leb_spec when t); try lia; reflexivity.
    + rewrite Hv. destruct (Z.leb_spec when t); [reflexivity|lia].
  - destruct He as (He & Hv & Hs & Hev). specialize (Hnd _ He).
    symmetry. apply div_interval; [exact Hev|].
    pose proof (Z.mul_div_le (now - start) every Hev) as H. rewrite <- Hf in H. lia.
  - destruct Hf as [Hv Hen].
    destruct (step_not_due (sort_steps steps) now t Hnt) with (v := initial) as [H1 H2].
    + rewrite <- Hen. destruct (entry (own_ x)) as [a|]; [apply Hnd; reflexivity|exact I].
    + rewrite H1, H2. auto.
  - intros Ht. destruct He as [He _]. rewrite Ht in He. apply Hnd, He.
Qed.

(* the node's own Stabilize never fails when its input exists, and leaves the node fresh *)
Lemma stabilizeNode_fresh s x o :
  entry_ok (now s) x -> stabilizeNode s x = Ok o ->
  fresh (now s) (TNode (kind_ x) (meta_ x) o) /\ entry_ok (now s) (TNode (kind_ x) (meta_ x) o).
Proof.
  unfold entry_ok, fresh, stabilizeNode. simpl.
  destruct (kind_ x) as [v0|when|start every|initial steps|input at_ before]; intros He Hs.
  - injection Hs as <-. auto.
  - injection Hs as <-. simpl.
    destruct (Z.ltb_spec (now s) when) as [Hlt|Hge]; simpl.
    + split; [destruct (Z.leb_spec when (now s)); [lia|reflexivity]|].
      destruct He as [He|(_ & _ & Hw)]; [left; exact He|lia].
    + split; [destruct (Z.leb_spec when (now s)); [reflexivity|lia]|].
      right. repeat split; auto; lia.
  - injection Hs as <-. simpl. destruct He as (_ & _ & Hst & Hev).
    destruct (Z.ltb_spec (now s - start) 0); [lia|].
    rewrite quot_floor by lia. split; [reflexivity|].
    repeat split; auto. apply Z.div_pos; lia.
  - injection Hs as <-. simpl. split; [split; reflexivity|].
    destruct (nextBoundary (sort_steps steps) (now s)) as [e|] eqn:Hnb; [|exact I].
    destruct (nextBoundary_elem _ _ _ Hnb) as (st & Hin & -> & _).
    exists st. split; [apply elem_of_sort, Hin|reflexivity].
  - destruct (taken (own_ x)) eqn:Ht.
    + injection Hs as <-. rewrite Ht. split; [intros H; discriminate H|exact He].
    + destruct (Z.ltb_spec (now s) at_).
      * injection Hs as <-. rewrite Ht. split; [auto|exact He].
      * destruct (get s input) as [ix| |]; simpl in Hs; try discriminate.
        injection Hs as <-. simpl. split; [intros H'; discriminate H'|]. split; [reflexivity|intros H'; discriminate H'].
Qed.

(** * State access *)
Lemma get_Ok s n x : get s n = Ok x <-> nodes s !! n = Some x.
Proof. unfold get. destruct (nodes s !! n); split; intros H; try discriminate; congruence. Qed.

Lemma put_length s n x : length (nodes (put s n x)) = length (nodes s).
Proof. apply insert_length. Qed.

Lemma put_now s n x : now (put s n x) = now s.
Proof. reflexivity. Qed.

Lemma put_num s n x : num (put s n x) = num s.
Proof. reflexivity. Qed.

Lemma lookup_put_same s n x : (n < length (nodes s))%nat -> nodes (put s n x) !! n = Some x.
Proof. apply list_lookup_insert. Qed.

Lemma lookup_put_other s n x m : m <> n -> nodes (put s n x) !! m = nodes s !! m.
Proof. intros H. apply list_lookup_insert_ne. congruence. Qed.

Lemma get_put_same s n x : (n < length (nodes s))%nat -> get (put s n x) n = Ok x.
Proof. intros H. apply get_Ok, lookup_put_same, H. Qed.

Lemma get_put_other s n x m : m <> n -> get (put s n x) m = get s m.
Proof. intros H. unfold get. rewrite lookup_put_other by exact H. reflexivity. Qed.

Lemma put_put s n a b : put (put s n a) n b = put s n b.
Proof. unfold put. simpl. rewrite list_insert_insert. reflexivity. Qed.

Lemma lookup_lt s n x : nodes s !! n = Some x -> (n < length (nodes s))%nat.
Proof. apply lookup_lt_Some. Qed.

Definition Inv (cfg : list kind) (s : state) : Prop :=
  length (nodes s) = length cfg /\
  forall m y, nodes s !! m = Some y -> cfg !! m = Some (kind_ y) /\ nodeInv (length cfg) (now s) (num s) y.

Lemma Inv_put cfg s n x x' :
  Inv cfg s -> nodes s !! n = Some x -> kind_ x' = kind_ x -> nodeInv (length cfg) (now s) (num s) x' ->
  Inv cfg (put s n x').
Proof.
  intros [Hlen Hall] Hx Hk Hn. split; [rewrite put_length; exact Hlen|].
  intros m y Hy. destruct (decide (m = n)) as [->|Hne].
  - rewrite lookup_put_same in Hy by (eapply lookup_lt; eauto). injection Hy as <-.
    rewrite Hk. split; [apply (Hall _ _ Hx)|exact Hn].
  - rewrite lookup_put_other in Hy by exact Hne. apply Hall, Hy.
Qed.

(** * Record transformers the graph functions apply, and what they do to the invariant *)
Definition r_q (x : tnode) : tnode := with_meta x (set_hrh (meta_ x) (height (meta_ x))).
Definition r_in (x : tnode) : tnode := with_meta x (set_height (set_inGraph (meta_ x) true) 0).
Definition stale_rec (v : Z) (x : tnode) : tnode :=
  let x1 := with_meta x (set_setAt (meta_ x) v) in
  if hrh (meta_ x) =? unset then r_q x1 else x1.
Definition zero_rec (x : tnode) : tnode :=
  with_meta x (Meta 0 [] unset unset 0 0 0 (numRecomputes (meta_ x)) false).

Lemma nodeInvG_q len now numv x F :
  nodeInvG len now numv x F -> 0 <= height (meta_ x) -> nodeInvG len now numv (r_q x) F.
Proof.
  intros [Hz Hh He Hf Hn Hl Hk Hcg Hnm] Hge. constructor; simpl; auto.
  - intros Hg. destruct (Hz Hg) as (_ & _ & Hu). unfold unset in Hu. lia.
  - intros _ Hu. unfold unset in Hu. lia.
Qed.

Lemma nodeInvG_stale len now numv x F v :
  nodeInvG len now numv x F -> (hrh (meta_ x) = unset -> 0 <= height (meta_ x)) ->
  nodeInvG len now numv (stale_rec v x) F.
Proof.
  intros Hi Hge. unfold stale_rec.
  assert (Hs : nodeInvG len now numv (with_meta x (set_setAt (meta_ x) v)) F)
    by (destruct Hi; constructor; simpl; auto).
  destruct (Z.eqb_spec (hrh (meta_ x)) unset) as [Hu|]; [|exact Hs].
  apply nodeInvG_q; [exact Hs|simpl; auto].
Qed.

(** * graph.SetStale and Clock.Advance *)
Lemma heapAdd_inv s n s' :
  heapAdd s n = Ok s' ->
  exists x, nodes s !! n = Some x /\ 0 <= height (meta_ x) /\ s' = put s n (r_q x).
Proof.
  unfold heapAdd. destruct (get s n) as [x| |] eqn:Hx; simpl; try discriminate.
  destruct (Z.ltb_spec (height (meta_ x)) 0); [discriminate|].
  intros [= <-]. exists x. split; [apply get_Ok, Hx|]. split; [lia|reflexivity].
Qed.

Lemma heapAdd_Ok s n x :
  nodes s !! n = Some x -> 0 <= height (meta_ x) -> heapAdd s n = Ok (put s n (r_q x)).
Proof.
  intros Hx Hh. unfold heapAdd. apply get_Ok in Hx. rewrite Hx. simpl.
  destruct (Z.ltb_spec (height (meta_ x)) 0); [lia|reflexivity].
Qed.

Lemma SetStale_inv gd s n s' :
  SetStale gd s n = Ok s' ->
  exists x, nodes s !! n = Some x /\
    ((gd = true /\ height (meta_ x) = unset /\ s' = s) \/
     ((hrh (meta_ x) = unset -> 0 <= height (meta_ x)) /\ s' = put s n (stale_rec (num s) x))).
Proof.
  unfold SetStale. destruct (get s n) as [x| |] eqn:Hx; simpl; try discriminate.
  apply get_Ok in Hx. exists x. split; [exact Hx|].
  destruct (gd && (height (meta_ x) =? unset)) eqn:Hg.
  - apply andb_true_iff in Hg as [-> Hu]. injection H as <-. left. repeat split. lia.
  - right. unfold stale_rec. destruct (Z.eqb_spec (hrh (meta_ x)) unset) as [Hu|Hu].
    + apply heapAdd_inv in H as (x1 & Hx1 & Hh & ->).
      rewrite lookup_put_same in Hx1 by (eapply lookup_lt; eauto). injection Hx1 as <-.
      rewrite put_put. simpl in Hh. split; [intros _; exact Hh|reflexivity].
    + injection H as <-. split; [intros; contradiction|reflexivity].
Qed.

(* the invariant with [F] depending on the node *)
Definition InvG (cfg : list kind) (s : state) (F : tnode -> Prop) : Prop :=
  length (nodes s) = length cfg /\
  forall m y, nodes s !! m = Some y -> cfg !! m = Some (kind_ y) /\ nodeInvG (length cfg) (now s) (num s) y (F y).

Lemma Inv_InvG cfg s : Inv cfg s <-> InvG cfg s (fresh (now s)).
Proof. reflexivity. Qed.

Definition own_stable (F : tnode -> Prop) : Prop :=
  forall x x', kind_ x' = kind_ x -> own_ x' = own_ x -> F x -> F x'.

Lemma SetStale_InvG gd cfg s n s' F :
  own_stable F -> InvG cfg s F -> SetStale gd s n = Ok s' -> InvG cfg s' F.
Proof.
  intros HF [Hlen Hall] H. apply SetStale_inv in H as (x & Hx & [(_ & _ & ->)|(Hh & ->)]); [split; auto|].
  split; [rewrite put_length; exact Hlen|].
  intros m y Hy. destruct (decide (m = n)) as [->|Hne].
  - rewrite lookup_put_same in Hy by (eapply lookup_lt; eauto). injection Hy as <-.
    destruct (Hall _ _ Hx) as [Hk Hi]. split.
    + rewrite Hk. unfold stale_rec. destruct (hrh (meta_ x) =? unset); reflexivity.
    + apply nodeInvG_stale; [|exact Hh].
      destruct Hi as [Hz Hh' He Hf Hn Hl Hkk Hcg Hnm]. constructor; auto.
      intros Hg Hu. eapply HF; [| |apply Hf; auto]; unfold stale_rec; destruct (hrh (meta_ x) =? unset); reflexivity.
  - rewrite lookup_put_other in Hy by exact Hne. apply Hall, Hy.
Qed.

(* SetStale leaves every node's own fields, height and membership of the graph alone, never
   takes a node off the heap, and its target is queued afterwards if it is in the graph *)
Definition stale_frame (L : list nid) (s s' : state) : Prop :=
  now s' = now s /\ num s' = num s /\
  forall m y', nodes s' !! m = Some y' ->
    exists y, nodes s !! m = Some y /\ own_ y' = own_ y /\ kind_ y' = kind_ y /\
              inGraph (meta_ y') = inGraph (meta_ y) /\ height (meta_ y') = height (meta_ y) /\
              (hrh (meta_ y) <> unset -> hrh (meta_ y') <> unset) /\
              (m ∈ L -> inGraph (meta_ y) = true -> 0 <= height (meta_ y) -> hrh (meta_ y') <> unset).

Lemma SetStale_frame gd s n s' : SetStale gd s n = Ok s' -> stale_frame [n] s s'.
Proof.
  intros H. apply SetStale_inv in H as (x & Hx & [(_ & Hu & ->)|(Hh & ->)]).
  - split; [reflexivity|]. split; [reflexivity|]. intros m y' Hy'. exists y'. repeat split; auto.
    intros Hin _ Hge. apply elem_of_list_singleton in Hin as ->.
    rewrite Hx in Hy'. injection Hy' as <-. unfold unset in Hu. lia.
  - split; [reflexivity|]. split; [reflexivity|]. intros m y' Hy'. destruct (decide (m = n)) as [->|Hne].
    + rewrite lookup_put_same in Hy' by (eapply lookup_lt; eauto). injection Hy' as <-.
      exists x. unfold stale_rec.
      destruct (Z.eqb_spec (hrh (meta_ x)) unset) as [Hu|Hu]; simpl; repeat split; auto;
        try (specialize (Hh Hu)); unfold unset in *; intros; lia.
    + rewrite lookup_put_other in Hy' by exact Hne. exists y'. repeat split; auto.
      intros Hin. apply elem_of_list_singleton in Hin. contradiction.
Qed.

Lemma SetStale_loop gd L : forall s1 s2,
  rfold (SetStale gd) L s1 = Ok s2 -> stale_frame L s1 s2.
Proof.
  induction L as [|n L IH]; intros s1 s2; simpl.
  - intros [= <-]. split; [reflexivity|]. split; [reflexivity|]. intros m y' Hy'. exists y'. repeat split; auto.
    intros Hin. inversion Hin.
  - destruct (SetStale gd s1 n) as [s1'| |] eqn:Hst; simpl; try discriminate. intros Hr.
    destruct (SetStale_frame _ _ _ _ Hst) as (Hn1 & Hm1 & H1).
    destruct (IH _ _ Hr) as (Hn2 & Hm2 & H2).
    split; [congruence|]. split; [congruence|]. intros m y' Hy'.
    destruct (H2 m y' Hy') as (y1 & Hy1 & Ho1 & Hk1 & Hg1 & Hh1 & Hq1 & Hin1).
    destruct (H1 m y1 Hy1) as (y & Hy & Ho & Hk & Hg & Hh & Hq & Hin).
    exists y. split; [exact Hy|]. repeat split; try congruence; auto.
    intros Hm Hgy Hhy. apply elem_of_cons in Hm as [->|Hm].
    + apply Hq1, Hin; auto. left.
    + apply Hin1; auto; congruence.
Qed.

Lemma SetStale_loop_InvG gd cfg F L : own_stable F -> forall s1 s2,
  InvG cfg s1 F -> rfold (SetStale gd) L s1 = Ok s2 -> InvG cfg s2 F.
Proof.
  intros HF. induction L as [|n L IH]; intros s1 s2 H1; simpl.
  - intros [= <-]. exact H1.
  - destruct (SetStale gd s1 n) as [s1'| |] eqn:Hst; simpl; try discriminate.
    apply IH. eapply SetStale_InvG; eauto.
Qed.

Lemma elem_of_due s t m :
  m ∈ due s t <-> exists y a, nodes s !! m = Some y /\ entry (own_ y) = Some a /\ a <= t.
Proof.
  unfold due. rewrite elem_of_list_omap. split.
  - intros ([k y] & Hin & Hf). apply elem_of_lookup_imap in Hin as (i & y0 & Heq & Hi).
    injection Heq as -> ->. destruct (entry (own_ y0)) as [a|] eqn:Ha; [|discriminate].
    destruct (Z.leb_spec a t); [|discriminate]. injection Hf as <-. eauto.
  - intros (y & a & Hy & Ha & Hle). exists (m, y). split.
    + apply elem_of_lookup_imap. eauto.
    + rewrite Ha. destruct (Z.leb_spec a t); [reflexivity|lia].
Qed.

Lemma Advance_Inv gd cfg s t s' :
  Inv cfg s -> Advance gd s t = Ok s' -> Inv cfg s' /\ now s' = Z.max (now s) t /\ num s' = num s.
Proof.
  intros HI. unfold Advance. destruct (Z.ltb_spec t (now s)) as [Hlt|Hge].
  - intros [= <-]. split; [exact HI|]. split; [lia|reflexivity].
  - set (s0 := State t (num s) (nodes s)). intros Hr.
    set (F := fun y => not_due t y -> fresh t y).
    assert (HF : own_stable F).
    { intros x x' Hk Ho Hx Hnd.
      assert (Hfx : fresh t x) by (apply Hx; unfold not_due in *; rewrite <- Ho; exact Hnd).
      unfold fresh in *. rewrite Hk, Ho. exact Hfx. }
    assert (H0 : InvG cfg s0 F).
    { destruct HI as [Hlen Hall]. split; [exact Hlen|]. intros m y Hy. destruct (Hall m y Hy) as [Hk Hi].
      split; [exact Hk|]. destruct Hi as [Hz Hh He Hf Hn Hl Hkk Hcg Hnm]. constructor; auto.
      - simpl. eapply entry_ok_mono; eauto.
      - intros Hg Hu Hnd. eapply fresh_not_due; eauto. }
    pose proof (SetStale_loop_InvG gd cfg F _ HF _ _ H0 Hr) as [Hlen H2].
    destruct (SetStale_loop gd _ _ _ Hr) as (Hnow & Hnum & Hfr).
    split; [|split; [rewrite Hnow; simpl; lia|rewrite Hnum; reflexivity]].
    split; [exact Hlen|]. intros m y' Hy'. destruct (H2 m y' Hy') as [Hk Hi]. split; [exact Hk|].
    destruct Hi as [Hz Hh He Hf Hn Hl Hkk Hcg Hnm]. constructor; auto.
    intros Hg Hu. rewrite Hnow. simpl. apply Hf; auto.
    intros a Ha. destruct (Z.lt_ge_cases t a) as [|Hle]; [assumption|]. exfalso.
    destruct (Hfr m y' Hy') as (y & Hy & Ho & _ & Hgy & Hhy & _ & Hin).
    apply Hin; auto.
    + apply elem_of_due. exists y, a. rewrite <- Ho. auto.
    + congruence.
    + destruct H0 as [_ H0]. destruct (H0 m y Hy) as [_ Hiy]. apply (ni_height _ _ _ _ _ Hiy). congruence.
Qed.

(** * Becoming necessary: observeNode *)
Definition bn_leaf (x : tnode) : tnode :=
  let x1 := r_in x in
  if negb (isVar x) && (recomputedAt (meta_ x) =? 0) && (hrh (meta_ x) =? unset) then r_q x1 else x1.

Lemma BN_leaf f s n x :
  nodes s !! n = Some x -> nodeParents x = [] ->
  becameNecessaryRecursive (S f) s n = Ok (put s n (bn_leaf x)).
Proof.
  intros Hx Hp. pose proof (lookup_lt _ _ _ Hx) as Hlt.
  cbn [becameNecessaryRecursive]. rewrite (proj2 (get_Ok _ _ _) Hx). cbn [rbind].
  rewrite Hp. cbn [rfold rbind]. rewrite get_put_same by exact Hlt. cbn [rbind].
  unfold bn_leaf, isStale. fold (r_in x).
  change (isVar (r_in x)) with (isVar x). change (nodeParents (r_in x)) with (nodeParents x). rewrite Hp.
  destruct (isVar x); [reflexivity|]. cbn [existsb negb andb]. rewrite andb_false_r, orb_false_r.
  change (recomputedAt (meta_ (r_in x))) with (recomputedAt (meta_ x)).
  destruct (recomputedAt (meta_ x) =? 0); [|reflexivity]. cbn [andb].
  unfold addIfNotPresent. rewrite get_put_same by exact Hlt. cbn [rbind].
  change (hrh (meta_ (r_in x))) with (hrh (meta_ x)).
  destruct (hrh (meta_ x) =? unset); [|reflexivity].
  rewrite (heapAdd_Ok _ n (r_in x)); [rewrite put_put; reflexivity|apply lookup_put_same, Hlt|simpl; lia].
Qed.

Lemma BN_unfold fuel s n :
  becameNecessaryRecursive (S fuel) s n =
  (x <-! get s n;
   let s := put s n (with_meta x (set_height (set_inGraph (meta_ x) true) 0)) in
   s <-! rfold (fun s p =>
                  px <-! get s p;
                  let wasNecessary := isNecessary px in
                  let s := put s p (with_meta px (set_children (meta_ px) (children (meta_ px) ++ [n]))) in
                  s <-! (if wasNecessary then Ok s else becameNecessaryRecursive fuel s p);
                  px <-! get s p;
                  x <-! get s n;
                  if height (meta_ x) <=? height (meta_ px)
                  then Ok (put s n (with_meta x (set_height (meta_ x) (height (meta_ px) + 1))))
                  else Ok s)
               (nodeParents x) s;
   x <-! get s n;
   if isStale s x then addIfNotPresent s n else Ok s).
Proof. reflexivity. Qed.

Definition link_rec (px : tnode) (n : nid) : tnode :=
  with_meta px (set_children (meta_ px) (children (meta_ px) ++ [n])).
Definition bn_parent (px : tnode) (n : nid) : tnode :=
  if isNecessary px then link_rec px n else bn_leaf (link_rec px n).
Definition bn_snap (x px' : tnode) : tnode :=
  r_q (with_meta (r_in x) (set_height (meta_ (r_in x)) (height (meta_ px') + 1))).

Lemma BN_snap f s n x p at_ before px :
  nodes s !! n = Some x -> kind_ x = KSnapshot p at_ before -> p <> n ->
  nodes s !! p = Some px -> nodeParents px = [] ->
  recomputedAt (meta_ x) = 0 -> hrh (meta_ x) = unset ->
  0 <= height (meta_ (bn_parent px n)) ->
  becameNecessaryRecursive (S (S f)) s n =
    Ok (put (put (put s n (r_in x)) p (bn_parent px n)) n (bn_snap x (bn_parent px n))).
Proof.
  intros Hx Hk Hpn Hpx Hpp Hrec Hhrh Hh.
  pose proof (lookup_lt _ _ _ Hx) as Hlt. pose proof (lookup_lt _ _ _ Hpx) as Hltp.
  rewrite BN_unfold. rewrite (proj2 (get_Ok _ _ _) Hx). cbn [rbind].
  fold (r_in x). unfold nodeParents at 1. rewrite Hk. cbn [rfold rbind].
  rewrite get_put_other by exact Hpn. rewrite (proj2 (get_Ok _ _ _) Hpx). cbn [rbind].
  fold (link_rec px n).
  set (s1 := put s n (r_in x)). set (s2 := put s1 p (link_rec px n)).
  assert (Hs3 : (if isNecessary px then Ok s2 else becameNecessaryRecursive (S f) s2 p)
                = Ok (put s1 p (bn_parent px n))).
  { unfold bn_parent. destruct (isNecessary px); [reflexivity|].
    rewrite (BN_leaf f s2 p (link_rec px n)).
    - unfold s2. rewrite put_put. reflexivity.
    - unfold s2. apply lookup_put_same. unfold s1. rewrite put_length. exact Hltp.
    - exact Hpp. }
  rewrite Hs3. cbn [rbind].
  set (px' := bn_parent px n) in *. set (s3 := put s1 p px').
  assert (Hl1 : (p < length (nodes s1))%nat) by (unfold s1; rewrite put_length; exact Hltp).
  assert (Hg3p : get s3 p = Ok px') by (apply get_put_same, Hl1).
  assert (Hg3n : get s3 n = Ok (r_in x)).
  { unfold s3. rewrite get_put_other by congruence. unfold s1. apply get_put_same, Hlt. }
  rewrite Hg3p. cbn [rbind]. rewrite Hg3n. cbn [rbind].
  change (height (meta_ (r_in x))) with 0.
  destruct (Z.leb_spec 0 (height (meta_ px'))) as [_|]; [|lia]. cbn [rbind].
  set (x2 := with_meta (r_in x) (set_height (meta_ (r_in x)) (height (meta_ px') + 1))).
  assert (Hl3 : (n < length (nodes s3))%nat) by (unfold s3, s1; rewrite !put_length; exact Hlt).
  rewrite (get_put_same s3 n x2 Hl3). cbn [rbind].
  unfold isStale. change (isVar x2) with (isVar x). unfold isVar at 1. rewrite Hk.
  change (recomputedAt (meta_ x2)) with (recomputedAt (meta_ x)). rewrite Hrec. cbn [Z.eqb orb].
  unfold addIfNotPresent. rewrite (get_put_same s3 n x2 Hl3). cbn [rbind].
  change (hrh (meta_ x2)) with (hrh (meta_ x)). rewrite Hhrh. cbn [Z.eqb unset Pos.eqb].
  rewrite (heapAdd_Ok _ n x2); [rewrite put_put; reflexivity|apply lookup_put_same, Hl3|simpl; lia].
Qed.

Lemma put_comm s n a p b : n <> p -> put (put s n a) p b = put (put s p b) n a.
Proof. intros H. unfold put. simpl. f_equal. apply list_insert_commute. congruence. Qed.

Lemma snapshot_parent cfg now0 s n x p at_ before :
  cfg_ok now0 cfg -> Inv cfg s -> nodes s !! n = Some x -> kind_ x = KSnapshot p at_ before ->
  exists px v0, nodes s !! p = Some px /\ kind_ px = KVar v0 /\ p <> n.
Proof.
  intros Hc [Hlen Hall] Hx Hk. destruct (Hall _ _ Hx) as [Hcx _]. rewrite Hk in Hcx.
  destruct (Hc _ _ Hcx) as [v0 Hp].
  destruct (lookup_lt_is_Some_2 (nodes s) p) as [px Hpx].
  { rewrite Hlen. eapply lookup_lt_Some; eauto. }
  destruct (Hall _ _ Hpx) as [Hcp _]. exists px, v0. split; [exact Hpx|]. split; [congruence|].
  intros ->. congruence.
Qed.

Lemma var_no_parents px v0 : kind_ px = KVar v0 -> nodeParents px = [] /\ isVar px = true.
Proof. unfold nodeParents, isVar. intros ->. auto. Qed.

Lemma isNecessary_observed x k :
  isNecessary (with_meta x (set_observers (meta_ x) (S k))) = true.
Proof. reflexivity. Qed.

(* what an observe / unobserve of node [n] does to the parts of the state the Snapshot law
   speaks about: own fields are untouched everywhere, nodes other than [n] that are not
   vars are untouched altogether, and [n]'s observer count changes by [f] *)
Definition oframe (n : nid) (f : nat -> nat) (s s' : state) : Prop :=
  (forall k y', nodes s' !! k = Some y' ->
     exists y, nodes s !! k = Some y /\ own_ y' = own_ y /\ kind_ y' = kind_ y) /\
  (forall k y, nodes s !! k = Some y -> k <> n -> isVar y = false -> nodes s' !! k = Some y) /\
  (forall x, nodes s !! n = Some x ->
     exists x', nodes s' !! n = Some x' /\ observers (meta_ x') = f (observers (meta_ x)) /\
                (isVar x = false -> children (meta_ x') = children (meta_ x))).

Lemma oframe_refl n f s : (forall k, f k = k) -> oframe n f s s.
Proof.
  intros Hf. split; [|split].
  - intros k y' Hy'. exists y'. auto.
  - auto.
  - intros x Hx. exists x. rewrite Hf. auto.
Qed.

Lemma oframe_put1 s n x x' f :
  nodes s !! n = Some x -> own_ x' = own_ x -> kind_ x' = kind_ x ->
  observers (meta_ x') = f (observers (meta_ x)) ->
  (isVar x = false -> children (meta_ x') = children (meta_ x)) ->
  oframe n f s (put s n x').
Proof.
  intros Hx Ho Hk Hob Hch. pose proof (lookup_lt _ _ _ Hx) as Hlt. split; [|split].
  - intros k y' Hy'. destruct (decide (k = n)) as [->|Hne].
    + rewrite lookup_put_same in Hy' by exact Hlt. injection Hy' as <-. exists x. auto.
    + rewrite lookup_put_other in Hy' by exact Hne. exists y'. auto.
  - intros k y Hy Hne _. rewrite lookup_put_other by exact Hne. exact Hy.
  - intros x0 Hx0. rewrite Hx in Hx0. injection Hx0 as <-. exists x'.
    rewrite lookup_put_same by exact Hlt. auto.
Qed.

Lemma oframe_put2 s n x x' p px px' f :
  nodes s !! n = Some x -> nodes s !! p = Some px -> p <> n -> isVar px = true ->
  own_ x' = own_ x -> kind_ x' = kind_ x -> own_ px' = own_ px -> kind_ px' = kind_ px ->
  observers (meta_ x') = f (observers (meta_ x)) ->
  (isVar x = false -> children (meta_ x') = children (meta_ x)) ->
  oframe n f s (put (put s p px') n x').
Proof.
  intros Hx Hpx Hpn Hvp Ho Hk Hop Hkp Hob Hch.
  pose proof (lookup_lt _ _ _ Hx) as Hlt. pose proof (lookup_lt _ _ _ Hpx) as Hltp.
  assert (Hlt' : (n < length (nodes (put s p px')))%nat) by (rewrite put_length; exact Hlt).
  split; [|split].
  - intros k y' Hy'. destruct (decide (k = n)) as [->|Hne].
    + rewrite lookup_put_same in Hy' by exact Hlt'. injection Hy' as <-. exists x. auto.
    + rewrite lookup_put_other in Hy' by exact Hne. destruct (decide (k = p)) as [->|Hnp].
      * rewrite lookup_put_same in Hy' by exact Hltp. injection Hy' as <-. exists px. auto.
      * rewrite lookup_put_other in Hy' by exact Hnp. exists y'. auto.
  - intros k y Hy Hne Hv. rewrite lookup_put_other by exact Hne.
    rewrite lookup_put_other; [exact Hy|]. intros ->. congruence.
  - intros x0 Hx0. rewrite Hx in Hx0. injection Hx0 as <-. exists x'.
    rewrite lookup_put_same by exact Hlt'. auto.
Qed.

Lemma Observe_ok cfg now0 s n :
  cfg_ok now0 cfg -> Inv cfg s -> (n < length (nodes s))%nat ->
  exists s', Observe s n = Ok s' /\ Inv cfg s' /\ now s' = now s /\ num s' = num s /\ oframe n S s s'.
Proof.
  intros Hc HI Hlt. destruct (lookup_lt_is_Some_2 _ _ Hlt) as [x Hx].
  unfold Observe. rewrite (proj2 (get_Ok _ _ _) Hx). cbn [rbind].
  destruct HI as [Hlen Hall]. destruct (Hall _ _ Hx) as [Hcx Hix].
  set (x1 := with_meta x (set_observers (meta_ x) (S (observers (meta_ x))))).
  assert (Hi1 : inGraph (meta_ x) = true -> nodeInv (length cfg) (now s) (num s) x1).
  { intros Hg. destruct Hix as [Hz Hh He Hf Hn Hl Hk Hcg Hnm]. constructor; auto; try (rewrite Hg; reflexivity). }
  fold x1. destruct (isNecessary x) eqn:Hnec.
  - eexists. split; [reflexivity|]. split; [|split; [reflexivity|split; [reflexivity|]]].
    + apply (Inv_put cfg s n x x1); [split; auto|exact Hx|reflexivity|].
      apply Hi1. rewrite <- (ni_nec _ _ _ _ _ Hix). exact Hnec.
    + apply (oframe_put1 s n x x1 S); auto.
  - assert (Hg : inGraph (meta_ x) = false) by (rewrite <- (ni_nec _ _ _ _ _ Hix); exact Hnec).
    destruct (ni_zero _ _ _ _ _ Hix Hg) as (Hrec & Hhrh & Hhe).
    set (s1 := put s n x1).
    assert (Hx1 : nodes s1 !! n = Some x1) by (apply lookup_put_same, Hlt).
    unfold fuel_of. unfold s1 at 1. rewrite put_length.
    destruct (kind_ x) as [v0|when|start every|initial steps|p at_ before] eqn:Hk.
    5: {
      destruct (snapshot_parent cfg now0 s n x p at_ before Hc (conj Hlen Hall) Hx Hk) as (px & v0 & Hpx & Hkp & Hpn).
      destruct (var_no_parents _ _ Hkp) as [Hpp Hvp].
      destruct (Hall _ _ Hpx) as [Hcp Hip].
      assert (Hl : exists len', length (nodes s) = S len') by (destruct (length (nodes s)); [lia|eauto]).
      destruct Hl as [len' Hl]. rewrite Hl.
      assert (Hh' : 0 <= height (meta_ (bn_parent px n))).
      { unfold bn_parent. destruct (isNecessary px) eqn:Hnp.
        - simpl. apply (ni_height _ _ _ _ _ Hip). rewrite <- (ni_nec _ _ _ _ _ Hip). exact Hnp.
        - unfold bn_leaf. destruct (_ && _ && _); simpl; lia. }
      rewrite (BN_snap len' s1 n x1 p at_ before px); auto.
      2: { unfold s1. rewrite lookup_put_other by exact Hpn. exact Hpx. }
      unfold s1. rewrite put_put. rewrite (put_comm s n _ p _) by congruence. rewrite put_put.
      assert (Hkb : kind_ (bn_parent px n) = kind_ px).
      { unfold bn_parent, bn_leaf. destruct (isNecessary px); [reflexivity|]. destruct (_ && _ && _); reflexivity. }
      assert (Hob : own_ (bn_parent px n) = own_ px).
      { unfold bn_parent, bn_leaf. destruct (isNecessary px); [reflexivity|]. destruct (_ && _ && _); reflexivity. }
      eexists. split; [reflexivity|]. split; [|split; [reflexivity|split; [reflexivity|]]].
      2: { apply (oframe_put2 s n x _ p px _ S); auto. }
      eapply (Inv_put cfg _ n x).
      - eapply (Inv_put cfg s p px); [split; auto|exact Hpx|exact Hkb|].
        destruct Hip as [Hz Hh He Hf Hn Hl' Hkk Hcg Hnm].
        assert (Hkids : Forall (fun c => (c < length cfg)%nat) (children (meta_ px) ++ [n])).
        { apply Forall_app. split; [exact Hkk|]. constructor; [lia|constructor]. }
        assert (Hnn : isNecessary (link_rec px n) = true).
        { unfold isNecessary, link_rec. simpl. destruct (children (meta_ px)); simpl; apply orb_true_r. }
        unfold bn_parent. destruct (isNecessary px) eqn:Hnp.
        * constructor; simpl; auto; try congruence.
          change (isVar (link_rec px n)) with (isVar px). rewrite Hvp. discriminate.
        * unfold bn_leaf. change (isVar (link_rec px n)) with (isVar px). rewrite Hvp. cbn [negb andb].
          constructor; simpl; auto; try discriminate; try lia.
          -- intros _ _. unfold fresh. simpl. rewrite Hkp. exact I.
          -- change (isVar (r_in (link_rec px n))) with (isVar px). rewrite Hvp. discriminate.
      - rewrite lookup_put_other by congruence. exact Hx.
      - reflexivity.
      - destruct Hix as [Hz Hh He Hf Hn Hl' Hkk Hcg Hnm]. unfold bn_snap.
        constructor; simpl; auto; try discriminate; try lia.
        intros _ Hu. unfold unset in Hu. lia. }
    all: (* kinds without inputs *)
      assert (Hp : nodeParents x1 = []) by (unfold nodeParents; simpl; rewrite Hk; reflexivity);
      rewrite (BN_leaf _ s1 n x1 Hx1 Hp); unfold s1; rewrite put_put;
      (eexists; split; [reflexivity|]; split; [|split; [reflexivity|split; [reflexivity|]]]);
      [ apply (Inv_put cfg s n x); [split; auto|exact Hx|unfold bn_leaf; destruct (_ && _ && _); reflexivity|];
        destruct Hix as [Hz Hh He Hf Hn Hl' Hkk Hcg Hnm]; unfold bn_leaf, isVar; simpl; rewrite Hk, Hrec, Hhrh; simpl;
        constructor; simpl; auto; try discriminate; try lia;
        try (intros _ _; unfold fresh; simpl; rewrite Hk; exact I);
        try (intros _ Hu; unfold unset in Hu; lia)
      | apply (oframe_put1 s n x _ S); auto; unfold bn_leaf; destruct (_ && _ && _); reflexivity ].
Qed.

Lemma Observe_Inv cfg now0 s n s' :
  cfg_ok now0 cfg -> Inv cfg s -> Observe s n = Ok s' ->
  Inv cfg s' /\ now s' = now s /\ num s' = num s /\ oframe n S s s'.
Proof.
  intros Hc HI H.
  assert (Hlt : (n < length (nodes s))%nat).
  { unfold Observe in H. destruct (get s n) as [x| |] eqn:Hx; try discriminate. apply get_Ok in Hx. eapply lookup_lt; eauto. }
  destruct (Observe_ok cfg now0 s n Hc HI Hlt) as (s'' & H' & R). rewrite H in H'. injection H' as <-. exact R.
Qed.

(** * Becoming unnecessary: unobserveNode *)
Lemma BU_unfold fuel s n :
  becameUnnecessary (S fuel) s n =
  (x <-! get s n;
   if negb (inGraph (meta_ x)) then Ok s else
   s <-! rfold (fun s p =>
                  px <-! get s p;
                  let px := with_meta px (set_children (meta_ px)
                                            (filter (fun c => negb (Nat.eqb c n)) (children (meta_ px)))) in
                  let s := put s p px in
                  if isNecessary px then Ok s else becameUnnecessary fuel s p)
               (nodeParents x) s;
   x <-! get s n;
   let s := put s n (with_meta x (set_inGraph (meta_ x) false)) in
   zeroNode s n).
Proof. reflexivity. Qed.

Lemma nodeInv_zero' len now numv x : entry_ok now x -> 1 <= numv -> nodeInv len now numv (zero_rec x).
Proof.
  intros He Hn1. constructor; simpl; auto; try discriminate; try lia.
  intros _. repeat split.
Qed.

Lemma BU_leaf f s n x :
  nodes s !! n = Some x -> nodeParents x = [] ->
  becameUnnecessary (S f) s n = Ok (if inGraph (meta_ x) then put s n (zero_rec x) else s).
Proof.
  intros Hx Hp. pose proof (lookup_lt _ _ _ Hx) as Hlt.
  rewrite BU_unfold. rewrite (proj2 (get_Ok _ _ _) Hx). cbn [rbind].
  destruct (inGraph (meta_ x)); [|reflexivity]. cbn [negb].
  rewrite Hp. cbn [rfold rbind]. rewrite (proj2 (get_Ok _ _ _) Hx). cbn [rbind].
  unfold zeroNode. rewrite get_put_same by exact Hlt. cbn [rbind]. rewrite put_put. reflexivity.
Qed.

Definition unlink_rec (px : tnode) (n : nid) : tnode :=
  with_meta px (set_children (meta_ px) (filter (fun c => negb (Nat.eqb c n)) (children (meta_ px)))).
Definition bu_parent (px : tnode) (n : nid) : tnode :=
  let px1 := unlink_rec px n in
  if isNecessary px1 then px1 else if inGraph (meta_ px1) then zero_rec px1 else px1.

Lemma BU_snap f s n x p at_ before px :
  nodes s !! n = Some x -> kind_ x = KSnapshot p at_ before -> p <> n ->
  nodes s !! p = Some px -> nodeParents px = [] -> inGraph (meta_ x) = true ->
  becameUnnecessary (S (S f)) s n = Ok (put (put s p (bu_parent px n)) n (zero_rec x)).
Proof.
  intros Hx Hk Hpn Hpx Hpp Hg.
  pose proof (lookup_lt _ _ _ Hx) as Hlt. pose proof (lookup_lt _ _ _ Hpx) as Hltp.
  rewrite BU_unfold. rewrite (proj2 (get_Ok _ _ _) Hx). cbn [rbind]. rewrite Hg. cbn [negb].
  unfold nodeParents at 1. rewrite Hk. cbn [rfold rbind].
  rewrite (proj2 (get_Ok _ _ _) Hpx). cbn [rbind]. fold (unlink_rec px n).
  set (s2 := put s p (unlink_rec px n)).
  assert (Hs3 : (if isNecessary (unlink_rec px n) then Ok s2 else becameUnnecessary (S f) s2 p)
                = Ok (put s p (bu_parent px n))).
  { unfold bu_parent. cbv zeta. destruct (isNecessary (unlink_rec px n)); [reflexivity|].
    rewrite (BU_leaf f s2 p (unlink_rec px n)).
    - destruct (inGraph (meta_ (unlink_rec px n))); [unfold s2; rewrite put_put|]; reflexivity.
    - apply lookup_put_same, Hltp.
    - exact Hpp. }
  rewrite Hs3. cbn [rbind].
  rewrite get_put_other by congruence. rewrite (proj2 (get_Ok _ _ _) Hx). cbn [rbind].
  unfold zeroNode. rewrite get_put_same by (rewrite put_length; exact Hlt). cbn [rbind].
  rewrite put_put. reflexivity.
Qed.

Lemma Forall_filter_bool {X} (P : X -> Prop) (q : X -> bool) (l : list X) :
  Forall P l -> Forall P (filter (fun c => q c) l).
Proof.
  induction 1 as [|a l Ha Hl IH]; [constructor|].
  rewrite filter_cons. destruct (decide (q a)); [constructor|]; auto.
Qed.

Lemma Unobserve_ok cfg now0 s n :
  cfg_ok now0 cfg -> Inv cfg s -> (n < length (nodes s))%nat ->
  exists s', Unobserve s n = Ok s' /\ Inv cfg s' /\ now s' = now s /\ num s' = num s /\ oframe n Nat.pred s s'.
Proof.
  intros Hc HI Hlt. destruct (lookup_lt_is_Some_2 _ _ Hlt) as [x Hx].
  unfold Unobserve. rewrite (proj2 (get_Ok _ _ _) Hx). cbn [rbind].
  destruct (observers (meta_ x)) as [|k] eqn:Hobs.
  { eexists. split; [reflexivity|]. split; [exact HI|]. split; [reflexivity|]. split; [reflexivity|].
    split; [|split].
    - intros k y' Hy'. exists y'. auto.
    - auto.
    - intros x0 Hx0. rewrite Hx in Hx0. injection Hx0 as <-. exists x. rewrite Hobs. auto. }
  destruct HI as [Hlen Hall]. destruct (Hall _ _ Hx) as [Hcx Hix].
  assert (Hg : inGraph (meta_ x) = true).
  { rewrite <- (ni_nec _ _ _ _ _ Hix). unfold isNecessary. rewrite Hobs. reflexivity. }
  set (x1 := with_meta x (set_observers (meta_ x) k)).
  destruct (isNecessary x1) eqn:Hnec.
  - eexists. split; [reflexivity|]. split; [|split; [reflexivity|split; [reflexivity|]]].
    + apply (Inv_put cfg s n x x1); [split; auto|exact Hx|reflexivity|].
      destruct Hix as [Hz Hh He Hf Hn Hl Hkk Hcg Hnm]. constructor; auto. rewrite Hnec. symmetry. exact Hg.
    + apply (oframe_put1 s n x x1 Nat.pred); auto. simpl. rewrite Hobs. reflexivity.
  - assert (Hk0 : k = O).
    { unfold isNecessary in Hnec. simpl in Hnec. apply orb_false_iff in Hnec as [Hk0 _].
      destruct k; [reflexivity|discriminate]. }
    assert (Hch : isVar x = false -> [] = children (meta_ x)).
    { intros Hv. symmetry. apply (ni_leaf _ _ _ _ _ Hix Hv). }
    set (s1 := put s n x1).
    assert (Hx1 : nodes s1 !! n = Some x1) by (apply lookup_put_same, Hlt).
    unfold fuel_of. unfold s1 at 1. rewrite put_length.
    destruct (kind_ x) as [v0|when|start every|initial steps|p at_ before] eqn:Hk.
    5: {
      destruct (snapshot_parent cfg now0 s n x p at_ before Hc (conj Hlen Hall) Hx Hk) as (px & v0 & Hpx & Hkp & Hpn).
      destruct (var_no_parents _ _ Hkp) as [Hpp Hvp].
      destruct (Hall _ _ Hpx) as [Hcp Hip].
      assert (Hl : exists len', length (nodes s) = S len') by (destruct (length (nodes s)); [lia|eauto]).
      destruct Hl as [len' Hl]. rewrite Hl.
      rewrite (BU_snap len' s1 n x1 p at_ before px); auto.
      2: { unfold s1. rewrite lookup_put_other by exact Hpn. exact Hpx. }
      unfold s1. rewrite (put_comm s n _ p _) by congruence. rewrite put_put.
      assert (Hkb : kind_ (bu_parent px n) = kind_ px).
      { unfold bu_parent. cbv zeta. destruct (isNecessary (unlink_rec px n)); [reflexivity|].
        destruct (inGraph (meta_ (unlink_rec px n))); reflexivity. }
      assert (Hob : own_ (bu_parent px n) = own_ px).
      { unfold bu_parent. cbv zeta. destruct (isNecessary (unlink_rec px n)); [reflexivity|].
        destruct (inGraph (meta_ (unlink_rec px n))); reflexivity. }
      eexists. split; [reflexivity|]. split; [|split; [reflexivity|split; [reflexivity|]]].
      2: { apply (oframe_put2 s n x _ p px _ Nat.pred); auto. simpl. rewrite Hobs, Hk0. reflexivity. }
      eapply (Inv_put cfg _ n x).
      - eapply (Inv_put cfg s p px); [split; auto|exact Hpx|exact Hkb|].
        destruct Hip as [Hz Hh He Hf Hn Hl' Hkk Hcg Hnm].
        assert (Hkids : Forall (fun c => (c < length cfg)%nat)
                               (filter (fun c => negb (Nat.eqb c n)) (children (meta_ px))))
          by (apply (Forall_filter_bool _ (fun c => negb (Nat.eqb c n))), Hkk).
        unfold bu_parent. cbv zeta. destruct (isNecessary (unlink_rec px n)) eqn:Hnp.
        * assert (Hnpx : isNecessary px = true).
          { unfold isNecessary, unlink_rec in *. simpl in Hnp.
            destruct (0 <? observers (meta_ px))%nat; [reflexivity|]. simpl in *.
            destruct (children (meta_ px)); [rewrite filter_nil in Hnp; discriminate|reflexivity]. }
          constructor; simpl; auto; try congruence.
          change (isVar (unlink_rec px n)) with (isVar px). rewrite Hvp. discriminate.
        * destruct (inGraph (meta_ (unlink_rec px n))) eqn:Hgp.
          -- apply nodeInv_zero'; [exact He|exact Hnm].
          -- constructor; simpl; auto; try congruence.
             ++ rewrite Hnp. symmetry. exact Hgp.
             ++ change (isVar (unlink_rec px n)) with (isVar px). rewrite Hvp. discriminate.
      - rewrite lookup_put_other by congruence. exact Hx.
      - reflexivity.
      - apply nodeInv_zero'; [apply (ni_entry _ _ _ _ _ Hix)|apply (ni_num _ _ _ _ _ Hix)]. }
    all: assert (Hp : nodeParents x1 = []) by (unfold nodeParents; simpl; rewrite Hk; reflexivity);
      rewrite (BU_leaf _ s1 n x1 Hx1 Hp); change (inGraph (meta_ x1)) with (inGraph (meta_ x)); rewrite Hg;
      unfold s1; rewrite put_put;
      (eexists; split; [reflexivity|]; split; [|split; [reflexivity|split; [reflexivity|]]]);
      [ apply (Inv_put cfg s n x); [split; auto|exact Hx|reflexivity|];
        apply nodeInv_zero'; [apply (ni_entry _ _ _ _ _ Hix)|apply (ni_num _ _ _ _ _ Hix)]
      | apply (oframe_put1 s n x _ Nat.pred); auto; simpl; rewrite Hobs, Hk0; reflexivity ].
Qed.

Lemma Unobserve_Inv cfg now0 s n s' :
  cfg_ok now0 cfg -> Inv cfg s -> Unobserve s n = Ok s' ->
  Inv cfg s' /\ now s' = now s /\ num s' = num s /\ oframe n Nat.pred s s'.
Proof.
  intros Hc HI H.
  assert (Hlt : (n < length (nodes s))%nat).
  { unfold Unobserve in H. destruct (get s n) as [x| |] eqn:Hx; try discriminate. apply get_Ok in Hx. eapply lookup_lt; eauto. }
  destruct (Unobserve_ok cfg now0 s n Hc HI Hlt) as (s'' & H' & R). rewrite H in H'. injection H' as <-. exact R.
Qed.

(** * Var.Set *)
Lemma fresh_own_stable now : own_stable (fresh now).
Proof. intros x x' Hk Ho. unfold fresh. rewrite Hk, Ho. auto. Qed.

Lemma SetInput_Inv gd cfg s n v s' :
  Inv cfg s -> SetInput gd s n v = Ok s' -> Inv cfg s' /\ now s' = now s /\ num s' = num s.
Proof.
  intros HI. unfold SetInput. destruct (get s n) as [x| |] eqn:Hx; cbn [rbind]; try discriminate.
  apply get_Ok in Hx. destruct (isVar x) eqn:Hv; [|intros [= <-]; auto].
  set (x1 := with_own x (Own v (taken (own_ x)) (entry (own_ x)))).
  assert (H1 : Inv cfg (put s n x1)).
  { destruct HI as [Hlen Hall]. destruct (Hall _ _ Hx) as [Hcx Hix].
    apply (Inv_put cfg s n x x1); [split; auto|exact Hx|reflexivity|].
    unfold isVar in Hv. destruct (kind_ x) eqn:Hk; try discriminate.
    destruct Hix as [Hz Hh He Hf Hn Hl Hkk Hcg Hnm]. constructor; auto.
    - unfold entry_ok in *. simpl. rewrite Hk in *. exact He.
    - intros _ _. unfold fresh. simpl. rewrite Hk. exact I. }
  destruct (isNecessary x1).
  - intros Hs. split.
    + apply Inv_InvG. pose proof (SetStale_frame _ _ _ _ Hs) as (Hn & _ & _). rewrite Hn.
      eapply SetStale_InvG; [apply fresh_own_stable|apply Inv_InvG, H1|exact Hs].
    + destruct (SetStale_frame _ _ _ _ Hs) as (Hn & Hm & _). auto.
  - intros [= <-]. auto.
Qed.

(** * Stabilize *)
Lemma mq_fold (F : option (nid * Z) * nat -> tnode -> option (nid * Z) * nat) (l : list tnode) :
  (forall best k x, F (best, k) x =
     (let h := hrh (meta_ x) in
      if h =? unset then best
      else match best with
           | Some (b, hb) => if h <? hb then Some (k, h) else best
           | None => Some (k, h)
           end, S k)) ->
  forall best k,
  let r := fst (fold_left F l (best, k)) in
  (forall b hb, r = Some (b, hb) ->
     best = Some (b, hb) \/
     exists i y, b = (k + i)%nat /\ l !! i = Some y /\ hrh (meta_ y) = hb /\ hb <> unset) /\
  (r = None -> best = None /\ forall i y, l !! i = Some y -> hrh (meta_ y) = unset).
Proof.
  intros HF. induction l as [|x l IH]; intros best k; simpl.
  - split; [auto|]. intros ->. split; [reflexivity|]. intros i y H. discriminate.
  - rewrite HF. cbv zeta.
    set (best' := if hrh (meta_ x) =? unset then best
                  else match best with
                       | Some (b, hb) => if hrh (meta_ x) <? hb then Some (k, hrh (meta_ x)) else best
                       | None => Some (k, hrh (meta_ x)) end).
    destruct (IH best' (S k)) as [IH1 IH2]. split.
    + intros b hb Hr. destruct (IH1 b hb Hr) as [Hb|(i & y & -> & Hy & Hh & Hne)].
      * unfold best' in Hb. destruct (Z.eqb_spec (hrh (meta_ x)) unset) as [Hu|Hu]; [left; exact Hb|].
        destruct best as [[b0 hb0]|].
        -- destruct (hrh (meta_ x) <? hb0); [|left; exact Hb].
           injection Hb as <- <-. right. exists O, x. repeat split; auto.
        -- injection Hb as <- <-. right. exists O, x. repeat split; auto.
      * right. exists (S i), y. repeat split; auto. lia.
    + intros Hr. destruct (IH2 Hr) as [Hb Hall]. unfold best' in Hb.
      destruct (Z.eqb_spec (hrh (meta_ x)) unset) as [Hu|Hu].
      * split; [exact Hb|]. intros [|i] y Hy; simpl in Hy; [injection Hy as <-; exact Hu|eauto].
      * destruct best as [[b0 hb0]|]; [destruct (hrh (meta_ x) <? hb0)|]; discriminate.
Qed.

Lemma minQueued_spec s :
  match minQueued s with
  | Some n => exists x, nodes s !! n = Some x /\ hrh (meta_ x) <> unset
  | None => forall m y, nodes s !! m = Some y -> hrh (meta_ y) = unset
  end.
Proof.
  unfold minQueued.
  match goal with |- context [fold_left ?f _ _] => set (F := f) end.
  destruct (mq_fold F (nodes s)) with (best := @None (nid * Z)) (k := O) as [H1 H2].
  { intros best k x. reflexivity. }
  destruct (fst (fold_left F (nodes s) (None, O))) as [[b hb]|] eqn:Hr; simpl.
  - destruct (H1 b hb eq_refl) as [H|(i & y & -> & Hy & Hh & Hne)]; [discriminate|].
    exists y. split; [exact Hy|congruence].
  - destruct (H2 eq_refl) as [_ Hall]. exact Hall.
Qed.

Lemma children_loop cfg L : forall s1 s2,
  Inv cfg s1 ->
  rfold (fun s c => cx <-! get s c; if shouldRecomputeChild s cx then heapAdd s c else Ok s) L s1 = Ok s2 ->
  Inv cfg s2 /\ now s2 = now s1 /\ num s2 = num s1.
Proof.
  induction L as [|c L IH]; intros s1 s2 H1; simpl.
  - intros [= <-]. auto.
  - destruct (get s1 c) as [cx| |] eqn:Hc; simpl; try discriminate. apply get_Ok in Hc.
    destruct (shouldRecomputeChild s1 cx).
    + destruct (heapAdd s1 c) as [s1'| |] eqn:Hadd; simpl; try discriminate.
      apply heapAdd_inv in Hadd as (cx' & Hc' & Hh & ->). rewrite Hc in Hc'. injection Hc' as <-.
      intros Hr. destruct (IH _ _ (Inv_put cfg s1 c cx (r_q cx) H1 Hc eq_refl
                                   (nodeInvG_q _ _ _ _ _ (proj2 (proj2 H1 _ _ Hc)) Hh)) Hr) as (H2 & Hn & Hm).
      auto.
    + apply IH, H1.
Qed.

Lemma loop_iter cfg s n x s' :
  Inv cfg s -> nodes s !! n = Some x -> hrh (meta_ x) <> unset ->
  recompute (put s n (with_meta x (set_hrh (meta_ x) unset))) n = Ok s' ->
  Inv cfg s' /\ now s' = now s /\ num s' = num s.
Proof.
  intros HI Hx Hq. pose proof (lookup_lt _ _ _ Hx) as Hlt.
  unfold recompute. rewrite get_put_same by exact Hlt. cbn [rbind].
  set (s0 := put s n (with_meta x (set_hrh (meta_ x) unset))).
  match goal with |- context [stabilizeNode s0 ?a] => set (xa := a) end.
  destruct (stabilizeNode s0 xa) as [o| |] eqn:Hst; cbn [rbind]; try discriminate.
  destruct HI as [Hlen Hall]. destruct (Hall _ _ Hx) as [Hcx Hix].
  assert (Hg : inGraph (meta_ x) = true).
  { destruct (inGraph (meta_ x)) eqn:Hg; [reflexivity|]. destruct (ni_zero _ _ _ _ _ Hix Hg) as (_ & Hu & _). contradiction. }
  destruct (stabilizeNode_fresh s0 xa o) as [Hfr Hen]; [apply (ni_entry _ _ _ _ _ Hix)|exact Hst|].
  intros Hr. unfold s0 in Hr. rewrite put_put in Hr.
  match type of Hr with rfold _ _ (put s n ?b) = _ => set (xr := b) in * end.
  assert (H1 : Inv cfg (put s n xr)).
  { apply (Inv_put cfg s n x xr); [split; auto|exact Hx|reflexivity|].
    destruct Hix as [Hz Hh He Hf Hn Hl Hkk Hcg Hnm]. constructor; auto.
    - simpl. rewrite Hg. discriminate.
    - simpl. lia.
  }
  destruct (children_loop cfg _ _ _ H1 Hr) as (H2 & Hn2 & Hm2). auto.
Qed.

Lemma stabilizeLoop_unfold fuel s :
  stabilizeLoop fuel s =
  match minQueued s with
  | None => Ok s
  | Some n =>
    match fuel with
    | O => OutOfFuel
    | S fuel =>
      x <-! get s n;
      let s := put s n (with_meta x (set_hrh (meta_ x) unset)) in
      s <-! recompute s n;
      stabilizeLoop fuel s
    end
  end.
Proof. destruct fuel; reflexivity. Qed.

Lemma stabilizeLoop_Inv cfg fuel : forall s s',
  Inv cfg s -> stabilizeLoop fuel s = Ok s' ->
  Inv cfg s' /\ now s' = now s /\ num s' = num s /\
  forall m y, nodes s' !! m = Some y -> hrh (meta_ y) = unset.
Proof.
  induction fuel as [|fuel IH]; intros s s' HI; rewrite stabilizeLoop_unfold;
    pose proof (minQueued_spec s) as Hmq; destruct (minQueued s) as [n|].
  - discriminate.
  - intros [= <-]. auto.
  - destruct Hmq as (x & Hx & Hq). rewrite (proj2 (get_Ok _ _ _) Hx). cbn [rbind].
    destruct (recompute _ n) as [s1| |] eqn:Hrec; cbn [rbind]; try discriminate.
    destruct (loop_iter cfg s n x s1 HI Hx Hq Hrec) as (H1 & Hn1 & Hm1).
    intros Hl. destruct (IH _ _ H1 Hl) as (H2 & Hn2 & Hm2 & Hall).
    split; [exact H2|]. split; [congruence|]. split; [congruence|exact Hall].
  - intros [= <-]. auto.
Qed.

Lemma nodeInvG_num_mono len now numv numv' x F :
  numv <= numv' -> nodeInvG len now numv x F -> nodeInvG len now numv' x F.
Proof. intros Hle [Hz Hh He Hf Hn Hl Hkk Hcg Hnm]. constructor; auto; lia. Qed.

Lemma Stabilize_Inv cfg s s' :
  Inv cfg s -> Stabilize s = Ok s' ->
  Inv cfg s' /\ now s' = now s /\
  forall m y, nodes s' !! m = Some y -> hrh (meta_ y) = unset.
Proof.
  intros HI. unfold Stabilize. destruct (stabilizeLoop _ s) as [s1| |] eqn:Hl; cbn [rbind]; try discriminate.
  intros [= <-]. destruct (stabilizeLoop_Inv _ _ _ _ HI Hl) as (H1 & Hn & Hm & Hall).
  split; [|split; [exact Hn|exact Hall]].
  destruct H1 as [Hlen H1]. split; [exact Hlen|]. intros m y Hy. simpl in *.
  destruct (H1 m y Hy) as [Hk Hi]. split; [exact Hk|].
  apply (nodeInvG_num_mono _ _ (num s1)); [lia|exact Hi].
Qed.

(** * Every operation keeps the invariant *)
Lemma init_Inv now0 cfg : cfg_ok now0 cfg -> Inv cfg (init now0 cfg).
Proof.
  intros Hc. split; [simpl; apply map_length|].
  intros m y Hy. simpl in Hy. change (map (new_node now0) cfg) with (new_node now0 <$> cfg) in Hy.
  rewrite list_lookup_fmap in Hy. destruct (cfg !! m) as [k|] eqn:Hk; [|discriminate].
  injection Hy as <-. split; [reflexivity|]. specialize (Hc m k Hk).
  constructor; simpl; try discriminate; auto.
  - intros _. repeat split.
  - unfold entry_ok. simpl. destruct k as [v0|when|start every|initial steps|input at_ before]; simpl; auto.
    + destruct Hc. repeat split; auto; try lia. f_equal. ring.
    + destruct (nextBoundary (sort_steps steps) now0) as [e|] eqn:Hnb; [|exact I].
      destruct (nextBoundary_elem _ _ _ Hnb) as (st & Hin & -> & _).
      exists st. split; [apply elem_of_sort, Hin|reflexivity].
Qed.

Lemma step_Inv gd cfg now0 s o s' :
  cfg_ok now0 cfg -> Inv cfg s -> step gd s o = Ok s' -> Inv cfg s'.
Proof.
  intros Hc HI. destruct o; simpl; intros H.
  - eapply Advance_Inv; eauto.
  - eapply Observe_Inv; eauto.
  - eapply Unobserve_Inv; eauto.
  - eapply SetInput_Inv; eauto.
  - eapply Stabilize_Inv; eauto.
Qed.

Lemma step_now gd cfg now0 s o s' :
  cfg_ok now0 cfg -> Inv cfg s -> step gd s o = Ok s' ->
  now s' = match o with OAdvance t => Z.max (now s) t | _ => now s end.
Proof.
  intros Hc HI. destruct o; simpl; intros H.
  - eapply Advance_Inv; eauto.
  - eapply Observe_Inv; eauto.
  - eapply Unobserve_Inv; eauto.
  - eapply SetInput_Inv; eauto.
  - eapply Stabilize_Inv; eauto.
Qed.

Lemma run_Inv gd cfg now0 ops : forall s s',
  cfg_ok now0 cfg -> Inv cfg s -> run gd s ops = Ok s' ->
  Inv cfg s' /\ now s' = clock_after (now s) ops.
Proof.
  induction ops as [|o ops IH]; intros s s' Hc HI; unfold run; simpl.
  - intros [= <-]. auto.
  - destruct (step gd s o) as [s1| |] eqn:Hs; simpl; try discriminate. intros Hr.
    pose proof (step_Inv _ _ _ _ _ _ Hc HI Hs) as H1.
    pose proof (step_now _ _ _ _ _ _ Hc HI Hs) as Hn1.
    destruct (IH s1 s' Hc H1 Hr) as [H2 Hn2]. split; [exact H2|].
    rewrite Hn2, Hn1. unfold clock_after. simpl. destruct o; reflexivity.
Qed.

(** * The value laws *)
Lemma clock_after_app now0 ops1 ops2 :
  clock_after now0 (ops1 ++ ops2) = clock_after (clock_after now0 ops1) ops2.
Proof. unfold clock_after. apply fold_left_app. Qed.

(** after a successful pass every necessary node is fresh *)
Lemma fresh_after_pass gd now0 cfg ops s n x :
  cfg_ok now0 cfg ->
  run gd (init now0 cfg) (ops ++ [OStabilize]) = Ok s ->
  nodes s !! n = Some x -> isNecessary x = true ->
  fresh (now s) x /\ now s = clock_after now0 ops.
Proof.
  intros Hc Hrun Hx Hnec. unfold run in Hrun. rewrite rfold_app in Hrun.
  destruct (rfold (step gd) ops (init now0 cfg)) as [s0| |] eqn:H0; simpl in Hrun; try discriminate.
  destruct (Stabilize s0) as [s1| |] eqn:H1; simpl in Hrun; try discriminate. injection Hrun as <-.
  destruct (run_Inv gd cfg now0 ops _ _ Hc (init_Inv _ _ Hc) H0) as [HI0 Hn0].
  destruct (Stabilize_Inv cfg _ _ HI0 H1) as (HI1 & Hn1 & Hall).
  split; [|rewrite Hn1, Hn0; reflexivity].
  destruct HI1 as [_ HI1]. destruct (HI1 _ _ Hx) as [_ Hi].
  apply (ni_fresh _ _ _ _ _ Hi); [|eauto]. rewrite <- (ni_nec _ _ _ _ _ Hi). exact Hnec.
Qed.

Theorem at_correct gd now0 cfg ops s n x when :
  cfg_ok now0 cfg ->
  run gd (init now0 cfg) (ops ++ [OStabilize]) = Ok s ->
  nodes s !! n = Some x -> kind_ x = KAt when -> isNecessary x = true ->
  value (own_ x) = b2z (when <=? now s) /\ now s = clock_after now0 ops.
Proof.
  intros Hc Hrun Hx Hk Hnec. destruct (fresh_after_pass _ _ _ _ _ _ _ Hc Hrun Hx Hnec) as [Hf Hn].
  unfold fresh in Hf. rewrite Hk in Hf. auto.
Qed.

Theorem intervals_correct gd now0 cfg ops s n x start every :
  cfg_ok now0 cfg ->
  run gd (init now0 cfg) (ops ++ [OStabilize]) = Ok s ->
  nodes s !! n = Some x -> kind_ x = KIntervals start every -> isNecessary x = true ->
  value (own_ x) = (now s - start) / every /\ start <= now s /\ now s = clock_after now0 ops.
Proof.
  intros Hc Hrun Hx Hk Hnec. destruct (fresh_after_pass _ _ _ _ _ _ _ Hc Hrun Hx Hnec) as [Hf Hn].
  unfold fresh in Hf. rewrite Hk in Hf. split; [exact Hf|]. split; [|exact Hn].
  destruct (run_Inv gd cfg now0 _ _ _ Hc (init_Inv _ _ Hc) Hrun) as [[_ HI] _].
  destruct (HI _ _ Hx) as [_ Hi]. pose proof (ni_entry _ _ _ _ _ Hi) as He.
  unfold entry_ok in He. rewrite Hk in He. tauto.
Qed.

Theorem step_correct gd now0 cfg ops s n x initial steps :
  cfg_ok now0 cfg ->
  run gd (init now0 cfg) (ops ++ [OStabilize]) = Ok s ->
  nodes s !! n = Some x -> kind_ x = KStep initial steps -> isNecessary x = true ->
  value (own_ x) = step_closed initial steps (now s) /\ now s = clock_after now0 ops.
Proof.
  intros Hc Hrun Hx Hk Hnec. destruct (fresh_after_pass _ _ _ _ _ _ _ Hc Hrun Hx Hnec) as [Hf Hn].
  unfold fresh in Hf. rewrite Hk in Hf. destruct Hf as [Hv _]. rewrite Hv, stepValue_closed. auto.
Qed.

(** * No early wake *)
Theorem due_has_trigger gd now0 cfg ops s t n x :
  cfg_ok now0 cfg -> run gd (init now0 cfg) ops = Ok s ->
  n ∈ due s t -> nodes s !! n = Some x ->
  exists tau, trigger_of (kind_ x) tau /\ tau <= t.
Proof.
  intros Hc Hrun Hdue Hx.
  destruct (run_Inv gd cfg now0 _ _ _ Hc (init_Inv _ _ Hc) Hrun) as [[_ HI] _].
  destruct (HI _ _ Hx) as [_ Hi]. pose proof (ni_entry _ _ _ _ _ Hi) as He.
  apply elem_of_due in Hdue as (y & a & Hy & Ha & Hle). rewrite Hx in Hy. injection Hy as <-.
  exists a. split; [|exact Hle]. unfold entry_ok, trigger_of in *.
  destruct (kind_ x) as [v0|when|start every|initial steps|input at_ before].
  - congruence.
  - destruct He as [He|[He _]]; congruence.
  - destruct He as (He & Hv & _). exists (value (own_ x) + 1). split; [lia|congruence].
  - rewrite Ha in He. exact He.
  - destruct He as [He _]. destruct (taken (own_ x)); congruence.
Qed.

(* Advance touches only the nodes that are due *)
Lemma SetStale_loop_others gd L : forall s1 s2,
  rfold (SetStale gd) L s1 = Ok s2 -> forall m, m ∉ L -> nodes s2 !! m = nodes s1 !! m.
Proof.
  induction L as [|n L IH]; intros s1 s2; simpl.
  - intros [= <-]. auto.
  - destruct (SetStale gd s1 n) as [s1'| |] eqn:Hst; simpl; try discriminate. intros Hr m Hm.
    rewrite (IH _ _ Hr) by (intros H; apply Hm; right; exact H).
    apply SetStale_inv in Hst as (x & Hx & [(_ & _ & ->)|(_ & ->)]); [reflexivity|].
    apply lookup_put_other. intros ->. apply Hm. left.
Qed.

Theorem advance_only_due gd s t s' :
  Advance gd s t = Ok s' -> forall m, m ∉ due s t -> nodes s' !! m = nodes s !! m.
Proof.
  unfold Advance. destruct (t <? now s); [intros [= <-]; auto|].
  intros Hr m Hm. apply (SetStale_loop_others gd _ _ _ Hr). exact Hm.
Qed.

(** * The code as it is: advancing past the trigger of a node outside the graph faults *)
Theorem advance_total_refuted :
  exists (now0 : Z) (cfg : list kind) (ops : list op),
    cfg_ok now0 cfg /\ Forall (op_ok (length cfg)) ops /\
    run false (init now0 cfg) ops = Crash HeapNegativeHeight.
Proof.
  exists 0, [KAt 5], [OAdvance 5]. split; [|split; [repeat constructor|reflexivity]].
  intros [|n] k Hk; simpl in Hk; [injection Hk as <-; exact I|discriminate].
Qed.

(* the same after the node has been observed, computed and unobserved again *)
Example advance_after_unobserve_faults :
  run false (init 0 [KAt 5]) [OObserve 0%nat; OStabilize; OUnobserve 0%nat; OAdvance 5] = Crash HeapNegativeHeight.
Proof. reflexivity. Qed.

(* the repaired variant: the same operations go through, and the node woken while it was
   outside the graph reads the right value after it is observed and a pass runs *)
Example guarded_wake_while_unnecessary :
  exists s x, run true (init 0 [KAt 5]) [OAdvance 5; OObserve 0%nat; OStabilize] = Ok s /\
              nodes s !! 0%nat = Some x /\ value (own_ x) = 1.
Proof. eexists _, _. split; [vm_compute; reflexivity|]. split; reflexivity. Qed.

(** * The repaired variant never faults *)
Lemma SetStale_ok cfg s n F :
  InvG cfg s F -> (n < length (nodes s))%nat -> exists s', SetStale true s n = Ok s'.
Proof.
  intros [Hlen Hall] Hlt. destruct (lookup_lt_is_Some_2 _ _ Hlt) as [x Hx].
  destruct (Hall _ _ Hx) as [_ Hi].
  unfold SetStale. rewrite (proj2 (get_Ok _ _ _) Hx). cbn [rbind andb].
  destruct (Z.eqb_spec (height (meta_ x)) unset) as [Hu|Hu]; [eauto|].
  destruct (hrh (meta_ x) =? unset); [|eauto].
  assert (Hg : inGraph (meta_ x) = true).
  { destruct (inGraph (meta_ x)) eqn:Hg; [reflexivity|]. destruct (ni_zero _ _ _ _ _ Hi Hg) as (_ & _ & Hh). contradiction. }
  erewrite heapAdd_Ok; [eauto|apply lookup_put_same, Hlt|].
  simpl. apply (ni_height _ _ _ _ _ Hi Hg).
Qed.

Lemma SetStale_loop_ok cfg F L : own_stable F -> forall s1,
  InvG cfg s1 F -> Forall (fun m => (m < length cfg)%nat) L ->
  exists s2, rfold (SetStale true) L s1 = Ok s2.
Proof.
  intros HF. induction L as [|n L IH]; intros s1 H1 HL; simpl; [eauto|].
  inversion HL as [|? ? Hn HL']; subst.
  destruct (SetStale_ok cfg s1 n F H1) as [s1' Hs]; [rewrite (proj1 H1); exact Hn|].
  rewrite Hs. simpl. apply IH; [|exact HL']. eapply SetStale_InvG; eauto.
Qed.

Lemma Advance_ok cfg s t : Inv cfg s -> exists s', Advance true s t = Ok s'.
Proof.
  intros HI. unfold Advance. destruct (Z.ltb_spec t (now s)) as [Hlt|Hge]; [eauto|].
  set (s0 := State t (num s) (nodes s)).
  apply (SetStale_loop_ok cfg (fun _ => True)).
  - intros x x' _ _ _. exact I.
  - destruct HI as [Hlen Hall]. split; [exact Hlen|]. intros m y Hy. destruct (Hall m y Hy) as [Hk Hi].
    split; [exact Hk|]. destruct Hi as [Hz Hh He Hf Hn Hl Hkk Hcg Hnm]. constructor; auto.
    simpl. eapply entry_ok_mono; eauto.
  - apply Forall_forall. intros m Hm. apply elem_of_list_In in Hm.
    apply elem_of_due in Hm as (y & a & Hy & _).
    rewrite <- (proj1 HI). eapply lookup_lt; eauto.
Qed.

Lemma SetInput_ok cfg s n v :
  Inv cfg s -> (n < length (nodes s))%nat -> exists s', SetInput true s n v = Ok s'.
Proof.
  intros HI Hlt. destruct (lookup_lt_is_Some_2 _ _ Hlt) as [x Hx].
  unfold SetInput. rewrite (proj2 (get_Ok _ _ _) Hx). cbn [rbind].
  destruct (isVar x) eqn:Hv; [|eauto].
  set (x1 := with_own x (Own v (taken (own_ x)) (entry (own_ x)))).
  destruct (isNecessary x1); [|eauto].
  apply (SetStale_ok cfg _ n (fresh (now s))); [|rewrite put_length; exact Hlt].
  apply Inv_InvG. destruct HI as [Hlen Hall]. destruct (Hall _ _ Hx) as [Hcx Hix].
  apply (Inv_put cfg s n x x1); [split; auto|exact Hx|reflexivity|].
  unfold isVar in Hv. destruct (kind_ x) eqn:Hk; try discriminate.
  destruct Hix as [Hz Hh He Hf Hn Hl Hkk Hcg Hnm]. constructor; auto.
  - unfold entry_ok in *. simpl. rewrite Hk in *. exact He.
  - intros _ _. unfold fresh. simpl. rewrite Hk. exact I.
Qed.

Lemma children_loop_ok cfg L : forall s1,
  Inv cfg s1 -> Forall (fun c => (c < length cfg)%nat) L ->
  exists s2, rfold (fun s c => cx <-! get s c; if shouldRecomputeChild s cx then heapAdd s c else Ok s) L s1 = Ok s2.
Proof.
  induction L as [|c L IH]; intros s1 H1 HL; simpl; [eauto|].
  inversion HL as [|? ? Hc HL']; subst.
  destruct (lookup_lt_is_Some_2 (nodes s1) c) as [cx Hcx]; [rewrite (proj1 H1); exact Hc|].
  rewrite (proj2 (get_Ok _ _ _) Hcx). cbn [rbind].
  destruct (shouldRecomputeChild s1 cx) eqn:Hsh; [|cbn [rbind]; apply IH; auto].
  destruct (proj2 H1 _ _ Hcx) as [_ Hi].
  assert (Hnec : isNecessary cx = true).
  { unfold shouldRecomputeChild in Hsh. destruct (isNecessary cx); [reflexivity|].
    rewrite orb_true_r in Hsh. discriminate. }
  assert (Hh : 0 <= height (meta_ cx)).
  { apply (ni_height _ _ _ _ _ Hi). rewrite <- (ni_nec _ _ _ _ _ Hi). exact Hnec. }
  rewrite (heapAdd_Ok s1 c cx Hcx Hh). cbn [rbind]. apply IH; [|exact HL'].
  apply (Inv_put cfg s1 c cx (r_q cx) H1 Hcx eq_refl). apply nodeInvG_q; auto.
Qed.

Lemma recompute_ok cfg now0 s n x :
  cfg_ok now0 cfg -> Inv cfg s -> nodes s !! n = Some x -> hrh (meta_ x) <> unset ->
  exists s', recompute (put s n (with_meta x (set_hrh (meta_ x) unset))) n = Ok s'.
Proof.
  intros Hc HI Hx Hq. pose proof (lookup_lt _ _ _ Hx) as Hlt.
  unfold recompute. rewrite get_put_same by exact Hlt. cbn [rbind].
  set (s0 := put s n (with_meta x (set_hrh (meta_ x) unset))).
  match goal with |- context [stabilizeNode s0 ?a] => set (xa := a) end.
  destruct HI as [Hlen Hall]. destruct (Hall _ _ Hx) as [Hcx Hix].
  assert (Hst : exists o, stabilizeNode s0 xa = Ok o).
  { unfold stabilizeNode. change (kind_ xa) with (kind_ x).
    destruct (kind_ x) as [v0|when|start every|initial steps|input at_ before] eqn:Hk; eauto.
    destruct (taken (own_ xa)); [eauto|]. destruct (now s0 <? at_); [eauto|].
    destruct (snapshot_parent cfg now0 s n x input at_ before Hc (conj Hlen Hall) Hx Hk) as (px & v0 & Hpx & _ & Hpn).
    unfold s0. rewrite get_put_other by exact Hpn. rewrite (proj2 (get_Ok _ _ _) Hpx). simpl. eauto. }
  destruct Hst as [o Hst]. rewrite Hst. cbn [rbind].
  assert (Hg : inGraph (meta_ x) = true).
  { destruct (inGraph (meta_ x)) eqn:Hg; [reflexivity|]. destruct (ni_zero _ _ _ _ _ Hix Hg) as (_ & Hu & _). contradiction. }
  destruct (stabilizeNode_fresh s0 xa o) as [Hfr Hen]; [apply (ni_entry _ _ _ _ _ Hix)|exact Hst|].
  unfold s0. rewrite put_put.
  match goal with |- context [rfold _ _ (put s n ?b)] => set (xr := b) end.
  apply (children_loop_ok cfg).
  - apply (Inv_put cfg s n x xr); [split; auto|exact Hx|reflexivity|].
    destruct Hix as [Hz Hh He Hf Hn Hl Hkk Hcg Hnm]. constructor; auto.
    + simpl. rewrite Hg. discriminate.
    + simpl. lia.
  - exact (ni_kids _ _ _ _ _ Hix).
Qed.

Definition no_crash {X} (r : res X) : Prop := (exists x, r = Ok x) \/ r = OutOfFuel.

Lemma stabilizeLoop_no_crash cfg now0 fuel : forall s,
  cfg_ok now0 cfg -> Inv cfg s -> no_crash (stabilizeLoop fuel s).
Proof.
  induction fuel as [|fuel IH]; intros s Hc HI; rewrite stabilizeLoop_unfold;
    pose proof (minQueued_spec s) as Hmq; destruct (minQueued s) as [n|].
  - right. reflexivity.
  - left. eauto.
  - destruct Hmq as (x & Hx & Hq). rewrite (proj2 (get_Ok _ _ _) Hx). cbn [rbind].
    destruct (recompute_ok cfg now0 s n x Hc HI Hx Hq) as [s1 Hrec]. rewrite Hrec. cbn [rbind].
    apply IH; [exact Hc|]. eapply loop_iter; eauto.
  - left. eauto.
Qed.

Lemma step_no_crash cfg now0 s o :
  cfg_ok now0 cfg -> Inv cfg s -> op_ok (length cfg) o -> no_crash (step true s o).
Proof.
  intros Hc HI Ho. pose proof (proj1 HI) as Hlen. destruct o as [t|n|n|n v|]; simpl in *.
  - left. apply (Advance_ok cfg), HI.
  - left. destruct (Observe_ok cfg now0 s n Hc HI) as (s' & H & _); [lia|eauto].
  - left. destruct (Unobserve_ok cfg now0 s n Hc HI) as (s' & H & _); [lia|eauto].
  - left. apply (SetInput_ok cfg); [exact HI|lia].
  - unfold Stabilize. destruct (stabilizeLoop_no_crash cfg now0 (2 * length (nodes s) + 1) s Hc HI) as [[s1 H]|H];
      rewrite H; [left; simpl; eauto|right; reflexivity].
Qed.

(** no sequence of operations on existing nodes ever yields [Crash] in the repaired
    variant; and whenever it yields a state, that state satisfies the invariant *)
Theorem run_no_crash cfg now0 ops : forall s,
  cfg_ok now0 cfg -> Inv cfg s -> Forall (op_ok (length cfg)) ops ->
  (exists s', run true s ops = Ok s' /\ Inv cfg s') \/ run true s ops = OutOfFuel.
Proof.
  induction ops as [|o ops IH]; intros s Hc HI Hops; unfold run; simpl.
  - left. eauto.
  - inversion Hops as [|? ? Ho Hops']; subst.
    destruct (step_no_crash cfg now0 s o Hc HI Ho) as [[s1 H]|H]; rewrite H; simpl; [|right; reflexivity].
    apply IH; auto. eapply step_Inv; eauto.
Qed.

Theorem advance_total cfg now0 ops :
  cfg_ok now0 cfg -> Forall (op_ok (length cfg)) ops ->
  forall w, run true (init now0 cfg) ops <> Crash w.
Proof.
  intros Hc Hops w. destruct (run_no_crash cfg now0 ops (init now0 cfg) Hc (init_Inv _ _ Hc) Hops) as [(s' & H & _)|H];
    rewrite H; discriminate.
Qed.

(* Clock.Advance itself never fails on a reachable state, whatever the jump *)
Theorem advance_never_fails cfg now0 ops s t :
  cfg_ok now0 cfg -> run true (init now0 cfg) ops = Ok s ->
  exists s', Advance true s t = Ok s' /\ Inv cfg s' /\ now s' = Z.max (now s) t.
Proof.
  intros Hc Hrun. destruct (run_Inv true cfg now0 ops _ _ Hc (init_Inv _ _ Hc) Hrun) as [HI _].
  destruct (Advance_ok cfg s t HI) as [s' H]. exists s'. split; [exact H|].
  destruct (Advance_Inv true cfg s t s' HI H) as (H1 & H2 & _). auto.
Qed.

(** * Snapshot: refinement to the ghost of Clock.v *)

(* a step that only touches heap membership, heights and stamps *)
Definition mframe (s s' : state) : Prop :=
  forall k y', nodes s' !! k = Some y' ->
    exists y, nodes s !! k = Some y /\ own_ y' = own_ y /\ kind_ y' = kind_ y /\
              observers (meta_ y') = observers (meta_ y) /\ children (meta_ y') = children (meta_ y) /\
              inGraph (meta_ y') = inGraph (meta_ y).

Lemma mframe_refl s : mframe s s.
Proof. intros k y' Hy'. exists y'. auto 10. Qed.

Lemma mframe_trans s1 s2 s3 : mframe s1 s2 -> mframe s2 s3 -> mframe s1 s3.
Proof.
  intros H12 H23 k y3 Hy3. destruct (H23 k y3 Hy3) as (y2 & Hy2 & ? & ? & ? & ? & ?).
  destruct (H12 k y2 Hy2) as (y1 & Hy1 & ? & ? & ? & ? & ?). exists y1. repeat split; congruence.
Qed.

Lemma mframe_put s k x x' :
  nodes s !! k = Some x -> own_ x' = own_ x -> kind_ x' = kind_ x ->
  observers (meta_ x') = observers (meta_ x) -> children (meta_ x') = children (meta_ x) ->
  inGraph (meta_ x') = inGraph (meta_ x) -> mframe s (put s k x').
Proof.
  intros Hx Ho Hk Hob Hch Hg j y' Hy'. destruct (decide (j = k)) as [->|Hne].
  - rewrite lookup_put_same in Hy' by (eapply lookup_lt; eauto). injection Hy' as <-. exists x. auto 10.
  - rewrite lookup_put_other in Hy' by exact Hne. exists y'. auto 10.
Qed.

Lemma rfold_mframe {X} (f : state -> X -> res state) (L : list X) :
  (forall s a s', f s a = Ok s' -> mframe s s') ->
  forall s s', rfold f L s = Ok s' -> mframe s s'.
Proof.
  intros Hf. induction L as [|a L IH]; intros s s'; simpl.
  - intros [= <-]. apply mframe_refl.
  - destruct (f s a) as [s1| |] eqn:Hs; simpl; try discriminate. intros Hr.
    eapply mframe_trans; [eapply Hf; eauto|eapply IH; eauto].
Qed.

Lemma SetStale_mframe gd s m s' : SetStale gd s m = Ok s' -> mframe s s'.
Proof.
  intros H. apply SetStale_inv in H as (x & Hx & [(_ & _ & ->)|(_ & ->)]); [apply mframe_refl|].
  apply (mframe_put s m x); auto; unfold stale_rec; destruct (hrh (meta_ x) =? unset); reflexivity.
Qed.

Lemma Advance_mframe gd s t s' : Advance gd s t = Ok s' -> mframe s s'.
Proof.
  unfold Advance. destruct (t <? now s); [intros [= <-]; apply mframe_refl|].
  intros Hr. apply (rfold_mframe _ _ (SetStale_mframe gd)) in Hr. exact Hr.
Qed.

Lemma heapAdd_mframe s c s' : heapAdd s c = Ok s' -> mframe s s'.
Proof.
  intros H. apply heapAdd_inv in H as (x & Hx & _ & ->). apply (mframe_put s c x); auto.
Qed.

Lemma SetInput_frame gd s m v s' :
  SetInput gd s m v = Ok s' ->
  forall k y', nodes s' !! k = Some y' ->
    exists y, nodes s !! k = Some y /\ kind_ y' = kind_ y /\
              observers (meta_ y') = observers (meta_ y) /\ children (meta_ y') = children (meta_ y) /\
              own_ y' = (if decide (k = m) then if isVar y then Own v (taken (own_ y)) (entry (own_ y)) else own_ y
                         else own_ y).
Proof.
  unfold SetInput. destruct (get s m) as [x| |] eqn:Hx; cbn [rbind]; try discriminate. apply get_Ok in Hx.
  destruct (isVar x) eqn:Hv.
  2: { intros [= <-] k y' Hy'. exists y'. repeat split; auto. destruct (decide (k = m)) as [->|]; [|reflexivity].
       rewrite Hx in Hy'. injection Hy' as <-. rewrite Hv. reflexivity. }
  set (x1 := with_own x (Own v (taken (own_ x)) (entry (own_ x)))).
  assert (H1 : forall s1, mframe (put s m x1) s1 ->
          forall k y', nodes s1 !! k = Some y' ->
            exists y, nodes s !! k = Some y /\ kind_ y' = kind_ y /\
              observers (meta_ y') = observers (meta_ y) /\ children (meta_ y') = children (meta_ y) /\
              own_ y' = (if decide (k = m) then if isVar y then Own v (taken (own_ y)) (entry (own_ y)) else own_ y
                         else own_ y)).
  { intros s1 Hm k y' Hy'. destruct (Hm k y' Hy') as (y1 & Hy1 & Ho & Hk & Hob & Hch & _).
    destruct (decide (k = m)) as [->|Hne].
    - rewrite lookup_put_same in Hy1 by (eapply lookup_lt; eauto). injection Hy1 as <-.
      exists x. rewrite Hv. repeat split; auto.
    - rewrite lookup_put_other in Hy1 by exact Hne. exists y1. repeat split; auto. }
  destruct (isNecessary x1).
  - intros Hs. apply H1. eapply SetStale_mframe; eauto.
  - intros [= <-]. apply H1, mframe_refl.
Qed.

(* one iteration of the pass: the recomputed node takes the result of its own Stabilize,
   everything else keeps its own fields *)
Lemma loop_iter_frame s m x s' :
  nodes s !! m = Some x ->
  recompute (put s m (with_meta x (set_hrh (meta_ x) unset))) m = Ok s' ->
  exists o, stabilizeNode (put s m (with_meta x (set_hrh (meta_ x) unset)))
                          (with_meta x (Meta (observers (meta_ x)) (children (meta_ x)) (height (meta_ x)) unset
                                             (num s) (changedAt (meta_ x)) (setAt (meta_ x))
                                             (numRecomputes (meta_ x) + 1) (inGraph (meta_ x)))) = Ok o /\
    forall k y', nodes s' !! k = Some y' ->
      exists y, nodes s !! k = Some y /\ kind_ y' = kind_ y /\
                observers (meta_ y') = observers (meta_ y) /\ children (meta_ y') = children (meta_ y) /\
                inGraph (meta_ y') = inGraph (meta_ y) /\
                own_ y' = (if decide (k = m) then o else own_ y).
Proof.
  intros Hx. pose proof (lookup_lt _ _ _ Hx) as Hlt.
  unfold recompute. rewrite get_put_same by exact Hlt. cbn [rbind].
  set (s0 := put s m (with_meta x (set_hrh (meta_ x) unset))).
  match goal with |- context [stabilizeNode s0 ?a] => set (xa := a) end.
  destruct (stabilizeNode s0 xa) as [o| |] eqn:Hst; cbn [rbind]; try discriminate.
  intros Hr. exists o. split; [exact Hst|].
  unfold s0 in Hr. rewrite put_put in Hr.
  match type of Hr with rfold _ _ (put s m ?b) = _ => set (xr := b) in * end.
  assert (Hm : mframe (put s m xr) s').
  { revert Hr. apply rfold_mframe. intros s1 c s1'.
    destruct (get s1 c) as [cx| |]; cbn [rbind]; try discriminate.
    destruct (shouldRecomputeChild s1 cx); [apply heapAdd_mframe|intros [= <-]; apply mframe_refl]. }
  intros k y' Hy'. destruct (Hm k y' Hy') as (y1 & Hy1 & Ho & Hk & Hob & Hch & Hg).
  destruct (decide (k = m)) as [->|Hne].
  - rewrite lookup_put_same in Hy1 by exact Hlt. injection Hy1 as <-. exists x. repeat split; auto.
  - rewrite lookup_put_other in Hy1 by exact Hne. exists y1. repeat split; auto.
Qed.

Section Snapshot.
  Variables (n p : nid) (at_ before v0 : Z) (cfg : list kind) (now0 : Z).
  Hypothesis Hcfg : cfg_ok now0 cfg.
  Hypothesis Hn : cfg !! n = Some (KSnapshot p at_ before).
  Hypothesis Hp : cfg !! p = Some (KVar v0).

  Definition cap_taken (g : ghost) : bool := match g_cap g with Some _ => true | None => false end.
  Definition cap_value (g : ghost) : Z := match g_cap g with Some v => v | None => before end.

  Definition GR (s : state) (g : ghost) : Prop :=
    now s = g_now g /\
    (exists x, nodes s !! n = Some x /\ observers (meta_ x) = g_obs g /\
               taken (own_ x) = cap_taken g /\ value (own_ x) = cap_value g) /\
    (exists px, nodes s !! p = Some px /\ value (own_ px) = g_in g).

  Lemma np_ne : n <> p.
  Proof. intros ->. rewrite Hn in Hp. discriminate. Qed.

  Lemma node_n s x : Inv cfg s -> nodes s !! n = Some x ->
    kind_ x = KSnapshot p at_ before /\ isVar x = false /\ children (meta_ x) = [].
  Proof.
    intros [_ HI] Hx. destruct (HI _ _ Hx) as [Hk Hi]. rewrite Hn in Hk. injection Hk as Hk.
    assert (Hv : isVar x = false) by (unfold isVar; rewrite <- Hk; reflexivity).
    split; [auto|]. split; [exact Hv|]. apply (ni_leaf _ _ _ _ _ Hi Hv).
  Qed.

  Lemma node_p s px : Inv cfg s -> nodes s !! p = Some px -> kind_ px = KVar v0 /\ isVar px = true.
  Proof.
    intros [_ HI] Hx. destruct (HI _ _ Hx) as [Hk _]. rewrite Hp in Hk. injection Hk as Hk.
    split; [auto|]. unfold isVar. rewrite <- Hk. reflexivity.
  Qed.

  Lemma lookup_exists s k kd : Inv cfg s -> cfg !! k = Some kd -> exists y, nodes s !! k = Some y.
  Proof.
    intros [Hlen _] Hk. apply lookup_lt_is_Some_2. rewrite Hlen. eapply lookup_lt_Some; eauto.
  Qed.

  (* the snapshot's own Stabilize, as a function of the clock and its input's value *)
  Definition snap_stab (nowv pv : Z) (o : own) : own :=
    if taken o then o else if nowv <? at_ then o else Own pv true None.

  Lemma snap_stab_idem nowv pv o : snap_stab nowv pv (snap_stab nowv pv o) = snap_stab nowv pv o.
  Proof.
    unfold snap_stab. destruct (taken o) eqn:Ht; [rewrite Ht; reflexivity|].
    destruct (nowv <? at_) eqn:Hl; [rewrite Ht; reflexivity|reflexivity].
  Qed.

  (* the pass: node n's own fields end up either untouched or stabilized; p's are untouched *)
  Lemma loop_snapshot fuel : forall s s' o0 pv obs ing,
    Inv cfg s -> stabilizeLoop fuel s = Ok s' ->
    (exists x, nodes s !! n = Some x /\ observers (meta_ x) = obs /\ inGraph (meta_ x) = ing /\
               (own_ x = o0 \/ (ing = true /\ own_ x = snap_stab (now s) pv o0))) ->
    (exists px, nodes s !! p = Some px /\ value (own_ px) = pv) ->
    (exists x, nodes s' !! n = Some x /\ observers (meta_ x) = obs /\ inGraph (meta_ x) = ing /\
               (own_ x = o0 \/ (ing = true /\ own_ x = snap_stab (now s) pv o0))) /\
    (exists px, nodes s' !! p = Some px /\ value (own_ px) = pv).
  Proof.
    induction fuel as [|fuel IH]; intros s s' o0 pv obs ing HI; rewrite stabilizeLoop_unfold;
      pose proof (minQueued_spec s) as Hmq; destruct (minQueued s) as [m|].
    - discriminate.
    - intros [= <-]. auto.
    - destruct Hmq as (x & Hx & Hq). rewrite (proj2 (get_Ok _ _ _) Hx). cbn [rbind].
      destruct (recompute _ m) as [s1| |] eqn:Hrec; cbn [rbind]; try discriminate.
      destruct (loop_iter cfg s m x s1 HI Hx Hq Hrec) as (H1 & Hn1 & Hm1).
      destruct (loop_iter_frame s m x s1 Hx Hrec) as (o & Hst & Hfr).
      intros Hl (xn & Hxn & Hobs & Hing & Hown) (px & Hpx & Hpv).
      rewrite <- Hn1. apply (IH s1 s' o0 pv obs ing H1 Hl).
      + destruct (lookup_exists s1 n _ H1 Hn) as [xn' Hxn'].
        destruct (Hfr n xn' Hxn') as (y & Hy & Hk & Hob & Hch & Hg & Ho).
        rewrite Hxn in Hy. injection Hy as <-.
        exists xn'. split; [exact Hxn'|]. split; [congruence|]. split; [congruence|].
        rewrite Hn1. destruct (decide (n = m)) as [<-|Hne]; [|rewrite Ho; exact Hown].
        (* node n itself was recomputed *)
        rewrite Hx in Hxn. injection Hxn as <-.
        destruct (node_n s x HI Hx) as (Hkx & _ & _).
        assert (Hgx : inGraph (meta_ x) = true).
        { destruct (inGraph (meta_ x)) eqn:Hgx; [reflexivity|].
          destruct (proj2 HI _ _ Hx) as [_ Hi]. destruct (ni_zero _ _ _ _ _ Hi Hgx) as (_ & Hu & _). contradiction. }
        assert (Hoo : o = snap_stab (now s) pv (own_ x)).
        { unfold stabilizeNode in Hst. simpl in Hst. rewrite Hkx in Hst. unfold snap_stab.
          destruct (taken (own_ x)); [congruence|]. destruct (now s <? at_); [congruence|].
          rewrite get_put_other in Hst by (apply not_eq_sym, np_ne).
          rewrite (proj2 (get_Ok _ _ _) Hpx) in Hst. simpl in Hst. congruence. }
        right. split; [congruence|]. rewrite Ho, Hoo.
        destruct Hown as [->|[_ ->]]; [reflexivity|apply snap_stab_idem].
      + destruct (lookup_exists s1 p _ H1 Hp) as [px' Hpx'].
        destruct (Hfr p px' Hpx') as (y & Hy & Hk & Hob & Hch & Hg & Ho).
        rewrite Hpx in Hy. injection Hy as <-.
        exists px'. split; [exact Hpx'|]. rewrite Ho.
        destruct (decide (p = m)) as [<-|]; [|exact Hpv].
        (* the var itself was recomputed: its Stabilize changes nothing *)
        rewrite Hx in Hpx. injection Hpx as <-.
        destruct (node_p s x HI Hx) as (Hkx & _).
        unfold stabilizeNode in Hst. simpl in Hst. rewrite Hkx in Hst. injection Hst as <-. exact Hpv.
    - intros [= <-]. auto.
  Qed.

  Lemma step_GR gd s o s' g :
    Inv cfg s -> step gd s o = Ok s' -> GR s g -> GR s' (ghost_step n p at_ g o).
  Proof.
    intros HI Hs (Hnow & (x & Hx & Hobs & Htk & Hval) & (px & Hpx & Hpv)).
    pose proof (step_Inv gd cfg now0 s o s' Hcfg HI Hs) as HI'.
    destruct (lookup_exists s' n _ HI' Hn) as [x' Hx'].
    destruct (lookup_exists s' p _ HI' Hp) as [px' Hpx'].
    destruct (node_n s x HI Hx) as (Hkx & Hvx & Hchx).
    destruct o as [t|m|m|m v|]; simpl in Hs |- *.
    - (* Advance *)
      destruct (Advance_Inv gd cfg s t s' HI Hs) as (_ & Hn' & _).
      pose proof (Advance_mframe gd s t s' Hs) as Hm.
      destruct (Hm n x' Hx') as (y & Hy & Ho & _ & Hob & _). rewrite Hx in Hy. injection Hy as <-.
      destruct (Hm p px' Hpx') as (y & Hy & Hop & _). rewrite Hpx in Hy. injection Hy as <-.
      split; [simpl; congruence|]. split; [exists x'|exists px']; simpl; rewrite ?Ho, ?Hop; repeat split; auto; congruence.
    - (* Observe *)
      destruct (Observe_Inv cfg now0 s m s' Hcfg HI Hs) as (_ & Hn' & _ & (Hf1 & Hf2 & Hf3)).
      destruct (Hf1 p px' Hpx') as (y & Hy & Hop & _). rewrite Hpx in Hy. injection Hy as <-.
      destruct (Nat.eqb_spec m n) as [->|Hne].
      + destruct (Hf3 x Hx) as (x'' & Hx'' & Hob & _). rewrite Hx' in Hx''. injection Hx'' as <-.
        destruct (Hf1 n x' Hx') as (y & Hy & Ho & _). rewrite Hx in Hy. injection Hy as <-.
        split; [simpl; congruence|]. split; [exists x'|exists px']; simpl; rewrite ?Ho, ?Hop; repeat split; auto; congruence.
      + rewrite (Hf2 n x Hx (not_eq_sym Hne) Hvx) in Hx'. injection Hx' as <-.
        split; [congruence|]. split; [exists x|exists px']; rewrite ?Hop; repeat split; auto.
    - (* Unobserve *)
      destruct (Unobserve_Inv cfg now0 s m s' Hcfg HI Hs) as (_ & Hn' & _ & (Hf1 & Hf2 & Hf3)).
      destruct (Hf1 p px' Hpx') as (y & Hy & Hop & _). rewrite Hpx in Hy. injection Hy as <-.
      destruct (Nat.eqb_spec m n) as [->|Hne].
      + destruct (Hf3 x Hx) as (x'' & Hx'' & Hob & _). rewrite Hx' in Hx''. injection Hx'' as <-.
        destruct (Hf1 n x' Hx') as (y & Hy & Ho & _). rewrite Hx in Hy. injection Hy as <-.
        split; [simpl; congruence|]. split; [exists x'|exists px']; simpl; rewrite ?Ho, ?Hop; repeat split; auto; congruence.
      + rewrite (Hf2 n x Hx (not_eq_sym Hne) Hvx) in Hx'. injection Hx' as <-.
        split; [congruence|]. split; [exists x|exists px']; rewrite ?Hop; repeat split; auto.
    - (* SetInput *)
      destruct (SetInput_Inv gd cfg s m v s' HI Hs) as (_ & Hn' & _).
      pose proof (SetInput_frame gd s m v s' Hs) as Hf.
      destruct (Hf n x' Hx') as (y & Hy & _ & Hob & _ & Ho). rewrite Hx in Hy. injection Hy as <-.
      destruct (Hf p px' Hpx') as (y & Hy & _ & _ & _ & Hop). rewrite Hpx in Hy. injection Hy as <-.
      assert (Ho' : own_ x' = own_ x) by (rewrite Ho; destruct (decide (n = m)); [rewrite Hvx|]; reflexivity).
      destruct (node_p s px HI Hpx) as (_ & Hvp). rewrite Hvp in Hop.
      destruct (Nat.eqb_spec m p) as [->|Hne].
      + rewrite decide_True in Hop by reflexivity.
        split; [simpl; congruence|]. split; [exists x'|exists px']; simpl; rewrite ?Ho', ?Hop; repeat split; auto; congruence.
      + rewrite decide_False in Hop by congruence.
        split; [congruence|]. split; [exists x'|exists px']; rewrite ?Ho', ?Hop; repeat split; auto; congruence.
    - (* Stabilize *)
      unfold Stabilize in Hs. destruct (stabilizeLoop _ s) as [s1| |] eqn:Hl; cbn [rbind] in Hs; try discriminate.
      injection Hs as <-. simpl in Hx', Hpx'.
      destruct (stabilizeLoop_Inv cfg _ _ _ HI Hl) as (H1 & Hn1 & _ & Hall).
      destruct (loop_snapshot _ s s1 (own_ x) (value (own_ px)) (observers (meta_ x)) (inGraph (meta_ x)) HI Hl)
        as ((xn & Hxn & Hob & Hg & Hown) & (pxn & Hpxn & Hpvn)).
      { exists x. auto. }
      { exists px. auto. }
      rewrite Hx' in Hxn. injection Hxn as <-. rewrite Hpx' in Hpxn. injection Hpxn as <-.
      assert (Hfinal : own_ x' = snap_stab (now s) (value (own_ px)) (own_ x) \/
                       (own_ x' = own_ x /\ (taken (own_ x) = true \/ inGraph (meta_ x) = false \/ now s < at_))).
      { destruct Hown as [Ho|[_ Ho]]; [|left; exact Ho].
        destruct (taken (own_ x)) eqn:Ht; [right; auto|].
        destruct (inGraph (meta_ x)) eqn:Hgx; [|right; auto].
        destruct (Z.ltb_spec (now s) at_) as [Hlt|Hge]; [right; auto|].
        (* in the graph, not taken, time reached: the final state is fresh, so it must have been taken *)
        exfalso. destruct (proj2 H1 _ _ Hx') as [_ Hi].
        pose proof (ni_fresh _ _ _ _ _ Hi ltac:(congruence) (Hall _ _ Hx')) as Hfr.
        unfold fresh in Hfr. destruct (node_n s1 x' H1 Hx') as (Hkx' & _). rewrite Hkx' in Hfr.
        rewrite Ho, Ht in Hfr. specialize (Hfr eq_refl). lia. }
      destruct (proj2 HI _ _ Hx) as [_ Hix].
      assert (Hnecg : inGraph (meta_ x) = (0 <? g_obs g)%nat).
      { rewrite <- (ni_nec _ _ _ _ _ Hix). unfold isNecessary. rewrite Hchx, Hobs. simpl. apply orb_false_r. }
      unfold GR, cap_taken, cap_value in *. destruct (g_cap g) as [c|] eqn:Hc; simpl.
      + (* already taken: nothing changes *)
        assert (Ho' : own_ x' = own_ x).
        { destruct Hfinal as [Ho|[Ho _]]; [|exact Ho]. rewrite Ho. unfold snap_stab. rewrite Htk. reflexivity. }
        rewrite Hc. split; [congruence|]. split; [exists x'|exists px']; rewrite ?Ho'; repeat split; auto; congruence.
      + rewrite <- Hnow.
        destruct ((0 <? g_obs g)%nat && (at_ <=? now s)) eqn:Hcond; simpl; rewrite ?Hc.
        * apply andb_true_iff in Hcond as [Hob1 Hat]. apply Z.leb_le in Hat.
          assert (Ho' : own_ x' = Own (value (own_ px)) true None).
          { destruct Hfinal as [Ho|[_ [H|[H|H]]]]; try congruence; try lia.
            rewrite Ho. unfold snap_stab. rewrite Htk. destruct (Z.ltb_spec (now s) at_); [lia|reflexivity]. }
          split; [congruence|]. split; [exists x'|exists px']; rewrite ?Ho'; simpl; repeat split; auto; congruence.
        * assert (Ho' : own_ x' = own_ x).
          { destruct Hfinal as [Ho|[Ho _]]; [|exact Ho]. rewrite Ho. unfold snap_stab. rewrite Htk.
            apply andb_false_iff in Hcond as [Hob0|Hat].
            - (* not observed: not in the graph, and the final own fields are the initial ones *)
              destruct Hown as [Ho1|[Hg1 _]]; [|congruence]. rewrite Ho in Ho1. unfold snap_stab in Ho1. rewrite Htk in Ho1. exact Ho1.
            - apply Z.leb_gt in Hat. destruct (Z.ltb_spec (now s) at_); [reflexivity|lia]. }
          split; [congruence|]. split; [exists x'|exists px']; rewrite ?Ho'; repeat split; auto; congruence.
  Qed.

  Lemma run_GR gd ops : forall s s' g,
    Inv cfg s -> run gd s ops = Ok s' -> GR s g -> GR s' (fold_left (ghost_step n p at_) ops g).
  Proof.
    induction ops as [|o ops IH]; intros s s' g HI; unfold run; simpl.
    - intros [= <-]. auto.
    - destruct (step gd s o) as [s1| |] eqn:Hs; simpl; try discriminate. intros Hr Hg.
      apply (IH s1 s' _ (step_Inv gd cfg now0 s o s1 Hcfg HI Hs) Hr). eapply step_GR; eauto.
  Qed.

  Theorem snapshot_correct_aux gd ops s x :
    run gd (init now0 cfg) ops = Ok s -> nodes s !! n = Some x ->
    value (own_ x) = snapshot_closed n p at_ before now0 v0 ops.
  Proof.
    intros Hrun Hx.
    assert (H0 : GR (init now0 cfg) (Ghost now0 0 v0 None)).
    { split; [reflexivity|]. unfold init. simpl.
      change (map (new_node now0) cfg) with (new_node now0 <$> cfg). rewrite !list_lookup_fmap, Hn, Hp. simpl.
      split; eexists; split; try reflexivity; auto. }
    destruct (run_GR gd ops _ _ _ (init_Inv _ _ Hcfg) Hrun H0) as (_ & (x' & Hx' & _ & _ & Hv) & _).
    rewrite Hx in Hx'. injection Hx' as <-. rewrite Hv. reflexivity.
  Qed.
End Snapshot.

Theorem snapshot_correct gd now0 cfg ops s n x p at_ before v0 :
  cfg_ok now0 cfg -> cfg !! p = Some (KVar v0) ->
  run gd (init now0 cfg) ops = Ok s ->
  nodes s !! n = Some x -> kind_ x = KSnapshot p at_ before ->
  value (own_ x) = snapshot_closed n p at_ before now0 v0 ops.
Proof.
  intros Hc Hp Hrun Hx Hk.
  destruct (run_Inv gd cfg now0 ops _ _ Hc (init_Inv _ _ Hc) Hrun) as [[_ HI] _].
  destruct (HI _ _ Hx) as [Hcn _]. rewrite Hk in Hcn.
  eapply snapshot_correct_aux; eauto.
Qed.

(** * The pass ends within its fuel: every node is recomputed at most once per pass

    The potential of a state is the number of nodes that are queued or have not been
    recomputed in the current pass.  Recomputing a node takes it out of both sets, and the
    children it queues were already counted (a child is queued only if it has not been
    recomputed in this pass: no stamp exceeds the pass number). *)
Definition w (numv : Z) (y : tnode) : nat :=
  if negb (hrh (meta_ y) =? unset) || (recomputedAt (meta_ y) <? numv) then 1%nat else 0%nat.
Definition Phi (s : state) : nat := sum_list_with (w (num s)) (nodes s).

Lemma sum_insert {X} (f : X -> nat) (l : list X) : forall k x x',
  l !! k = Some x -> (sum_list_with f (<[k := x']> l) + f x = sum_list_with f l + f x')%nat.
Proof.
  induction l as [|a l IH]; intros k x x' Hk; [discriminate|].
  destruct k as [|k]; simpl in *.
  - injection Hk as <-. lia.
  - specialize (IH k x x' Hk). lia.
Qed.

Lemma sum_elem {X} (f : X -> nat) (l : list X) k x : l !! k = Some x -> (f x <= sum_list_with f l)%nat.
Proof.
  revert k; induction l as [|a l IH]; intros k Hk; [discriminate|].
  destruct k as [|k]; simpl in *; [injection Hk as <-; lia|]. specialize (IH k Hk). lia.
Qed.

Lemma sum_le_length {X} (f : X -> nat) (l : list X) :
  (forall y, (f y <= 1)%nat) -> (sum_list_with f l <= length l)%nat.
Proof. intros Hf. induction l as [|a l IH]; simpl; [lia|]. specialize (Hf a). lia. Qed.

Lemma Phi_put s k x x' :
  nodes s !! k = Some x -> (Phi (put s k x') + w (num s) x = Phi s + w (num s) x')%nat.
Proof. intros Hx. unfold Phi. simpl. apply sum_insert, Hx. Qed.

Lemma should_w cfg s cx :
  Inv cfg s -> (exists c, nodes s !! c = Some cx) -> shouldRecomputeChild s cx = true -> w (num s) cx = 1%nat.
Proof.
  intros [_ HI] [c Hc] Hsh. destruct (HI _ _ Hc) as [_ Hi]. pose proof (ni_num _ _ _ _ _ Hi) as Hnum.
  unfold w. unfold shouldRecomputeChild in Hsh.
  destruct (negb (hrh (meta_ cx) =? unset) || negb (isNecessary cx)); [discriminate|].
  destruct (Z.ltb_spec (recomputedAt (meta_ cx)) (num s)) as [Hlt|Hge]; [rewrite orb_true_r; reflexivity|].
  exfalso. rewrite andb_false_r in Hsh. unfold isStale in Hsh.
  destruct (isVar cx); [discriminate|].
  apply orb_true_iff in Hsh as [Hz|Hp].
  - apply Z.eqb_eq in Hz. lia.
  - apply andb_true_iff in Hp as [_ Hp]. apply existsb_exists in Hp as (pp & _ & Hpp).
    destruct (nodes s !! pp) as [px|] eqn:Hpx; [|discriminate].
    destruct (HI _ _ Hpx) as [_ Hip]. pose proof (ni_chg _ _ _ _ _ Hip). apply Z.ltb_lt in Hpp. lia.
Qed.

Lemma children_loop_Phi cfg L : forall s1 s2,
  Inv cfg s1 ->
  rfold (fun s c => cx <-! get s c; if shouldRecomputeChild s cx then heapAdd s c else Ok s) L s1 = Ok s2 ->
  Phi s2 = Phi s1.
Proof.
  induction L as [|c L IH]; intros s1 s2 H1; simpl.
  - intros [= <-]. reflexivity.
  - destruct (get s1 c) as [cx| |] eqn:Hc; simpl; try discriminate. apply get_Ok in Hc.
    destruct (shouldRecomputeChild s1 cx) eqn:Hsh.
    + destruct (heapAdd s1 c) as [s1'| |] eqn:Hadd; simpl; try discriminate.
      apply heapAdd_inv in Hadd as (cx' & Hc' & Hh & ->). rewrite Hc in Hc'. injection Hc' as <-.
      intros Hr.
      rewrite (IH _ _ (Inv_put cfg s1 c cx (r_q cx) H1 Hc eq_refl
                         (nodeInvG_q _ _ _ _ _ (proj2 (proj2 H1 _ _ Hc)) Hh)) Hr).
      pose proof (Phi_put s1 c cx (r_q cx) Hc) as HP.
      rewrite (should_w cfg s1 cx H1 (ex_intro _ c Hc) Hsh) in HP.
      assert (Hw : w (num s1) (r_q cx) = 1%nat).
      { unfold w. simpl. destruct (Z.eqb_spec (height (meta_ cx)) unset) as [Hu|]; [unfold unset in Hu; lia|reflexivity]. }
      rewrite Hw in HP. lia.
    + apply IH, H1.
Qed.

Lemma loop_iter_Phi cfg s n x s' :
  Inv cfg s -> nodes s !! n = Some x -> hrh (meta_ x) <> unset ->
  recompute (put s n (with_meta x (set_hrh (meta_ x) unset))) n = Ok s' ->
  (Phi s' + 1 = Phi s)%nat.
Proof.
  intros HI Hx Hq. pose proof (lookup_lt _ _ _ Hx) as Hlt.
  unfold recompute. rewrite get_put_same by exact Hlt. cbn [rbind].
  set (s0 := put s n (with_meta x (set_hrh (meta_ x) unset))).
  match goal with |- context [stabilizeNode s0 ?a] => set (xa := a) end.
  destruct (stabilizeNode s0 xa) as [o| |] eqn:Hst; cbn [rbind]; try discriminate.
  destruct HI as [Hlen Hall]. destruct (Hall _ _ Hx) as [Hcx Hix].
  assert (Hg : inGraph (meta_ x) = true).
  { destruct (inGraph (meta_ x)) eqn:Hg; [reflexivity|]. destruct (ni_zero _ _ _ _ _ Hix Hg) as (_ & Hu & _). contradiction. }
  destruct (stabilizeNode_fresh s0 xa o) as [Hfr Hen]; [apply (ni_entry _ _ _ _ _ Hix)|exact Hst|].
  intros Hr. unfold s0 in Hr. rewrite put_put in Hr.
  match type of Hr with rfold _ _ (put s n ?b) = _ => set (xr := b) in * end.
  assert (H1 : Inv cfg (put s n xr)).
  { apply (Inv_put cfg s n x xr); [split; auto|exact Hx|reflexivity|].
    destruct Hix as [Hz Hh He Hf Hn Hl Hkk Hcg Hnm]. constructor; auto.
    - simpl. rewrite Hg. discriminate.
    - simpl. lia.
  }
  rewrite (children_loop_Phi cfg _ _ _ H1 Hr).
  pose proof (Phi_put s n x xr Hx) as HP.
  assert (Hwx : w (num s) x = 1%nat).
  { unfold w. destruct (Z.eqb_spec (hrh (meta_ x)) unset); [contradiction|reflexivity]. }
  assert (Hwr : w (num s) xr = 0%nat).
  { unfold w, xr. simpl. rewrite Z.ltb_irrefl. reflexivity. }
  rewrite Hwx, Hwr in HP. lia.
Qed.

Lemma stabilizeLoop_total cfg now0 fuel : forall s,
  cfg_ok now0 cfg -> Inv cfg s -> (Phi s <= fuel)%nat -> exists s', stabilizeLoop fuel s = Ok s'.
Proof.
  induction fuel as [|fuel IH]; intros s Hc HI HP; rewrite stabilizeLoop_unfold;
    pose proof (minQueued_spec s) as Hmq; destruct (minQueued s) as [n|]; eauto.
  - destruct Hmq as (x & Hx & Hq). exfalso.
    pose proof (sum_elem (w (num s)) (nodes s) n x Hx) as Hle. fold (Phi s) in Hle.
    unfold w in Hle. destruct (Z.eqb_spec (hrh (meta_ x)) unset); [contradiction|]. simpl in Hle. lia.
  - destruct Hmq as (x & Hx & Hq). rewrite (proj2 (get_Ok _ _ _) Hx). cbn [rbind].
    destruct (recompute_ok cfg now0 s n x Hc HI Hx Hq) as [s1 Hrec]. rewrite Hrec. cbn [rbind].
    destruct (loop_iter cfg s n x s1 HI Hx Hq Hrec) as (H1 & _ & _).
    pose proof (loop_iter_Phi cfg s n x s1 HI Hx Hq Hrec).
    apply IH; [exact Hc|exact H1|lia].
Qed.

Lemma Stabilize_total cfg now0 s :
  cfg_ok now0 cfg -> Inv cfg s -> exists s', Stabilize s = Ok s'.
Proof.
  intros Hc HI. unfold Stabilize.
  destruct (stabilizeLoop_total cfg now0 (2 * length (nodes s) + 1) s Hc HI) as [s1 H].
  - pose proof (sum_le_length (w (num s)) (nodes s)) as Hle. unfold Phi.
    assert (forall y, (w (num s) y <= 1)%nat) by (intros y; unfold w; destruct (_ || _); lia).
    specialize (Hle H). lia.
  - rewrite H. simpl. eauto.
Qed.

Lemma step_total cfg now0 s o :
  cfg_ok now0 cfg -> Inv cfg s -> op_ok (length cfg) o -> exists s', step true s o = Ok s'.
Proof.
  intros Hc HI Ho. pose proof (proj1 HI) as Hlen. destruct o as [t|n|n|n v|]; simpl in *.
  - apply (Advance_ok cfg), HI.
  - destruct (Observe_ok cfg now0 s n Hc HI) as (s' & H & _); [lia|eauto].
  - destruct (Unobserve_ok cfg now0 s n Hc HI) as (s' & H & _); [lia|eauto].
  - apply (SetInput_ok cfg); [exact HI|lia].
  - apply (Stabilize_total cfg now0); auto.
Qed.

(** in the repaired variant every sequence of operations on existing nodes runs to the end:
    no fault, no pass that fails to end, and the invariant holds of the result *)
Theorem run_total cfg now0 ops : forall s,
  cfg_ok now0 cfg -> Inv cfg s -> Forall (op_ok (length cfg)) ops ->
  exists s', run true s ops = Ok s' /\ Inv cfg s'.
Proof.
  induction ops as [|o ops IH]; intros s Hc HI Hops; unfold run; simpl; [eauto|].
  inversion Hops as [|? ? Ho Hops']; subst.
  destruct (step_total cfg now0 s o Hc HI Ho) as [s1 H]. rewrite H. simpl.
  apply IH; auto. eapply step_Inv; eauto.
Qed.

(* passes always end, in both variants *)
Theorem pass_ends gd cfg now0 ops s :
  cfg_ok now0 cfg -> run gd (init now0 cfg) ops = Ok s -> exists s', Stabilize s = Ok s'.
Proof.
  intros Hc Hrun. destruct (run_Inv gd cfg now0 ops _ _ Hc (init_Inv _ _ Hc) Hrun) as [HI _].
  eapply Stabilize_total; eauto.
Qed.

Theorem advance_total_full cfg now0 ops :
  cfg_ok now0 cfg -> Forall (op_ok (length cfg)) ops ->
  exists s, run true (init now0 cfg) ops = Ok s /\ Inv cfg s.
Proof. intros Hc Hops. apply (run_total cfg now0); auto. apply init_Inv, Hc. Qed.
