(** Proofs for C15 about the model in Clock.v. *)
From incr Require Import Base Clock.

(** * Pure lemmas about the closed forms *)

(** ** AtIntervals: Go's truncating division is the floor on a non-negative elapsed time *)
Lemma quot_floor a b : 0 <= a -> 0 < b -> Z.quot a b = a / b.
Proof. intros. apply Z.quot_div_nonneg; lia. Qed.

Lemma div_interval a b k : 0 < b -> k * b <= a < (k + 1) * b -> a / b = k.
Proof. intros Hb H. symmetry. apply (Z.div_unique a b k (a - k * b)); lia. Qed.

(** ** StepFunction *)

(* the scan of Stabilize, remembering the step rather than its value *)
Fixpoint scan (ordered : list step_) (now : Z) : option step_ :=
  match ordered with
  | [] => None
  | st :: r => if now <? s_at st then None
               else match scan r now with Some b => Some b | None => Some st end
  end.

Lemma stepValue_scan ordered now : forall v,
  stepValue v ordered now = match scan ordered now with Some st => s_val st | None => v end.
Proof.
  induction ordered as [|st r IH]; intros v; simpl; [reflexivity|].
  destruct (now <? s_at st); [reflexivity|]. rewrite IH. destruct (scan r now); reflexivity.
Qed.

Definition sorted (l : list step_) : Prop :=
  forall i j a b, (i < j)%nat -> l !! i = Some a -> l !! j = Some b -> s_at a <= s_at b.

Lemma sorted_cons_inv y l : sorted (y :: l) -> sorted l /\ forall b, b ∈ l -> s_at y <= s_at b.
Proof.
  intros H. split.
  - intros i j a b Hij Ha Hb. apply (H (S i) (S j) a b); auto; lia.
  - intros b Hb. apply elem_of_list_lookup in Hb as [j Hj]. apply (H O (S j) y b); auto; lia.
Qed.

Lemma sorted_cons y l : sorted l -> (forall b, b ∈ l -> s_at y <= s_at b) -> sorted (y :: l).
Proof.
  intros Hs Hy i j a b Hij Ha Hb. destruct j as [|j]; [lia|]. simpl in Hb.
  destruct i as [|i]; simpl in Ha.
  - injection Ha as <-. apply Hy. eapply elem_of_list_lookup_2; eauto.
  - apply (Hs i j a b); auto; lia.
Qed.

Lemma elem_of_insert x a l : x ∈ insert a l <-> x = a \/ x ∈ l.
Proof.
  induction l as [|y l IH]; simpl.
  - rewrite elem_of_list_singleton. split; [auto|intros [H|H]; [auto|inversion H]].
  - destruct (s_at a <=? s_at y).
    + rewrite elem_of_cons. tauto.
    + rewrite !elem_of_cons, IH. tauto.
Qed.

Lemma sorted_insert a l : sorted l -> sorted (insert a l).
Proof.
  induction l as [|y l IH]; simpl; intros Hs.
  - apply sorted_cons; [exact Hs|]. intros b Hb. inversion Hb.
  - destruct (sorted_cons_inv _ _ Hs) as [Hl Hy].
    destruct (Z.leb_spec (s_at a) (s_at y)) as [Hle|Hgt].
    + apply sorted_cons; [exact Hs|]. intros b Hb. apply elem_of_cons in Hb as [->|Hb]; [exact Hle|].
      specialize (Hy b Hb). lia.
    + apply sorted_cons; [apply IH, Hl|]. intros b Hb. apply elem_of_insert in Hb as [->|Hb]; [lia|auto].
Qed.

Lemma sorted_sort l : sorted (sort_steps l).
Proof.
  induction l as [|a l IH]; simpl.
  - intros i j a b _ H. discriminate.
  - apply sorted_insert, IH.
Qed.

Lemma elem_of_sort x l : x ∈ sort_steps l <-> x ∈ l.
Proof.
  induction l as [|a l IH]; simpl; [reflexivity|].
  rewrite elem_of_insert, elem_of_cons, IH. reflexivity.
Qed.

Lemma scan_elem l now b : scan l now = Some b -> b ∈ l /\ s_at b <= now.
Proof.
  revert b; induction l as [|y l IH]; intros b; simpl; [discriminate|].
  destruct (Z.ltb_spec now (s_at y)); [discriminate|].
  destruct (scan l now) as [c|] eqn:Hc.
  - intros [= <-]. destruct (IH c eq_refl). split; [right|]; auto.
  - intros [= <-]. split; [left|lia].
Qed.

Lemma scan_insert x l now :
  sorted l ->
  scan (insert x l) now =
  if (s_at x <=? now) && match scan l now with None => true | Some b => s_at b <? s_at x end
  then Some x else scan l now.
Proof.
  induction l as [|y l IH]; intros Hs; simpl.
  - destruct (Z.ltb_spec now (s_at x)), (Z.leb_spec (s_at x) now); try lia; reflexivity.
  - destruct (sorted_cons_inv _ _ Hs) as [Hl Hy].
    destruct (Z.leb_spec (s_at x) (s_at y)) as [Hxy|Hxy]; simpl.
    + destruct (Z.ltb_spec now (s_at x)) as [Hnx|Hnx].
      * destruct (Z.leb_spec (s_at x) now); [lia|]. simpl.
        destruct (Z.ltb_spec now (s_at y)); [reflexivity|lia].
      * destruct (Z.leb_spec (s_at x) now); [|lia]. simpl.
        destruct (Z.ltb_spec now (s_at y)) as [Hny|Hny]; [reflexivity|].
        destruct (scan l now) as [b|] eqn:Hb.
        -- destruct (scan_elem _ _ _ Hb) as [Hin _]. specialize (Hy b Hin).
           destruct (Z.ltb_spec (s_at b) (s_at x)); [lia|reflexivity].
        -- destruct (Z.ltb_spec (s_at y) (s_at x)); [lia|reflexivity].
    + rewrite (IH Hl).
      destruct (Z.ltb_spec now (s_at y)) as [Hny|Hny].
      * destruct (Z.leb_spec (s_at x) now); [lia|]. reflexivity.
      * destruct (Z.leb_spec (s_at x) now) as [Hxn|Hxn]; simpl.
        -- destruct (scan l now) as [b|] eqn:Hb.
           ++ destruct (Z.ltb_spec (s_at b) (s_at x)); reflexivity.
           ++ destruct (Z.ltb_spec (s_at y) (s_at x)); [reflexivity|lia].
        -- reflexivity.
Qed.

Lemma scan_sort steps now : scan (sort_steps steps) now = last_step steps now.
Proof.
  induction steps as [|x r IH]; simpl; [reflexivity|].
  rewrite scan_insert by apply sorted_sort. rewrite IH. reflexivity.
Qed.

(** the value Stabilize computes is the closed form *)
Lemma stepValue_closed initial steps now :
  stepValue initial (sort_steps steps) now = step_closed initial steps now.
Proof. rewrite stepValue_scan, scan_sort. reflexivity. Qed.

(** the closed form, declaratively: the chosen step is at or before [now], no step at or
    before [now] is later, and among the steps of the same time it is the last listed *)
Lemma last_step_spec steps now :
  match last_step steps now with
  | Some st => exists i, steps !! i = Some st /\ s_at st <= now /\
               forall j st', steps !! j = Some st' -> s_at st' <= now ->
                 s_at st' < s_at st \/ (s_at st' = s_at st /\ (j <= i)%nat)
  | None => forall st, st ∈ steps -> now < s_at st
  end.
Proof.
  induction steps as [|x r IH]; simpl.
  - intros st H. inversion H.
  - destruct (last_step r now) as [b|] eqn:Hb.
    + destruct IH as (i & Hi & Hle & Hmax).
      destruct (Z.leb_spec (s_at x) now) as [Hx|Hx]; simpl.
      * destruct (Z.ltb_spec (s_at b) (s_at x)) as [Hbx|Hbx].
        -- exists O. split; [reflexivity|]. split; [exact Hx|].
           intros [|j] st' Hj Hst'; simpl in Hj.
           ++ injection Hj as <-. right. split; [reflexivity|lia].
           ++ destruct (Hmax j st' Hj Hst') as [H|[H _]]; left; lia.
        -- exists (S i). split; [exact Hi|]. split; [exact Hle|].
           intros [|j] st' Hj Hst'; simpl in Hj.
           ++ injection Hj as <-. destruct (Z.eq_dec (s_at x) (s_at b)); [right; split; [auto|lia]|left; lia].
           ++ destruct (Hmax j st' Hj Hst') as [H|[H ?]]; [left; exact H|right; split; [exact H|lia]].
      * exists (S i). split; [exact Hi|]. split; [exact Hle|].
        intros [|j] st' Hj Hst'; simpl in Hj.
        ++ injection Hj as <-. lia.
        ++ destruct (Hmax j st' Hj Hst') as [H|[H ?]]; [left; exact H|right; split; [exact H|lia]].
    + destruct (Z.leb_spec (s_at x) now) as [Hx|Hx]; simpl.
      * exists O. split; [reflexivity|]. split; [exact Hx|].
        intros [|j] st' Hj Hst'; simpl in Hj.
        -- injection Hj as <-. right. split; [reflexivity|lia].
        -- specialize (IH st' (elem_of_list_lookup_2 _ _ _ Hj)). lia.
      * intros st Hst. apply elem_of_cons in Hst as [->|Hst]; [exact Hx|auto].
Qed.

Lemma nextBoundary_elem l now e : nextBoundary l now = Some e -> exists st, st ∈ l /\ e = s_at st /\ now < e.
Proof.
  induction l as [|y l IH]; simpl; [discriminate|].
  destruct (Z.ltb_spec now (s_at y)).
  - intros [= <-]. exists y. split; [left|split; [reflexivity|assumption]].
  - intros H'. destruct (IH H') as (st & Hin & He). exists st. split; [right; exact Hin|exact He].
Qed.

(* nothing changes for a step function between [now] and [t] when its next boundary is
   beyond [t] *)
Lemma step_not_due l now t : now <= t ->
  match nextBoundary l now with None => True | Some e => t < e end ->
  forall v, stepValue v l t = stepValue v l now /\ nextBoundary l t = nextBoundary l now.
Proof.
  intros Hnt. induction l as [|y l IH]; simpl; intros Hnb v; [auto|].
  destruct (Z.ltb_spec now (s_at y)) as [Hny|Hny].
  - destruct (Z.ltb_spec t (s_at y)); [auto|lia].
  - destruct (Z.ltb_spec t (s_at y)); [lia|]. apply IH, Hnb.
Qed.

(** * The per-node invariant *)

Definition zeroed (x : tnode) : Prop :=
  recomputedAt (meta_ x) = 0 /\ hrh (meta_ x) = unset /\ height (meta_ x) = unset.

(* the node's value is what its Stabilize would compute at [now] *)
Definition fresh (now : Z) (x : tnode) : Prop :=
  match kind_ x with
  | KVar _ => True
  | KAt when => value (own_ x) = b2z (when <=? now)
  | KIntervals start every => value (own_ x) = (now - start) / every
  | KStep initial steps =>
    value (own_ x) = stepValue initial (sort_steps steps) now /\
    entry (own_ x) = nextBoundary (sort_steps steps) now
  | KSnapshot _ at_ _ => taken (own_ x) = false -> now < at_
  end.

(* what always holds of the node's registration with the clock *)
Definition entry_ok (now : Z) (x : tnode) : Prop :=
  match kind_ x with
  | KVar _ => entry (own_ x) = None
  | KAt when => entry (own_ x) = Some when \/ (entry (own_ x) = None /\ value (own_ x) = 1 /\ when <= now)
  | KIntervals start every =>
    entry (own_ x) = Some (start + (value (own_ x) + 1) * every) /\ 0 <= value (own_ x) /\ start <= now /\ 0 < every
  | KStep _ steps =>
    match entry (own_ x) with None => True | Some e => exists st, st ∈ steps /\ e = s_at st end
  | KSnapshot _ at_ before =>
    entry (own_ x) = (if taken (own_ x) then None else Some at_) /\ (taken (own_ x) = false -> value (own_ x) = before)
  end.

(* [F] is what is known of a node that is in the graph and not queued: normally that it is
   fresh; in the middle of Clock.Advance, that it is fresh unless it is due *)
Record nodeInvG (len : nat) (now : Z) (x : tnode) (F : Prop) : Prop := {
  ni_zero : inGraph (meta_ x) = false -> zeroed x;
  ni_height : inGraph (meta_ x) = true -> 0 <= height (meta_ x);
  ni_entry : entry_ok now x;
  ni_fresh : inGraph (meta_ x) = true -> hrh (meta_ x) = unset -> F;
  ni_nec : isNecessary x = inGraph (meta_ x);
  ni_leaf : isVar x = false -> children (meta_ x) = [];
  ni_kids : Forall (fun c => (c < len)%nat) (children (meta_ x))
}.
Definition nodeInv (len : nat) (now : Z) (x : tnode) : Prop := nodeInvG len now x (fresh now x).

Lemma entry_ok_mono now t x : now <= t -> entry_ok now x -> entry_ok t x.
Proof.
  unfold entry_ok. intros Hnt. destruct (kind_ x); auto.
  - intros [H|(H1 & H2 & H3)]; [left; exact H|right; repeat split; auto; lia].
  - intros (H1 & H2 & H3 & H4). repeat split; auto; lia.
Qed.

Definition not_due (t : Z) (x : tnode) : Prop := forall a, entry (own_ x) = Some a -> t < a.

Lemma fresh_not_due now t x :
  now <= t -> entry_ok now x -> fresh now x -> not_due t x -> fresh t x.
Proof.
  unfold entry_ok, fresh, not_due. intros Hnt He Hf Hnd. destruct (kind_ x) as [v0|when|start every|initial steps|input at_ before]; auto.
  - destruct He as [He|(He & Hv & Hw)].
    + specialize (Hnd _ He). rewrite Hf.
      destruct (Z.leb_spec when now), (Z.leb_spec when t); try lia; reflexivity.
    + rewrite Hv. destruct (Z.leb_spec when t); [reflexivity|lia].
  - destruct He as (He & Hv & Hs & Hev). specialize (Hnd _ He).
    symmetry. apply div_interval; [exact Hev|].
    pose proof (Z.mul_div_le (now - start) every Hev) as H. rewrite <- Hf in H. lia.
  - destruct Hf as [Hv Hen].
    destruct (step_not_due (sort_steps steps) now t Hnt) with (v := initial) as [H1 H2].
    + rewrite <- Hen. destruct (entry (own_ x)) as [a|]; [apply Hnd; reflexivity|exact I].
    + rewrite H1, H2. auto.
  - intros Ht. destruct He as [He _]. rewrite Ht in He. apply Hnd, He.
Qed.

(* the node's own Stabilize never fails when its input exists, and leaves the node fresh *)
Lemma stabilizeNode_fresh s x o :
  entry_ok (now s) x -> stabilizeNode s x = Ok o ->
  fresh (now s) (TNode (kind_ x) (meta_ x) o) /\ entry_ok (now s) (TNode (kind_ x) (meta_ x) o).
Proof.
  unfold entry_ok, fresh, stabilizeNode. simpl.
  destruct (kind_ x) as [v0|when|start every|initial steps|input at_ before]; intros He Hs.
  - injection Hs as <-. auto.
  - injection Hs as <-. simpl.
    destruct (Z.ltb_spec (now s) when) as [Hlt|Hge]; simpl.
    + split; [destruct (Z.leb_spec when (now s)); [lia|reflexivity]|].
      destruct He as [He|(_ & _ & Hw)]; [left; exact He|lia].
    + split; [destruct (Z.leb_spec when (now s)); [reflexivity|lia]|].
      right. repeat split; auto; lia.
  - injection Hs as <-. simpl. destruct He as (_ & _ & Hst & Hev).
    destruct (Z.ltb_spec (now s - start) 0); [lia|].
    rewrite quot_floor by lia. split; [reflexivity|].
    repeat split; auto. apply Z.div_pos; lia.
  - injection Hs as <-. simpl. split; [split; reflexivity|].
    destruct (nextBoundary (sort_steps steps) (now s)) as [e|] eqn:Hnb; [|exact I].
    destruct (nextBoundary_elem _ _ _ Hnb) as (st & Hin & -> & _).
    exists st. split; [apply elem_of_sort, Hin|reflexivity].
  - destruct (taken (own_ x)) eqn:Ht.
    + injection Hs as <-. rewrite Ht. split; [intros H; discriminate H|exact He].
    + destruct (Z.ltb_spec (now s) at_).
      * injection Hs as <-. rewrite Ht. split; [auto|exact He].
      * destruct (get s input) as [ix| |]; simpl in Hs; try discriminate.
        injection Hs as <-. simpl. split; [intros H'; discriminate H'|]. split; [reflexivity|intros H'; discriminate H'].
Qed.

(** * State access *)
Lemma get_Ok s n x : get s n = Ok x <-> nodes s !! n = Some x.
Proof. unfold get. destruct (nodes s !! n); split; intros H; try discriminate; congruence. Qed.

Lemma put_length s n x : length (nodes (put s n x)) = length (nodes s).
Proof. apply insert_length. Qed.

Lemma put_now s n x : now (put s n x) = now s.
Proof. reflexivity. Qed.

Lemma put_num s n x : num (put s n x) = num s.
Proof. reflexivity. Qed.

Lemma lookup_put_same s n x : (n < length (nodes s))%nat -> nodes (put s n x) !! n = Some x.
Proof. apply list_lookup_insert. Qed.

Lemma lookup_put_other s n x m : m <> n -> nodes (put s n x) !! m = nodes s !! m.
Proof. intros H. apply list_lookup_insert_ne. congruence. Qed.

Lemma get_put_same s n x : (n < length (nodes s))%nat -> get (put s n x) n = Ok x.
Proof. intros H. apply get_Ok, lookup_put_same, H. Qed.

Lemma get_put_other s n x m : m <> n -> get (put s n x) m = get s m.
Proof. intros H. unfold get. rewrite lookup_put_other by exact H. reflexivity. Qed.

Lemma put_put s n a b : put (put s n a) n b = put s n b.
Proof. unfold put. simpl. rewrite list_insert_insert. reflexivity. Qed.

Lemma lookup_lt s n x : nodes s !! n = Some x -> (n < length (nodes s))%nat.
Proof. apply lookup_lt_Some. Qed.

Definition Inv (cfg : list kind) (s : state) : Prop :=
  length (nodes s) = length cfg /\
  forall m y, nodes s !! m = Some y -> cfg !! m = Some (kind_ y) /\ nodeInv (length cfg) (now s) y.

Lemma Inv_put cfg s n x x' :
  Inv cfg s -> nodes s !! n = Some x -> kind_ x' = kind_ x -> nodeInv (length cfg) (now s) x' ->
  Inv cfg (put s n x').
Proof.
  intros [Hlen Hall] Hx Hk Hn. split; [rewrite put_length; exact Hlen|].
  intros m y Hy. destruct (decide (m = n)) as [->|Hne].
  - rewrite lookup_put_same in Hy by (eapply lookup_lt; eauto). injection Hy as <-.
    rewrite Hk. split; [apply (Hall _ _ Hx)|exact Hn].
  - rewrite lookup_put_other in Hy by exact Hne. apply Hall, Hy.
Qed.

(** * Record transformers the graph functions apply, and what they do to the invariant *)
Definition r_q (x : tnode) : tnode := with_meta x (set_hrh (meta_ x) (height (meta_ x))).
Definition r_in (x : tnode) : tnode := with_meta x (set_height (set_inGraph (meta_ x) true) 0).
Definition stale_rec (v : Z) (x : tnode) : tnode :=
  let x1 := with_meta x (set_setAt (meta_ x) v) in
  if hrh (meta_ x) =? unset then r_q x1 else x1.
Definition zero_rec (x : tnode) : tnode :=
  with_meta x (Meta 0 [] unset unset 0 0 0 (numRecomputes (meta_ x)) false).

Lemma nodeInvG_q len now x F :
  nodeInvG len now x F -> 0 <= height (meta_ x) -> nodeInvG len now (r_q x) F.
Proof.
  intros [Hz Hh He Hf Hn Hl Hk] Hge. constructor; simpl; auto.
  - intros Hg. destruct (Hz Hg) as (_ & _ & Hu). unfold unset in Hu. lia.
  - intros _ Hu. unfold unset in Hu. lia.
Qed.

Lemma nodeInvG_stale len now x F v :
  nodeInvG len now x F -> (hrh (meta_ x) = unset -> 0 <= height (meta_ x)) ->
  nodeInvG len now (stale_rec v x) F.
Proof.
  intros Hi Hge. unfold stale_rec.
  assert (Hs : nodeInvG len now (with_meta x (set_setAt (meta_ x) v)) F)
    by (destruct Hi; constructor; simpl; auto).
  destruct (Z.eqb_spec (hrh (meta_ x)) unset) as [Hu|]; [|exact Hs].
  apply nodeInvG_q; [exact Hs|simpl; auto].
Qed.

Lemma nodeInv_zero len now x :
  nodeInv len now x -> nodeInv len now (zero_rec x).
Proof.
  intros [Hz Hh He Hf Hn Hl Hk]. constructor; simpl; auto; try discriminate.
  intros _. repeat split.
Qed.

(** * graph.SetStale and Clock.Advance *)
Lemma heapAdd_inv s n s' :
  heapAdd s n = Ok s' ->
  exists x, nodes s !! n = Some x /\ 0 <= height (meta_ x) /\ s' = put s n (r_q x).
Proof.
  unfold heapAdd. destruct (get s n) as [x| |] eqn:Hx; simpl; try discriminate.
  destruct (Z.ltb_spec (height (meta_ x)) 0); [discriminate|].
  intros [= <-]. exists x. split; [apply get_Ok, Hx|]. split; [lia|reflexivity].
Qed.

Lemma heapAdd_Ok s n x :
  nodes s !! n = Some x -> 0 <= height (meta_ x) -> heapAdd s n = Ok (put s n (r_q x)).
Proof.
  intros Hx Hh. unfold heapAdd. apply get_Ok in Hx. rewrite Hx. simpl.
  destruct (Z.ltb_spec (height (meta_ x)) 0); [lia|reflexivity].
Qed.

Lemma SetStale_inv gd s n s' :
  SetStale gd s n = Ok s' ->
  exists x, nodes s !! n = Some x /\
    ((gd = true /\ height (meta_ x) = unset /\ s' = s) \/
     ((hrh (meta_ x) = unset -> 0 <= height (meta_ x)) /\ s' = put s n (stale_rec (num s) x))).
Proof.
  unfold SetStale. destruct (get s n) as [x| |] eqn:Hx; simpl; try discriminate.
  apply get_Ok in Hx. exists x. split; [exact Hx|].
  destruct (gd && (height (meta_ x) =? unset)) eqn:Hg.
  - apply andb_true_iff in Hg as [-> Hu]. injection H as <-. left. repeat split. lia.
  - right. unfold stale_rec. destruct (Z.eqb_spec (hrh (meta_ x)) unset) as [Hu|Hu].
    + apply heapAdd_inv in H as (x1 & Hx1 & Hh & ->).
      rewrite lookup_put_same in Hx1 by (eapply lookup_lt; eauto). injection Hx1 as <-.
      rewrite put_put. simpl in Hh. split; [intros _; exact Hh|reflexivity].
    + injection H as <-. split; [intros; contradiction|reflexivity].
Qed.

(* the invariant with [F] depending on the node *)
Definition InvG (cfg : list kind) (s : state) (F : tnode -> Prop) : Prop :=
  length (nodes s) = length cfg /\
  forall m y, nodes s !! m = Some y -> cfg !! m = Some (kind_ y) /\ nodeInvG (length cfg) (now s) y (F y).

Lemma Inv_InvG cfg s : Inv cfg s <-> InvG cfg s (fresh (now s)).
Proof. reflexivity. Qed.

Definition own_stable (F : tnode -> Prop) : Prop :=
  forall x x', kind_ x' = kind_ x -> own_ x' = own_ x -> F x -> F x'.

Lemma SetStale_InvG gd cfg s n s' F :
  own_stable F -> InvG cfg s F -> SetStale gd s n = Ok s' -> InvG cfg s' F.
Proof.
  intros HF [Hlen Hall] H. apply SetStale_inv in H as (x & Hx & [(_ & _ & ->)|(Hh & ->)]); [split; auto|].
  split; [rewrite put_length; exact Hlen|].
  intros m y Hy. destruct (decide (m = n)) as [->|Hne].
  - rewrite lookup_put_same in Hy by (eapply lookup_lt; eauto). injection Hy as <-.
    destruct (Hall _ _ Hx) as [Hk Hi]. split.
    + rewrite Hk. unfold stale_rec. destruct (hrh (meta_ x) =? unset); reflexivity.
    + apply nodeInvG_stale; [|exact Hh].
      destruct Hi as [Hz Hh' He Hf Hn Hl Hkk]. constructor; auto.
      intros Hg Hu. eapply HF; [| |apply Hf; auto]; unfold stale_rec; destruct (hrh (meta_ x) =? unset); reflexivity.
  - rewrite lookup_put_other in Hy by exact Hne. apply Hall, Hy.
Qed.

(* SetStale leaves every node's own fields, height and membership of the graph alone, never
   takes a node off the heap, and its target is queued afterwards if it is in the graph *)
Definition stale_frame (L : list nid) (s s' : state) : Prop :=
  now s' = now s /\ num s' = num s /\
  forall m y', nodes s' !! m = Some y' ->
    exists y, nodes s !! m = Some y /\ own_ y' = own_ y /\ kind_ y' = kind_ y /\
              inGraph (meta_ y') = inGraph (meta_ y) /\ height (meta_ y') = height (meta_ y) /\
              (hrh (meta_ y) <> unset -> hrh (meta_ y') <> unset) /\
              (m ∈ L -> inGraph (meta_ y) = true -> 0 <= height (meta_ y) -> hrh (meta_ y') <> unset).

Lemma SetStale_frame gd s n s' : SetStale gd s n = Ok s' -> stale_frame [n] s s'.
Proof.
  intros H. apply SetStale_inv in H as (x & Hx & [(_ & Hu & ->)|(Hh & ->)]).
  - split; [reflexivity|]. split; [reflexivity|]. intros m y' Hy'. exists y'. repeat split; auto.
    intros Hin _ Hge. apply elem_of_list_singleton in Hin as ->.
    rewrite Hx in Hy'. injection Hy' as <-. unfold unset in Hu. lia.
  - split; [reflexivity|]. split; [reflexivity|]. intros m y' Hy'. destruct (decide (m = n)) as [->|Hne].
    + rewrite lookup_put_same in Hy' by (eapply lookup_lt; eauto). injection Hy' as <-.
      exists x. unfold stale_rec.
      destruct (Z.eqb_spec (hrh (meta_ x)) unset) as [Hu|Hu]; simpl; repeat split; auto;
        try (specialize (Hh Hu)); unfold unset in *; intros; lia.
    + rewrite lookup_put_other in Hy' by exact Hne. exists y'. repeat split; auto.
      intros Hin. apply elem_of_list_singleton in Hin. contradiction.
Qed.

Lemma SetStale_loop gd L : forall s1 s2,
  rfold (SetStale gd) L s1 = Ok s2 -> stale_frame L s1 s2.
Proof.
  induction L as [|n L IH]; intros s1 s2; simpl.
  - intros [= <-]. split; [reflexivity|]. split; [reflexivity|]. intros m y' Hy'. exists y'. repeat split; auto.
    intros Hin. inversion Hin.
  - destruct (SetStale gd s1 n) as [s1'| |] eqn:Hst; simpl; try discriminate. intros Hr.
    destruct (SetStale_frame _ _ _ _ Hst) as (Hn1 & Hm1 & H1).
    destruct (IH _ _ Hr) as (Hn2 & Hm2 & H2).
    split; [congruence|]. split; [congruence|]. intros m y' Hy'.
    destruct (H2 m y' Hy') as (y1 & Hy1 & Ho1 & Hk1 & Hg1 & Hh1 & Hq1 & Hin1).
    destruct (H1 m y1 Hy1) as (y & Hy & Ho & Hk & Hg & Hh & Hq & Hin).
    exists y. split; [exact Hy|]. repeat split; try congruence; auto.
    intros Hm Hgy Hhy. apply elem_of_cons in Hm as [->|Hm].
    + apply Hq1, Hin; auto. left.
    + apply Hin1; auto; congruence.
Qed.

Lemma SetStale_loop_InvG gd cfg F L : own_stable F -> forall s1 s2,
  InvG cfg s1 F -> rfold (SetStale gd) L s1 = Ok s2 -> InvG cfg s2 F.
Proof.
  intros HF. induction L as [|n L IH]; intros s1 s2 H1; simpl.
  - intros [= <-]. exact H1.
  - destruct (SetStale gd s1 n) as [s1'| |] eqn:Hst; simpl; try discriminate.
    apply IH. eapply SetStale_InvG; eauto.
Qed.

Lemma elem_of_due s t m :
  m ∈ due s t <-> exists y a, nodes s !! m = Some y /\ entry (own_ y) = Some a /\ a <= t.
Proof.
  unfold due. rewrite elem_of_list_omap. split.
  - intros ([k y] & Hin & Hf). apply elem_of_lookup_imap in Hin as (i & y0 & Heq & Hi).
    injection Heq as -> ->. destruct (entry (own_ y0)) as [a|] eqn:Ha; [|discriminate].
    destruct (Z.leb_spec a t); [|discriminate]. injection Hf as <-. eauto.
  - intros (y & a & Hy & Ha & Hle). exists (m, y). split.
    + apply elem_of_lookup_imap. eauto.
    + rewrite Ha. destruct (Z.leb_spec a t); [reflexivity|lia].
Qed.

Lemma Advance_Inv gd cfg s t s' :
  Inv cfg s -> Advance gd s t = Ok s' -> Inv cfg s' /\ now s' = Z.max (now s) t /\ num s' = num s.
Proof.
  intros HI. unfold Advance. destruct (Z.ltb_spec t (now s)) as [Hlt|Hge].
  - intros [= <-]. split; [exact HI|]. split; [lia|reflexivity].
  - set (s0 := State t (num s) (nodes s)). intros Hr.
    set (F := fun y => not_due t y -> fresh t y).
    assert (HF : own_stable F).
    { intros x x' Hk Ho Hx Hnd.
      assert (Hfx : fresh t x) by (apply Hx; unfold not_due in *; rewrite <- Ho; exact Hnd).
      unfold fresh in *. rewrite Hk, Ho. exact Hfx. }
    assert (H0 : InvG cfg s0 F).
    { destruct HI as [Hlen Hall]. split; [exact Hlen|]. intros m y Hy. destruct (Hall m y Hy) as [Hk Hi].
      split; [exact Hk|]. destruct Hi as [Hz Hh He Hf Hn Hl Hkk]. constructor; auto.
      - simpl. eapply entry_ok_mono; eauto.
      - intros Hg Hu Hnd. eapply fresh_not_due; eauto. }
    pose proof (SetStale_loop_InvG gd cfg F _ HF _ _ H0 Hr) as [Hlen H2].
    destruct (SetStale_loop gd _ _ _ Hr) as (Hnow & Hnum & Hfr).
    split; [|split; [rewrite Hnow; simpl; lia|rewrite Hnum; reflexivity]].
    split; [exact Hlen|]. intros m y' Hy'. destruct (H2 m y' Hy') as [Hk Hi]. split; [exact Hk|].
    destruct Hi as [Hz Hh He Hf Hn Hl Hkk]. constructor; auto.
    intros Hg Hu. rewrite Hnow. simpl. apply Hf; auto.
    intros a Ha. destruct (Z.lt_ge_cases t a) as [|Hle]; [assumption|]. exfalso.
    destruct (Hfr m y' Hy') as (y & Hy & Ho & _ & Hgy & Hhy & _ & Hin).
    apply Hin; auto.
    + apply elem_of_due. exists y, a. rewrite <- Ho. auto.
    + congruence.
    + destruct H0 as [_ H0]. destruct (H0 m y Hy) as [_ Hiy]. apply (ni_height _ _ _ _ Hiy). congruence.
Qed.

(** * Becoming necessary: observeNode *)
Definition bn_leaf (x : tnode) : tnode :=
  let x1 := r_in x in
  if negb (isVar x) && (recomputedAt (meta_ x) =? 0) && (hrh (meta_ x) =? unset) then r_q x1 else x1.

Lemma BN_leaf f s n x :
  nodes s !! n = Some x -> nodeParents x = [] ->
  becameNecessaryRecursive (S f) s n = Ok (put s n (bn_leaf x)).
Proof.
  intros Hx Hp. pose proof (lookup_lt _ _ _ Hx) as Hlt.
  cbn [becameNecessaryRecursive]. rewrite (proj2 (get_Ok _ _ _) Hx). cbn [rbind].
  rewrite Hp. cbn [rfold rbind]. rewrite get_put_same by exact Hlt. cbn [rbind].
  unfold bn_leaf, isStale. fold (r_in x).
  change (isVar (r_in x)) with (isVar x). change (nodeParents (r_in x)) with (nodeParents x). rewrite Hp.
  destruct (isVar x); [reflexivity|]. cbn [existsb negb andb]. rewrite andb_false_r, orb_false_r.
  change (recomputedAt (meta_ (r_in x))) with (recomputedAt (meta_ x)).
  destruct (recomputedAt (meta_ x) =? 0); [|reflexivity]. cbn [andb].
  unfold addIfNotPresent. rewrite get_put_same by exact Hlt. cbn [rbind].
  change (hrh (meta_ (r_in x))) with (hrh (meta_ x)).
  destruct (hrh (meta_ x) =? unset); [|reflexivity].
  rewrite (heapAdd_Ok _ n (r_in x)); [rewrite put_put; reflexivity|apply lookup_put_same, Hlt|simpl; lia].
Qed.

Lemma BN_unfold fuel s n :
  becameNecessaryRecursive (S fuel) s n =
  (x <-! get s n;
   let s := put s n (with_meta x (set_height (set_inGraph (meta_ x) true) 0)) in
   s <-! rfold (fun s p =>
                  px <-! get s p;
                  let wasNecessary := isNecessary px in
                  let s := put s p (with_meta px (set_children (meta_ px) (children (meta_ px) ++ [n]))) in
                  s <-! (if wasNecessary then Ok s else becameNecessaryRecursive fuel s p);
                  px <-! get s p;
                  x <-! get s n;
                  if height (meta_ x) <=? height (meta_ px)
                  then Ok (put s n (with_meta x (set_height (meta_ x) (height (meta_ px) + 1))))
                  else Ok s)
               (nodeParents x) s;
   x <-! get s n;
   if isStale s x then addIfNotPresent s n else Ok s).
Proof. reflexivity. Qed.

Definition link_rec (px : tnode) (n : nid) : tnode :=
  with_meta px (set_children (meta_ px) (children (meta_ px) ++ [n])).
Definition bn_parent (px : tnode) (n : nid) : tnode :=
  if isNecessary px then link_rec px n else bn_leaf (link_rec px n).
Definition bn_snap (x px' : tnode) : tnode :=
  r_q (with_meta (r_in x) (set_height (meta_ (r_in x)) (height (meta_ px') + 1))).

Lemma BN_snap f s n x p at_ before px :
  nodes s !! n = Some x -> kind_ x = KSnapshot p at_ before -> p <> n ->
  nodes s !! p = Some px -> nodeParents px = [] ->
  recomputedAt (meta_ x) = 0 -> hrh (meta_ x) = unset ->
  0 <= height (meta_ (bn_parent px n)) ->
  becameNecessaryRecursive (S (S f)) s n =
    Ok (put (put (put s n (r_in x)) p (bn_parent px n)) n (bn_snap x (bn_parent px n))).
Proof.
  intros Hx Hk Hpn Hpx Hpp Hrec Hhrh Hh.
  pose proof (lookup_lt _ _ _ Hx) as Hlt. pose proof (lookup_lt _ _ _ Hpx) as Hltp.
  rewrite BN_unfold. rewrite (proj2 (get_Ok _ _ _) Hx). cbn [rbind].
  fold (r_in x). unfold nodeParents at 1. rewrite Hk. cbn [rfold rbind].
  rewrite get_put_other by exact Hpn. rewrite (proj2 (get_Ok _ _ _) Hpx). cbn [rbind].
  fold (link_rec px n).
  set (s1 := put s n (r_in x)). set (s2 := put s1 p (link_rec px n)).
  assert (Hs3 : (if isNecessary px then Ok s2 else becameNecessaryRecursive (S f) s2 p)
                = Ok (put s1 p (bn_parent px n))).
  { unfold bn_parent. destruct (isNecessary px); [reflexivity|].
    rewrite (BN_leaf f s2 p (link_rec px n)).
    - unfold s2. rewrite put_put. reflexivity.
    - unfold s2. apply lookup_put_same. unfold s1. rewrite put_length. exact Hltp.
    - exact Hpp. }
  rewrite Hs3. cbn [rbind].
  set (px' := bn_parent px n) in *. set (s3 := put s1 p px').
  assert (Hl1 : (p < length (nodes s1))%nat) by (unfold s1; rewrite put_length; exact Hltp).
  assert (Hg3p : get s3 p = Ok px') by (apply get_put_same, Hl1).
  assert (Hg3n : get s3 n = Ok (r_in x)).
  { unfold s3. rewrite get_put_other by congruence. unfold s1. apply get_put_same, Hlt. }
  rewrite Hg3p. cbn [rbind]. rewrite Hg3n. cbn [rbind].
  change (height (meta_ (r_in x))) with 0.
  destruct (Z.leb_spec 0 (height (meta_ px'))) as [_|]; [|lia]. cbn [rbind].
  set (x2 := with_meta (r_in x) (set_height (meta_ (r_in x)) (height (meta_ px') + 1))).
  assert (Hl3 : (n < length (nodes s3))%nat) by (unfold s3, s1; rewrite !put_length; exact Hlt).
  rewrite (get_put_same s3 n x2 Hl3). cbn [rbind].
  unfold isStale. change (isVar x2) with (isVar x). unfold isVar at 1. rewrite Hk.
  change (recomputedAt (meta_ x2)) with (recomputedAt (meta_ x)). rewrite Hrec. cbn [Z.eqb orb].
  unfold addIfNotPresent. rewrite (get_put_same s3 n x2 Hl3). cbn [rbind].
  change (hrh (meta_ x2)) with (hrh (meta_ x)). rewrite Hhrh. cbn [Z.eqb unset Pos.eqb].
  rewrite (heapAdd_Ok _ n x2); [rewrite put_put; reflexivity|apply lookup_put_same, Hl3|simpl; lia].
Qed.

Lemma put_comm s n a p b : n <> p -> put (put s n a) p b = put (put s p b) n a.
Proof. intros H. unfold put. simpl. f_equal. apply list_insert_commute. congruence. Qed.

Lemma snapshot_parent cfg now0 s n x p at_ before :
  cfg_ok now0 cfg -> Inv cfg s -> nodes s !! n = Some x -> kind_ x = KSnapshot p at_ before ->
  exists px v0, nodes s !! p = Some px /\ kind_ px = KVar v0 /\ p <> n.
Proof.
  intros Hc [Hlen Hall] Hx Hk. destruct (Hall _ _ Hx) as [Hcx _]. rewrite Hk in Hcx.
  destruct (Hc _ _ Hcx) as [v0 Hp].
  destruct (lookup_lt_is_Some_2 (nodes s) p) as [px Hpx].
  { rewrite Hlen. eapply lookup_lt_Some; eauto. }
  destruct (Hall _ _ Hpx) as [Hcp _]. exists px, v0. split; [exact Hpx|]. split; [congruence|].
  intros ->. congruence.
Qed.

Lemma var_no_parents px v0 : kind_ px = KVar v0 -> nodeParents px = [] /\ isVar px = true.
Proof. unfold nodeParents, isVar. intros ->. auto. Qed.

Lemma isNecessary_observed x k :
  isNecessary (with_meta x (set_observers (meta_ x) (S k))) = true.
Proof. reflexivity. Qed.

Lemma Observe_Inv cfg now0 s n s' :
  cfg_ok now0 cfg -> Inv cfg s -> Observe s n = Ok s' ->
  Inv cfg s' /\ now s' = now s /\ num s' = num s.
Proof.
  intros Hc HI. unfold Observe. destruct (get s n) as [x| |] eqn:Hx; cbn [rbind]; try discriminate.
  apply get_Ok in Hx. pose proof (lookup_lt _ _ _ Hx) as Hlt.
  destruct HI as [Hlen Hall]. destruct (Hall _ _ Hx) as [Hcx Hix].
  set (x1 := with_meta x (set_observers (meta_ x) (S (observers (meta_ x))))).
  assert (Hi1 : inGraph (meta_ x) = true -> nodeInv (length cfg) (now s) x1).
  { intros Hg. destruct Hix as [Hz Hh He Hf Hn Hl Hk]. constructor; auto; try (rewrite Hg; reflexivity). }
  fold x1. destruct (isNecessary x) eqn:Hnec.
  - intros [= <-]. split; [|auto]. apply (Inv_put cfg s n x x1); [split; auto|exact Hx|reflexivity|].
    apply Hi1. rewrite <- (ni_nec _ _ _ _ Hix). exact Hnec.
  - assert (Hg : inGraph (meta_ x) = false) by (rewrite <- (ni_nec _ _ _ _ Hix); exact Hnec).
    destruct (ni_zero _ _ _ _ Hix Hg) as (Hrec & Hhrh & Hhe).
    set (s1 := put s n x1).
    assert (Hx1 : nodes s1 !! n = Some x1) by (apply lookup_put_same, Hlt).
    unfold fuel_of. unfold s1 at 1. rewrite put_length.
    destruct (kind_ x) as [v0|when|start every|initial steps|p at_ before] eqn:Hk.
    5: {
      destruct (snapshot_parent cfg now0 s n x p at_ before Hc (conj Hlen Hall) Hx Hk) as (px & v0 & Hpx & Hkp & Hpn).
      destruct (var_no_parents _ _ Hkp) as [Hpp Hvp].
      destruct (Hall _ _ Hpx) as [Hcp Hip].
      assert (Hl : exists len', length (nodes s) = S len') by (destruct (length (nodes s)); [lia|eauto]).
      destruct Hl as [len' Hl]. rewrite Hl.
      assert (Hh' : 0 <= height (meta_ (bn_parent px n))).
      { unfold bn_parent. destruct (isNecessary px) eqn:Hnp.
        - simpl. apply (ni_height _ _ _ _ Hip). rewrite <- (ni_nec _ _ _ _ Hip). exact Hnp.
        - unfold bn_leaf. destruct (_ && _ && _); simpl; lia. }
      rewrite (BN_snap len' s1 n x1 p at_ before px); auto.
      2: { unfold s1. rewrite lookup_put_other by exact Hpn. exact Hpx. }
      intros [= <-]. split; [|auto].
      unfold s1. rewrite put_put. rewrite (put_comm s n _ p _) by congruence. rewrite put_put.
      eapply (Inv_put cfg _ n x).
      - eapply (Inv_put cfg s p px); [split; auto|exact Hpx| |].
        + unfold bn_parent, bn_leaf. destruct (isNecessary px); [reflexivity|]. destruct (_ && _ && _); reflexivity.
        + destruct Hip as [Hz Hh He Hf Hn Hl' Hkk].
          assert (Hkids : Forall (fun c => (c < length cfg)%nat) (children (meta_ px) ++ [n])).
          { apply Forall_app. split; [exact Hkk|]. constructor; [lia|constructor]. }
          assert (Hnn : isNecessary (link_rec px n) = true).
          { unfold isNecessary, link_rec. simpl. destruct (children (meta_ px)); simpl; apply orb_true_r. }
          unfold bn_parent. destruct (isNecessary px) eqn:Hnp.
          * constructor; simpl; auto; try congruence.
            change (isVar (link_rec px n)) with (isVar px). rewrite Hvp. discriminate.
          * unfold bn_leaf. change (isVar (link_rec px n)) with (isVar px). rewrite Hvp. cbn [negb andb].
            constructor; simpl; auto; try discriminate; try lia.
            -- intros _ _. unfold fresh. simpl. rewrite Hkp. exact I.
            -- change (isVar (r_in (link_rec px n))) with (isVar px). rewrite Hvp. discriminate.
      - rewrite lookup_put_other by congruence. exact Hx.
      - reflexivity.
      - destruct Hix as [Hz Hh He Hf Hn Hl' Hkk]. unfold bn_snap.
        constructor; simpl; auto; try discriminate; try lia.
        intros _ Hu. unfold unset in Hu. lia. }
    all: (* kinds without inputs *)
      assert (Hp : nodeParents x1 = []) by (unfold nodeParents; simpl; rewrite Hk; reflexivity);
      rewrite (BN_leaf _ s1 n x1 Hx1 Hp); intros [= <-]; (split; [|auto]);
      unfold s1; rewrite put_put;
      apply (Inv_put cfg s n x); [split; auto|exact Hx|unfold bn_leaf; destruct (_ && _ && _); reflexivity|];
      destruct Hix as [Hz Hh He Hf Hn Hl' Hkk]; unfold bn_leaf, isVar; simpl; rewrite Hk, Hrec, Hhrh; simpl;
      constructor; simpl; auto; try discriminate; try lia;
      try (intros _ _; unfold fresh; simpl; rewrite Hk; exact I);
      try (intros _ Hu; unfold unset in Hu; lia).
Qed.
